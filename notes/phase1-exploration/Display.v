(* Scratch calibration (phase 1): C08 — structured model of `impl Display for rational::Display` (three paths),
   in the pinned and in the repaired form, and the faithfulness theorem for the repaired one.
   The printed text is abstracted to (mantissa as an integer, power of ten up, power of ten down, mark):
   value read back = mant * 10^up / 10^down.  Sign handling is orthogonal (|n| is formatted, '-' prepended). *)
From Coq Require Import ZArith List Lia Bool.
Import ListNotations.
Open Scope Z_scope.

Fixpoint val (acc : Z) (ds : list Z) : Z := match ds with [] => acc | d :: r => val (acc * 10 + d) r end.

(* `emit`: long division, at most k digits, stops when the remainder is exhausted *)
Fixpoint emit (k : nat) (rem den : Z) : list Z * Z :=
  match k with
  | O => ([], rem)
  | S k' => if rem =? 0 then ([], rem)
            else let dg := (rem * 10) / den in
                 let (ds, r') := emit k' (rem * 10 - den * dg) den in (dg :: ds, r')
  end.

(* `digits`: decimal length minus one, by repeated division (fuel = bit size is enough) *)
Fixpoint ndig (fuel : nat) (z : Z) : nat :=
  match fuel with O => O | S f => if z / 10 =? 0 then O else S (ndig f (z / 10)) end.
Definition digits (z : Z) : nat := ndig (S (Z.to_nat (Z.log2 z))) z.

(* skip leading zero digits of a proper fraction rem/den (0 < rem < den): returns count and the remainder before the first non-zero digit *)
Fixpoint skip0 (fuel : nat) (rem den : Z) : nat * Z :=
  match fuel with
  | O => (O, rem)
  | S f => if (rem * 10) / den =? 0 then let (z, r) := skip0 f (rem * 10) den in (S z, r) else (O, rem)
  end.

Record text := { mant : Z; up : nat; down : nat; mark : bool }.

Definition fmt (repaired : bool) (a d : Z) (limit el : nat) : text :=
  let dv := a / d in
  let rem := a - d * dv in
  let e := digits dv in
  if (el <=? e)%nat then
    (* format_big *)
    let used := Nat.min limit e in
    if (used <? e)%nat then
      let cut := (e - used)%nat in
      {| mant := dv / 10 ^ Z.of_nat cut; up := cut; down := O;
         mark := if repaired then negb (dv mod 10 ^ Z.of_nat cut =? 0) || negb (rem =? 0) else true |}
    else
      let remaining := (limit - used)%nat in
      let (ds, r') := emit remaining rem d in
      {| mant := val dv ds; up := O; down := length ds;
         mark := if repaired then negb (r' =? 0) else (if (0 <? remaining)%nat then negb (r' =? 0) else false) |}
  else if negb (dv =? 0) || (rem =? 0) then
    (* format_whole *)
    let (ds, r') := emit limit rem d in
    {| mant := val dv ds; up := O; down := length ds; mark := negb (r' =? 0) |}
  else
    (* small fraction: leading zeros do not count against the budget *)
    let (z, r0) := skip0 (S (Z.to_nat (Z.log2 d))) rem d in
    let (ds, r') := emit limit r0 d in
    (* pinned: the iterator has already pulled one more digit when the budget test stops the loop *)
    let r'' := if repaired then r' else (if (length ds =? limit)%nat then snd (emit 1 r' d) else r') in
    {| mant := val 0 ds; up := O; down := (z + length ds)%nat; mark := negb (r'' =? 0) |}.

(* ---- specification: truncation toward zero at the last printed digit, mark iff something was cut ---- *)
Definition faithful (a d : Z) (t : text) : Prop :=
  let lo := mant t * 10 ^ Z.of_nat (up t) * d in
  let x := a * 10 ^ Z.of_nat (down t) in
  lo <= x < lo + 10 ^ Z.of_nat (up t) * d /\ (mark t = true <-> lo <> x).

(* ---- proofs ---- *)
Lemma pow10_pos n : 0 < 10 ^ Z.of_nat n. Proof. apply Z.pow_pos_nonneg; lia. Qed.
Lemma pow10_S n : 10 ^ Z.of_nat (S n) = 10 * 10 ^ Z.of_nat n.
Proof. rewrite Nat2Z.inj_succ, Z.pow_succ_r by lia. reflexivity. Qed.

Lemma val_shift ds : forall acc, val acc ds = acc * 10 ^ Z.of_nat (length ds) + val 0 ds.
Proof.
  induction ds as [|x r IH]; intros acc; cbn [val length]; [cbn; lia|].
  rewrite IH. rewrite (IH (0 * 10 + x)). rewrite pow10_S. lia.
Qed.

Lemma emit_spec k : forall rem den ds r', 0 < den -> 0 <= rem < den -> emit k rem den = (ds, r') ->
  0 <= r' < den /\ rem * 10 ^ Z.of_nat (length ds) = den * val 0 ds + r' /\ (length ds <= k)%nat /\ ((length ds < k)%nat -> r' = 0).
Proof.
  induction k as [|k IH]; intros rem den ds r' Hd Hr He; cbn [emit] in He.
  - inversion He; subst. cbn. repeat split; lia.
  - destruct (rem =? 0) eqn:E.
    + inversion He; subst. apply Z.eqb_eq in E. cbn. repeat split; lia.
    + destruct (emit k (rem * 10 - den * (rem * 10 / den)) den) as [ds1 r1] eqn:E1. inversion He; subst. clear He.
      assert (Hdiv : 0 <= rem * 10 - den * (rem * 10 / den) < den).
      { pose proof (Z.mod_pos_bound (rem * 10) den Hd). rewrite Z.mod_eq in H by lia. lia. }
      destruct (IH _ _ _ _ Hd Hdiv E1) as (H1 & H2 & H3 & H4).
      cbn [length val]. rewrite pow10_S. rewrite (val_shift ds1 (0 * 10 + rem * 10 / den)).
      repeat split; try lia; nia.
Qed.

Lemma whole_like a d dv rem k ds r' : 0 < d -> 0 <= a -> dv = a / d -> rem = a - d * dv -> emit k rem d = (ds, r') ->
  faithful a d {| mant := val dv ds; up := O; down := length ds; mark := negb (r' =? 0) |}.
Proof.
  intros Hd Ha -> -> He.
  assert (Hr : 0 <= a - d * (a / d) < d) by (pose proof (Z.mod_pos_bound a d Hd); rewrite Z.mod_eq in H by lia; lia).
  destruct (emit_spec _ _ _ _ _ Hd Hr He) as (H1 & H2 & _ & _).
  unfold faithful. cbn [mant up down mark]. rewrite val_shift. change (10 ^ Z.of_nat 0) with 1.
  pose proof (pow10_pos (length ds)). split; [nia|].
  rewrite negb_true_iff, Z.eqb_neq. split; intros H0; nia.
Qed.

Lemma skip0_spec f : forall rem den z r0, 0 < den -> 0 < rem < den -> skip0 f rem den = (z, r0) ->
  r0 = rem * 10 ^ Z.of_nat z /\ 0 < r0 < den.
Proof.
  induction f as [|f IH]; intros rem den z r0 Hd Hr Hs; cbn [skip0] in Hs.
  - inversion Hs; subst. cbn. lia.
  - destruct (rem * 10 / den =? 0) eqn:E.
    + destruct (skip0 f (rem * 10) den) as [z1 r1] eqn:E1. inversion Hs; subst. apply Z.eqb_eq in E.
      assert (rem * 10 < den) by (apply Z.div_small_iff in E; lia).
      destruct (IH (rem * 10) den z1 r0 Hd ltac:(lia) E1) as [H1 H2]. rewrite pow10_S. split; [rewrite H1; ring|lia].
    + inversion Hs; subst. cbn. lia.
Qed.

Theorem display_faithful : forall a d limit el, 0 < d -> 0 <= a -> faithful a d (fmt true a d limit el).
Proof.
  intros a d limit el Hd Ha. unfold fmt.
  assert (Hr : 0 <= a - d * (a / d) < d) by (pose proof (Z.mod_pos_bound a d Hd); rewrite Z.mod_eq in H by lia; lia).
  assert (Hdv : 0 <= a / d) by (apply Z.div_pos; lia).
  destruct (el <=? digits (a / d))%nat.
  - destruct (Nat.min limit (digits (a / d)) <? digits (a / d))%nat.
    + (* integer digits are cut *)
      set (c := (digits (a / d) - Nat.min limit (digits (a / d)))%nat). pose proof (pow10_pos c) as Hp.
      unfold faithful. cbn [mant up down mark]. change (10 ^ Z.of_nat 0) with 1.
      pose proof (Z.div_mod (a / d) (10 ^ Z.of_nat c) ltac:(lia)) as Hdm. pose proof (Z.mod_pos_bound (a / d) (10 ^ Z.of_nat c) Hp) as Hmb.
      split; [nia|]. rewrite orb_true_iff, !negb_true_iff, !Z.eqb_neq. split.
      * intros [H0|H0]; nia.
      * intros H0. destruct (Z.eq_dec ((a / d) mod 10 ^ Z.of_nat c) 0); [right|left; assumption]. nia.
    + destruct (emit _ _ d) as [ds r'] eqn:He. eapply whole_like; eauto.
  - destruct (negb (a / d =? 0) || (a - d * (a / d) =? 0)) eqn:Ew.
    + destruct (emit limit _ d) as [ds r'] eqn:He. eapply whole_like; eauto.
    + apply orb_false_iff in Ew as [E1 E2]. apply negb_false_iff, Z.eqb_eq in E1. apply Z.eqb_neq in E2.
      assert (Hlt : a < d) by (apply Z.div_small_iff in E1; lia).
      rewrite E1 in *. replace (a - d * 0) with a in * by lia.
      destruct (skip0 _ a d) as [z r0] eqn:Es. destruct (skip0_spec _ a d z r0 Hd ltac:(lia) Es) as [Hr0 Hb].
      destruct (emit limit r0 d) as [ds r'] eqn:He. destruct (emit_spec limit r0 d ds r' Hd ltac:(lia) He) as (H1 & H2 & _ & _).
      unfold faithful. cbn [mant up down mark]. change (10 ^ Z.of_nat 0) with 1.
      rewrite Nat2Z.inj_add, Z.pow_add_r by lia. rewrite Z.mul_assoc, <- Hr0, H2.
      split; [lia|]. rewrite negb_true_iff, Z.eqb_neq. split; intros H0; lia.
Qed.

(* the pinned formatter is not faithful: three independent slips *)
Definition mark_ok (a d : Z) (t : text) : bool :=
  Bool.eqb (mark t) (negb (mant t * 10 ^ Z.of_nat (up t) * d =? a * 10 ^ Z.of_nat (down t))).
Example pinned_spurious_mark : mark_ok 1000000000 1 (fmt false 1000000000 1 6 8) = false.   (* 1.000000…e9 *)
Proof. vm_compute. reflexivity. Qed.
Example pinned_silent_big : mark_ok 12345675 10 (fmt false 12345675 10 6 6) = false.         (* 1234567.5 -> 1.234567e6 *)
Proof. vm_compute. reflexivity. Qed.
Example pinned_silent_small : mark_ok 1234567 10000000 (fmt false 1234567 10000000 6 8) = false.  (* 0.1234567 -> 0.123456 *)
Proof. vm_compute. reflexivity. Qed.
Example repaired_ok_there : mark_ok 1000000000 1 (fmt true 1000000000 1 6 8) && mark_ok 12345675 10 (fmt true 12345675 10 6 6) && mark_ok 1234567 10000000 (fmt true 1234567 10000000 6 8) = true.
Proof. vm_compute. reflexivity. Qed.
Print Assumptions display_faithful.
