(* Scratch calibration (phase 1): frames formulation of the repaired `operation()` stack and the
   level-splitting specification; bounded agreement by computation. Not part of the machinery. *)
From Coq Require Import List Arith Lia Bool.
Import ListNotations.

Definition op := nat.            (* an operator is identified with its priority here *)
Definition prio (o : op) : nat := o.

Inductive tree := Leaf (n : nat) | Node (hd : tree) (tl : list (op * tree)).
Definition seg := (tree * list (op * tree))%type.

Record frame := { fp : nat; fhd : tree; ftl : list (op * tree); fd : op }.
Definition close (f : frame) (x : tree) : tree := Node (fhd f) (ftl f ++ [(fd f, x)]).
Definition fresh q x o := {| fp := q; fhd := x; ftl := []; fd := o |}.

(* repaired algorithm: on Less, close; pop when the frame below has priority >= q, else re-use the checkpoint *)
Fixpoint reduce (q : nat) (o : op) (S : list frame) (x : tree) : list frame :=
  match S with
  | [] => [fresh q x o]
  | f :: rest =>
     if q <? fp f then
        let t := close f x in
        match rest with
        | g :: _ => if q <=? fp g then reduce q o rest t else fresh q t o :: rest
        | [] => [fresh q t o]
        end
     else if fp f <? q then fresh q x o :: S
     else {| fp := fp f; fhd := fhd f; ftl := ftl f ++ [(fd f, x)]; fd := o |} :: rest
  end.

(* the algorithm as found in the pinned tree: on Less, close and always re-use (never pop) *)
Fixpoint reduce_orig (fuel : nat) (q : nat) (o : op) (S : list frame) (x : tree) : list frame :=
  match S with
  | [] => [fresh q x o]
  | f :: rest =>
     if q <? fp f then fresh q (close f x) o :: rest      (* then compares Equal with itself and stops *)
     else if fp f <? q then fresh q x o :: S
     else {| fp := fp f; fhd := fhd f; ftl := ftl f ++ [(fd f, x)]; fd := o |} :: rest
  end.

Fixpoint run (red : nat -> op -> list frame -> tree -> list frame) (S : list frame) (x : tree) (rest : list (op * tree)) : tree :=
  match rest with
  | [] => fold_left (fun x f => close f x) S x
  | (o, y) :: rest' => run red (red (prio o) o S x) y rest'
  end.
Definition climb (s : seg) := run reduce [] (fst s) (snd s).
Definition climb_orig (s : seg) := run (reduce_orig 0) [] (fst s) (snd s).

(* specification: split at the operators of the lowest level, recursively by levels *)
Fixpoint split (l : nat) (rest : list (op * tree)) : list (op * tree) * list (op * seg) :=
  match rest with
  | [] => ([], [])
  | (o, y) :: rest' =>
      let (cont, segs) := split l rest' in
      if prio o =? l then ([], (o, (y, cont)) :: segs) else ((o, y) :: cont, segs)
  end.
Fixpoint canon (ls : list nat) (s : seg) : tree :=
  match ls with
  | [] => fst s
  | l :: ls' =>
     let (cont, segs) := split l (snd s) in
     match segs with
     | [] => canon ls' (fst s, cont)
     | _ => Node (canon ls' (fst s, cont)) (map (fun os => (fst os, canon ls' (snd os))) segs)
     end
  end.

(* semantic reading: both trees are evaluated by nested left folds *)
Fixpoint tree_eqb (a b : tree) {struct a} : bool :=
  match a, b with
  | Leaf n, Leaf m => n =? m
  | Node h t, Node h' t' =>
      tree_eqb h h' &&
      (fix go (t t' : list (op * tree)) : bool :=
         match t, t' with
         | [], [] => true
         | (o, x) :: r, (o', x') :: r' => (o =? o') && tree_eqb x x' && go r r'
         | _, _ => false
         end) t t'
  | _, _ => false
  end.

Definition levels := [1; 2; 3; 10].
Fixpoint seqs (n : nat) : list (list op) :=
  match n with O => [[]] | S k => flat_map (fun s => map (fun l => l :: s) levels) (seqs k) end.
Fixpoint mk (i : nat) (ops : list op) : list (op * tree) :=
  match ops with [] => [] | o :: r => (o, Leaf (S i)) :: mk (S i) r end.
Definition input (ops : list op) : seg := (Leaf 0, mk 0 ops).
Definition all_upto (n : nat) := flat_map seqs (seq 0 (S n)).

Definition agree (f : seg -> tree) (ops : list op) := tree_eqb (f (input ops)) (canon levels (input ops)).

Time Eval vm_compute in (length (all_upto 7), length (filter (fun o => negb (agree climb o)) (all_upto 7))).
Time Eval vm_compute in (length (filter (fun o => negb (agree climb_orig o)) (all_upto 5)), hd [] (filter (fun o => negb (agree climb_orig o)) (all_upto 5))).

Theorem climb_canon_bounded_partial :
  forall ops, In ops (all_upto 7) -> agree climb ops = true.
Proof.
  intros ops H. apply (proj1 (forallb_forall (agree climb) (all_upto 7))); [vm_compute; reflexivity | exact H].
Qed.
Example climb_orig_refuted : exists ops, agree climb_orig ops = false.
Proof. exists [2; 3; 2]. vm_compute. reflexivity. Qed.   (* 1 - 2 * 3 - 4 *)
Print Assumptions climb_canon_bounded_partial.
