import random, subprocess, re, sys, json
from fractions import Fraction as F
from tables import *
consts,arms=parse_ids(); units=parse_units(); comb,un=parse_lexers()
s=read('generated/unit.rs')
# variant -> unit from parse() arms of Combined
var2unit={}
for m in re.finditer(r'Combined::(\w+) => Unit::(\w+),',s): var2unit[m.group(1)]=('base',m.group(2))
for m in re.finditer(r'Combined::(\w+) => Unit::Derived\(units::([\w:]+)\),',s): var2unit[m.group(1)]=('der',m.group(2))
var2unit['Gram']=('base','KiloGram')
for m in re.finditer(r'Units::(\w+) => \{\s*break Unit::Derived\(units::([\w:]+)\);',s): var2unit.setdefault(m.group(1),('der',m.group(2)))
for m in re.finditer(r'Units::(\w+) => \{\s*break Unit::(\w+);',s): var2unit.setdefault(m.group(1),('base',m.group(2)))
pref={m.group(1):int(m.group(2)) for m in re.finditer(r'pub const (\w+): i32 = (-?\d+);',read('prefix.rs'))}
prefvar={m.group(1):pref[m.group(2)] for m in re.finditer(r'Combined::(\w+) => \{(?:[^}]|\}\n\n)*?prefix \+= Prefix::(\w+);',s)}
def dims(u):
    if u[0]=='base': return {u[1]:1}
    d={}
    for b,k in units[u[1]]['powers']: d[b]=d.get(b,0)+k
    return d
def fac(u):
    if u[0]=='base': return F(1)
    c=units[u[1]]['conv']
    if c is None: return F(1)
    if c[0]=='Factor': return F(c[1],c[2])
    return None # offset/methods
names=[(t,v) for t,v in un if v!='Separator']
ascii_names=[(t,v) for t,v in names if re.match(r"^[a-zA-Z0-9°']+$",t)]
prop=[(t,v) for t,v in ascii_names if fac(var2unit[v]) is not None]
pfx=[(t,v) for t,v in comb if v in prefvar and re.match(r'^[a-zA-Z]+$',t)]
rnd=random.Random(int(sys.argv[1]) if len(sys.argv)>1 else 1)
def rq(): 
    return F(rnd.randint(-50,50) or 7, rnd.choice([1,1,1,2,3,7,10,100]))
def qs(q): return ('%d'%q.numerator) if q.denominator==1 else None
def lit(q):
    # decimal literal exactly representing q (choose terminating)
    return str(q.numerator) if q.denominator==1 else None
def num():
    a=rnd.randint(1,999); e=rnd.choice([0,0,1,2,-1,-2])
    q=F(a)*F(10)**e
    return q, ('%de%d'%(a,e) if e else str(a))
