import sys; sys.path.insert(0,'/tmp/scratch/proto')
from explore import *
combd=dict(comb); und=dict(un)
suffix_unit={}  # prefix variant -> unit when remainder empty
for m in re.finditer(r'Combined::(\w+) => \{\s*if lexer\.remainder\(\)\.is_empty\(\) \{\s*return Some\(\(\"\", prefix, (Unit::[^)]*\)?)\)\);',s):
    u=m.group(2)
    mm=re.match(r'Unit::Derived\(units::([\w:]+)\)',u)
    suffix_unit[m.group(1)]=('der',mm.group(1)) if mm else ('base',u.split('::')[1])
def munch(table,st):
    best=None
    for t,v in table:
        if st.startswith(t) and (best is None or len(t)>len(best[0])): best=(t,v)
    return best
def parse1(st):
    prefix=0; rest=st
    while True:
        if not rest: return None
        m=munch(comb,rest)
        if m is None: return None
        t,v=m; rest=rest[len(t):]
        if v=='Separator': continue
        if v in prefvar:
            if v in suffix_unit and rest=='': 
                u=suffix_unit[v]; return ('',prefix+(-3 if u==('base','KiloGram') else 0),u)
            prefix+=prefvar[v]; break
        u=var2unit[v]
        if v=='Gram': prefix+=-3
        return (rest,prefix,u)
    while True:
        if not rest: return None
        m=munch(un,rest)
        if m is None: return None
        t,v=m; rest=rest[len(t):]
        if v=='Separator': continue
        if v=='Gram': prefix+=-3
        return (rest,prefix,var2unit[v])
def parse_word(w):
    out=[]
    while w:
        r=parse1(w)
        if r is None: return None
        w,p,u=r; out.append((p,u))
    return out
def baseexpr(d):
    sym={'KiloGram':'kg','Candela':'cd','Meter':'m','Second':'s','Ampere':'A','Kelvin':'K','Mole':'mol','Byte':'B'}
    return '*'.join('%s^%d'%(sym[b],k) for b,k in d.items() if k!=0)
if __name__=='__main__':
    words=[]
    for pt,pv in [('',None)]+pfx:
        for nt,nv in ascii_names:
            words.append((pt,pv,nt,nv))
    lines=[]; meta=[]
    for pt,pv,nt,nv in words:
        w=pt+nt
        model=parse_word(w)
        u=var2unit[nv]; d=dims(u)
        lines.append('1 %s to %s'%(w,baseexpr(d))); meta.append((w,pt,pv,nt,nv,model))
    open('/tmp/scratch/proto/c05_in.txt','w').write('\n'.join(lines)+'\n')
    out=subprocess.run([__import__('os').environ.get('PROBE','/tmp/scratch/target/debug/probe')],input='\n'.join(lines)+'\n',capture_output=True,text=True).stdout.strip().split('\n')
    assert len(out)==len(lines),(len(out),len(lines))
    stats={'ok':0,'reject_expected':0,'other_reading_ok':0,'BAD':0}
    bad=[]
    for (w,pt,pv,nt,nv,model),o in zip(meta,out):
        res=o.split(' => ',1)[1]
        u=var2unit[nv]; f=fac(u); e=(prefvar[pv] if pv else 0)
        m=re.match(r'^(-?\d+)/(\d+) \[',res)
        if f is None: continue
        expect=F(10)**e*f
        if u==('base','KiloGram'): expect=F(10)**(e-3)
        if m:
            got=F(int(m.group(1)),int(m.group(2)))
            if got==expect: stats['ok']+=1
            else:
                # another valid reading? model tells what tool should have read
                stats['BAD']+=1; bad.append((w,'got',str(got),'expected',str(expect),'model',model))
        else:
            # tool rejected the intended reading; fine if model predicted a different reading
            if model is None or model!=[(e+(-3 if u==('base','KiloGram') else 0),u)]: stats['reject_expected']+=1
            else: stats['BAD']+=1; bad.append((w,res,'model',model))
    print(stats)
    for b in bad[:40]: print(b)
