(* Scratch calibration (phase 1): crash-recovery model of Db::open_inner / open_index (C15). *)
From Coq Require Import List Bool Arith Lia.
Import ListNotations.

Inductive ver := VThis | VOther.
Inductive hsh := HCur | HOther.
Inductive meta := MAbsent | MGarbage | MJson (v : option ver) (h : option hsh).
Inductive content := Empty | Shipped | Other.
Inductive index := IMissing | IBroken | IOpen (c : content).
Record disk := { dmeta : meta; dindex : index }.

(* persistent effects, in the order the code performs them *)
Inductive effect := RemoveDir | CreateIndex | Commit | TruncMeta | WriteMeta | InvalidateMeta.
Definition apply (e : effect) (d : disk) : disk :=
  match e with
  | RemoveDir => {| dmeta := dmeta d; dindex := IMissing |}
  | CreateIndex => {| dmeta := dmeta d; dindex := IOpen Empty |}
  | Commit => {| dmeta := dmeta d; dindex := IOpen Shipped |}        (* delete_all + all documents become visible atomically *)
  | TruncMeta => {| dmeta := MGarbage; dindex := dindex d |}          (* File::create truncates before the JSON is written *)
  | WriteMeta => {| dmeta := MJson (Some VThis) (Some HCur); dindex := dindex d |}
  | InvalidateMeta => {| dmeta := MAbsent; dindex := dindex d |}
  end.

Definition read_meta (m : meta) : option ver * option hsh :=
  match m with MJson v h => (v, h) | _ => (None, None) end.

(* the plan of one start: which persistent effects it will perform, as decided from what it reads *)
Definition plan (fixed : bool) (d : disk) : list effect :=
  let (v, h) := read_meta (dmeta d) in
  let rebuild0 := match h with Some HCur => false | _ => true end in
  let force := match v with Some VThis => false | _ => true end in
  let reopen := match dindex d with IOpen _ => negb force | _ => false end in
  let idx := if reopen then [] else (match dindex d with IMissing => [] | _ => [RemoveDir] end) ++ [CreateIndex] in
  let rebuild := rebuild0 || negb reopen in
  if rebuild then (if fixed then [InvalidateMeta] else []) ++ idx ++ [Commit; TruncMeta; WriteMeta] else idx.

Definition run_upto (k : nat) (es : list effect) (d : disk) : disk := fold_left (fun d e => apply e d) (firstn k es) d.
Definition crash_run fixed (k : nat) (d : disk) : disk := run_upto k (plan fixed d) d.
Definition complete fixed (d : disk) : disk := fold_left (fun d e => apply e d) (plan fixed d) d.
Definition answers (d : disk) : content := match dindex d with IOpen c => c | _ => Empty end.

Definition meta_current (d : disk) := match dmeta d with MJson (Some VThis) (Some HCur) => true | _ => false end.
(* states the property enumerates: anything, except "meta says current while the index holds something else"
   (that one is only reachable through the tool itself, and reaching it is the violation) *)
Definition plausible (d : disk) : bool :=
  negb (meta_current d) || match dindex d with IOpen Shipped | IMissing | IBroken => true | _ => false end.
Definition good (d : disk) : bool :=
  negb (meta_current d) || match dindex d with IOpen Shipped | IMissing | IBroken => true | _ => false end.

Definition all_meta := [MAbsent; MGarbage] ++ flat_map (fun v => map (MJson v) [None; Some HCur; Some HOther]) [None; Some VThis; Some VOther].
Definition all_index := [IMissing; IBroken; IOpen Empty; IOpen Shipped; IOpen Other].
Definition all_disks := flat_map (fun m => map (fun i => {| dmeta := m; dindex := i |}) all_index) all_meta.
Lemma all_disks_complete d : In d all_disks.
Proof. destruct d as [m i]; destruct m as [| |[[]|] [[]|]]; destruct i as [| |[]]; vm_compute; tauto. Qed.

(* --- the code as it is: refuted --- *)
Example recovery_refuted : exists d k, plausible d = true /\ answers (complete false (crash_run false k d)) <> Shipped.
Proof. exists {| dmeta := MJson (Some VThis) (Some HCur); dindex := IMissing |}, 1. vm_compute. split; [reflexivity|discriminate]. Qed.

(* --- with the hash invalidated before rebuilding: holds for every history --- *)
Lemma good_step d k : good d = true -> good (crash_run true k d) = true.
Proof.
  intros H. revert k. pose proof (all_disks_complete d) as Hin. revert H.
  assert (forallb (fun d => negb (good d) || forallb (fun k => good (crash_run true k d)) (seq 0 8)) all_disks = true) as HA by (vm_compute; reflexivity).
  rewrite forallb_forall in HA. specialize (HA d Hin). intros Hg k. rewrite Hg in HA. cbn [negb orb] in HA.
  rewrite forallb_forall in HA. destruct (le_lt_dec 8 k) as [Hk|Hk].
  - (* crashing after more effects than the plan has = running to completion = crash at 7 *)
    assert (crash_run true k d = crash_run true 7 d) as ->.
    { unfold crash_run, run_upto. assert (length (plan true d) <= 7) as Hl.
      { destruct d as [m i]; destruct m as [| |[[]|] [[]|]]; destruct i as [| |[]]; vm_compute; lia. }
      rewrite !firstn_all2 by lia. reflexivity. }
    apply HA. apply in_seq. lia.
  - apply HA. apply in_seq. lia.
Qed.

Lemma good_complete d : good d = true -> answers (complete true d) = Shipped /\ good (complete true d) = true.
Proof.
  intros H. pose proof (all_disks_complete d) as Hin.
  assert (forallb (fun d => negb (good d) || (match answers (complete true d) with Shipped => true | _ => false end && good (complete true d))) all_disks = true) as HA by (vm_compute; reflexivity).
  rewrite forallb_forall in HA. specialize (HA d Hin). rewrite H in HA. cbn [negb orb] in HA.
  apply andb_prop in HA as [H1 H2]. split; [|exact H2]. destruct (answers (complete true d)); congruence.
Qed.

Theorem recovers : forall (ks : list nat) d, plausible d = true ->
  answers (complete true (fold_left (fun d k => crash_run true k d) ks d)) = Shipped.
Proof.
  induction ks as [|k ks IH]; intros d H; cbn [fold_left].
  - apply good_complete. exact H.
  - apply IH. apply good_step. exact H.
Qed.

Lemma good_fold ks : forall d, good d = true -> good (fold_left (fun d k => crash_run true k d) ks d) = true.
Proof. induction ks as [|k ks IH]; intros d H; cbn [fold_left]; [exact H|]. apply IH. now apply good_step. Qed.

Theorem meta_never_early : forall (ks : list nat) d, plausible d = true ->
  let d' := fold_left (fun d k => crash_run true k d) ks d in
  meta_current d' = true -> dindex d' = IOpen Shipped \/ dindex d' = IMissing \/ dindex d' = IBroken.
Proof.
  intros ks d H d' Hm. pose proof (good_fold ks d H) as Hg. fold d' in Hg.
  unfold good in Hg. rewrite Hm in Hg. cbn in Hg. destruct (dindex d') as [| |[]]; auto; discriminate.
Qed.
Print Assumptions recovers.
