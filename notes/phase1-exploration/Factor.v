(* Scratch calibration (phase 1): C02/C03 — Powers (zero-removing, as repaired), base_units, Compound::factor
   for proportional units, over an abstract unit table.  Theorems: factor succeeds iff the dimension vectors agree,
   and when it does the SI value is preserved. *)
From Coq Require Import ZArith QArith Qpower Qfield List Lia Bool Permutation.
Import ListNotations.
Open Scope Z_scope.

Section Units.
Variable base : Type.
Variable base_eqb : base -> base -> bool.
Hypothesis base_eqb_spec : forall a b, reflect (a = b) (base_eqb a b).
Variable unit : Type.
Variable closure : unit -> list (base * Z).     (* base powers of unit^1 *)
Variable fac : unit -> Q.                        (* conversion factor to base units; 1 when there is none *)
Hypothesis fac_pos : forall u, (0 < fac u)%Q.

(* ---- Powers: association list, accumulate, drop zero ---- *)
Definition powers := list (base * Z).
Fixpoint get (m : powers) (b : base) : Z :=
  match m with [] => 0 | (b', v) :: r => if base_eqb b' b then v else get r b end.
Fixpoint insert (m : powers) (b : base) (k : Z) : powers :=
  match m with
  | [] => if k =? 0 then [] else [(b, k)]
  | (b', v) :: r => if base_eqb b' b then (if v + k =? 0 then r else (b', v + k) :: r) else (b', v) :: insert r b k
  end.
Definition keys (m : powers) := map fst m.
Definition wf (m : powers) : Prop := NoDup (keys m) /\ Forall (fun bv => snd bv <> 0) m.

Lemma get_notin m b : ~ In b (keys m) -> get m b = 0.
Proof. induction m as [|[b' v] r IH]; cbn; [reflexivity|]. intros H. destruct (base_eqb_spec b' b); [subst; tauto|apply IH; tauto]. Qed.

Lemma insert_keys m b k x : In x (keys (insert m b k)) -> x = b \/ In x (keys m).
Proof.
  induction m as [|[b' v] r IH]; cbn.
  - destruct (k =? 0); cbn; intuition (subst; auto).
  - destruct (base_eqb_spec b' b).
    + destruct (v + k =? 0); cbn; intuition (subst; auto).
    + cbn. intros [H|H]; [subst; auto|]. destruct (IH H); auto.
Qed.

Lemma insert_wf m b k : wf m -> wf (insert m b k).
Proof.
  intros [Hn Hz]. induction m as [|[b' v] r IH]; cbn.
  - destruct (k =? 0) eqn:E; split; try constructor; cbn; auto; try constructor. apply Z.eqb_neq in E. exact E.
  - inversion Hn as [|? ? Hni Hn']; subst. inversion Hz as [|? ? Hv Hz']; subst. destruct (IH Hn' Hz') as [IH1 IH2].
    destruct (base_eqb_spec b' b).
    + destruct (v + k =? 0) eqn:E; [split; assumption|]. apply Z.eqb_neq in E. split; [cbn; constructor; assumption|constructor; assumption].
    + split; [cbn; constructor; [|assumption]|constructor; assumption].
      intros Hin. destruct (insert_keys _ _ _ _ Hin); [congruence|tauto].
Qed.

Lemma get_insert m b k b' : wf m -> get (insert m b k) b' = get m b' + (if base_eqb b b' then k else 0).
Proof.
  intros [Hn _]. induction m as [|[c v] r IH]; cbn.
  - destruct (k =? 0) eqn:E; cbn; destruct (base_eqb_spec b b'); lia.
  - inversion Hn as [|? ? Hni Hn']; subst. specialize (IH Hn'). destruct (base_eqb_spec c b).
    + subst c. destruct (v + k =? 0) eqn:E; cbn; destruct (base_eqb_spec b b'); subst; try lia.
      all: try (rewrite (get_notin r b' Hni); lia).
    + cbn. destruct (base_eqb_spec c b'); [|exact IH]. subst c. destruct (base_eqb_spec b b'); [congruence|lia].
Qed.

Lemma get_in m b : wf m -> (In b (keys m) <-> get m b <> 0).
Proof.
  intros [Hn Hz]. induction m as [|[c v] r IH]; cbn; [split; [tauto|congruence]|].
  inversion Hn; subst. inversion Hz; subst. cbn in *. destruct (base_eqb_spec c b).
  - subst. split; auto.
  - rewrite <- IH by assumption. split; [intros [?|?]; [congruence|assumption]|auto].
Qed.

(* the comparison performed by factor(): equal length, every rhs entry found with the same value in lhs *)
Definition find (m : powers) (b : base) : option Z := if existsb (base_eqb b) (keys m) then Some (get m b) else None.
Definition same_bases (l r : powers) : bool :=
  Nat.eqb (length l) (length r) && forallb (fun bv => match find l (fst bv) with Some v => v =? snd bv | None => false end) r.

Lemma existsb_keys m b : existsb (base_eqb b) (keys m) = true <-> In b (keys m).
Proof.
  rewrite existsb_exists. split.
  - intros [x [H1 H2]]. destruct (base_eqb_spec b x); [subst; assumption|discriminate].
  - intros H. exists b. split; [assumption|]. destruct (base_eqb_spec b b); congruence.
Qed.

Lemma get_self m b v : NoDup (keys m) -> In (b, v) m -> get m b = v.
Proof.
  induction m as [|[c w] r IH]; cbn; [tauto|]. intros Hn [H|H]; inversion Hn; subst.
  - inversion H; subst. destruct (base_eqb_spec b b); congruence.
  - destruct (base_eqb_spec c b); [subst; exfalso; apply H2; apply (in_map fst _ _ H)|auto].
Qed.

Theorem same_bases_iff l r : wf l -> wf r -> (same_bases l r = true <-> forall b, get l b = get r b).
Proof.
  intros Hl Hr. unfold same_bases. rewrite andb_true_iff, Nat.eqb_eq, forallb_forall. split.
  - intros [Hlen Hall].
    assert (Hincl : incl (keys r) (keys l)).
    { intros b Hb. apply in_map_iff in Hb as [[b' v] [E Hin]]. cbn in E; subst b'. specialize (Hall _ Hin). cbn in Hall.
      unfold find in Hall. destruct (existsb _ _) eqn:Ex; [apply existsb_keys in Ex; exact Ex|discriminate]. }
    assert (Hincl' : incl (keys l) (keys r)).
    { apply NoDup_length_incl; [apply Hr| unfold keys; rewrite !map_length; lia | exact Hincl]. }
    intros b. destruct (in_dec (fun x y => reflect_dec _ _ (base_eqb_spec x y)) b (keys r)) as [Hin|Hni].
    + apply in_map_iff in Hin as [[b' v] [E Hin]]. cbn in E; subst b'. specialize (Hall _ Hin). cbn in Hall. unfold find in Hall.
      destruct (existsb _ _); [|discriminate]. apply Z.eqb_eq in Hall. rewrite Hall. symmetry. apply get_self; [apply Hr|assumption].
    + rewrite (get_notin r b Hni). apply get_notin. intros H. apply Hni. apply Hincl'. exact H.
  - intros Heq.
    assert (Hk : forall b, In b (keys l) <-> In b (keys r)) by (intros b; rewrite (get_in l b Hl), (get_in r b Hr), Heq; tauto).
    split.
    + assert (length (keys l) = length (keys r)) as H.
      { apply Nat.le_antisymm; apply NoDup_incl_length; try apply Hl; try apply Hr; intros b; apply Hk. }
      unfold keys in H. now rewrite !map_length in H.
    + intros [b v] Hin. cbn. unfold find. assert (In b (keys r)) as Hb by (apply (in_map fst _ _ Hin)).
      apply Hk in Hb. apply existsb_keys in Hb. rewrite Hb. apply Z.eqb_eq. rewrite Heq. apply get_self; [apply Hr|assumption].
Qed.

(* ---- compounds ---- *)
Definition compound := list (unit * (Z * Z)).      (* unit, (power, prefix) *)
Definition add_closure (m : powers) (u : unit) (p : Z) : powers := fold_left (fun m bk => insert m (fst bk) (snd bk * p)) (closure u) m.
Definition base_units (c : compound) : powers := fold_left (fun m us => add_closure m (fst us) (fst (snd us))) c [].
Definition cdim (u : unit) (b : base) : Z := fold_right (fun bk acc => (if base_eqb (fst bk) b then snd bk else 0) + acc) 0 (closure u).
Definition dim (c : compound) (b : base) : Z := fold_right (fun us acc => cdim (fst us) b * fst (snd us) + acc) 0 c.

Lemma add_closure_wf m u p : wf m -> wf (add_closure m u p).
Proof. unfold add_closure. revert m. induction (closure u) as [|bk r IH]; intros m H; cbn; [assumption|]. apply IH. now apply insert_wf. Qed.
Lemma add_closure_get m u p b : wf m -> get (add_closure m u p) b = get m b + cdim u b * p.
Proof.
  unfold add_closure, cdim. revert m. induction (closure u) as [|[b' k] r IH]; intros m H; cbn; [lia|].
  rewrite IH by now apply insert_wf. rewrite get_insert by assumption. cbn. destruct (base_eqb b' b); lia.
Qed.
Lemma base_units_spec c : wf (base_units c) /\ forall b, get (base_units c) b = dim c b.
Proof.
  unfold base_units. assert (H : forall m, wf m -> wf (fold_left (fun m us => add_closure m (fst us) (fst (snd us))) c m) /\
     forall b, get (fold_left (fun m us => add_closure m (fst us) (fst (snd us))) c m) b = get m b + dim c b).
  { induction c as [|[u [p e]] r IH]; intros m Hm; cbn; [split; [assumption|intros; lia]|].
    destruct (IH (add_closure m u p) (add_closure_wf _ _ _ Hm)) as [H1 H2]. split; [assumption|]. intros b. rewrite H2, add_closure_get by assumption. unfold dim. lia. }
  destruct (H [] (conj (NoDup_nil _) (Forall_nil _))) as [H1 H2]. split; [assumption|]. intros b. rewrite H2. cbn. lia.
Qed.

(* ---- factor ---- *)
Definition pow10 (e : Z) : Q := (10 # 1) ^ e.
Definition unit_scale (us : unit * (Z * Z)) : Q := pow10 (snd (snd us) * fst (snd us)) * fac (fst us) ^ fst (snd us).
Definition scale (c : compound) : Q := fold_right (fun us acc => unit_scale us * acc)%Q 1%Q c.

Definition factor (self other : compound) (v : Q) : bool * Q :=
  match self, other with
  | [], _ | _, [] => (true, v)
  | _, _ =>
      if same_bases (base_units self) (base_units other) then
        let v1 := fold_left (fun v us => v * pow10 (snd (snd us) * fst (snd us)) * fac (fst us) ^ fst (snd us))%Q other v in
        let v2 := fold_left (fun v us => v * fac (fst us) ^ (- fst (snd us)) / pow10 (snd (snd us) * fst (snd us)))%Q self v1 in
        (true, v2)
      else (false, v)
  end.

Theorem factor_ok_iff self other v : self <> [] -> other <> [] ->
  (fst (factor self other v) = true <-> forall b, dim self b = dim other b).
Proof.
  intros Hs Ho. unfold factor. destruct self as [|s0 sr]; [congruence|]. destruct other as [|o0 or]; [congruence|].
  destruct (base_units_spec (s0 :: sr)) as [W1 G1]. destruct (base_units_spec (o0 :: or)) as [W2 G2].
  destruct (same_bases _ _) eqn:E; cbn [fst].
  - pose proof (proj1 (same_bases_iff _ _ W1 W2) E) as E'. split; [intros _ b; rewrite <- G1, <- G2; apply E'|reflexivity].
  - split; [discriminate|]. intros H. exfalso. assert (same_bases (base_units (s0 :: sr)) (base_units (o0 :: or)) = true) as E'.
    { apply (proj2 (same_bases_iff _ _ W1 W2)). intros b. rewrite G1, G2. apply H. }
    congruence.
Qed.

Lemma pow10_pos e : (0 < pow10 e)%Q.
Proof. unfold pow10. apply Qpower_0_lt. reflexivity. Qed.
Lemma unit_scale_pos us : (0 < unit_scale us)%Q.
Proof. unfold unit_scale. apply Qmult_lt_0_compat; [apply pow10_pos|]. apply Qpower_0_lt. apply fac_pos. Qed.
Lemma scale_pos c : (0 < scale c)%Q.
Proof. induction c as [|us r IH]; cbn; [reflexivity|]. apply Qmult_lt_0_compat; [apply unit_scale_pos|assumption]. Qed.

Lemma fold_mul other : forall v, (fold_left (fun v us => v * pow10 (snd (snd us) * fst (snd us)) * fac (fst us) ^ fst (snd us)) other v == v * scale other)%Q.
Proof.
  induction other as [|us r IH]; intros v; cbn [fold_left]; [cbn; ring|]. change (scale (us :: r)) with (unit_scale us * scale r)%Q. rewrite IH. unfold unit_scale.
  generalize (pow10 (snd (snd us) * fst (snd us))) as A. generalize (fac (fst us) ^ fst (snd us))%Q as B. generalize (scale r) as C. intros C B A. ring.
Qed.
Lemma fold_div self : forall v, (fold_left (fun v us => v * fac (fst us) ^ (- fst (snd us)) / pow10 (snd (snd us) * fst (snd us))) self v * scale self == v)%Q.
Proof.
  induction self as [|us r IH]; intros v; cbn [fold_left]; [cbn; ring|]. change (scale (us :: r)) with (unit_scale us * scale r)%Q.
  rewrite Qmult_assoc. rewrite (Qmult_comm _ (unit_scale us)), <- Qmult_assoc, IH. unfold unit_scale.
  rewrite Qpower_opp. pose proof (pow10_pos (snd (snd us) * fst (snd us))) as HA. pose proof (Qpower_0_lt (fac (fst us)) (fst (snd us)) (fac_pos _)) as HB.
  revert HA HB. generalize (pow10 (snd (snd us) * fst (snd us))) as A. generalize (fac (fst us) ^ fst (snd us))%Q as B. intros B A HA HB.
  field. split; intros E; rewrite E in *; [apply (Qlt_irrefl 0); assumption|apply (Qlt_irrefl 0); assumption].
Qed.

Theorem factor_si self other v : self <> [] -> other <> [] -> fst (factor self other v) = true ->
  (snd (factor self other v) * scale self == v * scale other)%Q.
Proof.
  intros Hs Ho. unfold factor. destruct self as [|s0 sr]; [congruence|]. destruct other as [|o0 or]; [congruence|].
  destruct (same_bases _ _); cbn [fst snd]; [intros _|discriminate]. rewrite fold_div. apply fold_mul.
Qed.

(* corollaries of the single law *)
Corollary round_trip a b v : a <> [] -> b <> [] -> fst (factor a b v) = true -> fst (factor b a (snd (factor a b v))) = true ->
  (snd (factor b a (snd (factor a b v))) == v)%Q.
Proof.
  intros Ha Hb H1 H2. pose proof (factor_si a b v Ha Hb H1) as E1. pose proof (factor_si b a _ Hb Ha H2) as E2.
  pose proof (scale_pos a) as Pa. pose proof (scale_pos b) as Pb.
  apply (Qmult_inj_r _ _ (scale b)); [intros E; rewrite E in Pb; apply (Qlt_irrefl 0 Pb)|]. rewrite E2, E1. reflexivity.
Qed.
End Units.
Print Assumptions factor_si.
Print Assumptions factor_ok_iff.
