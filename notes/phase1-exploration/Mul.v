(* Scratch calibration (phase 1): C04 — the reconstruct loop of Compound::mul preserves value * scale and the
   dimension vector, for every outcome of the matching heuristic, provided the matched bases are present
   (which bases_match guarantees).  Generic in the unit table. *)
From Coq Require Import ZArith QArith Qpower Qfield List Lia Bool.
Import ListNotations.
Open Scope Z_scope.

Section M.
Variable K : Type.                                   (* keys of `names`: base and derived units alike *)
Variable eqb : K -> K -> bool.
Hypothesis eqb_spec : forall a b, reflect (a = b) (eqb a b).
Variable base : Type.
Variable cdim : K -> base -> Z.                      (* dimension of key^1 *)
Variable fac : K -> Q.
Hypothesis fac_pos : forall x, (0 < fac x)%Q.

Definition names := list (K * Z).
Fixpoint get (m : names) (x : K) : option Z := match m with [] => None | (y, v) :: r => if eqb y x then Some v else get r x end.
(* `+= k`, removing the entry when it reaches zero (base entries) or keeping it (the derived unit's own entry) *)
Fixpoint upd (rm : bool) (m : names) (x : K) (k : Z) : names :=
  match m with
  | [] => [(x, k)]
  | (y, v) :: r => if eqb y x then (if rm && (v + k =? 0) then r else (y, v + k) :: r) else (y, v) :: upd rm r x k
  end.
(* the code only touches base entries that exist *)
Definition sub_if_present (m : names) (x : K) (k : Z) : names := match get m x with Some _ => upd true m x (- k) | None => m end.

Definition S (m : names) : Q := fold_right (fun xv acc => fac (fst xv) ^ snd xv * acc)%Q 1%Q m.
Definition D (m : names) (b : base) : Z := fold_right (fun xv acc => snd xv * cdim (fst xv) b + acc) 0 m.

Lemma fac_nz x : ~ (fac x == 0)%Q.
Proof. intros E. pose proof (fac_pos x) as H. rewrite E in H. exact (Qlt_irrefl 0 H). Qed.

Lemma S_upd rm m x k : (S (upd rm m x k) == S m * fac x ^ k)%Q.
Proof.
  induction m as [|[y v] r IH]; cbn [upd S fold_right fst snd].
  - ring.
  - destruct (eqb_spec y x).
    + subst y. destruct (rm && (v + k =? 0)) eqn:E.
      * apply andb_prop in E as [_ E]. apply Z.eqb_eq in E. fold (S r).
        assert (fac x ^ v * fac x ^ k == 1)%Q as H by (rewrite <- Qpower_plus by apply fac_nz; rewrite E; reflexivity).
        rewrite <- (Qmult_1_r (S r)) at 1. rewrite <- H. ring.
      * cbn [S fold_right fst snd]. fold (S r). rewrite Qpower_plus by apply fac_nz. ring.
    + cbn [S fold_right fst snd]. fold (S (upd rm r x k)). fold (S r). rewrite IH. ring.
Qed.

Lemma D_upd rm m x k b : D (upd rm m x k) b = D m b + k * cdim x b.
Proof.
  induction m as [|[y v] r IH]; cbn [upd D fold_right fst snd]; [lia|].
  destruct (eqb_spec y x).
  - subst y. destruct (rm && (v + k =? 0)) eqn:E.
    + apply andb_prop in E as [_ E]. apply Z.eqb_eq in E. fold (D r b). nia.
    + cbn [D fold_right fst snd]. fold (D r b). lia.
  - cbn [D fold_right fst snd]. fold (D (upd rm r x k) b). fold (D r b). lia.
Qed.

(* one iteration of reconstruct for a derived unit u with closure `pw` (over base keys) and matched power m *)
Definition step (pw : list (K * Z)) (u : K) (m : Z) (nm : names) : names :=
  upd false (fold_left (fun nm bk => sub_if_present nm (fst bk) (snd bk * m)) pw nm) u m.

Definition all_present (pw : list (K * Z)) (nm : names) : Prop := forall bk, In bk pw -> get nm (fst bk) <> None.

Lemma get_upd_other rm m x k y : x <> y -> (get (upd rm m x k) y = None <-> get m y = None).
Proof.
  intros Hxy. induction m as [|[z v] r IH]; cbn [upd get].
  - destruct (eqb_spec x y); [congruence|tauto].
  - destruct (eqb_spec z x).
    + subst z. destruct (rm && (v + k =? 0)); cbn [get]; destruct (eqb_spec x y); try congruence; tauto.
    + cbn [get]. destruct (eqb_spec z y); [split; congruence|exact IH].
Qed.

Lemma fold_sub pw m : forall nm, NoDup (map fst pw) -> all_present pw nm ->
  (forall bk, In bk pw -> (fac (fst bk) == 1)%Q) ->
  (S (fold_left (fun nm bk => sub_if_present nm (fst bk) (snd bk * m)) pw nm) == S nm)%Q /\
  forall b, D (fold_left (fun nm bk => sub_if_present nm (fst bk) (snd bk * m)) pw nm) b
            = D nm b - m * fold_right (fun bk acc => snd bk * cdim (fst bk) b + acc) 0 pw.
Proof.
  induction pw as [|[x k] r IH]; intros nm Hnd Hp H1; cbn [fold_left fold_right]; [split; [reflexivity|intros; lia]|].
  inversion Hnd as [|? ? Hni Hnd']; subst.
  assert (Hx : get nm x <> None) by (apply (Hp (x, k)); left; reflexivity).
  assert (Hsub : sub_if_present nm (fst (x, k)) (snd (x, k) * m) = upd true nm x (- (k * m))).
  { unfold sub_if_present. cbn [fst snd]. destruct (get nm x); [reflexivity|congruence]. }
  rewrite Hsub.
  destruct (IH (upd true nm x (- (k * m))) Hnd') as [HS HD].
  - intros [y ky] Hin. cbn [fst]. assert (x <> y) by (intros ->; apply Hni; apply (in_map fst _ _ Hin)).
    rewrite get_upd_other by assumption. apply (Hp (y, ky)). right. assumption.
  - intros bk Hin. apply H1. right. assumption.
  - split.
    + rewrite HS, S_upd. rewrite (H1 (x, k)) by (left; reflexivity). rewrite Qpower_1. ring.
    + intros b. rewrite HD, D_upd. cbn [fst snd]. lia.
Qed.

Theorem step_preserves pw u m nm out :
  NoDup (map fst pw) -> all_present pw nm -> (forall bk, In bk pw -> (fac (fst bk) == 1)%Q) ->
  (forall b, cdim u b = fold_right (fun bk acc => snd bk * cdim (fst bk) b + acc) 0 pw) ->
  let nm' := step pw u m nm in let out' := (out * fac u ^ (- m))%Q in
  (out' * S nm' == out * S nm)%Q /\ forall b, D nm' b = D nm b.
Proof.
  intros Hnd Hp H1 Hc. cbv zeta. unfold step. destruct (fold_sub pw m nm Hnd Hp H1) as [HS HD]. split.
  - rewrite S_upd, HS. rewrite Qpower_opp. pose proof (Qpower_0_lt (fac u) m (fac_pos u)) as Hpos.
    revert Hpos. generalize (fac u ^ m)%Q as A. intros A Hpos. field. intros E. rewrite E in Hpos. exact (Qlt_irrefl 0 Hpos).
  - intros b. rewrite D_upd, HD, Hc. lia.
Qed.

(* the whole loop: any list of (closure, unit, matched power) triples whose bases are present when their turn comes *)
Fixpoint run (steps : list (list (K * Z) * K * Z)) (nm : names) (out : Q) : names * Q :=
  match steps with
  | [] => (nm, out)
  | (pw, u, m) :: r => run r (step pw u m nm) (out * fac u ^ (- m))%Q
  end.
Fixpoint steps_ok (steps : list (list (K * Z) * K * Z)) (nm : names) : Prop :=
  match steps with
  | [] => True
  | (pw, u, m) :: r => NoDup (map fst pw) /\ all_present pw nm /\ (forall bk, In bk pw -> (fac (fst bk) == 1)%Q) /\
                       (forall b, cdim u b = fold_right (fun bk acc => snd bk * cdim (fst bk) b + acc) 0 pw) /\ steps_ok r (step pw u m nm)
  end.
Theorem reconstruct_preserves steps : forall nm out, steps_ok steps nm ->
  (snd (run steps nm out) * S (fst (run steps nm out)) == out * S nm)%Q /\ forall b, D (fst (run steps nm out)) b = D nm b.
Proof.
  induction steps as [|[[pw u] m] r IH]; intros nm out Hok; cbn [run]; [split; [reflexivity|reflexivity]|].
  destruct Hok as (H1 & H2 & H3 & H4 & H5). destruct (step_preserves pw u m nm out H1 H2 H3 H4) as [HS HD]. cbv zeta in HS, HD.
  destruct (IH _ (out * fac u ^ (- m))%Q H5) as [IS ID]. split; [rewrite IS; exact HS|intros b; rewrite ID; apply HD].
Qed.
End M.
Print Assumptions reconstruct_preserves.
