import random, subprocess, re, sys, itertools
TREE='/tmp/scratch/target_fx/debug/tree'
rnd=random.Random(int(sys.argv[1]) if len(sys.argv)>1 else 1)
# well-formed-ish generator + soups
nums=['1','2','10','0.5','-3','1e3','.5','7']
words=['m','s','km','pi','earth','mass','to','round','floor','kg','x']
ops=['+','-','*','/','^','**','to',',','(',')','%','{','}']
def ws(): return rnd.choice(['',' ',' ','  ','\t'])
def expr(d):
    n=rnd.choice([1,2,2,3,4]); s=''
    for i in range(n):
        r=rnd.random()
        if d>0 and r<0.2: s+='('+ws()+expr(d-1)+ws()+')'
        elif d>0 and r<0.3: s+=rnd.choice(['round','floor'])+'('+ws()+expr(d-1)+(ws()+','+ws()+expr(d-1) if rnd.random()<0.4 else '')+ws()+')'
        elif r<0.5: s+=rnd.choice(nums)+rnd.choice(['',' ',''])+rnd.choice(['m','km/s','m^2','kg*m','%',''])
        elif r<0.6: s+=' '.join(rnd.choice(words[:6]) for _ in range(rnd.choice([1,2,3])))
        else: s+=rnd.choice(nums)
        if i<n-1: s+=ws()+rnd.choice(['+','-','*','/','^','to','*'])+ws()
    return s
cases=[]
for _ in range(int(sys.argv[2]) if len(sys.argv)>2 else 1500):
    if rnd.random()<0.7: cases.append(ws()+expr(2)+ws())
    else:
        cases.append(''.join(rnd.choice(nums+words+ops)+rnd.choice(['',' ',' ']) for _ in range(rnd.randint(1,10))))
cases=[c for c in cases if '\n' not in c]
out=subprocess.run([TREE],input='\n'.join(c.encode().hex() for c in cases)+'\n',capture_output=True,text=True).stdout.strip().split('\n')
assert len(out)==len(cases)
def coqtree(s):  # "(N KIND [..])" / "(T KIND n)" -> Coq
    s=re.sub(r'\(T (\w+) (\d+)\)',r'(T \1 \2)',s)
    return s
items=[]
for c,o in zip(cases,out):
    toks,tree=o.split(' => ',1)
    if tree.startswith('ERR'): exp='None'
    else: exp='Some %s'%coqtree(tree)
    items.append('  (%s, %s)'%(toks,exp))
shards=8; per=(len(items)+shards-1)//shards
for i in range(shards):
    open('GramCases%d.v'%i,'w').write('''From Coq Require Import List Arith Bool. Import ListNotations. Require Import Grammar.
Fixpoint tree_eqb (a b : tree) {struct a} : bool :=
  match a, b with
  | T k n, T k' n' => kind_beq k k' && Nat.eqb n n'
  | N k ch, N k' ch' => kind_beq k k' && (fix go (x y : list tree) : bool := match x, y with [] , [] => true | a :: x', b :: y' => tree_eqb a b && go x' y' | _, _ => false end) ch ch'
  | _, _ => false end.
Fixpoint forest_eqb (x y : list tree) : bool := match x, y with [], [] => true | a :: x', b :: y' => tree_eqb a b && forest_eqb x' y' | _, _ => false end.
Definition same (m e : option (list tree)) : bool := match m, e with Some a, Some b => forest_eqb a b | None, None => true | _, _ => false end.
Definition cases : list (list tok * option (list tree)) := [
%s
].
Definition bad := filter (fun c => negb (same (parse_root (fst c)) (snd c))) cases.
Eval vm_compute in (length cases, length bad, map fst (firstn 2 bad)).
''' % ';\n'.join(items[i*per:(i+1)*per]))
open('gramcases.txt','w').write('\n'.join(cases))
print(len(cases))
