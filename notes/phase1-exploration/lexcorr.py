import itertools, random, subprocess, re, sys
PROBE='/tmp/scratch/target/debug/probe'
A=['1','0','.','e','+','-','*','/','^','(',')',',','%','{','}',' ','\t','a','m','t','o','°','Ω','é','　',' ',"'",'k','s','5','E','x','…','🙂']
rnd=random.Random(11); cases=[]
for n in range(1,3):
    for t in itertools.product(A,repeat=n): cases.append(''.join(t))
for _ in range(4000): cases.append(''.join(rnd.choice(A) for _ in range(rnd.randint(3,16))))
cases=[c for c in cases if '\n' not in c]
out=subprocess.run([PROBE],input='\n'.join('L '+c for c in cases)+'\n',capture_output=True,text=True).stdout.split('\n')
KINDS=['WHITESPACE','STAR','STARSTAR','SLASH','PLUS','DASH','CARET','COMMA','OPEN_PAREN','CLOSE_PAREN','OPEN_BRACE','CLOSE_BRACE','TO','WORD','NUMBER','PERCENTAGE','ERROR']
lines=[]
for c,o in zip(cases,out):
    toks=o.split(' => ',1)[1].split() if ' => ' in o and o.split(' => ',1)[1] else []
    b=c.encode(); pos=0; exp=[]
    for t in toks:
        k,l=t.split(':'); l=int(l); chars=len(b[pos:pos+l].decode()); pos+=l
        exp.append('(%s, %d%%nat)'%(k,chars))
    lines.append('  ([%s], [%s])'%('; '.join('%d'%ord(ch) for ch in c), '; '.join(exp)))
shards=4; per=(len(lines)+shards-1)//shards
for i in range(shards):
    open('LexCases%d.v'%i,'w').write('''From Coq Require Import NArith List Bool Arith. Import ListNotations. Require Import Lexer. Open Scope N_scope.
Definition kind_eqb (a b : kind) : bool := match a, b with
 | WHITESPACE, WHITESPACE | STAR, STAR | STARSTAR, STARSTAR | SLASH, SLASH | PLUS, PLUS | DASH, DASH | CARET, CARET | COMMA, COMMA
 | OPEN_PAREN, OPEN_PAREN | CLOSE_PAREN, CLOSE_PAREN | OPEN_BRACE, OPEN_BRACE | CLOSE_BRACE, CLOSE_BRACE | TO, TO | WORD, WORD
 | NUMBER, NUMBER | PERCENTAGE, PERCENTAGE | ERROR, ERROR => true | _, _ => false end.
Fixpoint same (m : list token) (e : list (kind * nat)) : bool := match m, e with
 | [], [] => true | (k, t) :: m', (k', n) :: e' => kind_eqb k k' && Nat.eqb (length t) n && same m' e' | _, _ => false end.
Definition cases : list (list N * list (kind * nat)) := [
%s
].
Definition bad := filter (fun c => negb (same (tokens (fst c)) (snd c))) cases.
Eval vm_compute in (length cases, length bad, map fst (firstn 3 bad)).
''' % ';\n'.join(lines[i*per:(i+1)*per]))
print(len(cases))
