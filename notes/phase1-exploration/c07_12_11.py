import itertools, subprocess, sys, os, re, random
from fractions import Fraction as F
PROBE=os.environ.get('PROBE','/tmp/scratch/target/debug/probe')
def run(lines):
    return subprocess.run([PROBE],input='\n'.join(lines)+'\n',capture_output=True,text=True).stdout.split('\n')
# ---- C07: exhaustive literals over small alphabet, length<=6
sys.set_int_max_str_digits(100000)
LIT=re.compile(r'^[+-]?(\d+\.?\d*|\.\d+)([eE][+-]?\d+)?$')
def value(s):
    m=re.match(r'^([+-]?)(\d*)\.?(\d*)(?:[eE]([+-]?\d+))?$',s)
    sg,i,f,e=m.groups(); v=F(int((i or '0')+(f or '')) if (i or f) else 0, 10**len(f or ''))*F(10)**int(e or 0)
    return -v if sg=='-' else v
alpha='019+-.e'
lits=[]
for n in range(1,7):
    for t in itertools.product(alpha,repeat=n):
        s=''.join(t)
        if LIT.match(s) and not re.search(r"[eE][+-]?\d{4,}",s): lits.append(s)
print('well-formed literals',len(lits))
out=run(['R '+s for s in lits]); bad=0
for s,o in zip(lits,out):
    r=o.split(' => ')[1]
    exp=value(s); e='%d/%d'%(exp.numerator,exp.denominator)
    if r!=e:
        bad+=1
        if bad<10: print('R',s,r,'expected',e)
print('C07 parse bad',bad)
out=run(lits); bad=0
for s,o in zip(lits,out):
    r=o.split(' => ',1)[1]; exp=value(s); e='%d/%d []'%(exp.numerator,exp.denominator)
    if r!=e:
        bad+=1
        if bad<10: print('Q',s,r,'expected',e)
print('C07 query bad',bad)
out=run([s+'%' for s in lits]); bad=0
for s,o in zip(lits,out):
    r=o.split(' => ',1)[1]; exp=value(s)/100; e='%d/%d []'%(exp.numerator,exp.denominator)
    if r!=e:
        bad+=1
        if bad<10: print('Q%',s,r,'expected',e)
print('C07 percent bad',bad)
# ---- C12/C11: strings over adversarial alphabet
A=['1','0','.','e','+','-','*','/','^','(',')',',','%','{','}',' ','\t','a','m','t','o','°','Ω','é','　',' ',"'",'k','s','5','E','x','…','🙂']
rnd=random.Random(7); cases=[]
for n in range(1,4):
    for t in itertools.product(A,repeat=n): cases.append(''.join(t))
for _ in range(20000):
    cases.append(''.join(rnd.choice(A) for _ in range(rnd.randint(4,14))))
cases=[c for c in cases if not re.search(r'\^ *[+-]?\d*[eE.]?\d{3,}',c)]
out=run(['X '+c.encode().hex() for c in cases])
from collections import Counter
cnt=Counter(); shown=0
for c,o in zip(cases,out):
    r=o.split(' => ',1)[1] if ' => ' in o else o
    key=re.sub(r'results=\d+','',r); cnt[key]+=1
    if ('PANIC' in r or 'false' in r or 'ERR' in r) and shown<25:
        shown+=1; print(repr(c),r)
print(cnt)
