import gzip, sys, struct, json
def dec(b, i=0):
    ib=b[i]; mt=ib>>5; ai=ib&31; i+=1
    def arg(ai,i):
        if ai<24: return ai,i
        if ai==24: return b[i],i+1
        if ai==25: return struct.unpack('>H',b[i:i+2])[0],i+2
        if ai==26: return struct.unpack('>I',b[i:i+4])[0],i+4
        if ai==27: return struct.unpack('>Q',b[i:i+8])[0],i+8
        if ai==31: return None,i
        raise Exception('ai')
    if mt==7:
        if ai==20: return False,i
        if ai==21: return True,i
        if ai==22: return None,i
        if ai==27: return struct.unpack('>d',b[i:i+8])[0],i+8
        if ai==26: return struct.unpack('>f',b[i:i+4])[0],i+4
        raise Exception('simple %d'%ai)
    n,i=arg(ai,i)
    if mt==0: return n,i
    if mt==1: return -1-n,i
    if mt==2:
        return ('bytes',b[i:i+n].hex()),i+n
    if mt==3: return b[i:i+n].decode(),i+n
    if mt==4:
        out=[]
        if n is None:
            while b[i]!=0xff:
                v,i=dec(b,i); out.append(v)
            return out,i+1
        for _ in range(n):
            v,i=dec(b,i); out.append(v)
        return out,i
    if mt==5:
        out={}
        if n is None:
            while b[i]!=0xff:
                k,i=dec(b,i); v,i=dec(b,i); out[k if not isinstance(k,(list,dict)) else json.dumps(k)]=v
            return out,i+1
        for _ in range(n):
            k,i=dec(b,i); v,i=dec(b,i); out[k if not isinstance(k,(list,dict)) else json.dumps(k)]=v
        return out,i
    if mt==6:
        v,i=dec(b,i); return ('tag',n,v),i
if __name__=='__main__':
    for f in sys.argv[1:]:
        b=gzip.open(f).read()
        v,i=dec(b)
        assert i==len(b)
        print(f, type(v), list(v.keys()) if isinstance(v,dict) else None)
        for k,x in v.items():
            print(' ',k,len(x))
            for e in x[:6]: print('    ',json.dumps(e,ensure_ascii=False))
