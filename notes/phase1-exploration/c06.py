import random, subprocess, sys, re, os
from fractions import Fraction as F
rnd=random.Random(int(sys.argv[1])); N=int(sys.argv[2])
PROBE=os.environ.get('PROBE','/tmp/scratch/target/debug/probe')
PRI={'+':2,'-':2,'*':3,'/':3,'^':10}
def gen(depth):
    # returns list of items: operands and ops (flat), operands may be ('paren', sub) or ('num', q, text) or ('fn', name, sub)
    n=rnd.choice([1,2,2,3,3,4,5,6])
    items=[]
    for i in range(n):
        r=rnd.random()
        if depth>0 and r<0.25: items.append(('paren',gen(depth-1)))
        elif depth>0 and r<0.32: items.append(('fn',rnd.choice(['floor','ceil','round']),gen(depth-1)))
        else:
            a=rnd.randint(0,12); 
            if rnd.random()<0.2: items.append(('num',F(a,2) if a%2 else F(a), ('%d.5'%(a//2)) if a%2 else str(a)))
            elif rnd.random()<0.15: items.append(('num',F(-a),'-%d'%a))
            else: items.append(('num',F(a),str(a)))
        if i<n-1: items.append(('op',rnd.choice(['+','-','*','/','^','*','+'])))
    for j in range(1,len(items),2):
        if items[j][1]=='^':
            e=rnd.randint(-3,4); items[j+1]=('num',F(e),str(e))
    return items
class Err(Exception): pass
def ev_items(items):
    # precedence climbing reference: ^ > */ > +-, all left assoc
    vals=[ev_operand(x) for x in items[0::2]]; ops=[o[1] for o in items[1::2]]
    def parse(level,pos):
        # returns value,newpos ; level in [2,3,10]
        levels=[2,3,10]
        if level==3: # after last level -> operand
            return vals[pos],pos
        L=levels[level]
        v,pos=parse(level+1,pos)
        while pos<len(ops) and PRI[ops[pos]]==L:
            o=ops[pos]; r,p2=parse(level+1,pos+1)
            v=apply(o,v,r); pos=p2
        return v,pos
    v,pos=parse(0,0); assert pos==len(ops); return v
def apply(o,a,b):
    if o=='+': return a+b
    if o=='-': return a-b
    if o=='*': return a*b
    if o=='/':
        if b==0: raise Err('div0')
        return a/b
    if o=='^':
        if b.denominator!=1: raise Err('nonint')
        if abs(b)>40: raise Err('big')
        if b==0: return F(1)
        if a==0:
            if b<0: raise Err('div0')
            return F(0)
        return a**int(b)
def ev_operand(x):
    if x[0]=='num': return x[1]
    if x[0]=='paren': return ev_items(x[1])
    v=ev_items(x[2])
    import math
    if x[1]=='floor': return F(math.floor(v))
    if x[1]=='ceil': return F(math.ceil(v))
    # round half away
    s=1 if v>=0 else -1
    return F(s*math.floor(abs(v)+F(1,2)))
def ws(must=False):
    opts=[' ','  ','\t',' \t '] 
    if must: return rnd.choice(opts)
    return rnd.choice(['']+opts+[' ',' '])
def pr_items(items,top=False):
    s=''
    for i,x in enumerate(items):
        if x[0]=='op':
            o=x[1]
            if o in '+-': s+=ws(True)+o+ws(True)
            else:
                # no blank allowed only between plain numbers; next operand negative number literal requires care: '*-3' fine
                prev=items[i-1]; nxt=items[i+1]
                if prev[0]=='num' and nxt[0]=='num': s+=ws()+o+ws()
                else: s+=ws()+o+ws()
        elif x[0]=='num': s+=x[2]
        elif x[0]=='paren': s+='('+ws()+pr_items(x[1])+ws()+')'
        else: s+=x[1]+'('+ws()+pr_items(x[2])+ws()+')'
    return s
cases=[]
for i in range(N):
    it=gen(2)
    try: exp=('ok',ev_items(it))
    except Err as e:
        if e.args[0]=='big': continue
        exp=('err',e.args[0])
    q=ws()+pr_items(it)+ws()
    if '\n' in q: continue
    cases.append((q,exp))
out=subprocess.run([PROBE],input='\n'.join(c[0] for c in cases)+'\n',capture_output=True,text=True).stdout.split('\n')
bad=0
for (q,exp),o in zip(cases,out):
    r=o.split(' => ',1)[1] if ' => ' in o else o
    m=re.match(r'^(-?\d+)/(\d+) \[\]$',r)
    if exp[0]=='ok': ok = m is not None and F(int(m.group(1)),int(m.group(2)))==exp[1]
    else: ok = r.startswith('ERR') and ';' not in r
    if not ok:
        bad+=1
        if bad<=25: print(repr(q),'|',r[:80],'| expected',exp)
print('cases',len(cases),'bad',bad)
