import sys; sys.path.insert(0,'/tmp/scratch/proto')
from explore import *
from c05 import parse_word, baseexpr
SUP=str.maketrans('0123456789-','⁰¹²³⁴⁵⁶⁷⁸⁹⁻')
good_names=[(t,v) for t,v in prop if len(t)>1 or t in 'smgAKBNJWCVFSTHlv']   # avoid 1-letter prefix collisions
def rand_factor():
    nt,nv=rnd.choice(good_names); u=var2unit[nv]
    pt,pv=('',None)
    if rnd.random()<0.4: pt,pv=rnd.choice(pfx)
    w=pt+nt
    m=parse_word(w)
    e=(prefvar[pv] if pv else 0)
    if m!=[(e+(-3 if u==('base','KiloGram') else 0),u)]: return rand_factor()  # only words whose model reading is the intended one
    p=rnd.choice([1,1,1,2,-1,-2,3,-3])
    return (w,u,e,p)
def rand_unit(n=None):
    n=n or rnd.choice([1,1,2,3])
    fs=[]; seen=set()
    while len(fs)<n:
        f=rand_factor()
        if f[1] in seen: continue
        seen.add(f[1]); fs.append(f)
    return fs
def spell(fs):
    # tool syntax: w^p joined by '*'
    return '*'.join((w if p==1 else '%s^%d'%(w,p)) for w,u,e,p in fs)
def scale(fs):
    r=F(1)
    for w,u,e,p in fs:
        b=F(10)**e*fac(u)
        if u==('base','KiloGram'): b=F(10)**(e-3)
        r*=b**p
    return r
def dimv(fs):
    d={}
    for w,u,e,p in fs:
        for b,k in dims(u).items(): d[b]=d.get(b,0)+k*p
    return {b:k for b,k in d.items() if k}
def run(lines):
    out=subprocess.run([__import__('os').environ.get('PROBE','/tmp/scratch/target/debug/probe')],input='\n'.join(lines)+'\n',capture_output=True,text=True).stdout.strip().split('\n')
    return [o.split(' => ',1)[1] for o in out]
def val(res):
    m=re.match(r'^(-?\d+)/(\d+) \[(.*)\]$',res)
    return (F(int(m.group(1)),int(m.group(2))),m.group(3)) if m else None
N=int(sys.argv[2]) if len(sys.argv)>2 else 400
cases=[]
for i in range(N):
    kind=rnd.choice(['cast','mul','div','add','castpair'])
    x,xs=num(); y,ys=num()
    A=rand_unit(); B=rand_unit()
    if kind=='cast':
        d=dimv(A)
        if not d: continue
        q='%s %s to %s'%(xs,spell(A),baseexpr(d)); exp=x*scale(A)
    elif kind=='castpair':
        # same dims by construction: B = A's base expr with an extra cancelling pair
        d=dimv(A)
        if not d: continue
        C=[f for f in rand_unit(rnd.choice([1,2])) if f[1] not in [a[1] for a in A] and f[1][0]=='der']
        dc=dimv(C); rest={b:d.get(b,0)-dc.get(b,0) for b in set(d)|set(dc)}
        rest={b:k for b,k in rest.items() if k}
        used={f[1] for f in C}
        if any(('base',b) in used for b in rest) or not C: continue
        tgt='*'.join(x for x in [spell(C),baseexpr(rest)] if x)
        q='%s %s to %s'%(xs,spell(A),tgt); exp=x*scale(A)/scale(C)
    elif kind in('mul','div'):
        n=1 if kind=='mul' else -1
        d=dimv(A+[(w,u,e,p*n) for w,u,e,p in B])
        op='*' if n==1 else '/'
        if not d: q='%s %s %s %s %s'%(xs,spell(A),op,ys,spell(B))
        else: q='(%s %s %s %s %s) to %s'%(xs,spell(A),op,ys,spell(B),baseexpr(d))
        exp=x*scale(A)*(y*scale(B))**n
    else:
        d=dimv(A)
        if not d: continue
        q='(%s %s + %s %s) to %s'%(xs,spell(A),ys,baseexpr(d),baseexpr(d)); exp=x*scale(A)+y
    cases.append((kind,q,exp))
res=run([c[1] for c in cases])
bad=0
from collections import Counter
cnt=Counter()
for (kind,q,exp),r in zip(cases,res):
    v=val(r)
    ok = v is not None and v[0]==exp
    cnt[(kind,ok)]+=1
    if not ok:
        bad+=1
        if bad<=40: print(kind,'|',q,'|',r[:90],'| expected',exp)
print(cnt)
