import random, subprocess, sys, os, re
from fractions import Fraction as F
BIN=os.environ['BIN']; rnd=random.Random(int(sys.argv[1])); N=int(sys.argv[2])
cases=[]
for n in range(-30,31):
    for d in range(1,31):
        for lim,el in [(1,1),(2,1),(3,2),(6,8),(12,12),(1,15),(20,1)]: cases.append((n,d,lim,el))
for _ in range(N):
    k=rnd.choice([1,2,5,10,20,40]); kd=rnd.choice([1,2,5,10,20,40])
    n=rnd.randint(1,10**k)*rnd.choice([1,-1]); d=rnd.choice([1,rnd.randint(1,10**kd),10**rnd.randint(0,kd),2**rnd.randint(0,30)*5**rnd.randint(0,10),3,7,9,11,13])
    cases.append((n,d,rnd.randint(1,20),rnd.randint(1,15)))
out=subprocess.run([BIN],input='\n'.join('%d %d %d %d'%c for c in cases)+'\n',capture_output=True,text=True).stdout.split('\n')
bad=0
from collections import Counter
kinds=Counter()
for (n,d,lim,el),t in zip(cases,out):
    q=F(n,d)
    m=re.match(r'^(-?)(\d+)(?:\.(\d*))?(…?)(?:e(-?\d+))?$',t)
    if not m: 
        bad+=1; print('UNPARSEABLE',n,d,lim,el,repr(t)); continue
    sg,ip,fp,mark,ex=m.groups(); fp=fp or ''; ex=int(ex or 0)
    val=F(int(ip+fp),10**len(fp))*F(10)**ex
    if sg: val=-val
    ulp=F(10)**(ex-len(fp))
    # truncation toward zero at last printed digit
    a=abs(q); tr=(a/ulp).__floor__()*ulp
    exp_val = -tr if q<0 else tr
    ok_val = (val==exp_val) and (not sg or q<0 or val==0)
    if q<0 and tr!=0 and not sg: ok_val=False
    ok_mark = (mark=='…') == (val!=q)
    if not ok_val: kinds['value']+=1
    if not ok_mark: kinds['mark_missing' if val!=q else 'mark_spurious']+=1
    if not (ok_val and ok_mark):
        bad+=1
        if bad<=12: print(n,d,'limit',lim,'el',el,'=>',t,'| value ok',ok_val,'mark ok',ok_mark)
print('cases',len(cases),'bad',bad,dict(kinds))
