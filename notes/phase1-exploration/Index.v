(* Scratch calibration (phase 1): C14 — the answer of a top-1 lookup is independent of the indexing schedule
   (any permutation of the documents) exactly when the best-scored documents agree on their payload. *)
From Coq Require Import ZArith List Lia Permutation.
Import ListNotations.
Open Scope Z_scope.

Section Idx.
Variable doc : Type.
Variable payload : Type.
Variable pay : doc -> payload.
Variable score : doc -> Z.        (* score of the document for the query at hand; oracle (tantivy BM25) *)

(* TopDocs::with_limit(1): best score, ties broken by the smallest address = earliest position *)
Fixpoint top1_from (best : doc) (l : list doc) : doc :=
  match l with [] => best | d :: r => if score best <? score d then top1_from d r else top1_from best r end.
Definition top1 (l : list doc) : option doc := match l with [] => None | d :: r => Some (top1_from d r) end.

Lemma top1_from_spec best l : let t := top1_from best l in
  (t = best \/ In t l) /\ score best <= score t /\ (forall x, In x l -> score x <= score t).
Proof.
  revert best. induction l as [|d r IH]; intros best; cbn [top1_from]; [cbn; intuition lia|].
  destruct (score best <? score d) eqn:E; [apply Z.ltb_lt in E|apply Z.ltb_ge in E].
  - destruct (IH d) as (H1 & H2 & H3). cbv zeta in *. split; [cbn; destruct H1 as [->|H1]; auto|]. split; [lia|]. intros x [->|Hx]; auto.
  - destruct (IH best) as (H1 & H2 & H3). cbv zeta in *. split; [cbn; destruct H1 as [->|H1]; auto|]. split; [lia|]. intros x [->|Hx]; [lia|auto].
Qed.

Lemma top1_max l t : top1 l = Some t -> In t l /\ forall x, In x l -> score x <= score t.
Proof.
  destruct l as [|d r]; [discriminate|]. cbn [top1]. intros E. inversion E; subst. destruct (top1_from_spec d r) as (H1 & H2 & H3). cbv zeta in *.
  split; [cbn; destruct H1 as [->|H1]; auto|]. intros x [->|Hx]; auto.
Qed.

Lemma top1_first d r : (forall x, In x r -> score x <= score d) -> top1 (d :: r) = Some d.
Proof.
  cbn [top1]. intros H. f_equal. induction r as [|x r IH]; cbn [top1_from]; [reflexivity|].
  assert (score d <? score x = false) as -> by (apply Z.ltb_ge; apply H; left; reflexivity). apply IH. intros y Hy. apply H. right. exact Hy.
Qed.

Definition is_top (l : list doc) (d : doc) := In d l /\ forall x, In x l -> score x <= score d.

Theorem schedule_independent l l' : Permutation l l' ->
  (forall d d', is_top l d -> is_top l d' -> pay d = pay d') ->
  option_map pay (top1 l) = option_map pay (top1 l').
Proof.
  intros Hp Hties. destruct (top1 l) as [t|] eqn:E; destruct (top1 l') as [t'|] eqn:E'; cbn.
  - f_equal. apply top1_max in E as [Hin Hmax]. apply top1_max in E' as [Hin' Hmax']. apply Hties; split; auto.
    + eapply Permutation_in; [apply Permutation_sym; exact Hp|exact Hin'].
    + intros x Hx. apply Hmax'. eapply Permutation_in; eauto.
  - destruct l' as [|? ?]; [|discriminate]. apply Permutation_sym, Permutation_nil in Hp. subst. discriminate.
  - destruct l as [|? ?]; [|discriminate]. apply Permutation_nil in Hp. subst. discriminate.
  - reflexivity.
Qed.

Theorem tie_breaks_it l d d' : is_top l d -> is_top l d' -> pay d <> pay d' ->
  exists l1 l2, Permutation l l1 /\ Permutation l l2 /\ option_map pay (top1 l1) <> option_map pay (top1 l2).
Proof.
  intros [Hin Hmax] [Hin' Hmax'] Hne.
  destruct (in_split _ _ Hin) as (a & b & ->). destruct (in_split _ _ Hin') as (a' & b' & E).
  exists (d :: a ++ b), (d' :: a' ++ b'). split; [apply Permutation_sym, Permutation_middle|].
  split; [rewrite E; apply Permutation_sym, Permutation_middle|].
  rewrite top1_first, top1_first; cbn.
  - congruence.
  - intros x Hx. apply Hmax'. rewrite E. apply in_app_or in Hx. apply in_or_app. cbn. tauto.
  - intros x Hx. apply Hmax. apply in_app_or in Hx. apply in_or_app. cbn. tauto.
Qed.
End Idx.
Print Assumptions schedule_independent.
Print Assumptions tie_breaks_it.
