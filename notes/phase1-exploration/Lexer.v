(* Scratch calibration (phase 1): C12 — model of src/syntax/lexer.rs over Unicode scalar values, and the
   losslessness theorem (tokens are non-empty and concatenate to the input; the lexer terminates). *)
From Coq Require Import NArith List Lia Bool Arith.
Import ListNotations.
Open Scope N_scope.

Definition chr := N.
Inductive kind := WHITESPACE | STAR | STARSTAR | SLASH | PLUS | DASH | CARET | COMMA | OPEN_PAREN | CLOSE_PAREN
                | OPEN_BRACE | CLOSE_BRACE | TO | WORD | NUMBER | PERCENTAGE | ERROR.
Definition token := (kind * list chr)%type.

(* char::is_whitespace = Unicode White_Space *)
Definition is_ws (c : chr) : bool :=
  ((9 <=? c) && (c <=? 13)) || (c =? 32) || (c =? 133) || (c =? 160) || (c =? 5760) ||
  ((8192 <=? c) && (c <=? 8202)) || (c =? 8232) || (c =? 8233) || (c =? 8239) || (c =? 8287) || (c =? 12288).
Definition is_digit (c : chr) := (48 <=? c) && (c <=? 57).
Definition is_sign (c : chr) := (c =? 43) || (c =? 45).
Definition is_e (c : chr) := (c =? 101) || (c =? 69).
Definition is_wordc (c : chr) := ((97 <=? c) && (c <=? 122)) || ((65 <=? c) && (c <=? 90)) || is_digit c || (c =? 176) || (c =? 39).

Fixpoint span (p : chr -> bool) (s : list chr) : list chr * list chr :=
  match s with
  | c :: r => if p c then let (t, r') := span p r in (c :: t, r') else ([], s)
  | [] => ([], [])
  end.

(* consume_number(dot): returns (consumed, rest) *)
Fixpoint cnum (fuel : nat) (dot : bool) (s : list chr) : list chr * list chr :=
  match fuel with
  | O => ([], s)
  | S f =>
    match s with
    | [] => ([], s)
    | a :: r =>
      if is_digit a then let (t, r') := cnum f dot r in (a :: t, r')
      else if (a =? 46) && negb dot then let (t, r') := cnum f true r in (a :: t, r')
      else if is_e a && (match r with b :: _ => is_sign b || is_digit b | [] => false end) then
        let (sg, r1) := match r with b :: r1' => if is_sign b then ([b], r1') else ([], r) | [] => ([], r) end in
        let (ds, r2) := span is_digit r1 in
        let (t, r') := cnum f dot r2 in (a :: sg ++ ds ++ t, r')
      else ([], s)
    end
  end.

Definition word_kind (w : list chr) : kind := match w with [116; 111] => TO | _ => WORD end.   (* "to" *)

(* one token; precondition: s non-empty *)
Definition next (esc : bool) (s : list chr) : token * list chr * bool :=
  match s with
  | [] => ((ERROR, []), [], esc)
  | c :: r =>
    if esc then
      if is_ws c then let (t, r') := span is_ws s in ((WHITESPACE, t), r', true)
      else if c =? 125 then ((CLOSE_BRACE, [c]), r, false)
      else ((ERROR, [c]), r, true)          (* consume_escaped_word matches only blanks and '}' : always 0 here *)
    else
      if is_ws c then let (t, r') := span is_ws s in ((WHITESPACE, t), r', false)
      else if c =? 123 then ((OPEN_BRACE, [c]), r, true)
      else if c =? 46 then let (t, r') := cnum (length r) true r in
                           match t with [] => ((ERROR, [c]), r', false) | _ => ((NUMBER, c :: t), r', false) end
      else if c =? 44 then ((COMMA, [c]), r, false)
      else if is_digit c then let (t, r') := cnum (length s) false s in ((NUMBER, t), r', false)
      else if c =? 42 then match r with 42 :: r' => ((STARSTAR, [c; 42]), r', false) | _ => ((STAR, [c]), r, false) end
      else if c =? 47 then ((SLASH, [c]), r, false)
      else if is_sign c then let (t, r') := cnum (length r) false r in
                             match t with [] => ((if c =? 43 then PLUS else DASH, [c]), r', false) | _ => ((NUMBER, c :: t), r', false) end
      else if c =? 94 then ((CARET, [c]), r, false)
      else if c =? 37 then ((PERCENTAGE, [c]), r, false)
      else if c =? 40 then ((OPEN_PAREN, [c]), r, false)
      else if c =? 41 then ((CLOSE_PAREN, [c]), r, false)
      else let (w, r') := span is_wordc s in
           match w with [] => ((ERROR, [c]), r, false) | _ => ((word_kind w, w), r', false) end
  end.

Fixpoint lex (fuel : nat) (esc : bool) (s : list chr) : list token :=
  match fuel with
  | O => []
  | S f => match s with [] => [] | _ => let '(t, r, e) := next esc s in t :: lex f e r end
  end.
Definition tokens (s : list chr) := lex (length s) false s.

(* ---------- losslessness ---------- *)
Lemma span_app p s : fst (span p s) ++ snd (span p s) = s.
Proof. induction s as [|c r IH]; cbn; [reflexivity|]. destruct (p c); [|reflexivity]. destruct (span p r); cbn in *. now rewrite IH. Qed.
Lemma span_len p s : (length (snd (span p s)) <= length s)%nat.
Proof. induction s as [|c r IH]; cbn; [lia|]. destruct (p c); [|cbn; lia]. destruct (span p r); cbn in *. lia. Qed.
Lemma span_head p c r : p c = true -> fst (span p (c :: r)) <> [].
Proof. intros H. cbn. rewrite H. destruct (span p r). discriminate. Qed.

Lemma cnum_app f : forall dot s, fst (cnum f dot s) ++ snd (cnum f dot s) = s.
Proof.
  induction f as [|f IH]; intros dot s; cbn [cnum]; [reflexivity|]. destruct s as [|a r]; [reflexivity|].
  destruct (is_digit a). { specialize (IH dot r). destruct (cnum f dot r); cbn in *. now rewrite IH. }
  destruct ((a =? 46) && negb dot). { specialize (IH true r). destruct (cnum f true r); cbn in *. now rewrite IH. }
  destruct (is_e a && _); [|reflexivity].
  destruct r as [|b r1].
  - cbn [span]. specialize (IH dot []). destruct (cnum f dot []); cbn in *. now rewrite IH.
  - destruct (is_sign b).
    + pose proof (span_app is_digit r1) as Hs. destruct (span is_digit r1) as [ds r2]. specialize (IH dot r2).
      destruct (cnum f dot r2) as [t r']. cbn in *. rewrite <- Hs, <- IH. now rewrite <- !app_assoc.
    + pose proof (span_app is_digit (b :: r1)) as Hs. destruct (span is_digit (b :: r1)) as [ds r2]. specialize (IH dot r2).
      destruct (cnum f dot r2) as [t r']. cbn in *. rewrite <- Hs, <- IH. now rewrite <- !app_assoc.
Qed.

Lemma cnum_digit f dot c r : is_digit c = true -> fst (cnum (S f) dot (c :: r)) <> [].
Proof. intros H. cbn [cnum]. rewrite H. destruct (cnum f dot r). discriminate. Qed.

Definition text_of (ts : list token) : list chr := concat (map snd ts).

Lemma next_ok esc c r : let '(t, rest, _) := next esc (c :: r) in snd t ++ rest = c :: r /\ snd t <> [].
Proof.
  unfold next. destruct esc.
  - destruct (is_ws c) eqn:Ew.
    + pose proof (span_app is_ws (c :: r)). pose proof (span_head is_ws c r Ew). destruct (span is_ws (c :: r)); cbn in *. auto.
    + destruct (c =? 125); cbn; split; auto; discriminate.
  - destruct (is_ws c) eqn:Ew.
    { pose proof (span_app is_ws (c :: r)). pose proof (span_head is_ws c r Ew). destruct (span is_ws (c :: r)); cbn in *. auto. }
    destruct (c =? 123). { cbn; split; auto; discriminate. }
    destruct (c =? 46).
    { pose proof (cnum_app (length r) true r). destruct (cnum (length r) true r) as [t r']. cbn in *. destruct t; cbn in *; subst; split; auto; discriminate. }
    destruct (c =? 44). { cbn; split; auto; discriminate. }
    destruct (is_digit c) eqn:Ed.
    { pose proof (cnum_app (length (c :: r)) false (c :: r)). pose proof (cnum_digit (length r) false c r Ed).
      cbn [length] in *. destruct (cnum (S (length r)) false (c :: r)); cbn in *. auto. }
    destruct (c =? 42). { destruct r as [|[|p] r']; cbn; try (split; auto; discriminate). do 6 (destruct p; try (cbn; split; auto; discriminate)). }
    destruct (c =? 47). { cbn; split; auto; discriminate. }
    destruct (is_sign c).
    { pose proof (cnum_app (length r) false r). destruct (cnum (length r) false r) as [t r']. cbn in *. destruct t; cbn in *; subst; split; auto; discriminate. }
    destruct (c =? 94). { cbn; split; auto; discriminate. }
    destruct (c =? 37). { cbn; split; auto; discriminate. }
    destruct (c =? 40). { cbn; split; auto; discriminate. }
    destruct (c =? 41). { cbn; split; auto; discriminate. }
    pose proof (span_app is_wordc (c :: r)). destruct (span is_wordc (c :: r)) as [w r']. cbn in *.
    destruct w; cbn in *; [subst; split; auto; discriminate|]. split; [assumption|discriminate].
Qed.

Theorem lex_lossless : forall fuel esc s, (length s <= fuel)%nat ->
  text_of (lex fuel esc s) = s /\ Forall (fun t => snd t <> []) (lex fuel esc s).
Proof.
  induction fuel as [|f IH]; intros esc s Hl.
  - destruct s; [cbn; auto|cbn in Hl; lia].
  - cbn [lex]. destruct s as [|c r]; [cbn; auto|].
    pose proof (next_ok esc c r) as Hn. destruct (next esc (c :: r)) as [[t rest] e]. destruct Hn as [Happ Hne].
    assert (length rest <= f)%nat as Hlen.
    { assert (length (snd t ++ rest) = length (c :: r)) as Hle by now rewrite Happ. rewrite app_length in Hle. cbn in Hl, Hle.
      destruct (snd t); [congruence|]. cbn in Hle. lia. }
    destruct (IH e rest Hlen) as [H1 H2]. split.
    + unfold text_of in *. cbn [map concat]. rewrite H1. exact Happ.
    + constructor; assumption.
Qed.

Corollary tokens_lossless s : text_of (tokens s) = s /\ Forall (fun t => snd t <> []) (tokens s).
Proof. apply lex_lossless. lia. Qed.
Print Assumptions tokens_lossless.
