use anything::rational::DisplaySpec;
use anything::Rational;
fn main() {
    let cases: &[(&str, usize, usize)] = &[
        ("1000000000", 6, 8), ("1234567.5", 6, 6), ("12345678.5", 6, 6), ("123456789", 6, 6),
        ("0.1234567", 6, 8), ("0.12345678", 6, 8), ("0.0001234567", 6, 8), ("0.5", 1, 1), ("0.05", 1, 1),
        ("-0.1234567", 6, 8), ("1.0000001", 6, 8), ("100000000.25", 8, 8), ("100000000.25", 10, 8), ("-1234567890.5", 9, 3),
        ("99999999.999", 3, 4), ("10", 6, 1), ("10.5", 6, 1), ("123.456", 2, 2), ("123.456", 1, 2),("0.000000001234567", 6, 8),
    ];
    for (s, limit, el) in cases {
        let r: Rational = s.parse().unwrap();
        let mut spec = DisplaySpec::default();
        spec.limit = *limit; spec.exponent_limit = *el; spec.show_continuation = true;
        println!("{s} limit={limit} explimit={el} => {}", r.display(&spec));
    }
}
