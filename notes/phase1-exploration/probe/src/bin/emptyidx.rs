use tantivy::schema::*;
fn main() {
    let path = std::env::args().nth(1).unwrap();
    let _ = std::fs::remove_dir_all(&path);
    std::fs::create_dir_all(&path).unwrap();
    let text_field_indexing = TextFieldIndexing::default().set_tokenizer("ngram").set_index_option(IndexRecordOption::WithFreqsAndPositions);
    let text_options = TextOptions::default().set_indexing_options(text_field_indexing).set_stored();
    let mut schema = Schema::builder();
    schema.add_bytes_field("data", STORED);
    schema.add_text_field("name", text_options);
    tantivy::Index::create_in_dir(&path, schema.build()).unwrap();
}
