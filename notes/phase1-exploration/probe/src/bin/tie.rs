fn main() {
    let qs = ["population europe", "population developed regions", "population northern america", "population latin america caribbean"];
    for round in 0..12 {
        let db = anything::Db::in_memory().unwrap();
        let mut line = vec![];
        for q in qs {
            let parsed = anything::parse(q).unwrap();
            let mut d = Vec::new();
            let vals: Vec<_> = anything::query(&parsed, &db, anything::Options::default().describe(), &mut d).collect();
            let _ = vals;
            for x in d { match x { anything::Description::Constant(_, c) => line.push(c.description.to_string()) } }
        }
        println!("{round}: {}", line.join(" | "));
    }
}
