use anything::rational::DisplaySpec;
use anything::Rational;
use std::io::BufRead;
fn main() {
    for line in std::io::stdin().lock().lines() {
        let line = line.unwrap();
        let p: Vec<&str> = line.split(' ').collect();
        let n: num::BigInt = p[0].parse().unwrap(); let d: num::BigInt = p[1].parse().unwrap();
        let r = Rational::new(n, d);
        let mut spec = DisplaySpec::default();
        spec.limit = p[2].parse().unwrap(); spec.exponent_limit = p[3].parse().unwrap(); spec.show_continuation = true;
        println!("{}", r.display(&spec));
    }
}
