use anything::{Db, Options, Description};
use anything::rational::DisplaySpec;
use num::One;
fn eval(db: &Db, q: &str, describe: bool) -> (Vec<String>, Vec<String>) {
    let parsed = anything::parse(q).unwrap();
    let mut d = Vec::new();
    let opts = if describe { Options::default().describe() } else { Options::default() };
    let vals: Vec<String> = anything::query(&parsed, db, opts, &mut d).map(|v| match v { Ok(n) => format!("{}/{} [{}]", n.value.numer(), n.value.denom(), n.unit), Err(e) => format!("ERR {e}") }).collect();
    let ds = d.into_iter().map(|x| match x { Description::Constant(q, c) => format!("{q}=>{}", c.description) }).collect();
    (vals, ds)
}
fn render(db: &Db, q: &str, exact: bool) -> Vec<String> {
    let parsed = anything::parse(q).unwrap(); let mut d = Vec::new(); let mut out = vec![];
    for v in anything::query(&parsed, db, Options::default(), &mut d) {
        if let Ok(value) = v {
            let mut s = String::new();
            if exact { if !value.value.denom().is_one() { s += &format!("{}/{}", value.value.numer(), value.value.denom()); } else { s += &format!("{}", value.value.numer()); } }
            else { let mut spec = DisplaySpec::default(); spec.limit = 12; spec.exponent_limit = 12; spec.show_continuation = true; s += &format!("{}", value.value.display(&spec)); }
            if value.unit.has_numerator() { s += " "; }
            s += &format!("{}", value.unit.display(!num::One::is_one(&value.value)));
            out.push(s);
        } else { out.push("<diag>".into()); }
    }
    out
}
fn main() {
    let qs = ["population finland / population world", "mass of earth * 2", "earth mass / sun mass + 1", "pi * 2", "speed of light", "1 + 2", "population europe", "nosuchthingxyz", "earth radius to km", "round(population finland)", "sun mass / (earth mass + moon mass)", "3 N / 10 kg", "1/3", "2 /s", "1 decade", "2 decade/s", "1/0", "5 km - 5 km", "1 ft", "2 ft", "0.5 m/s^2"];
    let db = Db::in_memory().unwrap();
    let mut iso = vec![];
    for q in qs { let fresh = Db::in_memory().unwrap(); iso.push(eval(&fresh, q, true)); }
    let mut bad = 0;
    for round in 0..3 {
        let order: Vec<usize> = if round == 0 { (0..qs.len()).collect() } else if round == 1 { (0..qs.len()).rev().collect() } else { (0..qs.len()).map(|i| (i * 7) % qs.len()).collect() };
        for &i in &order {
            let (v1, d1) = eval(&db, qs[i], true); let (v0, d0) = eval(&db, qs[i], false);
            // population europe etc. are tie-dependent (C14): compare values only against the same db
            if v1 != v0 || !d0.is_empty() { bad += 1; println!("describe changes result: {}", qs[i]); }
            if (v1.clone(), d1.clone()) != iso[i] && !qs[i].contains("europe") { bad += 1; println!("differs from isolation: {} {:?} vs {:?}", qs[i], (v1, d1), iso[i]); }
        }
    }
    println!("c18 bad {bad}");
    for (q, d) in qs.iter().zip(iso.iter()) { if d.1.len() > 1 { println!("  order: {q} -> {:?}", d.1); } }
    // c19
    std::env::set_var("XDG_DATA_HOME", "/tmp/scratch/xdg19");
    let mut bad = 0;
    for q in qs { for exact in [false, true] {
        let mut cmd = std::process::Command::new("/repo/target/debug/any"); if exact { cmd.arg("--exact"); } cmd.arg(q);
        let o = cmd.output().unwrap(); let text = String::from_utf8_lossy(&o.stdout).to_string();
        let clean: String = { let mut s = String::new(); let mut it = text.chars().peekable(); while let Some(c) = it.next() { if c == '\x1b' { while let Some(&n) = it.peek() { it.next(); if n == 'm' { break; } } } else { s.push(c); } } s };
        let exp = render(&db, q, exact);
        let got: Vec<&str> = clean.lines().filter(|l| !l.trim().is_empty()).collect();
        let vals: Vec<&String> = exp.iter().filter(|l| *l != "<diag>").collect();
        let ok = vals.iter().all(|v| got.iter().any(|g| g == &v.as_str())) && o.status.success() && (exp.iter().filter(|l| *l == "<diag>").count() == got.iter().filter(|g| g.starts_with("error")).count());
        if !ok { bad += 1; println!("c19 mismatch {q:?} exact={exact}: got {:?} expected {:?}", got, exp); }
    } }
    println!("c19 bad {bad}");
}
