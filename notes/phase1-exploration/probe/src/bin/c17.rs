use anything::{Compound, Constant, Rational, Unit};
use std::io::Read;
use std::iter::FromIterator;
#[derive(serde::Deserialize)]
struct Doc { #[serde(default)] constants: Vec<Constant> }
fn rt<T: serde::Serialize + serde::de::DeserializeOwned>(x: &T) -> Result<T, String> {
    let b = serde_cbor::to_vec(x).map_err(|e| format!("enc {e}"))?;
    serde_cbor::from_slice(&b).map_err(|e| format!("dec {e}"))
}
fn main() {
    // all derived units found by parsing every name of the vocabulary
    let names = std::fs::read_to_string("/tmp/scratch/proto/names.txt").unwrap();
    let mut units: Vec<Compound> = vec![];
    for n in names.lines() { if let Ok(c) = n.parse::<Compound>() { units.push(c); } }
    let mut bad = 0;
    for c in &units { match rt(c) { Ok(d) if &d == c => {}, other => { bad += 1; println!("compound rt fail {c}: {:?}", other.map(|d| d.to_string())); } } }
    println!("single-unit compounds {} bad {}", units.len(), bad);
    // random compounds: products of parsed units with powers/prefixes via string spellings
    let mut seed = 12345u64; let mut rnd = || { seed ^= seed << 13; seed ^= seed >> 7; seed ^= seed << 17; seed };
    let lines: Vec<&str> = names.lines().collect();
    let (mut n, mut bad) = (0, 0);
    for _ in 0..3000 {
        let k = 1 + rnd() % 3; let mut s = String::new();
        for i in 0..k { if i > 0 { s.push('*'); } s.push_str(lines[(rnd() % lines.len() as u64) as usize]); let p = (rnd() % 7) as i64 - 3; if p != 1 && p != 0 { s.push_str(&format!("^{p}")); } }
        if let Ok(c) = s.parse::<Compound>() { n += 1; match rt(&c) { Ok(d) if d == c => {}, _ => { bad += 1; println!("rt fail {s}"); } } }
    }
    println!("random compounds {n} bad {bad}");
    // rationals
    let (mut n, mut bad) = (0, 0);
    for i in 0..3000u64 {
        let digits = 1 + (rnd() % 80) as usize; let mut a = String::new(); for _ in 0..digits { a.push((b'0' + (rnd() % 10) as u8) as char); }
        let mut d = String::from("1"); for _ in 0..(rnd() % 60) { d.push((b'0' + (rnd() % 10) as u8) as char); }
        let an: num::BigInt = a.parse().unwrap(); let dn: num::BigInt = d.parse().unwrap();
        let r = Rational::new(if i % 2 == 0 { an } else { -an }, dn);
        n += 1;
        let ok1 = matches!(rt(&r), Ok(ref x) if *x == r);
        let js = serde_json::to_string(&r).unwrap(); let ok2 = matches!(serde_json::from_str::<Rational>(&js), Ok(ref x) if *x == r);
        if !(ok1 && ok2) { bad += 1; println!("rational rt fail {:?}", js); }
    }
    println!("rationals {n} bad {bad}");
    // shipped files
    let (mut n, mut bad) = (0, 0);
    for f in ["astronomics.bin.gz", "files.bin.gz", "populations.bin.gz"] {
        let bytes = std::fs::read(format!("/repo/db/{f}")).unwrap(); let mut raw = vec![]; flate2::read::GzDecoder::new(&bytes[..]).read_to_end(&mut raw).unwrap();
        let doc: Doc = serde_cbor::from_slice(&raw).unwrap();
        for c in doc.constants { n += 1; let b = serde_cbor::to_vec(&c).unwrap(); let d: Constant = serde_cbor::from_slice(&b).unwrap();
            if !(d.value == c.value && d.unit == c.unit && d.tokens == c.tokens && d.description == c.description && d.source == c.source) { bad += 1; } }
    }
    println!("shipped constants {n} bad {bad}");
    let _ = (Unit::Meter, Compound::from_iter([(Unit::Meter, (1, 0))]));
}
