use std::collections::HashSet;
fn main() {
    let data: serde_json::Value = serde_json::from_str(&std::fs::read_to_string("/tmp/scratch/constants.json").unwrap()).unwrap();
    let db = anything::Db::in_memory().unwrap();
    let word_ok = |w: &str| !w.is_empty() && w.chars().all(|c| c.is_ascii_alphanumeric() || c == '°' || c == '\'');
    let (mut typeable, mut ok, mut bad) = (0, 0, vec![]);
    for c in data.as_array().unwrap() {
        let toks: Vec<String> = c["tokens"].as_array().unwrap().iter().map(|t| t.as_str().unwrap().to_string()).collect();
        if !toks.iter().all(|t| word_ok(t)) || toks[0].chars().next().unwrap().is_ascii_digit() || toks.iter().any(|t| t == "to") { continue; }
        typeable += 1;
        let q = toks.join(" ");
        let parsed = anything::parse(&q).unwrap();
        let mut d = Vec::new();
        let vals: Vec<_> = anything::query(&parsed, &db, anything::Options::default().describe(), &mut d).collect();
        let mut good = vals.len() == 1 && vals[0].is_ok() && d.len() == 1;
        let mut got = String::new();
        if let Some(anything::Description::Constant(_, k)) = d.first() {
            let have: HashSet<&str> = k.tokens.iter().map(|t| t.as_ref()).collect();
            good = good && toks.iter().all(|t| have.contains(t.as_str()));
            got = format!("{:?}", k.tokens);
        } else { good = false; got = format!("{:?}", vals.iter().map(|v| v.as_ref().map(|_| ()).map_err(|e| e.to_string())).collect::<Vec<_>>()); }
        if good { ok += 1 } else { bad.push((q, got)); }
    }
    println!("typeable={typeable} ok={ok} bad={}", bad.len());
    for (q, g) in bad.iter().take(60) { println!("  {q:?} -> {g}"); }
}
