use std::io::BufRead;
fn main() {
    for line in std::io::stdin().lock().lines() {
        let line = line.unwrap();
        let (which, hexs) = line.split_once(' ').unwrap();
        let bytes: Vec<u8> = (0..hexs.len()/2).map(|i| u8::from_str_radix(&hexs[2*i..2*i+2], 16).unwrap()).collect();
        let s = match String::from_utf8(bytes) { Ok(s) => s, Err(_) => { println!("BADUTF8"); continue; } };
        let r = if which == "C" { anything::verif::verif_step_combined(&s) } else { anything::verif::verif_step_units(&s) };
        match r { Some((v, n)) => println!("{v} {n}"), None => println!("NONE") }
    }
}
