use std::io::BufRead;
use anything::syntax::parser::{Parser, Syntax};
fn pr(n: syntree::Node<'_, Syntax, u32, u32>, out: &mut String) {
    let span = n.span();
    if n.has_children() {
        out.push_str(&format!("(N {:?} [", n.value()));
        let mut first = true;
        for c in n.children() { if !first { out.push_str("; "); } first = false; pr(c, out); }
        out.push_str("])");
    } else if span.start == span.end {
        out.push_str(&format!("(N {:?} [])", n.value()));
    } else {
        out.push_str(&format!("(T {:?} {})", n.value(), span.end - span.start));
    }
}
fn main() {
    for line in std::io::stdin().lock().lines() {
        let line = line.unwrap();
        let bytes: Vec<u8> = (0..line.len()/2).map(|i| u8::from_str_radix(&line[2*i..2*i+2], 16).unwrap()).collect();
        let src = String::from_utf8(bytes).unwrap();
        let toks: Vec<String> = anything::syntax::lexer::Lexer::new(&src).map(|t| format!("({:?}, {})", t.kind, t.len)).collect();
        match Parser::new(&src).parse_root() {
            Ok(tree) => { let mut s = String::new(); let mut first = true; for c in tree.children() { if !first { s.push_str("; "); } first = false; pr(c, &mut s); } println!("[{}] => [{}]", toks.join("; "), s); }
            Err(e) => println!("[{}] => ERR {e}", toks.join("; ")),
        }
    }
}
