use std::io::BufRead;
fn main() {
    let db = anything::Db::in_memory().unwrap();
    let stdin = std::io::stdin();
    for line in stdin.lock().lines() {
        let line = line.unwrap();
        if let Some(rest) = line.strip_prefix("U ") {
            match rest.parse::<anything::Compound>() {
                Ok(c) => println!("U {:?} => {}", rest, c),
                Err(e) => println!("U {:?} => ERR {}", rest, e),
            }
            continue;
        }
        if let Some(rest) = line.strip_prefix("R ") {
            match rest.parse::<anything::Rational>() {
                Ok(r) => println!("R {:?} => {}/{}", rest, r.numer(), r.denom()),
                Err(_) => println!("R {:?} => ERR", rest),
            }
            continue;
        }
        if let Some(rest) = line.strip_prefix("X ") {
            // hex-encoded utf8 input: lossless check + query under catch_unwind
            let bytes: Vec<u8> = (0..rest.len()/2).map(|i| u8::from_str_radix(&rest[2*i..2*i+2], 16).unwrap()).collect();
            let src = String::from_utf8(bytes).unwrap();
            let r = std::panic::catch_unwind(std::panic::AssertUnwindSafe(|| {
                let toks: Vec<_> = anything::syntax::lexer::Lexer::new(&src).collect();
                let total: usize = toks.iter().map(|t| t.len).sum();
                let mut pos = 0; let mut ok = total == src.len() && toks.iter().all(|t| t.len > 0);
                for t in &toks { pos += t.len; ok = ok && src.is_char_boundary(pos); }
                let tree = match anything::syntax::parser::Parser::new(&src).parse_root() { Ok(t) => t, Err(e) => return format!("TREE-ERR {e} lex_ok={ok}") };
                let leaves: Vec<(usize,usize)> = tree.walk().filter(|n| !n.has_children()).map(|n| (n.span().start as usize, n.span().end as usize)).filter(|(a,b)| a!=b).collect();
                let mut p2 = 0; let mut cover = true; let mut li = 0;
                for t in &toks { if li >= leaves.len() || leaves[li] != (p2, p2 + t.len) { cover = false; break; } p2 += t.len; li += 1; }
                cover = cover && li == leaves.len();
                let parsed = anything::parse(&src).unwrap();
                let mut d = Vec::new(); let mut spans_ok = true; let mut n = 0;
                for v in anything::query(&parsed, &db, Default::default(), &mut d) {
                    n += 1;
                    match v { Ok(x) => { let _ = format!("{} {}", x.value.display(&Default::default()), x.unit); }
                        Err(e) => { let r = e.range(); spans_ok = spans_ok && r.start <= r.end && r.end <= src.len() && src.is_char_boundary(r.start) && src.is_char_boundary(r.end); let _ = e.to_string(); } }
                }
                format!("lex_ok={ok} cover={cover} spans_ok={spans_ok} results={n}")
            }));
            match r { Ok(s) => println!("X {} => {}", rest, s), Err(_) => println!("X {} => PANIC", rest) }
            continue;
        }
        if let Some(rest) = line.strip_prefix("L ") {
            let toks: Vec<_> = anything::syntax::lexer::Lexer::new(rest).map(|t| format!("{:?}:{}", t.kind, t.len)).collect();
            println!("L {:?} => {}", rest, toks.join(" "));
            continue;
        }
        let r = std::panic::catch_unwind(std::panic::AssertUnwindSafe(|| {
            let parsed = match anything::parse(&line) { Ok(p) => p, Err(e) => return format!("PARSE-ERR {e}") };
            let mut d = Vec::new();
            let mut out = Vec::new();
            for v in anything::query(&parsed, &db, Default::default(), &mut d) {
                match v {
                    Ok(n) => out.push(format!("{}/{} [{}]", n.value.numer(), n.value.denom(), n.unit)),
                    Err(e) => out.push(format!("ERR({:?}: {})", e.range(), e)),
                }
            }
            out.join(" ; ")
        }));
        match r { Ok(s) => println!("Q {:?} => {}", line, s), Err(_) => println!("Q {:?} => PANIC", line) }
    }
}
