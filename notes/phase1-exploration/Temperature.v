(* Scratch calibration (phase 1): C09 — apply_conversion for the two affine scales as the code has them
   (Celsius: Offset 27315/100; Fahrenheit: the to/from closures), used the way Compound::factor uses them
   for a single scale with power one: multiply-in from the source, multiply-out to the target. *)
From Coq Require Import QArith Qfield List.
Import ListNotations.

Inductive scale := K | C | F.
Definition kelvin_offset : Q := 27315 # 100.
(* source side: apply_conversion(+1, value, conv(source)) -- to kelvin *)
Definition to_kelvin (s : scale) (v : Q) : Q :=
  match s with
  | K => v
  | C => v + kelvin_offset                                (* Offset, pow = +1 *)
  | F => (v - 32) * (5 # 9) + kelvin_offset               (* methods.to *)
  end.
(* target side: apply_conversion(-1, value, conv(target)) -- from kelvin *)
Definition from_kelvin (s : scale) (v : Q) : Q :=
  match s with
  | K => v
  | C => v + kelvin_offset * (-1 # 1)                      (* Offset, pow = -1 *)
  | F => (v - kelvin_offset) * (9 # 5) + 32               (* methods.from *)
  end.
Definition cast (tgt src : scale) (v : Q) : Q := from_kelvin tgt (to_kelvin src v).

Theorem c_to_k v : cast K C v == v + (27315 # 100). Proof. unfold cast, to_kelvin, from_kelvin, kelvin_offset. ring. Qed.
Theorem f_to_c v : cast C F v == (v - 32) * (5 # 9). Proof. unfold cast, to_kelvin, from_kelvin, kelvin_offset. ring. Qed.
Theorem c_to_f v : cast F C v == v * (9 # 5) + 32. Proof. unfold cast, to_kelvin, from_kelvin, kelvin_offset. ring. Qed.
Theorem k_to_c v : cast C K v == v - (27315 # 100). Proof. unfold cast, to_kelvin, from_kelvin, kelvin_offset. ring. Qed.
Theorem f_to_k v : cast K F v == (v - 32) * (5 # 9) + (27315 # 100). Proof. unfold cast, to_kelvin, from_kelvin, kelvin_offset. ring. Qed.
Theorem k_to_f v : cast F K v == (v - (27315 # 100)) * (9 # 5) + 32. Proof. unfold cast, to_kelvin, from_kelvin, kelvin_offset. ring. Qed.

Lemma from_to s v : from_kelvin s (to_kelvin s v) == v.
Proof. destruct s; unfold to_kelvin, from_kelvin, kelvin_offset; ring. Qed.
Lemma to_from s v : to_kelvin s (from_kelvin s v) == v.
Proof. destruct s; unfold to_kelvin, from_kelvin, kelvin_offset; ring. Qed.

Global Instance to_kelvin_proper s : Proper (Qeq ==> Qeq) (to_kelvin s).
Proof. intros x y E. destruct s; unfold to_kelvin; rewrite E; reflexivity. Qed.
Global Instance from_kelvin_proper s : Proper (Qeq ==> Qeq) (from_kelvin s).
Proof. intros x y E. destruct s; unfold from_kelvin; rewrite E; reflexivity. Qed.

Theorem invertible a b v : cast a b (cast b a v) == v.
Proof. unfold cast. rewrite to_from. apply from_to. Qed.
Theorem via_equals_direct a b c v : cast c b (cast b a v) == cast c a v.
Proof. unfold cast. rewrite to_from. reflexivity. Qed.
(* any chain of conversions ends where the direct conversion does *)
Fixpoint chain (cur : scale) (path : list scale) (v : Q) : scale * Q :=
  match path with [] => (cur, v) | s :: r => chain s r (cast s cur v) end.
Theorem chain_equals_direct path : forall cur v, snd (chain cur path v) == cast (fst (chain cur path v)) cur v.
Proof.
  induction path as [|s r IH]; intros cur v; cbn [chain fst snd].
  - unfold cast. symmetry. apply from_to.
  - rewrite IH. apply via_equals_direct.
Qed.
Print Assumptions chain_equals_direct.
