import random, subprocess, sys, os, re
from collections import Counter
PROBE=os.environ.get('PROBE','/tmp/scratch/target/debug/probe')
rnd=random.Random(int(sys.argv[1])); N=int(sys.argv[2])
words=['m','s','kg','km','N','J','W','V','A','K','°C','°F','hr','min','btu','ft','in','l','Pa','mol','cd','B','c','g','t','a','y','h','M','T','dy','Hz','pi','population','finland','earth','mass','to','round','floor','ceil','sin','cos','foo','m^2','s^-1','m/s','kg*m/s^2','m^0','s^-2','J/N','V*A','1/s','kWh','mm','um','dal','zeV']
nums=['0','1','2','3','10','0.5','1.5','-1','-2','+3','1e3','2e-3','100','7','0.25','12','99','-0.5','1e10','.5','5.']
ops=['+','-','*','/','^','to',',','(',')','%','{','}','**']
def tok():
    r=rnd.random()
    if r<0.3: return rnd.choice(nums)
    if r<0.6: return rnd.choice(words)
    return rnd.choice(ops)
cases=[]
for _ in range(N):
    n=rnd.randint(1,14); s=''
    for i in range(n):
        s+=tok()+rnd.choice(['',' ',' ',' ','  '])
    # bound powers to 2 digits per C11
    if re.search(r'\^ *[+-]?\d{3,}|\^ *[+-]?\d+e|\*\* *[+-]?\d{3,}|\*\* *[+-]?\d+e',s): continue
    cases.append(s)
out=subprocess.run([PROBE],input='\n'.join('X '+c.encode().hex() for c in cases)+'\n',capture_output=True,text=True).stdout.split('\n')
cnt=Counter(); shown=0
for c,o in zip(cases,out):
    r=o.split(' => ',1)[1] if ' => ' in o else o
    key=re.sub(r'results=\d+','',r); cnt[key]+=1
    if ('PANIC' in r or 'false' in r or 'ERR' in r) and shown<int(sys.argv[3]):
        shown+=1; print(repr(c),r)
print(cnt)
