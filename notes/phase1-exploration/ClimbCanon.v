(* Scratch calibration (phase 1): a valid parse is determined by its yield (the documented grammar is
   unambiguous) and equals the level-splitting specification; hence climb = canon, unboundedly. *)
From Coq Require Import List Arith Lia Bool Sorted.
Import ListNotations.
Require Import Climb ClimbProof.

Section tree_ind2.
  Variable P : tree -> Prop.
  Hypothesis HL : forall n, P (Leaf n).
  Hypothesis HN : forall hd tl, P hd -> Forall (fun ox => P (snd ox)) tl -> P (Node hd tl).
  Fixpoint tree_ind2 (t : tree) : P t :=
    match t with
    | Leaf n => HL n
    | Node hd tl => HN hd tl (tree_ind2 hd)
        ((fix go (l : list (op * tree)) : Forall (fun ox => P (snd ox)) l :=
           match l with [] => Forall_nil _ | ox :: r => Forall_cons ox (tree_ind2 (snd ox)) (go r) end) tl)
    end.
End tree_ind2.

Lemma split_app_none l a b : (forall o x, In (o, x) a -> prio o <> l) ->
  split l (a ++ b) = (a ++ fst (split l b), snd (split l b)).
Proof.
  induction a as [|[o y] r IH]; intros H; cbn [app split].
  - now destruct (split l b).
  - rewrite IH by (intros; eapply H; right; eauto). cbn [fst snd].
    destruct (prio o =? l) eqn:E; [apply Nat.eqb_eq in E; exfalso; eapply H; [left; reflexivity|exact E]|reflexivity].
Qed.

Lemma split_none l rest : (forall o x, In (o, x) rest -> prio o <> l) -> split l rest = (rest, []).
Proof. intros H. rewrite <- (app_nil_r rest) at 1. rewrite split_app_none by exact H. cbn. now rewrite app_nil_r. Qed.

Lemma canon_atom ls x : canon ls (x, []) = x.
Proof. induction ls as [|l ls IH]; cbn; [reflexivity|exact IH]. Qed.

Lemma AllV_In p l o x : AllV p l -> In (o, x) l -> Valid x /\ above p x.
Proof. induction l as [|[o' x'] r IH]; cbn; [tauto|]. intros [H1 H2] [Heq|Hin]; [inversion Heq; subst; exact H1|auto]. Qed.

Lemma in_ytl tl o y : In (o, y) (ytl tl) ->
  (exists x, In (o, x) tl /\ y = fst (yield x)) \/ (exists o' x, In (o', x) tl /\ In (o, y) (snd (yield x))).
Proof.
  induction tl as [|[o' x'] r IH]; cbn [ytl]; [intros []|]. intros [Heq|Hin].
  - inversion Heq; subst. left. exists x'. split; [left; reflexivity|reflexivity].
  - apply in_app_or in Hin as [Hin|Hin].
    + right. exists o', x'. split; [left; reflexivity|exact Hin].
    + destruct (IH Hin) as [[x [H1 H2]]|[o2 [x [H1 H2]]]]; [left; exists x|right; exists o2, x]; split; auto; right; auto.
Qed.

Lemma ytl_in tl o' x o y : In (o', x) tl -> In (o, y) (snd (yield x)) -> In (o, y) (ytl tl).
Proof.
  induction tl as [|[o1 x1] r1 IHr]; [intros []|]. cbn [ytl]. intros [E|Hx] H.
  - inversion E; subst. right. apply in_or_app. left. exact H.
  - right. apply in_or_app. right. auto.
Qed.

(* every operator in the yield of a valid tree that is `above p` has priority > p *)
Lemma above_yield : forall t p, Valid t -> above p t -> forall o y, In (o, y) (snd (yield t)) -> p < prio o.
Proof.
  induction t as [n|hd tl IHhd IHtl] using tree_ind2; intros p Hv Ha o y Hin.
  - cbn in Hin. destruct Hin.
  - apply Valid_node in Hv as [Hne [p' [Hops [Hvh [Hah Hall]]]]].
    assert (Hpp : p < p').
    { destruct tl as [|[o0 x0] r]; [congruence|]. rewrite <- (Hops o0 x0 (or_introl eq_refl)). apply (Ha o0 x0). left; reflexivity. }
    rewrite yield_node in Hin. cbn [snd] in Hin. apply in_app_or in Hin as [Hin|Hin].
    + specialize (IHhd p' Hvh Hah o y Hin). lia.
    + apply in_ytl in Hin as [[x [H1 H2]]|[o2 [x [H1 H2]]]].
      * rewrite (Hops _ _ H1). exact Hpp.
      * destruct (AllV_In _ _ _ _ Hall H1) as [Hvx Hax].
        rewrite Forall_forall in IHtl. specialize (IHtl (o2, x) H1 p' Hvx Hax o y H2). lia.
Qed.

Lemma split_ytl p tl : (forall o x, In (o, x) tl -> prio o = p) -> AllV p tl ->
  split p (ytl tl) = ([], map (fun ox => (fst ox, yield (snd ox))) tl).
Proof.
  induction tl as [|[o x] r IH]; intros Hops Hall; cbn [ytl map split]; [reflexivity|].
  destruct Hall as [[Hvx Hax] Hall'].
  rewrite split_app_none by (intros o' y Hin; pose proof (above_yield x p Hvx Hax o' y Hin); lia).
  rewrite IH by (auto; intros; eapply Hops; right; eauto). cbn [fst snd]. rewrite app_nil_r.
  rewrite (Hops o x (or_introl eq_refl)), Nat.eqb_refl. cbn [fst snd]. now destruct (yield x).
Qed.

Lemma split_root hd tl p : (forall o x, In (o, x) tl -> prio o = p) -> Valid hd -> above p hd -> AllV p tl ->
  split p (snd (yield (Node hd tl))) = (snd (yield hd), map (fun ox => (fst ox, yield (snd ox))) tl).
Proof.
  intros Hops Hvh Hah Hall. rewrite yield_node. cbn [snd].
  rewrite split_app_none by (intros o y Hin; pose proof (above_yield hd p Hvh Hah o y Hin); lia).
  rewrite split_ytl by assumption. cbn [fst snd]. now rewrite app_nil_r.
Qed.

Theorem canon_yield : forall ls, StronglySorted lt ls ->
  forall t, Valid t -> (forall o y, In (o, y) (snd (yield t)) -> In (prio o) ls) -> canon ls (yield t) = t.
Proof.
  induction ls as [|l ls IH]; intros Hs t Hv Hin.
  - destruct t as [n|hd tl]; [reflexivity|]. exfalso.
    apply Valid_node in Hv as [Hne _]. destruct tl as [|[o x] r]; [congruence|].
    rewrite yield_node in Hin. cbn [snd ytl] in Hin. eapply (Hin o). apply in_or_app. right. left. reflexivity.
  - destruct (StronglySorted_inv Hs) as [Hs' Hlt]. rewrite Forall_forall in Hlt.
    destruct t as [n|hd tl]; [cbn [yield]; apply canon_atom|].
    pose proof Hv as Hv0. apply Valid_node in Hv as [Hne [p [Hops [Hvh [Hah Hall]]]]].
    (* all operators of the yield are >= p, root ones are = p *)
    assert (Hge : forall o y, In (o, y) (snd (yield (Node hd tl))) -> p <= prio o).
    { intros o y H. rewrite yield_node in H. cbn [snd] in H. apply in_app_or in H as [H|H].
      - pose proof (above_yield hd p Hvh Hah o y H). lia.
      - apply in_ytl in H as [[x [H1 H2]]|[o2 [x [H1 H2]]]]; [rewrite (Hops _ _ H1); lia|].
        destruct (AllV_In _ _ _ _ Hall H1) as [Hvx Hax]. pose proof (above_yield x p Hvx Hax o y H2). lia. }
    assert (Hp : In p (l :: ls)).
    { destruct tl as [|[o0 x0] r]; [congruence|]. rewrite <- (Hops o0 x0 (or_introl eq_refl)).
      apply (Hin o0 (fst (yield x0))). rewrite yield_node. cbn [snd ytl]. apply in_or_app. right. left. reflexivity. }
    destruct (Nat.eq_dec p l) as [Heq|Hne'].
    + subst l. cbn [canon]. rewrite (split_root hd tl p Hops Hvh Hah Hall).
      assert (Hsub : forall t', Valid t' -> above p t' -> (forall o y, In (o, y) (snd (yield t')) -> In (prio o) (p :: ls)) -> canon ls (yield t') = t').
      { intros t' Hv' Ha' Hin'. apply IH; [assumption|assumption|]. intros o y H. destruct (Hin' o y H) as [E|E]; [|exact E].
        pose proof (above_yield t' p Hv' Ha' o y H). lia. }
      assert (Hmap : map (fun os : op * seg => (fst os, canon ls (snd os))) (map (fun ox : op * tree => (fst ox, yield (snd ox))) tl) = tl).
      { rewrite map_map. cbn [fst snd]. rewrite <- (map_id tl) at 2. apply map_ext_in. intros [o x] Hx. cbn [fst snd]. f_equal.
        destruct (AllV_In _ _ _ _ Hall Hx) as [Hvx Hax]. apply Hsub; [assumption|assumption|].
        intros o' y H. apply (Hin o' y). rewrite yield_node. cbn [snd]. apply in_or_app. right.
        eapply ytl_in; eauto. }
      assert (Hhd : canon ls (fst (yield (Node hd tl)), snd (yield hd)) = hd).
      { rewrite yield_node. cbn [fst]. rewrite <- surjective_pairing. apply Hsub; [assumption|assumption|].
        intros o y H. apply (Hin o y). rewrite yield_node. cbn [snd]. apply in_or_app. left. exact H. }
      destruct (map (fun ox : op * tree => (fst ox, yield (snd ox))) tl) as [|s0 segs] eqn:Em.
      { destruct tl; [congruence|discriminate Em]. }
      rewrite Hmap, Hhd. reflexivity.
    + assert (Hlp : l < p) by (destruct Hp as [E|E]; [congruence|exact (Hlt p E)]).
      cbn [canon]. rewrite split_none by (intros o y H; pose proof (Hge o y H); lia).
      rewrite <- surjective_pairing. apply IH; [assumption|assumption|].
      intros o y H. destruct (Hin o y H) as [E|E]; [pose proof (Hge o y H); lia|exact E].
Qed.

Theorem climb_eq_canon : forall ls n rest, StronglySorted lt ls -> atoms rest ->
  (forall o y, In (o, y) rest -> In (prio o) ls) -> climb (Leaf n, rest) = canon ls (Leaf n, rest).
Proof.
  intros ls n rest Hs Hat Hin. destruct (climb_parses n rest Hat) as [Hv Hy].
  rewrite <- Hy at 2. symmetry. apply canon_yield; [assumption|assumption|]. rewrite Hy. exact Hin.
Qed.

Theorem grammar_unambiguous : forall ls t t', StronglySorted lt ls -> Valid t -> Valid t' ->
  (forall o y, In (o, y) (snd (yield t)) -> In (prio o) ls) -> yield t = yield t' -> t = t'.
Proof.
  intros ls t t' Hs Hv Hv' Hin Hy. rewrite <- (canon_yield ls Hs t Hv Hin). rewrite Hy. apply canon_yield; [assumption|assumption|].
  rewrite <- Hy. exact Hin.
Qed.
Print Assumptions climb_eq_canon.
Print Assumptions grammar_unambiguous.
