"""Prototype translator: read unit tables out of /repo sources (scratch, phase-1 exploration)."""
import re, json, sys
from fractions import Fraction
R='/repo/src/'
BASES=['KiloGram','Candela','Meter','Second','Ampere','Kelvin','Mole','Byte']
def read(p): return open(R+p).read()

def parse_ids():
    s=read('generated/ids.rs')
    consts={m.group(1):int(m.group(2)) for m in re.finditer(r'pub const (\w+): u32 = (\d+);',s)}
    arms={int(m.group(1)):m.group(2) for m in re.finditer(r'(\d+) => Some\(units::([\w:]+)\)',s)}
    return consts,arms

def parse_closure(body, defs_closures):
    # body: text of powers: ... up to format:
    m=re.match(r'\s*\|(\w+), (\w+)\| \{(.*)\}\s*$',body,re.S)
    if m:
        pv=m.group(2); out=[]
        for im in re.finditer(r'powers\.insert\(Unit::(\w+), ([^)]*)\);',m.group(3)):
            expr=im.group(2).strip()
            if expr==pv: k=1
            else:
                mm=re.match(r'%s \* (-?\d+)$'%pv,expr); assert mm,expr; k=int(mm.group(1))
            out.append((im.group(1),k))
        return out
    body=body.strip()
    mm=re.match(r'(?:crate::units::)?(\w+)\.vtable\.powers$',body)
    if mm: return ('ref',mm.group(1))
    if body=='time_powers': return [('Second',1)]
    raise Exception('closure? '+body)

def parse_units():
    units={}
    for f,mod in [('units/mod.rs',''),('units/area.rs','area::'),('units/energy.rs','energy::'),('units/length.rs','length::'),('units/mass.rs','mass::'),('units/temperature.rs','temperature::'),('units/velocity.rs','velocity::'),('units/volume.rs','volume::')]:
        s=read(f)
        for m in re.finditer(r'pub static (\w+): Derived = Derived \{\s*id: crate::generated::ids::(\w+),\s*vtable: &DerivedVtable \{\s*powers:(.*?),\s*format:(.*?),\s*conversion:(.*?),\s*\},\s*\};',s,re.S):
            name,idn,pw,fmt,conv=m.groups()
            units[mod+name]={'id':idn,'powers':parse_closure(pw,units),'conv':parse_conv(conv),'fmt':fmt}
    s=read('units/time.rs')
    for m in re.finditer(r'pub static (\w+) = \(crate::generated::ids::(\w+), (\d+) / (\d+)\)',s):
        units['time::'+m.group(1)]={'id':m.group(2),'powers':[('Second',1)],'conv':('Factor',int(m.group(3)),int(m.group(4)))}
    # resolve refs
    short={k.split('::')[-1]:k for k in units}
    for k,u in units.items():
        if isinstance(u['powers'],tuple): u['powers']=units[short[u['powers'][1]]]['powers']
    return units

def parse_conv(c):
    c=c.strip()
    if c=='None': return None
    m=re.match(r'Some\(Conversion::(Factor|Offset)\(ConversionFraction \{\s*numer: (\d+),\s*denom: (\d+),\s*\}\)\)',c,re.S)
    if m: return (m.group(1),int(m.group(2)),int(m.group(3)))
    if 'Methods' in c:
        def ops(t): return [(o,int(a),int(b)) for o,a,b in re.findall(r'\*num (\S)= Rational::new\((\d+), (\d+)\);',t)]
        to=re.search(r'to: \|num\| \{(.*?)\},',c,re.S).group(1); fr=re.search(r'from: \|num\| \{(.*?)\},',c,re.S).group(1)
        return ('Methods',ops(to),ops(fr))
    raise Exception('conv? '+c)

def parse_lexers():
    s=read('generated/unit.rs')
    def enum(name):
        body=re.search(r'enum %s \{(.*?)\n\}'%name,s,re.S).group(1)
        toks=[];cur=[]
        for line in body.split('\n'):
            line=line.strip()
            m=re.match(r'#\[token\("(.*)"\)\]',line)
            if m: cur.append(m.group(1))
            elif re.match(r'^\w+,$',line):
                for t in cur: toks.append((t,line[:-1]))
                cur=[]
        return toks
    return enum('Combined'),enum('Units')

if __name__=='__main__':
    consts,arms=parse_ids(); units=parse_units(); comb,un=parse_lexers()
    print(len(consts),len(arms),len(units),len(comb),len(un))
    missing=[k for k in arms.values() if k not in units]; print('missing',missing)
    for k,u in list(units.items())[:5]: print(k,u['powers'],u['conv'])
    print(units['temperature::FAHRENHEIT']['conv'])
