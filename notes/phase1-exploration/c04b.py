import sys, itertools, subprocess, os, re, random
sys.path.insert(0,'/tmp/scratch/proto')
from explore import *
from c05 import baseexpr
PROBE=os.environ['PROBE']
voc={'N':('der','NEWTON'),'J':('der','energy::JOULE'),'W':('der','WATT'),'Pa':('der','PASCAL'),'kg':('base','KiloGram'),'m':('base','Meter'),'s':('base','Second'),'btu':('der','energy::BTU'),'min':('der','time::MINUTE'),'l':('der','volume::LITRE')}
def scale1(w):
    u=voc[w]
    return F(1) if u==('base','KiloGram') else fac(u)
def mk(ws,ps): return [(w,voc[w],0,p) for w,p in zip(ws,ps) if p!=0]
def spell(fs): return '*'.join((w if p==1 else '%s^%d'%(w,p)) for w,u,e,p in fs)
def scale(fs):
    r=F(1)
    for w,u,e,p in fs: r*=scale1(w)**p
    return r
def dimv(fs):
    d={}
    for w,u,e,p in fs:
        for b,k in dims(u).items(): d[b]=d.get(b,0)+k*p
    return {b:k for b,k in d.items() if k}
rnd=random.Random(5); cases=[]
names=list(voc)
for _ in range(int(sys.argv[1])):
    A=mk(rnd.sample(names,rnd.choice([1,2,3])),[rnd.randint(-3,3) for _ in range(3)])
    B=mk(rnd.sample(names,rnd.choice([1,2,3])),[rnd.randint(-3,3) for _ in range(3)])
    if not A or not B: continue
    n=rnd.choice([1,-1]); op='*' if n==1 else '/'
    d=dimv(A+[(w,u,e,p*n) for w,u,e,p in B])
    x=F(rnd.randint(1,9)); y=F(rnd.randint(1,9))
    if d: q='(%d %s %s %d %s) to %s'%(x,spell(A),op,y,spell(B),baseexpr(d))
    else: q='%d %s %s %d %s'%(x,spell(A),op,y,spell(B))
    cases.append((q,x*scale(A)*(y*scale(B))**n, bool(d)))
out=subprocess.run([PROBE],input='\n'.join(c[0] for c in cases)+'\n',capture_output=True,text=True).stdout.split('\n')
bad=0
for (q,exp,hasd),o in zip(cases,out):
    r=o.split(' => ',1)[1] if ' => ' in o else o
    m=re.match(r'^(-?\d+)/(\d+) \[(.*)\]$',r)
    ok = m is not None and F(int(m.group(1)),int(m.group(2)))==exp and (hasd or m.group(3)=='')
    if not ok:
        bad+=1
        if bad<=15: print(q,'|',r[:80],'| expected',exp)
print('cases',len(cases),'bad',bad)
