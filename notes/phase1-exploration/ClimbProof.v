(* Scratch calibration (phase 1): the repaired stack algorithm always produces a parse that is valid for the
   documented grammar (n-ary, left-associative nodes of one priority whose children are atoms or nodes of
   strictly higher priority) and whose yield is the input. Unbounded in the number of operators. *)
From Coq Require Import List Arith Lia Bool Sorted.
Import ListNotations.
Require Import Climb.

(* --- grammar validity --- *)
Definition above (p : nat) (t : tree) : Prop :=
  match t with Leaf _ => True | Node _ tl => forall o x, In (o, x) tl -> p < prio o end.

Fixpoint Valid (t : tree) : Prop :=
  match t with
  | Leaf _ => True
  | Node hd tl =>
      tl <> [] /\
      exists p, (forall o x, In (o, x) tl -> prio o = p) /\
                Valid hd /\ above p hd /\
                (fix all (l : list (op * tree)) : Prop :=
                   match l with [] => True | (_, x) :: r => (Valid x /\ above p x) /\ all r end) tl
  end.

Fixpoint AllV (p : nat) (l : list (op * tree)) : Prop :=
  match l with [] => True | (_, x) :: r => (Valid x /\ above p x) /\ AllV p r end.

Lemma Valid_node hd tl :
  Valid (Node hd tl) <-> tl <> [] /\ exists p, (forall o x, In (o, x) tl -> prio o = p) /\ Valid hd /\ above p hd /\ AllV p tl.
Proof.
  cbn [Valid]. split; intros [H0 [p [H1 [H2 [H3 H4]]]]]; (split; [exact H0|]); exists p; repeat split; try assumption.
  - clear H0 H1. induction tl as [|[o x] r IH]; cbn in *; tauto.
  - clear H0 H1. induction tl as [|[o x] r IH]; cbn in *; tauto.
Qed.

Lemma AllV_app p a b : AllV p (a ++ b) <-> AllV p a /\ AllV p b.
Proof. induction a as [|[o x] r IH]; cbn; tauto. Qed.

(* --- yield: the operand/operator sequence a tree stands for --- *)
Fixpoint yield (t : tree) : seg :=
  match t with
  | Leaf n => (Leaf n, [])
  | Node hd tl =>
      let (x0, r0) := yield hd in
      (x0, r0 ++ (fix go (l : list (op * tree)) : list (op * tree) :=
                    match l with [] => [] | (o, x) :: r => let (y0, ry) := yield x in (o, y0) :: ry ++ go r end) tl)
  end.
Fixpoint ytl (l : list (op * tree)) : list (op * tree) :=
  match l with [] => [] | (o, x) :: r => (o, fst (yield x)) :: snd (yield x) ++ ytl r end.
Lemma yield_node hd tl : yield (Node hd tl) = (fst (yield hd), snd (yield hd) ++ ytl tl).
Proof.
  cbn [yield]. destruct (yield hd) as [x0 r0]. cbn [fst snd]. f_equal. f_equal.
  induction tl as [|[o x] r IH]; cbn [ytl]; [reflexivity|]. destruct (yield x) as [y0 ry]. cbn [fst snd]. now rewrite IH.
Qed.
Lemma ytl_app a b : ytl (a ++ b) = ytl a ++ ytl b.
Proof. induction a as [|[o x] r IH]; cbn [ytl app]; [reflexivity|]. rewrite IH. now rewrite <- !app_assoc. Qed.

(* the sequence represented by a parser state: frames (top first), current operand, unread input *)
Definition fyield (f : frame) (inner : seg) : seg :=
  (fst (yield (fhd f)), snd (yield (fhd f)) ++ ytl (ftl f) ++ (fd f, fst inner) :: snd inner).
Definition unwind (S : list frame) (inner : seg) : seg := fold_left (fun i f => fyield f i) S inner.
Definition state_yield (S : list frame) (x : tree) (rest : list (op * tree)) : seg :=
  unwind S (fst (yield x), snd (yield x) ++ rest).

(* --- invariant --- *)
Definition frame_ok (f : frame) : Prop :=
  (forall o x, In (o, x) (ftl f) -> prio o = fp f) /\ prio (fd f) = fp f /\
  Valid (fhd f) /\ above (fp f) (fhd f) /\ AllV (fp f) (ftl f).
Definition stack_ok (S : list frame) : Prop :=
  StronglySorted (fun a b => fp b < fp a) S /\ Forall frame_ok S.
Definition top_above (S : list frame) (x : tree) : Prop :=
  match S with [] => True | f :: _ => above (fp f) x end.

Lemma close_valid f x : frame_ok f -> Valid x -> above (fp f) x -> Valid (close f x) /\ (forall p, p < fp f -> above p (close f x)).
Proof.
  intros (Hops & Hd & Hv & Ha & Hall) Hx Hax. unfold close. split.
  - apply Valid_node. split; [destruct (ftl f); discriminate|]. exists (fp f). repeat split; try assumption.
    + intros o y Hin. apply in_app_or in Hin as [Hin|[Heq|[]]]; [eauto|]. now inversion Heq; subst.
    + apply AllV_app. split; [assumption|]. cbn. tauto.
  - intros p Hp o y Hin. cbn in Hin. apply in_app_or in Hin as [Hin|[Heq|[]]].
    + rewrite (Hops _ _ Hin). exact Hp.
    + inversion Heq; subst. rewrite Hd. exact Hp.
Qed.

Lemma fresh_ok q x o : prio o = q -> Valid x -> above q x -> frame_ok (fresh q x o).
Proof. intros; unfold frame_ok, fresh; cbn; repeat split; try assumption; intros ? ? []. Qed.

Lemma reduce_inv q o S x :
  prio o = q -> stack_ok S -> Valid x -> top_above S x ->
  (match S with f :: _ => fp f < q -> above q x | [] => above q x end) ->
  stack_ok (reduce q o S x).
Proof.
  intros Ho. revert x. induction S as [|f rest IH]; intros x [Hs Hf] Hx Htop Hq.
  - cbn. split; [repeat constructor|]. constructor; [|constructor]. now apply fresh_ok.
  - cbn [reduce]. destruct (StronglySorted_inv Hs) as [Hs' Hlt]. pose proof (Forall_inv Hf) as Hf1. pose proof (Forall_inv_tail Hf) as Hf'.
    cbn in Htop. destruct (close_valid f x Hf1 Hx Htop) as [Hcv Hca].
    destruct (q <? fp f) eqn:E1.
    + apply Nat.ltb_lt in E1. destruct rest as [|g rest'].
      * split; [repeat constructor|]. constructor; [|constructor]. apply fresh_ok; auto.
      * destruct (q <=? fp g) eqn:E2.
        -- apply Nat.leb_le in E2. apply IH; [split; assumption|exact Hcv| |].
           ++ cbn. apply Hca. exact (Forall_inv Hlt).
           ++ intros Hlt'. lia.
        -- apply Nat.leb_gt in E2. split.
           ++ constructor; [assumption|]. constructor; [cbn; lia|].
              destruct (StronglySorted_inv Hs') as [_ Hlt2]. eapply Forall_impl; [|exact Hlt2]. cbn. intros; lia.
           ++ constructor; [|assumption]. apply fresh_ok; auto.
    + apply Nat.ltb_ge in E1. destruct (fp f <? q) eqn:E3.
      * apply Nat.ltb_lt in E3. split.
        -- constructor; [constructor; assumption|]. constructor; [cbn; lia|].
           eapply Forall_impl; [|exact Hlt]. cbn. intros; lia.
        -- constructor; [|constructor; assumption]. apply fresh_ok; auto.
      * apply Nat.ltb_ge in E3. assert (q = fp f) by lia. subst q. split.
        -- constructor; [assumption|]. exact Hlt.
        -- constructor; [|assumption]. destruct Hf1 as (Hops & Hd & Hv & Ha & Hall).
           unfold frame_ok; cbn. repeat split; try assumption.
           ++ intros o' y Hin. apply in_app_or in Hin as [Hin|[Heq|[]]]; [eauto|]. now inversion Heq; subst.
           ++ apply AllV_app. split; [assumption|]. cbn. tauto.
Qed.

Lemma unwind_cons f S i : unwind (f :: S) i = unwind S (fyield f i).
Proof. reflexivity. Qed.

Lemma reduce_yield q o S x y rest : yield y = (y, []) ->
  state_yield (reduce q o S x) y rest = state_yield S x ((o, y) :: rest).
Proof.
  intros Hy.
  assert (Hclose : forall f x0 S', state_yield (fresh q (close f x0) o :: S') y rest = state_yield (f :: S') x0 ((o, y) :: rest)).
  { intros f x0 S'. unfold state_yield. rewrite Hy. cbn [fst snd app]. rewrite !unwind_cons. f_equal.
    unfold fyield, fresh, close; cbn [fp fhd ftl fd fst snd ytl app].
    rewrite yield_node. cbn [fst snd]. rewrite ytl_app. cbn [ytl]. rewrite app_nil_r.
    repeat (rewrite <- app_assoc; cbn [app]). reflexivity. }
  assert (Hpop : forall f x0 S', state_yield S' (close f x0) ((o, y) :: rest) = state_yield (f :: S') x0 ((o, y) :: rest)).
  { intros f x0 S'. unfold state_yield. rewrite !unwind_cons. f_equal. unfold fyield, close; cbn [fst snd].
    rewrite yield_node. cbn [fst snd]. rewrite ytl_app. cbn [ytl]. rewrite app_nil_r. repeat (rewrite <- app_assoc; cbn [app]). reflexivity. }
  revert x. induction S as [|f rest' IH]; intros x.
  - unfold state_yield. rewrite Hy. cbn. unfold fyield, fresh; cbn. reflexivity.
  - cbn [reduce]. destruct (q <? fp f).
    + destruct rest' as [|g r]; [apply Hclose|]. destruct (q <=? fp g); [|apply Hclose].
      rewrite IH. apply Hpop.
    + destruct (fp f <? q).
      * unfold state_yield. rewrite Hy. cbn [fst snd app]. rewrite unwind_cons. f_equal.
      * unfold state_yield. rewrite Hy. cbn [fst snd app]. rewrite !unwind_cons. f_equal. unfold fyield; cbn [fp fhd ftl fd fst snd].
        rewrite ytl_app. cbn [ytl]. rewrite app_nil_r. repeat (rewrite <- app_assoc; cbn [app]). reflexivity.
Qed.

Lemma finish S x : stack_ok S -> Valid x -> top_above S x ->
  Valid (fold_left (fun x f => close f x) S x) /\ yield (fold_left (fun x f => close f x) S x) = state_yield S x [].
Proof.
  revert x. induction S as [|f rest IH]; intros x [Hs Hf] Hx Htop.
  - cbn. split; [assumption|]. unfold state_yield; cbn. rewrite app_nil_r. now destruct (yield x).
  - cbn [fold_left]. destruct (StronglySorted_inv Hs) as [Hs' Hlt]. pose proof (Forall_inv Hf) as Hf1. pose proof (Forall_inv_tail Hf) as Hf'.
    destruct (close_valid f x Hf1 Hx Htop) as [Hcv Hca].
    destruct (IH (close f x)) as [Hv Hy]; [split; assumption|assumption| |].
    + destruct rest as [|g r]; cbn; [exact I|]. apply Hca. exact (Forall_inv Hlt).
    + split; [assumption|]. rewrite Hy. unfold state_yield. rewrite unwind_cons. f_equal.
      unfold fyield, close; cbn [fst snd]. rewrite yield_node. cbn [fst snd]. rewrite ytl_app. cbn [ytl]. rewrite !app_nil_r.
      repeat (rewrite <- app_assoc; cbn [app]). reflexivity.
Qed.

Definition atoms (rest : list (op * tree)) : Prop := forall o x, In (o, x) rest -> exists n, x = Leaf n.

Lemma run_correct rest : atoms rest -> forall S x,
  stack_ok S -> Valid x -> top_above S x -> (exists n, x = Leaf n) ->
  Valid (run reduce S x rest) /\ yield (run reduce S x rest) = state_yield S x rest.
Proof.
  induction rest as [|[o y] rest IH]; intros Hat S x HS Hx Htop [n Hn].
  - cbn [run]. now apply finish.
  - cbn [run]. destruct (Hat o y (or_introl eq_refl)) as [m Hm]. subst x y.
    destruct (IH (fun o x H => Hat o x (or_intror H)) (reduce (prio o) o S (Leaf n)) (Leaf m)) as [Hv Hy].
    + apply reduce_inv; auto; destruct S; cbn; auto.
    + exact I.
    + destruct (reduce (prio o) o S (Leaf n)); cbn; exact I.
    + eauto.
    + split; [exact Hv|]. rewrite Hy. now apply reduce_yield.
Qed.

Theorem climb_parses : forall n rest, atoms rest ->
  Valid (climb (Leaf n, rest)) /\ yield (climb (Leaf n, rest)) = (Leaf n, rest).
Proof.
  intros n rest Hat. unfold climb; cbn [fst snd].
  destruct (run_correct rest Hat [] (Leaf n)) as [Hv Hy]; [split; constructor|exact I|exact I|eauto|].
  split; [exact Hv|]. rewrite Hy. reflexivity.
Qed.
Print Assumptions climb_parses.
