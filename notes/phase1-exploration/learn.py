import sys, subprocess, random
sys.path.insert(0,'/tmp/scratch/proto')
from tables import parse_lexers
LEX='/tmp/scratch/target_fx/debug/lexstep'
comb,un=parse_lexers()
def ask(which, inputs):
    out=subprocess.run([LEX],input='\n'.join('%s %s'%(which,b.hex()) for b in inputs)+'\n',capture_output=True,text=True).stdout.strip().split('\n')
    res=[]
    for o in out:
        if o=='NONE': res.append(None)
        else:
            v,n=o.rsplit(' ',1); res.append((v,int(n)))
    return res
def trie(tokens):
    nodes={b'':set()}
    for t,_ in tokens:
        b=t.encode()
        for i in range(len(b)):
            nodes.setdefault(b[:i],set()).add(b[i]); nodes.setdefault(b[:i+1],set())
    return nodes
def valid(b):
    try: b.decode(); return True
    except: return False
def filler(node, children):
    # a byte sequence continuing `node` validly, whose first byte is not a child
    for cand in [b'#', b'\xa1', b'\xb1', b'\x81']:
        if cand[0] not in children and valid(node+cand): return cand
    return None
def learn(which, tokens):
    nodes=trie(tokens); table={}
    qs=[];keys=[]
    for n,ch in nodes.items():
        if valid(n): qs.append(n); keys.append((n,'end'))
        f=filler(n,ch)
        if f is not None: qs.append(n+f); keys.append((n,'other'))
    res=ask(which,qs)
    for k,r in zip(keys,res): table[k]=r
    return nodes,table
def predict(nodes,table,b):
    # walk
    i=0
    while i<len(b) and b[i] in nodes[b[:i]]: i+=1
    node=b[:i]
    return table.get((node,'end' if i==len(b) else 'other'),'UNKNOWN')
def ideal(tokens,b):
    best=None
    for t,v in tokens:
        tb=t.encode()
        if b.startswith(tb) and (best is None or len(tb)>best[1]): best=(v,len(tb))
    return best
if __name__=='__main__':
    rnd=random.Random(3)
    for which,tokens in (('C',comb),('U',un)):
        nodes,table=learn(which,tokens)
        print(which,'tokens',len(tokens),'trie nodes',len(nodes),'table entries',len(table))
        # discrepancies between learned outcome and ideal maximal munch
        disc=[]
        for (n,kind),r in table.items():
            probe=n if kind=='end' else n+b'#'
            idl=ideal(tokens,probe if kind=='end' else n)  # ideal looks only at node bytes
            got=None if r is None else r
            want=None
            if idl is not None: want=idl
            elif kind=='end' and n==b'': want=None
            else: want=('ERR',None)
            ok = (got==want) or (want and want[0]=='ERR' and got and got[0]=='ERR') or (got is None and want is None)
            if not ok: disc.append((n,kind,got,want))
        print('  nodes where the generated lexer differs from maximal munch:',len(disc))
        for d in disc[:12]: print('    ',d)
        # validation on random strings: fragments of tokens glued together
        toks=[t.encode() for t,_ in tokens]
        tests=[]
        for _ in range(40000):
            t=rnd.choice(toks); cut=rnd.randint(0,len(t)); s=t[:cut]
            k=rnd.random()
            if k<0.5:
                t2=rnd.choice(toks); s+=t2[:rnd.randint(0,len(t2))]
            elif k<0.8:
                s+=bytes([rnd.choice(b'abcdefghijklmnopqrstuvwxyzABCDEFGHIJKLMNOPQRSTUVWXYZ-#19 ')])+rnd.choice(toks)[:2]
            if valid(s) and s: tests.append(s)
        res=ask(which,tests)
        bad=0;unk=0
        for s,r in zip(tests,res):
            p=predict(nodes,table,s)
            if p=='UNKNOWN': unk+=1; continue
            pp=p
            # ERR consumed length may depend on input; compare variant and, for tokens, length
            if (p is None)!=(r is None) or (p and r and (p[0]!=r[0] or (p[0]!='ERR' and p[1]!=r[1]))):
                bad+=1
                if bad<8: print('   MISPREDICT',s,'pred',p,'got',r)
        print('  validation strings',len(tests),'mispredicted',bad,'unknown-node',unk)
