(* C05: what the unit-word parser accepts, against the specification -- decided inside the kernel by computation over the
   translated tables (token tables, learned lexer tables, unit definitions, documented names) and the hand-written reference. *)
From Coq Require Import ZArith NArith QArith List Bool Lia.
Import ListNotations.
From AV Require Import model.Syntax model.UnitTypes model.Map model.Units model.UnitWord spec.UnitWordSpec spec.RefUnits
  gen.UnitWords gen.UnitDefs gen.Tables.
Open Scope Z_scope.

(* ---- the learned tables are tries: the recorded path of a child is the path of its parent plus the edge byte ---- *)
Definition trie_consistent (trie : list node) : bool :=
  match trie with [] => false | root :: _ => match npath root with [] => true | _ => false end end &&
  forallb (fun nd => forallb (fun e => match nth_error trie (snd e) with
                                       | Some c => bytes_eqb (npath c) (npath nd ++ [fst e])
                                       | None => false end) (edges nd)) trie.
Theorem tries_consistent : trie_consistent combined_trie = true /\ trie_consistent units_trie = true.
Proof. split; vm_compute; reflexivity. Qed.

(* ---- clean nodes: where the generated lexer agrees with maximal munch ---- *)
Definition combined_clean : list bool := Eval vm_compute in List.map (node_clean combined_tokens) combined_trie.
Definition units_clean : list bool := Eval vm_compute in List.map (node_clean units_tokens) units_trie.
(* a word is clean when every lexer step of its parse stops at a clean node *)
Fixpoint clean_units (fuel : nat) (s : list N) : bool :=
  match fuel with O => true | S f =>
    nth (walk_node units_trie 0 s) units_clean false &&
    match walk units_trie 0 s with OTok WSep len => clean_units f (skipn len s) | _ => true end end.
Fixpoint clean_combined (fuel : nat) (s : list N) : bool :=
  match fuel with O => true | S f =>
    nth (walk_node combined_trie 0 s) combined_clean false &&
    match walk combined_trie 0 s with
    | OTok WSep len => clean_combined f (skipn len s)
    | OTok (WPrefix _ _) len => clean_units (S (length s)) (skipn len s)
    | _ => true
    end end.
Definition clean_word (s : list N) : bool := clean_combined (S (length s)) s.

(* ---- (a) every word of the cross product prefix spelling x unit name (and every bare name): if the parser accepts it and its
        path is clean, the reading is one of the valid (prefix, name) splits of the word ---- *)
Definition cross_words : list (list N) :=
  List.map fst unit_names ++ flat_map (fun pe => List.map (fun nu => fst pe ++ fst nu) unit_names) prefix_spellings.
Definition word_ok (w : list N) : bool :=
  match parse_word w with
  | Some ([], e, u) => negb (clean_word w) || is_valid_reading w e u
  | Some (_ :: _, e, u) => true           (* a word that continues with further units: covered by its first part *)
  | None => true
  end.
Theorem cross_product_sound : forallb word_ok cross_words = true.
Proof. vm_compute. reflexivity. Qed.
(* ... and the deviation is real: "dal" (deca + l) is read as decilitre *)
Example logos_refuted : exists w e u, parse_word w = Some ([], e, u) /\ is_valid_reading w e u = false /\ clean_word w = false.
Proof. exists [100; 97; 108]%N. eexists. eexists. split; [vm_compute; reflexivity|]. split; vm_compute; reflexivity. Qed.

(* ---- (b) every documented name (tools/gen/data.toml) parses on its own to exactly the unit it is documented for, with prefix
        exponent 0 plus the unit's bias (-3 for gram) ---- *)
Definition documented_ok (d : list N * N * Z) : bool :=
  let '(name, u, bias) := d in
  match parse_word name with Some ([], e, u') => (e =? bias) && (u' =? u)%N | _ => false end.
Theorem documented_names_complete : forallb documented_ok documented_names = true.
Proof. vm_compute. reflexivity. Qed.

(* ---- (c) definitions: every reference unit word denotes a unit with the reference dimensions and one of the accepted values ---- *)
Definition dims_of (u : unit) : list Z :=
  List.map (fun i => fold_right (fun bk acc => (if (fst bk =? base_key (N.of_nat i))%N then snd bk else 0) + acc) 0 (closure_of u)) (seq 0 8).
Fixpoint zlist_eqb (a b : list Z) : bool :=
  match a, b with [], [] => true | x :: a', y :: b' => (x =? y) && zlist_eqb a' b' | _, _ => false end.
Definition factor_of (u : unit) : Z * Z := match conv_of u with CFactor n d => (n, d) | _ => (1, 1) end.
Definition ref_ok (r : list N * list Z * list (Z * Z)) : bool :=
  let '(w, dims, values) := r in
  match parse_word w with
  | Some ([], 0, u) =>
      zlist_eqb (dims_of u) dims &&
      let '(n, d) := factor_of u in existsb (fun v => n * snd v =? fst v * d) values
  | _ => false
  end.
Definition is_known_bad (w : list N) : bool := existsb (bytes_eqb w) known_bad_words.

Theorem definitions_match_reference :
  forallb (fun r => is_known_bad (fst (fst r)) || ref_ok r) ref_units = true.
Proof. vm_compute. reflexivity. Qed.
(* the recorded findings are real: the code's Dalton, pint and fathom match none of their reference readings *)
Theorem known_bad_refuted : forallb (fun r => negb (is_known_bad (fst (fst r))) || negb (ref_ok r)) ref_units = true.
Proof. vm_compute. reflexivity. Qed.
(* the reference covers every derived unit of the code *)
Definition ref_covered (id : N) : bool :=
  existsb (fun r : list N * list Z * list (Z * Z) => match parse_word (fst (fst r)) with Some (_, _, u) => (u =? id)%N | None => false end) ref_units ||
  existsb (fun r : list N * list Z => match parse_word (fst r) with Some (_, _, u) => (u =? id)%N | None => false end) ref_scales.
Theorem reference_covers_all_units :
  forallb (fun r : drow => match r with (id, _, _, _, _) => ref_covered id end) derived_table = true.
Proof. vm_compute. reflexivity. Qed.
Theorem scales_are_kelvin :
  forallb (fun r : list N * list Z => match parse_word (fst r) with Some ([], 0, u) => zlist_eqb (dims_of u) (snd r) | _ => false end) ref_scales = true.
Proof. vm_compute. reflexivity. Qed.
