(* C01 + C06 end to end, on the token level: for EVERY expression over readable number literals, + - * / ^ ** and parentheses,
   with any blanks, the parser model builds a tree that the evaluator model reads as the expression grouped the way the
   documented grammar prescribes ([canon] inside every parenthesised group), and the evaluator returns exactly the rational
   number exact arithmetic assigns to that grouping, or an error where it is undefined.
   Pieces: proofs/ParseChains.v (the tree), a position-free version [shape0] of the shape relation of proofs/EvalExact.v,
   the reading of rendered trees ([ritems_shape]), proofs/EvalExact.v (the value). *)
From Coq Require Import ZArith NArith QArith List Arith Bool Lia Sorted.
Import ListNotations.
From AV Require Import model.Syntax model.Grammar model.Literal model.Rat model.Eval spec.Arith spec.Climb
  proofs.ClimbProofs proofs.ParseGeneral proofs.ParseChains proofs.EvalExact.
Local Close Scope N_scope. Local Close Scope Z_scope. Local Close Scope Q_scope.
Local Open Scope nat_scope.

Definition lit_ok (text : list chr) (q : Q) : Prop := forall span, parse_number span text = Ok (q, []).

(* ---- a shape relation that does not mention positions ---- *)
Definition is_node (t : Grammar.tree) : bool := match t with Grammar.Node _ (_ :: _) => true | _ => false end.
Definition nodes_of (l : list Grammar.tree) : list Grammar.tree := filter is_node l.

Inductive shape0 : Grammar.tree -> Arith.expr -> Prop :=
  | S0_num text q : lit_ok text q -> shape0 (Grammar.Node NUMBER [Tok NUMBER text]) (Lit q)
  | S0_pct text rest q : lit_ok text q -> shape0 (Grammar.Node PERCENTAGE (Tok NUMBER text :: rest)) (Lit (q / (100 # 1))%Q)
  | S0_op ch base rest eb ee : nodes_of ch = base :: rest -> shape0 base eb -> pairs0 rest eb ee ->
      shape0 (Grammar.Node OPERATION ch) ee
with pairs0 : list Grammar.tree -> Arith.expr -> Arith.expr -> Prop :=
  | P0_nil acc : pairs0 [] acc acc
  | P0_cons k opch rhs rest acc o er ee : binop_kind o k -> shape0 rhs er -> pairs0 rest (Bin o acc er) ee ->
      pairs0 (Grammar.Node k opch :: rhs :: rest) acc ee.
Scheme shape0_mut := Induction for shape0 Sort Prop
  with pairs0_mut := Induction for pairs0 Sort Prop.

Fixpoint annl (p : N) (l : list Grammar.tree) : list atree * N :=
  match l with
  | [] => ([], p)
  | x :: r => let '(ax, p1) := annotate p x in let '(ar, p2) := annl p1 r in (ax :: ar, p2)
  end.
Lemma annotate_node pos k ch :
  annotate pos (Grammar.Node k ch) = (ANode k (fst (annl pos ch)) pos (snd (annl pos ch)), snd (annl pos ch)).
Proof.
  cbn [annotate].
  change ((fix go (p : N) (l : list Grammar.tree) {struct l} : list atree * N :=
             match l with
             | [] => ([], p)
             | x :: r => let '(ax, p1) := annotate p x in let '(ar, p2) := go p1 r in (ax :: ar, p2)
             end) pos ch) with (annl pos ch).
  destruct (annl pos ch); reflexivity.
Qed.
Lemma annl_cons p x r : annl p (x :: r) = (fst (annotate p x) :: fst (annl (snd (annotate p x)) r), snd (annl (snd (annotate p x)) r)).
Proof. cbn [annl]. destruct (annotate p x) as [ax p1]. cbn [fst snd]. destruct (annl p1 r) as [ar p2]. reflexivity. Qed.
Lemma annotate_kind p t : Eval.akind (fst (annotate p t)) = match t with Tok k _ | Grammar.Node k _ => k end.
Proof. destruct t as [k x|k ch]; [reflexivity|]. rewrite annotate_node. reflexivity. Qed.
Lemma has_children_annotate p t : has_children (fst (annotate p t)) = is_node t.
Proof.
  destruct t as [k x|k ch]; [reflexivity|]. rewrite annotate_node. cbn [fst]. unfold has_children. cbn [achildren].
  destruct ch as [|c r]; [reflexivity|]. rewrite annl_cons. reflexivity.
Qed.

Definition annotates (t : Grammar.tree) (a : atree) : Prop := exists q, a = fst (annotate q t).
Lemma skip_annl : forall l p, Forall2 annotates (nodes_of l) (skip_tokens (fst (annl p l))).
Proof.
  induction l as [|x r IH]; intros p; [constructor|]. rewrite annl_cons. cbn [fst]. unfold skip_tokens, nodes_of. cbn [filter].
  rewrite has_children_annotate. destruct (is_node x); [constructor; [now exists p|]|]; apply IH.
Qed.
Lemma skip_forest : forall l p, Forall2 annotates (nodes_of l) (skip_tokens (annotate_forest p l)).
Proof.
  induction l as [|x r IH]; intros p; [constructor|]. cbn [annotate_forest].
  pose proof (has_children_annotate p x) as H. destruct (annotate p x) as [ax p1] eqn:E. cbn [fst] in H.
  unfold skip_tokens, nodes_of. cbn [filter]. rewrite H.
  destruct (is_node x); [constructor; [exists p; now rewrite E|]|]; apply IH.
Qed.

Lemma shape0_annotate : forall t e, shape0 t e -> forall p, shape (fst (annotate p t)) e.
Proof.
  apply (shape0_mut (fun t e _ => forall p, shape (fst (annotate p t)) e)
                    (fun l acc ee _ => forall al, Forall2 annotates l al -> pairs al acc ee)).
  - intros text q Hq p. rewrite annotate_node. cbn [fst annl annotate]. apply S_num; [reflexivity|].
    cbn [aspan atext]. rewrite app_nil_r. apply Hq.
  - intros text rest q Hq p. rewrite annotate_node. cbn [fst]. rewrite annl_cons. cbn [fst annotate].
    apply S_pct; [reflexivity|]. cbn [atext]. apply Hq.
  - intros ch base rest eb ee Hn _ IHb _ IHp p. rewrite annotate_node. cbn [fst].
    pose proof (skip_annl ch p) as F. rewrite Hn in F. inversion F as [|b ab r ar [q Hab] Fr Eb Ea]. subst.
    eapply S_op; [symmetry; eassumption|apply IHb|apply IHp; exact Fr].
  - intros acc al F. inversion F. constructor.
  - intros k opch rhs rest acc o er ee Hk _ IHr _ IHp al F.
    inversion F as [|x1 a1 r1 ar1 [q1 Ha1] F1]. subst. inversion F1 as [|x2 a2 r2 ar2 [q2 Ha2] F2]. subst.
    eapply P_cons; [|apply IHr|apply IHp; exact F2].
    rewrite annotate_kind. exact Hk.
Qed.

(* ---- reading a rendered tree ---- *)
Lemma nodes_of_app a b : nodes_of (a ++ b) = nodes_of a ++ nodes_of b.
Proof. apply filter_app. Qed.
Lemma nodes_of_wsT w : nodes_of (wsT w) = [].
Proof. induction w as [|t w IH]; [reflexivity|]. exact IH. Qed.

Definition okop (n : nat) (o : op) : Prop := 1 <= snd o <= n.
Fixpoint inr (n : nat) (t : Climb.tree) : Prop :=
  match t with
  | Leaf m => m <= n
  | Climb.Node hd tl =>
      inr n hd /\ (fix all (l : list (op * Climb.tree)) : Prop :=
                     match l with [] => True | (o, x) :: r => (okop n o /\ inr n x) /\ all r end) tl
  end.
Fixpoint inr_tl (n : nat) (l : list (op * Climb.tree)) : Prop :=
  match l with [] => True | (o, x) :: r => (okop n o /\ inr n x) /\ inr_tl n r end.
Lemma inr_node n hd tl : inr n (Climb.Node hd tl) <-> (inr n hd /\ inr_tl n tl).
Proof.
  cbn [inr]. assert (E : forall l, (fix all (l : list (op * Climb.tree)) : Prop :=
       match l with [] => True | (o, x) :: r => (okop n o /\ inr n x) /\ all r end) l <-> inr_tl n l).
  { induction l as [|[o x] r IH]; cbn [inr_tl]; tauto. }
  rewrite E. tauto.
Qed.
Lemma inr_tl_app n a b : inr_tl n (a ++ b) <-> inr_tl n a /\ inr_tl n b.
Proof. induction a as [|[o x] r IH]; cbn [app inr_tl]; tauto. Qed.


(* what the precedence discipline builds from the operands 0..n and the operators 1..n stays within that range *)
Definition inrf (n : nat) (f : frame) : Prop := inr n (fhd f) /\ inr_tl n (ftl f) /\ okop n (fd f).
Lemma close_inr n f x : inrf n f -> inr n x -> inr n (close f x).
Proof.
  intros [H1 [H2 H3]] Hx. unfold close. apply inr_node. split; [exact H1|]. apply inr_tl_app. split; [exact H2|]. cbn. tauto.
Qed.
Lemma reduce_inr n q o : okop n o -> forall S x, Forall (inrf n) S -> inr n x -> Forall (inrf n) (reduce q o S x).
Proof.
  intros Ho. induction S as [|f rest IH]; intros x HS Hx; cbn [reduce].
  - constructor; [|constructor]. unfold inrf, fresh; cbn [fhd ftl fd inr_tl]; tauto.
  - inversion HS as [|f' rest' Hf Hrest]. subst.
    destruct (q <? fp f).
    + pose proof (close_inr n f x Hf Hx) as Hc. destruct rest as [|g rest2].
      * constructor; [|constructor]. unfold inrf, fresh; cbn [fhd ftl fd inr_tl]; tauto.
      * destruct (q <=? fp g); [apply IH; assumption|]. constructor; [|exact Hrest]. unfold inrf, fresh; cbn [fhd ftl fd inr_tl]; tauto.
    + destruct (fp f <? q).
      * constructor; [|exact HS]. unfold inrf, fresh; cbn [fhd ftl fd inr_tl]; tauto.
      * constructor; [|exact Hrest]. destruct Hf as [H1 [H2 H3]]. unfold inrf. cbn [fhd ftl fd]. split; [exact H1|]. split; [|exact Ho].
        apply inr_tl_app. split; [exact H2|]. cbn. tauto.
Qed.
Lemma run_inr n : forall rest S x, Forall (inrf n) S -> inr n x -> inr_tl n rest -> inr n (run reduce S x rest).
Proof.
  induction rest as [|[o y] rest IH]; intros S x HS Hx Hr; cbn [run].
  - revert x Hx. induction HS as [|f S' Hf _ IHS]; intros x Hx; cbn [fold_left]; [exact Hx|]. apply IHS. now apply close_inr.
  - cbn [inr_tl] in Hr. destruct Hr as [[Ho Hy] Hr]. apply IH; [apply reduce_inr; assumption|exact Hy|exact Hr].
Qed.

Section Sem.
Variables glue body : nat -> list Grammar.tree.
Variable opd : nat -> Arith.expr.      (* what operand n denotes *)
Variable opb : nat -> binop.           (* the operator with tag i *)

Fixpoint texpr (t : Climb.tree) : Arith.expr :=
  match t with
  | Leaf n => opd n
  | Climb.Node hd tl =>
      (fix go (l : list (op * Climb.tree)) (acc : Arith.expr) : Arith.expr :=
         match l with [] => acc | (o, x) :: r => go r (Bin (opb (snd o)) acc (texpr x)) end) tl (texpr hd)
  end.
Fixpoint tfold (l : list (op * Climb.tree)) (acc : Arith.expr) : Arith.expr :=
  match l with [] => acc | (o, x) :: r => tfold r (Bin (opb (snd o)) acc (texpr x)) end.
Lemma texpr_node hd tl : texpr (Climb.Node hd tl) = tfold tl (texpr hd).
Proof. reflexivity. Qed.

Variable bound : nat.
Hypothesis operands_ok : forall n, n <= bound -> exists t, nodes_of (operand_items glue body n) = [t] /\ shape0 t (opd n).
Hypothesis operators_ok : forall i, 1 <= i <= bound -> exists k ch, nodes_of (glue i) = [Grammar.Node k ch] /\ binop_kind (opb i) k.

Lemma ritems_shape : forall T, inr bound T -> exists t, nodes_of (ritems glue body T) = [t] /\ shape0 t (texpr T).
Proof.
  induction T as [n|hd tl IHhd IHtl] using tree_ind2; intros HT.
  - cbn [ritems texpr]. apply operands_ok. exact HT.
  - apply inr_node in HT. destruct HT as [Hhd Htl]. destruct (IHhd Hhd) as [thd [Nhd Shd]].
    rewrite ritems_node, texpr_node.
    assert (Hne : ritems glue body hd ++ rtail glue body tl <> []).
    { intros E. apply app_eq_nil in E as [E _]. rewrite E in Nhd. discriminate. }
    exists (Grammar.Node OPERATION (ritems glue body hd ++ rtail glue body tl)). split.
    + unfold nodes_of. cbn [filter is_node]. destruct (ritems glue body hd ++ rtail glue body tl); [congruence|reflexivity].
    + eapply S0_op; [rewrite nodes_of_app, Nhd; reflexivity|exact Shd|].
      clear Hne Nhd Shd IHhd Hhd. generalize (texpr hd) as acc.
      induction tl as [|[o x] r IHr]; intros acc; [constructor|].
      cbn [rtail tfold]. rewrite !nodes_of_app. cbn [inr_tl] in Htl. destruct Htl as [[Ho Hx] Hr].
      inversion IHtl as [|ox r' Px Pr]. subst. cbn [snd] in Px.
      destruct (operators_ok (snd o) Ho) as [k [ch [Ng Hk]]]. destruct (Px Hx) as [tx [Nx Sx]].
      rewrite Ng, Nx. cbn [app]. eapply P0_cons; [exact Hk|exact Sx|apply IHr; assumption].
Qed.

End Sem.

Lemma mkin_inr_tl n : forall qs i, i + length qs <= n -> inr_tl n (mkin i qs).
Proof.
  induction qs as [|q qs IH]; intros i H; cbn [mkin inr_tl]; [exact I|]. cbn [length] in H.
  split; [split; [unfold okop; cbn [snd]; lia|cbn [inr]; lia]|apply IH; lia].
Qed.
Lemma climb_inr qs : inr (length qs) (climb (Leaf 0, mkin 0 qs)).
Proof. unfold climb. cbn [fst snd]. apply run_inr; [constructor|cbn; lia|apply mkin_inr_tl; lia]. Qed.

(* ---- what an expression denotes: the documented grouping, by [canon] inside every group ---- *)
Definition num_val (text : list chr) : Q :=
  match from_str (List.map Z.of_N (utf8 text)) with Literal.Ok num scale => to_Q num scale | Literal.Err => 0%Q end.
Definition num_readable (text : list chr) : Prop := from_str (List.map Z.of_N (utf8 text)) <> Literal.Err.
Lemma num_lit_ok text : num_readable text -> lit_ok text (num_val text).
Proof. intros H span. unfold parse_number, num_val, num_readable in *. destruct (from_str _); [reflexivity|congruence]. Qed.

Definition abinop (a : arith) : binop :=
  match a with APlus => Add | ADash => Sub | AStar => Mul | ASlash => Div | ACaret | AStarStar => Pow end.
Fixpoint tbin (r : tail) (m : nat) : binop :=
  match r with
  | TNil => Add
  | TCons _ a _ _ _ r' => match m with O => abinop a | S m' => tbin r' m' end
  | TTo _ _ _ _ r' => match m with O => Add | S m' => tbin r' m' end
  end.

Fixpoint sem_operand (x : operand) : Arith.expr :=
  match x with
  | Num t => Lit (num_val t) | Pct t _ _ => Lit (num_val t / (100 # 1))%Q | Paren _ _ _ e _ => sem_expr e
  | Call _ _ _ _ | Fact _ _ | NumU _ _ _ | Brace _ _ _ _ => Lit 0%Q   (* calls, facts and quantities with units are not numeric expressions: excluded by [readable_operand] *)
  end
with sem_expr (e : expr) : Arith.expr :=
  match e with
  | Chain x r =>
      texpr (fun n => match n with O => sem_operand x | S m => tsem r m end)
            (fun i => match i with O => Add | S m => tbin r m end)
            (canon levels4 (Leaf 0, mkin 0 (prios r)))
  end
with tsem (r : tail) (m : nat) {struct r} : Arith.expr :=
  match r with
  | TNil => Lit 0%Q
  | TCons _ _ _ _ x r' => match m with O => sem_operand x | S m' => tsem r' m' end
  | TTo _ _ _ _ r' => match m with O => Lit 0%Q | S m' => tsem r' m' end
  end.

Fixpoint readable_operand (x : operand) : Prop :=
  match x with Num t | Pct t _ _ => num_readable t | Paren _ _ _ e _ => readable_expr e | Call _ _ _ _ | Fact _ _ | NumU _ _ _ | Brace _ _ _ _ => False end
with readable_expr (e : expr) : Prop := match e with Chain x r => readable_operand x /\ readable_tail r end
with readable_tail (r : tail) : Prop :=
  match r with TNil => True | TCons _ _ _ _ x r' => readable_operand x /\ readable_tail r' | TTo _ _ _ _ _ => False end.   (* no casts: they are not numeric expressions *)

Lemma canon_is_climb r : canon levels4 (Leaf 0, mkin 0 (prios r)) = climb (Leaf 0, mkin 0 (prios r)).
Proof. symmetry. apply climb_eq_canon; [repeat constructor|apply mkin_atoms|apply prios_levels]. Qed.

Lemma binop_kind_arith a : binop_kind (abinop a) (anode a).
Proof. destruct a; cbn; auto. Qed.

Lemma all_shapes :
  (forall x, readable_operand x -> forall w, exists t, nodes_of (wsT w ++ trees_operand x) = [t] /\ shape0 t (sem_operand x)) /\
  (forall e, readable_expr e -> forall w, exists t, nodes_of (trees_expr w e) = [t] /\ shape0 t (sem_expr e)) /\
  (forall r, readable_tail r ->
     (forall m, m < length (prios r) -> exists t, nodes_of (tbody r m) = [t] /\ shape0 t (tsem r m)) /\
     (forall m, m < length (prios r) -> exists k ch, nodes_of (tglue r m) = [Grammar.Node k ch] /\ binop_kind (tbin r m) k)) /\
  (forall a : args, True) /\ (forall m : more, True).
Proof.
  apply syntax_mut; try (intros; exact I).
  - intros t Hr w. cbn [trees_operand sem_operand]. rewrite nodes_of_app, nodes_of_wsT. cbn.
    eexists. split; [reflexivity|]. apply S0_num. apply num_lit_ok. exact Hr.
  - intros t wp pt Hr w. cbn [trees_operand sem_operand]. rewrite nodes_of_app, nodes_of_wsT. cbn.
    eexists. split; [reflexivity|]. apply S0_pct. apply num_lit_ok. exact Hr.
  - intros t wu u Hr. destruct Hr.
  - intros po pc w1 e IHe w2 Hr w. cbn [readable_operand] in Hr. destruct (IHe Hr w1) as [t [Nt St]].
    exists t. split; [|exact St]. cbn [trees_operand sem_operand].
    rewrite nodes_of_app, nodes_of_wsT. cbn [app]. unfold nodes_of at 1. cbn [filter is_node]. fold (nodes_of (trees_expr w1 e ++ wsT w2 ++ [Tok CLOSE_PAREN pc])).
    rewrite !nodes_of_app, nodes_of_wsT, Nt. reflexivity.
  - intros name po pc a _ Hr. destruct Hr.
  - intros first ms Hr. destruct Hr.
  - intros bo bc bw wl Hr. destruct Hr.
  - intros x IHx r IHr [Hx Hr] w. cbn [trees_expr sem_expr]. rewrite canon_is_climb.
    destruct (IHr Hr) as [Hb Hg].
    apply ritems_shape with (bound := length (prios r)).
    + intros [|n] Hn; cbn [operand_items].
      * apply IHx. exact Hx.
      * apply Hb. lia.
    + intros [|i] Hi; [lia|]. apply Hg. lia.
    + apply climb_inr.
  - intros _. split; intros m Hm; cbn in Hm; lia.
  - intros wb a txt wa x IHx r IHr [Hx Hr]. destruct (IHr Hr) as [Hb Hg]. split; intros [|m] Hm; cbn [prios length] in Hm.
    + cbn [tbody tsem]. destruct (IHx Hx []) as [t Ht]. exists t. exact Ht.
    + cbn [tbody tsem]. apply Hb. lia.
    + cbn [tglue tbin]. exists (anode a), [Tok (akind a) txt]. split; [|apply binop_kind_arith].
      rewrite !nodes_of_app, !nodes_of_wsT. reflexivity.
    + cbn [tglue tbin]. apply Hg. lia.
  - intros wb txt wa u r IHr Hr. destruct Hr.
Qed.

Lemma readable_no_unit x : readable_operand x -> ends_in_unit x = false.
Proof. destruct x; cbn; tauto || reflexivity. Qed.
Lemma readable_wf :
  (forall x, readable_operand x -> wf_operand x) /\ (forall e, readable_expr e -> wf_expr e) /\ (forall r, readable_tail r -> wf_tail r) /\
  (forall a : args, True) /\ (forall m : more, True).
Proof.
  apply syntax_mut; cbn [readable_operand readable_expr readable_tail wf_operand wf_expr wf_tail]; try tauto.
  - intros x IHx r IHr [Hx Hr]. split; [auto|]. split; [|auto]. intros E. rewrite (readable_no_unit x Hx) in E. discriminate.
  - intros wb a txt wa x IHx r IHr [Hx Hr]. split; [auto|]. split; [|auto]. intros E. rewrite (readable_no_unit x Hx) in E. discriminate.
Qed.

(* ---- the theorem ---- *)
Theorem expression_value : forall debug facts describe (w0 : blanks) (e : expr) (w1 : blanks), readable_expr e ->
  exists f r, parse_root (wst w0 ++ toks_expr e ++ wst w1) = Some f /\
    eval_roots debug facts describe (skip_tokens (annotate_forest 0 f)) [] = ([r], []) /\
    agrees r (denote (sem_expr e)).
Proof.
  intros debug facts describe w0 e w1 Hr.
  exists (trees_expr w0 e ++ wsT w1). destruct (proj1 (proj2 all_shapes) e Hr w0) as [t [Nt St]].
  pose proof (skip_forest (trees_expr w0 e ++ wsT w1) 0%N) as F. rewrite nodes_of_app, nodes_of_wsT, Nt in F. cbn [app] in F.
  inversion F as [|x a l al [q Ha] Fl]. subst. inversion Fl. subst.
  pose proof (shape0_annotate t (sem_expr e) St q) as Hs.
  destruct (eval_exact debug facts describe (S (asize (fst (annotate q t)))) (fst (annotate q t)) (sem_expr e) [] Hs (Nat.le_succ_diag_r _)) as [Hag Hd].
  unfold ev in Hag, Hd.
  exists (fst (eval debug facts describe (S (asize (fst (annotate q t)))) (fst (annotate q t)) [])). split; [apply parse_expression; apply (proj1 (proj2 readable_wf)); exact Hr|].
  split; [|exact Hag].
  cbn [eval_roots]. destruct (eval debug facts describe (S (asize (fst (annotate q t)))) (fst (annotate q t)) []) as [x d1] eqn:E.
  cbn [fst snd] in *. now subst d1.
Qed.

(* the documented precedence and associativity, spelled out for two operators between any three operands: the second operator
   takes the middle operand iff it binds tighter; otherwise the chain groups left to right *)
Theorem two_operators : forall x w1 a1 t1 w1' y w2 a2 t2 w2' z,
  sem_expr (Chain x (TCons w1 a1 t1 w1' y (TCons w2 a2 t2 w2' z TNil))) =
    if aprio a1 <? aprio a2
    then Bin (abinop a1) (sem_operand x) (Bin (abinop a2) (sem_operand y) (sem_operand z))
    else Bin (abinop a2) (Bin (abinop a1) (sem_operand x) (sem_operand y)) (sem_operand z).
Proof. intros. destruct a1, a2; reflexivity. Qed.

(* ... and for three: a op1 b op2 c op3 d with op1 = op3 = `+ or -` and op2 tighter groups as (a op1 (b op2 c)) op3 d *)
Theorem sum_of_product : forall x w1 t1 w1' y w2 a2 t2 w2' z w3 t3 w3' v (s1 s3 : arith),
  aprio s1 = 2 -> aprio s3 = 2 -> 2 < aprio a2 ->
  sem_expr (Chain x (TCons w1 s1 t1 w1' y (TCons w2 a2 t2 w2' z (TCons w3 s3 t3 w3' v TNil)))) =
    Bin (abinop s3) (Bin (abinop s1) (sem_operand x) (Bin (abinop a2) (sem_operand y) (sem_operand z))) (sem_operand v).
Proof. intros. destruct s1, s3, a2; cbn in *; try lia; try discriminate; reflexivity. Qed.
