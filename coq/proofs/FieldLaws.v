(* C13: quantity arithmetic obeys the field laws, where equality means the same base-SI value and the same base dimensions.
   Everything is a corollary of  si (a + b) = si a + si b  (UnitLaws) and  si (a * b) = si a * si b  (MulProofs). *)
From Coq Require Import ZArith NArith QArith Qpower Qfield List Bool Lia.
Import ListNotations.
From AV Require Import model.UnitTypes model.Map model.Units model.Rat model.Compound model.Eval proofs.FactorProofs proofs.UnitLaws
  proofs.MulProofs.
Open Scope Z_scope.

Notation si := MulProofs.si.
Definition same_quantity (r r' : numeric) : Prop := (si r == si r')%Q /\ forall x, dim (snd r) x = dim (snd r') x.

Lemma si_eq (r : numeric) : UnitLaws.si r = MulProofs.si r. Proof. reflexivity. Qed.

(* products and quotients of proportional quantities always are quantities *)
Theorem mul_always span (a b : numeric) : proportional (snd a) -> proportional (snd b) ->
  exists r, op_mul false span a b = Ok r /\ proportional (snd r).
Proof.
  intros Pa Pb. unfold op_mul. destruct (mul (snd a) (snd b) 1 (fst a) (fst b)) as [[[u l] r]|] eqn:E; [|exfalso; exact (mul_total _ _ _ _ _ Pa Pb E)].
  pose proof (mul_proportional _ _ _ _ _ _ _ _ Pa Pb E) as Pu.
  destruct (is_empty (snd a) || is_empty (snd b)); cbn [checked_new andb bind]; (eexists; split; [reflexivity|exact Pu]).
Qed.

Theorem mul_comm span (a b r r' : numeric) : proportional (snd a) -> proportional (snd b) ->
  op_mul false span a b = Ok r -> op_mul false span b a = Ok r' -> same_quantity r r'.
Proof.
  intros Pa Pb H1 H2. destruct (op_mul_si span a b r Pa Pb H1) as [S1 D1]. destruct (op_mul_si span b a r' Pb Pa H2) as [S2 D2].
  split; [rewrite S1, S2; ring|intros x; rewrite D1, D2; lia].
Qed.

Lemma op_mul_prop span (a b r : numeric) : proportional (snd a) -> proportional (snd b) -> op_mul false span a b = Ok r -> proportional (snd r).
Proof.
  intros Pa Pb H. unfold op_mul in H. destruct (mul (snd a) (snd b) 1 (fst a) (fst b)) as [[[u l] rr]|] eqn:E; [|discriminate].
  pose proof (mul_proportional _ _ _ _ _ _ _ _ Pa Pb E) as Pu.
  destruct (is_empty (snd a) || is_empty (snd b)); cbn [checked_new andb bind] in H; inversion H; subst; exact Pu.
Qed.

Theorem mul_assoc span (a b c ab bc l r : numeric) : proportional (snd a) -> proportional (snd b) -> proportional (snd c) ->
  op_mul false span a b = Ok ab -> op_mul false span ab c = Ok l -> op_mul false span b c = Ok bc -> op_mul false span a bc = Ok r ->
  same_quantity l r.
Proof.
  intros Pa Pb Pc H1 H2 H3 H4.
  pose proof (op_mul_prop span a b ab Pa Pb H1) as Pab. pose proof (op_mul_prop span b c bc Pb Pc H3) as Pbc.
  destruct (op_mul_si span a b ab Pa Pb H1) as [S1 D1]. destruct (op_mul_si span ab c l Pab Pc H2) as [S2 D2].
  destruct (op_mul_si span b c bc Pb Pc H3) as [S3 D3]. destruct (op_mul_si span a bc r Pa Pbc H4) as [S4 D4].
  split; [rewrite S2, S1, S4, S3; ring|intros x; rewrite D2, D1, D4, D3; lia].
Qed.

(* a * (b + c) = a * b + a * c, for b and c with units (or both plain numbers) *)
Lemma add_plain span (x y : Q) : op_add span (x, []) (y, []) = Ok ((x + y)%Q, []).
Proof. reflexivity. Qed.

Theorem add_si_gen span (a b r : numeric) : proportional (snd a) -> proportional (snd b) ->
  (snd a = [] <-> snd b = []) -> op_add span a b = Ok r -> (si r == si a + si b)%Q /\ (forall x, dim (snd r) x = dim (snd a) x) /\ proportional (snd r).
Proof.
  intros Pa Pb Hiff H. destruct a as [av au], b as [bv bu]. cbn [fst snd] in *. destruct au as [|a0 ar].
  - assert (bu = []) by (apply Hiff; reflexivity). subst bu. rewrite add_plain in H. inversion H; subst r.
    unfold MulProofs.si. cbn [fst snd]. change (scale []) with 1%Q. split; [ring|split; [reflexivity|constructor]].
  - assert (Hb : bu <> []) by (intros E; apply Hiff in E; discriminate).
    assert (Ha : a0 :: ar <> ([] : compound)) by discriminate.
    destruct (add_si span (av, a0 :: ar) (bv, bu) r Ha Hb Pa Pb H) as [S U]. rewrite !si_eq in S. split; [exact S|]. cbn [snd] in U. rewrite U.
    split; [reflexivity|exact Pa].
Qed.

Theorem distrib span (a b c bc l ab ac r : numeric) : proportional (snd a) -> proportional (snd b) -> proportional (snd c) ->
  (snd b = [] <-> snd c = []) ->
  op_add span b c = Ok bc -> op_mul false span a bc = Ok l ->
  op_mul false span a b = Ok ab -> op_mul false span a c = Ok ac -> op_add span ab ac = Ok r ->
  ((snd ab = [] <-> snd ac = []) -> same_quantity l r).
Proof.
  intros Pa Pb Pc Hiff H1 H2 H3 H4 H5 Hiff2.
  destruct (add_si_gen span b c bc Pb Pc Hiff H1) as (S1 & D1 & Pbc).
  destruct (op_mul_si span a bc l Pa Pbc H2) as [S2 D2].
  destruct (op_mul_si span a b ab Pa Pb H3) as [S3 D3]. destruct (op_mul_si span a c ac Pa Pc H4) as [S4 D4].
  pose proof (op_mul_prop span a b ab Pa Pb H3) as Pab. pose proof (op_mul_prop span a c ac Pa Pc H4) as Pac.
  destruct (add_si_gen span ab ac r Pab Pac Hiff2 H5) as (S5 & D5 & _).
  split; [rewrite S2, S1, S5, S3, S4; ring|intros x; rewrite D2, D1, D5, D3; lia].
Qed.

(* a / a is the dimensionless one *)
Theorem div_self span (a r : numeric) : proportional (snd a) -> op_div false span a a = Ok r ->
  (si r == 1)%Q /\ forall x, dim (snd r) x = 0.
Proof.
  intros Pa H. destruct (op_div_si span a a r Pa Pa H) as (S & D & Nz). split; [rewrite S; field; exact Nz|intros x; rewrite D; lia].
Qed.
(* ... and it is a number whenever a is not zero *)
Theorem div_self_ok span (a : numeric) : proportional (snd a) -> is_zero (fst a) = false -> exists r, op_div false span a a = Ok r.
Proof.
  intros Pa Hz. unfold op_div. destruct (mul (snd a) (snd a) (-1) (fst a) (fst a)) as [[[u l] rr]|] eqn:E; [|exfalso; exact (mul_total _ _ _ _ _ Pa Pa E)].
  assert (Hr : is_zero rr = false).
  { destruct (snd a) as [|a0 ar] eqn:Ea.
    - rewrite mul_empty_left in E. inversion E; subst. exact Hz.
    - assert (N : a0 :: ar <> ([] : compound)) by discriminate.
      destruct (mul_si _ _ _ _ _ _ _ _ N N Pa Pa E) as (_ & S2 & _).
      destruct (is_zero rr) eqn:Er; [|reflexivity]. apply EvalExact.is_zero_spec in Er. rewrite Er in S2.
      symmetry in S2. apply Qmult_integral in S2 as [S2|S2]; [apply EvalExact.is_zero_spec in S2; congruence|exfalso; exact (MulProofs.scale_nz _ S2)]. }
  destruct (is_empty (snd a) || is_empty (snd a)); cbn [checked_new andb bind]; rewrite Hr; eexists; reflexivity.
Qed.
