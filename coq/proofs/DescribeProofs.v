(* C18: evaluating with descriptions enabled returns the same values as without; the descriptions are looked-up phrases, each one
   of a constant the database returned, appended in evaluation order; without the switch nothing is recorded; and the value of a
   query does not depend on what was described before it (queries against one database are independent). *)
From Coq Require Import ZArith NArith QArith List Bool Lia.
Import ListNotations.
From AV Require Import model.Syntax model.Rat model.UnitTypes model.Map model.Compound model.Eval.
Open Scope Z_scope.

Section Describe.
Variable debug : bool.
Variable facts : db.

Definition found (s : list chr) : Prop := exists id v u, db_lookup facts s = Found id v u.

(* x: a run with descriptions from list d; y: a run without from list d' *)
Definition sim (x y : res numeric * st) (d d' : st) : Prop :=
  fst x = fst y /\ snd y = d' /\ exists l, snd x = d ++ l /\ Forall found l.

Lemma sim_same r d d' : sim (r, d) (r, d') d d'.
Proof. split; [reflexivity|]. split; [reflexivity|]. exists []. split; [rewrite app_nil_r; reflexivity|constructor]. Qed.

Section Loops.
Variables ev1 ev2 : atree -> st -> res numeric * st.
Hypothesis Hev : forall t d d', sim (ev1 t d) (ev2 t d') d d'.

Lemma force_sim b d d' : sim (force ev1 b d) (force ev2 b d') d d'.
Proof. destruct b as [n|x]; cbn [force]; [apply Hev|apply sim_same]. Qed.

(* one (operator, operand) step for an arithmetic operator fn, given the property for the rest of the loop *)
Lemma binop_step_sim (fn : N * N -> numeric -> numeric -> res numeric) (span : N * N) rhs b d d'
  (k1 k2 : numeric -> st -> res numeric * st) :
  (forall x e e', sim (k1 x e) (k2 x e') e e') ->
  sim (match ev1 rhs d with
       | (Ok r, d1) => match force ev1 b d1 with
                       | (Ok bv, d2) => match fn span bv r with
                                        | Ok x => k1 x d2
                                        | Error s k => (Error s k, d2)
                                        | Panic w => (Panic w, d2)
                                        | Opaque => (Opaque, d2)
                                        end
                       | (r', d2) => (r', d2)
                       end
       | (r', d1) => (r', d1)
       end)
      (match ev2 rhs d' with
       | (Ok r, d1) => match force ev2 b d1 with
                       | (Ok bv, d2) => match fn span bv r with
                                        | Ok x => k2 x d2
                                        | Error s k => (Error s k, d2)
                                        | Panic w => (Panic w, d2)
                                        | Opaque => (Opaque, d2)
                                        end
                       | (r', d2) => (r', d2)
                       end
       | (r', d1) => (r', d1)
       end) d d'.
Proof.
  intros Hk.
  pose proof (Hev rhs d d') as S1. destruct (ev1 rhs d) as [r1 e1]. destruct (ev2 rhs d') as [r2 e2].
  destruct S1 as (A1 & A2 & l1 & A3 & F1). cbn [fst snd] in *. subst r2 e2 e1.
  destruct r1 as [rv| | |]; try (split; [reflexivity|split; [reflexivity|exists l1; split; [reflexivity|exact F1]]]).
  pose proof (force_sim b (d ++ l1) d') as S2. destruct (force ev1 b (d ++ l1)) as [b1 g1]. destruct (force ev2 b d') as [b2 g2].
  destruct S2 as (B1 & B2 & l2 & B3 & F2). cbn [fst snd] in *. subst b2 g2 g1.
  destruct b1 as [bv| | |]; try (split; [reflexivity|split; [reflexivity|exists (l1 ++ l2); split; [rewrite app_assoc; reflexivity|apply Forall_app; split; assumption]]]).
  destruct (fn span bv rv) as [xv| | |];
    try (split; [reflexivity|split; [reflexivity|exists (l1 ++ l2); split; [rewrite app_assoc; reflexivity|apply Forall_app; split; assumption]]]).
  destruct (Hk xv ((d ++ l1) ++ l2) d') as (C1 & C2 & l3 & C3 & F3).
  split; [exact C1|split; [exact C2|exists ((l1 ++ l2) ++ l3); split; [rewrite C3, !app_assoc; reflexivity|repeat (apply Forall_app; split); assumption]]].
Qed.

Lemma op_loop_sim (span : N * N) : forall rest b d d', sim (op_loop debug ev1 span rest b d) (op_loop debug ev2 span rest b d') d d'.
Proof.
  fix IH 1. intros rest b d d'. destruct rest as [|op [|rhs rest']]; cbn [op_loop]; try apply force_sim.
  assert (Hk : forall x e e', sim (op_loop debug ev1 span rest' (DNum x) e) (op_loop debug ev2 span rest' (DNum x) e') e e') by (intros; apply IH).
  destruct (akind op); cbn [binop_of]; try apply sim_same; try (apply binop_step_sim; exact Hk).
  (* OP_CAST *)
  destruct (eval_unit (achildren rhs)) as [target| | |]; try apply sim_same.
  pose proof (force_sim b d d') as S2. destruct (force ev1 b d) as [b1 g1]. destruct (force ev2 b d') as [b2 g2].
  destruct S2 as (B1 & B2 & l2 & B3 & F2). cbn [fst snd] in *. subst b2 g2 g1.
  destruct b1 as [lhs| | |]; try (split; [reflexivity|split; [reflexivity|exists l2; split; [reflexivity|exact F2]]]).
  destruct (factor target (snd lhs) (fst lhs)) as [[[] v]|]; try (split; [reflexivity|split; [reflexivity|exists l2; split; [reflexivity|exact F2]]]).
  destruct (IH rest' (DNum (v, target)) (d ++ l2) d') as (C1 & C2 & l3 & C3 & F3).
  split; [exact C1|split; [exact C2|exists (l2 ++ l3); split; [rewrite C3, app_assoc; reflexivity|apply Forall_app; split; assumption]]].
Qed.

Lemma args_loop_sim : forall l acc d d',
  fst (args_loop ev1 l acc d) = fst (args_loop ev2 l acc d') /\ snd (args_loop ev2 l acc d') = d' /\
  exists l2, snd (args_loop ev1 l acc d) = d ++ l2 /\ Forall found l2.
Proof.
  induction l as [|a r IH]; intros acc d d'; cbn [args_loop].
  - split; [reflexivity|split; [reflexivity|exists []; split; [rewrite app_nil_r; reflexivity|constructor]]].
  - pose proof (Hev a d d') as S1. destruct (ev1 a d) as [r1 e1]. destruct (ev2 a d') as [r2 e2].
    destruct S1 as (A1 & A2 & l1 & A3 & F1). cbn [fst snd] in *. subst r2 e2 e1.
    destruct r1 as [v| | |]; try (split; [reflexivity|split; [reflexivity|exists l1; split; [reflexivity|exact F1]]]).
    destruct (IH (acc ++ [v]) (d ++ l1) d') as (C1 & C2 & l3 & C3 & F3).
    split; [exact C1|split; [exact C2|exists (l1 ++ l3); split; [rewrite C3, app_assoc; reflexivity|apply Forall_app; split; assumption]]].
Qed.
End Loops.

Theorem eval_sim : forall fuel t d d', sim (eval debug facts true fuel t d) (eval debug facts false fuel t d') d d'.
Proof.
  induction fuel as [|f IH]; intros t d d'; [apply sim_same|]. cbn [eval].
  destruct (akind t); try apply sim_same.
  - (* WORD *)
    destruct (db_lookup facts (atext t)) as [id v u| |] eqn:E; try apply sim_same.
    split; [reflexivity|split; [reflexivity|exists [atext t]; split; [reflexivity|repeat constructor; exists id, v, u; exact E]]].
  - (* SENTENCE *)
    destruct (db_lookup facts (atext t)) as [id v u| |] eqn:E; try apply sim_same.
    split; [reflexivity|split; [reflexivity|exists [atext t]; split; [reflexivity|repeat constructor; exists id, v, u; exact E]]].
  - (* WITH_UNIT *)
    destruct (achildren t) as [|value_node rest]; [apply sim_same|]. destruct (next_node rest) as [[unit_node r']|]; [|apply sim_same].
    destruct (negb _); [apply sim_same|].
    pose proof (IH value_node d d') as S1. destruct (eval debug facts true f value_node d) as [r1 e1]. destruct (eval debug facts false f value_node d') as [r2 e2].
    destruct S1 as (A1 & A2 & l1 & A3 & F1). cbn [fst snd] in *. subst r2 e2 e1.
    destruct r1 as [v| | |]; try (split; [reflexivity|split; [reflexivity|exists l1; split; [reflexivity|exact F1]]]).
    destruct (eval_unit _); split; try reflexivity; split; try reflexivity; exists l1; split; try reflexivity; exact F1.
  - (* FN_CALL *)
    destruct (skip_tokens (achildren t)) as [|name more]; [apply sim_same|]. destruct (negb _); [apply sim_same|].
    destruct more as [|arguments m2]; [apply sim_same|]. destruct (negb _); [apply sim_same|].
    destruct (args_loop_sim _ _ IH (skip_tokens (achildren arguments)) [] d d') as (C1 & C2 & l3 & C3 & F3).
    destruct (args_loop (eval debug facts true f) _ [] d) as [ra1 da1]. destruct (args_loop (eval debug facts false f) _ [] d') as [ra2 da2].
    cbn [fst snd] in *. subst ra2 da2 da1.
    destruct ra1 as [argv| | |]; try (split; [reflexivity|split; [reflexivity|exists l3; split; [reflexivity|exact F3]]]).
    destruct (builtin debug (atext name)); split; try reflexivity; split; try reflexivity; exists l3; split; try reflexivity; exact F3.
  - (* PERCENTAGE *)
    destruct (achildren t) as [|number r]; [apply sim_same|]. destruct (kind_beq _ _); [|apply sim_same].
    destruct (parse_number _ _); apply sim_same.
  - (* OPERATION *)
    destruct (skip_tokens (achildren t)) as [|base rest]; [apply sim_same|]. apply op_loop_sim. exact IH.
Qed.

(* the three readings of the property *)
Corollary describe_same_values fuel t d d' :
  fst (eval debug facts true fuel t d) = fst (eval debug facts false fuel t d').
Proof. apply eval_sim. Qed.
Corollary no_descriptions_when_off fuel t d : snd (eval debug facts false fuel t d) = d.
Proof. apply (eval_sim fuel t d d). Qed.
Corollary descriptions_are_lookups fuel t d :
  exists l, snd (eval debug facts true fuel t d) = d ++ l /\ Forall found l.
Proof. destruct (eval_sim fuel t d d) as (_ & _ & H). exact H. Qed.

(* the value of a query does not depend on what earlier queries described: evaluating a list of roots against one database
   gives each root the value it has when evaluated alone *)
Theorem queries_independent describe roots d :
  fst (eval_roots debug facts describe roots d) = List.map (fun t => fst (eval debug facts describe (S (asize t)) t [])) roots.
Proof.
  revert d. induction roots as [|t r IH]; intros d; cbn [eval_roots List.map]; [reflexivity|].
  destruct (eval debug facts describe (S (asize t)) t d) as [x d1] eqn:E1. destruct (eval_roots debug facts describe r d1) as [xs d2] eqn:E2.
  cbn [fst]. f_equal.
  - destruct describe.
    + rewrite (describe_same_values (S (asize t)) t [] d). rewrite <- (describe_same_values (S (asize t)) t d d), E1. reflexivity.
    + pose proof (describe_same_values (S (asize t)) t d d) as H1. pose proof (describe_same_values (S (asize t)) t d []) as H2.
      rewrite <- H2, H1, E1. reflexivity.
  - specialize (IH d1). rewrite E2 in IH. exact IH.
Qed.
End Describe.

(* non-vacuity: "c / pi" against a two-entry database: both values enter, the right operand is looked up first *)
From AV Require Import model.Run.
Example describe_example :
  let facts := [([99%N], Found 0 (3 # 1)%Q []); ([112%N; 105%N], Found 1 (2 # 1)%Q [])] in
  query true true facts [99; 32; 47; 32; 112; 105]%N = ([Ok ((3 # 1) / (2 # 1), [])%Q], [[112%N; 105%N]; [99%N]]) /\
  fst (query true false facts [99; 32; 47; 32; 112; 105]%N) = [Ok ((3 # 1) / (2 # 1), [])%Q] /\
  snd (query true false facts [99; 32; 47; 32; 112; 105]%N) = [].
Proof. cbv zeta. repeat split; vm_compute; reflexivity. Qed.
