(* C01 + C06 + C07 + C12 composed, on query strings: the text of every expression over well-formed literals, percentages,
   + - * / ^ ** and parentheses, with blanks wherever the lexer lets a token end, evaluates -- lexer, parser and evaluator
   models together -- to exactly the rational number of the documented grouping, or to an error where that is undefined. *)
From Coq Require Import ZArith NArith QArith List Bool Lia Arith.
Import ListNotations.
From AV Require Import model.Syntax model.Lexer model.Literal spec.LiteralSpec model.Eval model.Run spec.Arith
  proofs.LiteralProofs proofs.LexLiteral proofs.LiteralFull proofs.EvalExact model.Grammar proofs.ParseGeneral proofs.ParseChains
  proofs.ExprEval proofs.LexExpr.
Local Close Scope N_scope. Local Close Scope Z_scope. Local Close Scope Q_scope.

Ltac wf_lit := unfold well_formed, digits_ok, fracd; cbn [lint lfrac lexp lneg];
  repeat split; try (repeat constructor; lia); try discriminate; try reflexivity; vm_compute; congruence.

Lemma wf_readable l : well_formed l -> num_readable (chars_of (render l)).
Proof.
  intros W. unfold num_readable. rewrite (ascii_utf8 _ (render_ascii l W)), (from_str_exact l W). discriminate.
Qed.

Lemma lexable_in : forall toks t, lexable toks -> In t toks -> exists rest, tok_ok t rest.
Proof.
  induction toks as [|a r IH]; intros t Hl Hin; [destruct Hin|]. cbn [lexable] in Hl. destruct Hl as [Ha Hr].
  destruct Hin as [<-|Hin]; [eexists; exact Ha|apply IH; assumption].
Qed.

(* the numeric fragment: literals, percentages, parentheses and the arithmetic operators (no units, casts, calls, facts) *)
Fixpoint numeric_operand (x : operand) : Prop :=
  match x with Num _ | Pct _ _ _ => True | Paren _ _ _ e _ => numeric_expr e | _ => False end
with numeric_expr (e : ParseChains.expr) : Prop := match e with Chain x r => numeric_operand x /\ numeric_tail r end
with numeric_tail (r : tail) : Prop :=
  match r with TNil => True | TCons _ _ _ _ x r' => numeric_operand x /\ numeric_tail r' | TTo _ _ _ _ _ => False end.

Lemma numbers_readable :
  (forall x, numeric_operand x -> (forall t, In (NUMBER, t) (toks_operand x) -> num_readable t) -> readable_operand x) /\
  (forall e, numeric_expr e -> (forall t, In (NUMBER, t) (toks_expr e) -> num_readable t) -> readable_expr e) /\
  (forall r, numeric_tail r -> (forall t, In (NUMBER, t) (toks_tail r) -> num_readable t) -> readable_tail r) /\
  (forall a : args, True) /\ (forall m : more, True).
Proof.
  apply syntax_mut; try (intros; exact I); try (cbn [numeric_operand numeric_tail]; intros; contradiction).
  - intros t _ H. apply H. left. reflexivity.
  - intros t w pt _ H. apply H. left. reflexivity.
  - intros po pc w1 e IHe w2 Hn H. cbn [readable_operand]. apply IHe; [exact Hn|]. intros t Ht. apply H. cbn [toks_operand]. right.
    apply in_or_app. right. apply in_or_app. left. exact Ht.
  - intros x IHx r IHr [Hnx Hnr] H. cbn [readable_expr]. split; [apply IHx|apply IHr]; try assumption; intros t Ht; apply H; cbn [toks_expr]; apply in_or_app; tauto.
  - intros wb a txt wa x IHx r IHr [Hnx Hnr] H. cbn [readable_tail]. split; [apply IHx|apply IHr]; try assumption; intros t Ht; apply H; cbn [toks_tail];
      apply in_or_app; right; right; apply in_or_app; right; apply in_or_app; tauto.
Qed.

Theorem query_expression : forall debug describe facts (w0 : blanks) (e : ParseChains.expr) (w1 : blanks),
  numeric_expr e -> lexable (wst w0 ++ toks_expr e ++ wst w1) ->
  exists r, query debug describe facts (text_of (wst w0 ++ toks_expr e ++ wst w1)) = ([r], []) /\
            agrees r (denote (sem_expr e)).
Proof.
  intros debug describe facts w0 e w1 Hn Hl.
  assert (Hr : readable_expr e).
  { apply (proj1 (proj2 numbers_readable)); [exact Hn|]. intros t Ht.
    destruct (lexable_in _ (NUMBER, t) Hl) as [rest Hok]; [apply in_or_app; right; apply in_or_app; left; exact Ht|].
    unfold tok_ok in Hok. cbn [fst snd] in Hok. destruct Hok as (l & W & -> & _). apply wf_readable. exact W. }
  destruct (expression_value debug facts describe w0 e w1 Hr) as (f & r & Hp & He & Ha).
  exists r. split; [|exact Ha]. unfold query. rewrite (tokens_lexable _ Hl), Hp. exact He.
Qed.

(* non-vacuity: the text " 1 - (2+3)*4.5%" is lexable, it is the text of an expression, and it denotes 1 - 5 * 0.045 *)
Definition lit_of_digit (d : Z) : literal := {| lneg := None; lint := [d]; lfrac := None; lexp := None |}.
Definition example_expr : ParseChains.expr :=
  Chain (Num [49%N]) (TCons [[32%N]] ADash [45%N] [[32%N]]
     (Paren [40%N] [41%N] [] (Chain (Num [50%N]) (TCons [] APlus [43%N] [[32%N]] (Num [51%N]) TNil)) [])
     (TCons [] AStar [42%N] [] (Pct [52%N; 46%N; 53%N] [] [37%N]) TNil)).
Definition example_text : list chr := [32; 49; 32; 45; 32; 40; 50; 43; 32; 51; 41; 42; 52; 46; 53; 37]%N.
Example example_query : forall debug describe facts,
  text_of (wst [[32%N]] ++ toks_expr example_expr ++ wst []) = example_text /\
  exists v, query debug describe facts example_text = ([Ok (v, [])], []) /\ (v == 31 # 40)%Q.
Proof.
  intros debug describe facts. split; [reflexivity|].
  assert (Hl : lexable (wst [[32%N]] ++ toks_expr example_expr ++ wst [])).
  { cbn. repeat split; try discriminate; try (left; reflexivity); try (repeat constructor).
    - exists (lit_of_digit 1). split; [unfold lit_of_digit; wf_lit|repeat split; reflexivity].
    - exists (lit_of_digit 2). split; [unfold lit_of_digit; wf_lit|repeat split; reflexivity].
    - exists (lit_of_digit 3). split; [unfold lit_of_digit; wf_lit|repeat split; reflexivity].
    - exists {| lneg := None; lint := [4%Z]; lfrac := Some [5%Z]; lexp := None |}. split; [wf_lit|repeat split; reflexivity]. }
  destruct (query_expression debug describe facts [[32%N]] example_expr [] ltac:(cbn; tauto) Hl) as (r & Hq & Ha).
  assert (Eo : exists q, denote (sem_expr example_expr) = Some q /\ (q == 31 # 40)%Q).
  { vm_compute. eexists. split; reflexivity. }
  destruct Eo as (q & Eq & Hq40). rewrite Eq in Ha. destruct Ha as (v & -> & Hv).
  exists v. split; [exact Hq|]. now rewrite Hv.
Qed.

(* ---- blanks do not matter: two expression texts that differ only in their blanks (how many, which kind, none at all where the
   lexer allows it, also at either end) denote the same expression, so their answers agree ---- *)
Fixpoint skel_operand (x : operand) : operand :=
  match x with
  | Num t => Num t
  | Pct t _ pt => Pct t [] pt
  | NumU t w u => NumU t w u
  | Paren po pc _ e _ => Paren po pc [] (skel_expr e) []
  | Call name po pc a => Call name po pc a
  | Fact first ms => Fact first ms
  | Brace bo bc bw wl => Brace bo bc bw wl
  end
with skel_expr (e : ParseChains.expr) : ParseChains.expr := match e with Chain x r => Chain (skel_operand x) (skel_tail r) end
with skel_tail (r : tail) : tail :=
  match r with
  | TNil => TNil
  | TCons _ a txt _ x r' => TCons [] a txt [] (skel_operand x) (skel_tail r')
  | TTo _ txt _ u r' => TTo [[32%N]] txt [[32%N]] u (skel_tail r')
  end.

Lemma texpr_ext opd opd' opb opb' : (forall n, opd n = opd' n) -> (forall i, opb i = opb' i) ->
  forall T, texpr opd opb T = texpr opd' opb' T.
Proof.
  intros Hd Hb. induction T as [n|hd tl IHhd IHtl] using ClimbProofs.tree_ind2; [apply Hd|].
  rewrite !texpr_node, IHhd. generalize (texpr opd' opb' hd) as acc.
  induction IHtl as [|[o x] r Hx _ IHr]; intros acc; [reflexivity|]. cbn [tfold]. cbn [snd] in Hx. rewrite Hx, Hb. apply IHr.
Qed.

Lemma skel_sem :
  (forall x, sem_operand (skel_operand x) = sem_operand x) /\
  (forall e, sem_expr (skel_expr e) = sem_expr e) /\
  (forall r, prios (skel_tail r) = prios r /\ (forall m, tsem (skel_tail r) m = tsem r m) /\ (forall m, tbin (skel_tail r) m = tbin r m)) /\
  (forall a : args, True) /\ (forall m : more, True).
Proof.
  apply syntax_mut; try (intros; exact I).
  - reflexivity.
  - reflexivity.
  - reflexivity.
  - intros po pc w1 e IHe w2. cbn [skel_operand sem_operand]. exact IHe.
  - reflexivity.
  - reflexivity.
  - reflexivity.
  - intros x IHx r (Hp & Hs & Hb). cbn [skel_expr sem_expr]. rewrite Hp. apply texpr_ext.
    + intros [|n]; [exact IHx|apply Hs].
    + intros [|i]; [reflexivity|apply Hb].
  - repeat split.
  - intros wb a txt wa x IHx r (Hp & Hs & Hb). cbn [skel_tail prios]. rewrite Hp. split; [reflexivity|].
    split; intros [|m]; cbn [tsem tbin]; auto.
  - intros wb txt wa u r (Hp & Hs & Hb). cbn [skel_tail prios]. rewrite Hp. split; [reflexivity|].
    split; intros [|m]; cbn [tsem tbin]; auto.
Qed.

Theorem blanks_do_not_matter : forall debug describe facts (w0 w1 w0' w1' : blanks) (e e' : ParseChains.expr),
  numeric_expr e -> numeric_expr e' -> skel_expr e = skel_expr e' ->
  lexable (wst w0 ++ toks_expr e ++ wst w1) -> lexable (wst w0' ++ toks_expr e' ++ wst w1') ->
  exists r r', query debug describe facts (text_of (wst w0 ++ toks_expr e ++ wst w1)) = ([r], []) /\
               query debug describe facts (text_of (wst w0' ++ toks_expr e' ++ wst w1')) = ([r'], []) /\
               agrees r (denote (sem_expr e)) /\ agrees r' (denote (sem_expr e)).
Proof.
  intros debug describe facts w0 w1 w0' w1' e e' Hn Hn' Hs Hl Hl'.
  destruct (query_expression debug describe facts w0 e w1 Hn Hl) as (r & Hq & Ha).
  destruct (query_expression debug describe facts w0' e' w1' Hn' Hl') as (r' & Hq' & Ha').
  exists r, r'. repeat split; try assumption.
  rewrite <- (proj1 (proj2 skel_sem) e), Hs, (proj1 (proj2 skel_sem) e'). exact Ha'.
Qed.
