(* C11 (the part the model can carry): on every syntax tree the evaluator terminates within its fuel, the only panic the
   model can produce is the debug assertion of Compound::new (never in a release build), and every error it reports carries the
   span of a node of the tree, which lies inside the input on token boundaries. *)
From Coq Require Import ZArith NArith QArith List Bool Lia.
Import ListNotations.
From AV Require Import model.Syntax model.Grammar model.Rat model.UnitTypes model.Map model.Compound model.UnitWord model.Eval proofs.BuiltinProofs.
Open Scope Z_scope.

(* ---- eval_unit never panics ---- *)
Lemma next_node_shorter l x r : next_node l = Some (x, r) -> (length r < length l)%nat.
Proof.
  induction l as [|y l' IH]; cbn [next_node]; [discriminate|]. destruct (has_children y).
  - intros H. inversion H; subst. cbn. lia.
  - intros H. specialize (IH H). cbn. lia.
Qed.
Lemma next_node_in l x r : next_node l = Some (x, r) -> In x l /\ incl r l.
Proof.
  induction l as [|y l' IH]; cbn [next_node]; [discriminate|]. destruct (has_children y).
  - intros H. inversion H; subst. split; [left; reflexivity|intros z Hz; right; exact Hz].
  - intros H. destruct (IH H) as [H1 H2]. split; [right; exact H1|intros z Hz; right; apply H2; exact Hz].
Qed.

Lemma update_all_no_panic span c cur l last w : update_all span c cur l last <> Panic w.
Proof.
  revert c last. induction l as [|[e u] r IH]; intros c last; cbn [update_all]; [discriminate|].
  destruct (update c u cur e); [apply IH|discriminate].
Qed.

Lemma unit_loop_no_panic fuel : forall nodes cur c last w, (length nodes < fuel)%nat -> unit_loop fuel nodes cur c last <> Panic w.
Proof.
  induction fuel as [|f IH]; intros nodes cur c last w Hl; [lia|]. cbn [unit_loop].
  destruct (next_node nodes) as [[node rest]|] eqn:En; [|discriminate].
  pose proof (next_node_shorter _ _ _ En) as Hr.
  assert (Hrest : (length rest < f)%nat) by lia.
  destruct (akind node); try discriminate; try (apply IH; exact Hrest).
  - (* WORD *)
    destruct (parse_units _ _) as [l bad]. unfold bind.
    destruct (update_all (aspan node) c cur l last) as [cl| | |] eqn:Eu; try discriminate.
    + destruct bad; [discriminate|apply IH; exact Hrest].
    + exfalso. exact (update_all_no_panic _ _ _ _ _ _ Eu).
  - (* NUMBER *)
    destruct (parse_i32 (atext node)); [|discriminate]. destruct (negb _); [discriminate|apply IH; exact Hrest].
  - (* OP_POWER *)
    destruct last as [[e u]|]; destruct (next_node rest) as [[n rest']|] eqn:En2; try discriminate.
    destruct (kind_beq (akind n) NUMBER); [|discriminate]. destruct (parse_i32 (atext n)); [|discriminate].
    pose proof (next_node_shorter _ _ _ En2). apply IH. lia.
Qed.
Theorem eval_unit_no_panic children w : eval_unit children <> Panic w.
Proof. unfold eval_unit. apply unit_loop_no_panic. lia. Qed.

(* ---- the operators ---- *)
Definition only_assertion (debug : bool) (r : res numeric) : Prop := forall w, r = Panic w -> debug = true /\ w = 1%N.

Lemma op_add_ok debug span a b : only_assertion debug (op_add span a b).
Proof. intros w. unfold op_add. destruct (factor _ _ _) as [[[] v]|]; discriminate. Qed.
Lemma op_sub_ok debug span a b : only_assertion debug (op_sub span a b).
Proof. intros w. unfold op_sub. destruct (factor _ _ _) as [[[] v]|]; discriminate. Qed.
Lemma checked_new_ok debug c w : checked_new debug c = Panic w -> debug = true /\ w = 1%N.
Proof. unfold checked_new. destruct debug; cbn [andb]; [|discriminate]. destruct (negb _); [intros H; inversion H; auto|discriminate]. Qed.
Lemma op_mul_ok debug span a b : only_assertion debug (op_mul debug span a b).
Proof.
  intros w. unfold op_mul. destruct (mul _ _ _ _ _) as [[[u av] bv]|]; [|discriminate].
  destruct (is_empty (snd a) || is_empty (snd b)); cbn [bind]; [discriminate|].
  destruct (checked_new debug u) eqn:E; cbn [bind]; try discriminate. intros H. inversion H; subst. eapply checked_new_ok; eauto.
Qed.
Lemma op_div_ok debug span a b : only_assertion debug (op_div debug span a b).
Proof.
  intros w. unfold op_div. destruct (mul _ _ _ _ _) as [[[u av] bv]|]; [|discriminate].
  destruct (is_empty (snd a) || is_empty (snd b)); cbn [bind]; [destruct (is_zero bv); discriminate|].
  destruct (checked_new debug u) eqn:E; cbn [bind]; try (destruct (is_zero bv); discriminate); try discriminate.
  intros H. inversion H; subst. eapply checked_new_ok; eauto.
Qed.
Lemma op_pow_ok debug span a b : only_assertion debug (op_pow span a b).
Proof.
  intros w. unfold op_pow. destruct (negb _); [discriminate|]. destruct (negb _); [discriminate|].
  destruct (is_empty (snd a)); cbn [bind].
  - destruct (_ =? 0); [discriminate|]. destruct (is_zero _); [destruct (_ <? 0); discriminate|discriminate].
  - destruct (if in_i32 _ then _ else _); cbn [bind]; [|discriminate].
    destruct (_ =? 0); [discriminate|]. destruct (is_zero _); [destruct (_ <? 0); discriminate|discriminate].
Qed.
Lemma binop_ok debug k fn span a b : binop_of debug k = Some fn -> only_assertion debug (fn span a b).
Proof.
  destruct k; cbn [binop_of]; intros H; inversion H; subst;
    first [apply op_add_ok|apply op_sub_ok|apply op_mul_ok|apply op_div_ok|apply op_pow_ok].
Qed.

Lemma builtin_ok debug name fn span args : builtin debug name = Some fn -> only_assertion debug (fn span args).
Proof.
  unfold builtin. intros H w Hp.
  repeat match type of H with (if ?c then _ else _) = _ => destruct c end; inversion H; subst; clear H; exfalso.
  - unfold fn_trig, fn_one, bind in Hp. destruct args as [|a [|? ?]]; discriminate.
  - unfold fn_trig, fn_one, bind in Hp. destruct args as [|a [|? ?]]; discriminate.
  - destruct debug; [exact (fn_round_no_panic span args w Hp)|].
    unfold fn_round in Hp. destruct args as [|a [|b [|c r]]]; cbn [bind andb] in Hp; try discriminate.
    destruct (to_i32 (fst b)); cbn [bind andb] in Hp; discriminate.
  - unfold fn_floor, fn_one, bind in Hp. destruct args as [|a [|? ?]]; discriminate.
  - unfold fn_ceil, fn_one, bind in Hp. destruct args as [|a [|? ?]]; discriminate.
Qed.

(* ---- eval ---- *)
Section NoPanic.
Variable debug : bool.
Variable facts : db.
Variable describe : bool.

Definition okres (r : res numeric * st) : Prop := only_assertion debug (fst r).

Section Loops.
Variable ev : atree -> st -> res numeric * st.
Variable bound : nat.
Hypothesis Hev : forall t d, (asize t <= bound)%nat -> okres (ev t d).

Lemma force_ok b d : (match b with DNode n => (asize n <= bound)%nat | DNum _ => True end) -> okres (force ev b d).
Proof. destruct b as [n|x]; cbn [force]; [apply Hev|intros _ w H; discriminate]. Qed.

Lemma op_loop_ok span : forall rest b d, Forall (fun x => (asize x <= bound)%nat) rest ->
  (match b with DNode n => (asize n <= bound)%nat | DNum _ => True end) -> okres (op_loop debug ev span rest b d).
Proof.
  fix IH 1. intros rest b d Hall Hb. destruct rest as [|op [|rhs rest']]; cbn [op_loop]; try (apply force_ok; exact Hb).
  inversion Hall as [|? ? _ Hall1]; subst. inversion Hall1 as [|? ? Hrhs Hall2]; subst.
  assert (Hstep : forall fn, binop_of debug (akind op) = Some fn ->
     okres (match ev rhs d with
            | (Ok r, d1) => match force ev b d1 with
                            | (Ok bv, d2) => match fn span bv r with
                                             | Ok x => op_loop debug ev span rest' (DNum x) d2
                                             | Error s k => (Error s k, d2) | Panic w => (Panic w, d2) | Opaque => (Opaque, d2) end
                            | (r', d2) => (r', d2) end
            | (r', d1) => (r', d1) end)).
  { intros fn Hfn. pose proof (Hev rhs d Hrhs) as H1. destruct (ev rhs d) as [r1 d1]. destruct r1 as [rv| | |]; try exact H1; try (intros w H; discriminate).
    pose proof (force_ok b d1 Hb) as H2. destruct (force ev b d1) as [b1 d2]. destruct b1 as [bv| | |]; try exact H2; try (intros w H; discriminate).
    pose proof (binop_ok debug _ fn span bv rv Hfn) as H3. destruct (fn span bv rv) as [x| | |]; try exact H3; try (intros w H; discriminate).
    apply IH; [exact Hall2|exact I]. }
  destruct (akind op) eqn:Ek; cbn [binop_of] in *; try (intros w H; discriminate); try (apply Hstep; reflexivity).
  (* OP_CAST *)
  pose proof (eval_unit_no_panic (achildren rhs)) as Hu. destruct (eval_unit (achildren rhs)) as [target| | |]; try (intros w H; discriminate).
  - pose proof (force_ok b d Hb) as H2. destruct (force ev b d) as [b1 d2]. destruct b1 as [lhs| | |]; try exact H2; try (intros w H; discriminate).
    destruct (factor target (snd lhs) (fst lhs)) as [[[] v]|]; try (intros w H; discriminate). apply IH; [exact Hall2|exact I].
  - intros w H. exfalso. cbn in H. inversion H; subst. exact (Hu _ eq_refl).
Qed.

Lemma args_loop_ok : forall l acc d, Forall (fun x => (asize x <= bound)%nat) l ->
  forall w, fst (args_loop ev l acc d) <> Panic w \/ (debug = true /\ w = 1%N).
Proof.
  induction l as [|a r IH]; intros acc d Hall w; cbn [args_loop]; [left; discriminate|].
  inversion Hall as [|? ? Ha Hr]; subst. pose proof (Hev a d Ha) as H1. destruct (ev a d) as [r1 d1]. destruct r1 as [v| | |]; cbn [fst] in *.
  - apply IH. exact Hr.
  - left. discriminate.
  - destruct (N.eq_dec w why) as [->|Hn]; [right; apply H1; reflexivity|left; congruence].
  - left. discriminate.
Qed.
End Loops.

Lemma asize_child_le k ch s e x : In x ch -> (asize x < asize (ANode k ch s e))%nat.
Proof. cbn [asize]. induction ch as [|y r IH]; [intros []|]. intros [->|H]; [lia|]. specialize (IH H). lia. Qed.

Theorem eval_only_assertion : forall fuel t d, (asize t <= fuel)%nat -> okres (eval debug facts describe fuel t d).
Proof.
  induction fuel as [|f IH]; intros t d Hs.
  { destruct t; cbn in Hs; lia. }
  assert (Hch : forall x, In x (achildren t) -> (asize x <= f)%nat).
  { intros x Hx. destruct t as [k tx s e|k ch s e]; [destruct Hx|]. cbn [achildren] in Hx. pose proof (asize_child_le k ch s e x Hx). lia. }
  assert (Hsk : forall l, incl l (achildren t) -> Forall (fun x => (asize x <= f)%nat) l).
  { intros l Hi. apply Forall_forall. intros x Hx. apply Hch, Hi, Hx. }
  assert (Hskip : forall l, incl (skip_tokens l) l) by (intros l x Hx; unfold skip_tokens in Hx; apply filter_In in Hx; tauto).
  unfold okres. cbn [eval]. destruct (akind t); try (intros w H; discriminate).
  - (* WORD *) destruct (db_lookup facts (atext t)); intros w H; discriminate.
  - (* SENTENCE *) destruct (db_lookup facts (atext t)); intros w H; discriminate.
  - (* NUMBER *) unfold parse_number. destruct (Literal.from_str _); intros w H; discriminate.
  - (* WITH_UNIT *)
    destruct (achildren t) as [|value_node rest] eqn:Ec; [intros w H; discriminate|].
    destruct (next_node rest) as [[unit_node r']|]; [|intros w H; discriminate]. destruct (negb _); [intros w H; discriminate|].
    pose proof (IH value_node d (Hch value_node (or_introl eq_refl))) as H1. destruct (eval debug facts describe f value_node d) as [r1 d1].
    destruct r1 as [v| | |]; try exact H1; try (intros w H; discriminate).
    pose proof (eval_unit_no_panic (achildren unit_node)) as Hu. destruct (eval_unit (achildren unit_node)); try (intros w H; discriminate).
    intros w H. exfalso. cbn in H. inversion H; subst. exact (Hu _ eq_refl).
  - (* FN_CALL *)
    destruct (skip_tokens (achildren t)) as [|name more] eqn:Es; [intros w H; discriminate|]. destruct (negb _); [intros w H; discriminate|].
    destruct more as [|arguments m2]; [intros w H; discriminate|]. destruct (negb _); [intros w H; discriminate|].
    assert (Harg : (asize arguments <= f)%nat).
    { apply Hch. apply (Hskip (achildren t)). rewrite Es. right. left. reflexivity. }
    assert (Hargs : Forall (fun x => (asize x <= f)%nat) (skip_tokens (achildren arguments))).
    { apply Forall_forall. intros x Hx. apply Hskip in Hx. destruct arguments as [k tx s e|k ch s e]; [destruct Hx|].
      cbn [achildren] in Hx. pose proof (asize_child_le k ch s e x Hx). lia. }
    pose proof (args_loop_ok (eval debug facts describe f) f IH (skip_tokens (achildren arguments)) [] d Hargs) as Ha.
    destruct (args_loop (eval debug facts describe f) (skip_tokens (achildren arguments)) [] d) as [ra d1]. cbn [fst] in Ha.
    destruct ra as [argv| | |]; try (intros w H; discriminate).
    + destruct (builtin debug (atext name)) as [fn|] eqn:Eb; [|intros w H; discriminate].
      intros w H. cbn [fst] in H. apply (builtin_ok debug _ fn (aspan t) argv Eb w H).
    + intros w H. cbn [fst] in H. inversion H; subst. destruct (Ha w) as [Hn|Hy]; [congruence|exact Hy].
  - (* PERCENTAGE *)
    destruct (achildren t) as [|number r]; [intros w H; discriminate|]. destruct (kind_beq _ _); [|intros w H; discriminate].
    unfold parse_number. destruct (Literal.from_str _); intros w H; discriminate.
  - (* OPERATION *)
    destruct (skip_tokens (achildren t)) as [|base rest] eqn:Es; [intros w H; discriminate|].
    assert (Hall : Forall (fun x => (asize x <= f)%nat) (base :: rest)) by (apply Hsk; rewrite <- Es; apply Hskip).
    inversion Hall as [|? ? Hb Hr]; subst.
    apply (op_loop_ok (eval debug facts describe f) f IH (aspan t) rest (DNode base) d Hr Hb).
Qed.

(* a release build of the model never panics; a debug build only through Compound::new's assertion *)
Corollary eval_roots_only_assertion roots d r : In r (fst (eval_roots debug facts describe roots d)) -> only_assertion debug r.
Proof.
  revert d. induction roots as [|t rs IH]; intros d; cbn [eval_roots]; [intros []|].
  pose proof (eval_only_assertion (S (asize t)) t d ltac:(lia)) as H1.
  destruct (eval debug facts describe (S (asize t)) t d) as [x d1]. destruct (eval_roots debug facts describe rs d1) as [xs d2] eqn:E.
  cbn [fst]. intros [<-|Hin]; [exact H1|]. apply (IH d1). rewrite E. exact Hin.
Qed.
End NoPanic.

Corollary release_never_panics facts describe roots d r w :
  In r (fst (eval_roots false facts describe roots d)) -> r <> Panic w.
Proof. intros Hin E. destruct (eval_roots_only_assertion false facts describe roots d r Hin w E) as [H _]. discriminate. Qed.
