(* C11 / C04: the one debug assertion the evaluator can reach -- Compound::new's "no zero powers" after a product or quotient --
   cannot fire: Compound::mul of two units without zero powers yields a unit without zero powers. The delicate spot is
   reconstruct putting a derived unit back that is already present: the two contributions cannot cancel, because the base entries
   a derived unit is matched against never change sign. *)
From Coq Require Import ZArith NArith QArith List Bool Sorted Lia.
Import ListNotations.
From AV Require Import model.UnitTypes model.Map model.Units model.Rat model.Compound proofs.MapProofs proofs.FactorProofs proofs.MulProofs gen.UnitDefs.
Open Scope Z_scope.

Definition NZ (c : compound) : Prop := Forall (fun us : unit * state => spower (snd us) <> 0) c.
Lemma nonzero_powers_NZ c : nonzero_powers c = true <-> NZ c.
Proof.
  unfold nonzero_powers, NZ. rewrite forallb_forall, Forall_forall. split; intros H x Hx; specialize (H x Hx).
  - apply negb_true_iff, Z.eqb_neq in H. exact H.
  - apply negb_true_iff, Z.eqb_neq. exact H.
Qed.
Lemma NZ_get c k p e : NZ c -> get c k = Some (p, e) -> p <> 0.
Proof. intros H G. apply get_In in G. unfold NZ in H. rewrite Forall_forall in H. exact (H _ G). Qed.

(* ---- what a successful match says about signs and sizes ---- *)
Lemma inner_loop_sign f base s : forall cur dec m, (dec = 1 \/ dec = -1) -> (cur = 0 \/ Z.sgn cur = dec) ->
  inner_loop f base s cur dec = (true, m) ->
  Z.sgn m = dec /\ m * dec <= cur * dec /\ Z.sgn (base * m) = Z.sgn s /\ Z.abs (base * m) <= Z.abs s.
Proof.
  induction f as [|f IH]; intros cur dec m Hd Hc H; cbn [inner_loop] in H; [discriminate|].
  destruct (cur =? 0) eqn:E0; [discriminate|]. apply Z.eqb_neq in E0.
  destruct ((sgn (base * cur) =? sgn s) && (base * cur * sgn (base * cur) <=? s * sgn s)) eqn:Ec.
  - inversion H; subst m. apply andb_prop in Ec as [E1 E2]. apply Z.eqb_eq in E1. apply Z.leb_le in E2. unfold sgn in *.
    destruct Hc as [Hc|Hc]; [contradiction|]. repeat split; [exact Hc|lia|exact E1|].
    rewrite !Z.sgn_abs in E2. exact E2.
  - assert (Hc' : cur - dec = 0 \/ Z.sgn (cur - dec) = dec) by (destruct Hd; subst dec; destruct Hc as [Hc|Hc]; try contradiction; lia).
    destruct (IH (cur - dec) dec m Hd Hc' H) as (A & B & C & D). repeat split; try assumption.
    destruct Hd; subst dec; lia.
Qed.

Lemma all_match_sign names pw : forall cur dec m, (dec = 1 \/ dec = -1) -> Z.sgn cur = dec ->
  all_match names pw cur dec = Some m ->
  Z.sgn m = dec /\ m * dec <= cur * dec /\
  Forall (fun bk : unit * Z => exists q e, get names (fst bk) = Some (q, e) /\ Z.sgn (snd bk * m) = Z.sgn q /\ Z.abs (snd bk * m) <= Z.abs q) pw.
Proof.
  induction pw as [|[u p] r IH]; intros cur dec m Hd Hc H; cbn [all_match] in H.
  - injection H as <-. repeat split; [exact Hc|lia|constructor].
  - destruct (inner_match names u p cur dec) as [ok cur'] eqn:E. destruct ok; [|discriminate].
    unfold inner_match in E. destruct (get names u) as [[q e]|] eqn:G; [|discriminate]. cbn [spower fst] in E.
    destruct (inner_loop_sign _ p q cur dec cur' Hd (or_intror Hc) E) as (A & B & C & D).
    destruct (IH cur' dec m Hd A H) as (A2 & B2 & F). repeat split; [exact A2|lia|].
    constructor; [|exact F]. cbn [fst snd]. exists q, e. split; [exact G|].
    assert (Sm : Z.sgn m = Z.sgn cur') by congruence.
    split.
    + rewrite Z.sgn_mul, Sm, <- Z.sgn_mul. exact C.
    + rewrite Z.abs_mul. rewrite Z.abs_mul in D. assert (Z.abs m <= Z.abs cur').
      { destruct Hd; subst dec; lia. }
      nia.
Qed.

(* ---- subtracting a closure, key by key ---- *)
Lemma sub_bases_get m pw : wfm pw -> forall nm b, wfm nm ->
  get (fold_left (sub_step m) pw nm) b =
  match get pw b with
  | None => get nm b
  | Some k => match get nm b with Some (q, e) => if q - k * m =? 0 then None else Some (q - k * m, e) | None => None end
  end.
Proof.
  induction pw as [|[k v] r IH]; intros Wp nm b W; cbn [fold_left get]; [reflexivity|].
  apply wfm_cons in Wp as [Wp1 Wp2].
  assert (W1 : wfm (sub_step m nm (k, v))).
  { unfold sub_step. cbn [fst snd]. destruct (get nm k) as [[p e]|]; [|exact W]. cbv zeta. destruct (p - v * m =? 0); [apply del_wfm|apply put_wfm]; exact W. }
  rewrite (IH Wp1 _ b W1). destruct (N.eqb_spec k b) as [->|Hn].
  - rewrite (get_above r b Wp2). unfold sub_step. cbn [fst snd]. destruct (get nm b) as [[p e]|] eqn:E; [|exact E]. cbv zeta.
    destruct (p - v * m =? 0); [apply get_del_same; exact W|apply get_put_same].
  - assert (G : get (sub_step m nm (k, v)) b = get nm b).
    { unfold sub_step. cbn [fst snd]. destruct (get nm k) as [[p e]|]; [|reflexivity]. cbv zeta.
      destruct (p - v * m =? 0); [apply get_del_other|apply get_put_other]; exact Hn. }
    rewrite G. reflexivity.
Qed.

Lemma sub_step_NZ m nm us : NZ nm -> NZ (sub_step m nm us).
Proof.
  intros H. unfold sub_step. destruct (get nm (fst us)) as [[p e]|]; [|exact H]. cbv zeta.
  destruct (p - snd us * m =? 0) eqn:E; [apply del_Forall; exact H|apply put_Forall; [exact H|]]. cbn. apply Z.eqb_neq. exact E.
Qed.
Lemma sub_bases_NZ m pw : forall nm, NZ nm -> NZ (fold_left (sub_step m) pw nm).
Proof. induction pw as [|us r IH]; intros nm H; cbn [fold_left]; [exact H|]. apply IH, sub_step_NZ, H. Qed.

(* ---- the sign invariant: what is left of a base dimension agrees in sign with every derived unit already put back ---- *)
Definition CONS (names : compound) : Prop :=
  forall u p e, get names u = Some (p, e) -> is_base u = false ->
  forall b q e', cdim u b <> 0 -> get names b = Some (q, e') -> Z.sgn q = Z.sgn (cdim u b * p).

Lemma cdim_nonzero_base u b : cdim u b <> 0 -> is_base b = true.
Proof.
  intros H. destruct (closure_powers u) as (Wp & Hab & Hg). rewrite <- Hg in H.
  apply (getz_in _ b Wp) in H. unfold all_base in Hab. rewrite Forall_forall in Hab.
  apply in_map_iff in H as [[k v] [E Hin]]. cbn in E. subst k. exact (Hab _ Hin).
Qed.

Lemma sgn_sub_same q d : Z.sgn d = Z.sgn q -> Z.abs d <= Z.abs q -> q - d <> 0 -> Z.sgn (q - d) = Z.sgn q.
Proof. lia. Qed.
Lemma sgn_add_same p m : p <> 0 -> m <> 0 -> Z.sgn p = Z.sgn m -> p + m <> 0 /\ Z.sgn (p + m) = Z.sgn m.
Proof. lia. Qed.
Lemma sgn_mul_cancel k a b : k <> 0 -> Z.sgn (k * a) = Z.sgn (k * b) -> Z.sgn a = Z.sgn b.
Proof. intros Hk. rewrite !Z.sgn_mul. destruct (Z.sgn_spec k) as [[? E]|[[? E]|[? E]]]; rewrite E; lia. Qed.

Lemma reconstruct_step_NZ names out u power n names' out' :
  inv names -> NZ names -> CONS names -> is_base u = false -> (exists b, cdim u b <> 0) -> power * n <> 0 ->
  reconstruct_step (Some (names, out)) (u, power, n) = Some (names', out') -> NZ names' /\ CONS names'.
Proof.
  intros [W P] Hnz Hc Hu [b0 Hb0] Hpn. unfold reconstruct_step. destruct (has_offset u) eqn:Ho.
  { intros H. inversion H; subst. split; assumption. }
  destruct (bases_match (power * n) (add_closure [] u 1) names) as [m|] eqn:Em.
  2:{ intros H. inversion H; subst. split; assumption. }
  destruct (closure_powers u) as ((Wp & Wnz) & Hab & Hg).
  unfold bases_match in Em.
  assert (Hd : sgn (power * n) = 1 \/ sgn (power * n) = -1) by (unfold sgn; lia).
  destruct (all_match_sign names _ _ _ _ Hd eq_refl Em) as (Sm & _ & Fm). unfold sgn in Sm.
  assert (Hm : m <> 0) by lia.
  pose proof (all_match_present _ _ _ _ _ Em) as Hpres.
  rewrite sub_bases_fold.
  destruct (sub_bases_spec m (add_closure [] u 1) Wp Hab names W P Hpres) as (W1 & P1 & _ & _ & G1).
  pose proof (sub_bases_NZ m (add_closure [] u 1) names Hnz) as Hnz1.
  pose proof (sub_bases_get m (add_closure [] u 1) Wp names) as SG.
  set (names1 := fold_left (sub_step m) (add_closure [] u 1) names) in *.
  destruct (apply_conversion_prop (- m) false out u Ho) as (o' & Eo & _). rewrite Eo.
  assert (Hgu : get names1 u = get names u) by (apply G1; apply derived_not_in_closure; exact Hu).
  (* what the match says about a base of the closure *)
  assert (Hbase : forall b, cdim u b <> 0 -> exists q e, get names b = Some (q, e) /\ Z.sgn (cdim u b * m) = Z.sgn q /\ Z.abs (cdim u b * m) <= Z.abs q /\ get (add_closure [] u 1) b = Some (cdim u b)).
  { intros b Hb. rewrite <- Hg in Hb. pose proof Hb as Hb'. unfold getz in Hb'. destruct (get (add_closure [] u 1) b) as [k|] eqn:Ek; [|congruence].
    apply get_In in Ek. rewrite Forall_forall in Fm. destruct (Fm _ Ek) as (q & e & G & S & A). cbn [fst snd] in *.
    assert (k = cdim u b) by (rewrite <- Hg; unfold getz; rewrite (In_get _ _ _ Wp Ek); reflexivity). subst k.
    exists q, e. repeat split; try assumption. }
  (* a base entry that survives the subtraction keeps its sign *)
  assert (Hkeep : forall b q1 e1, is_base b = true -> get names1 b = Some (q1, e1) -> exists q, get names b = Some (q, e1) /\ Z.sgn q1 = Z.sgn q).
  { intros b q1 e1 Hbb G. rewrite (SG b W) in G. destruct (get (add_closure [] u 1) b) as [k|] eqn:Ek.
    - assert (Hk : cdim u b = k) by (rewrite <- Hg; unfold getz; rewrite Ek; reflexivity).
      assert (Hkn : cdim u b <> 0) by (rewrite Hk; apply (get_nonzero _ _ _ (conj Wp Wnz) Ek)).
      destruct (Hbase b Hkn) as (q & e & Gq & S & A & _). rewrite Gq in G. destruct (q - k * m =? 0) eqn:E0; [discriminate|].
      inversion G; subst q1 e1. exists q. split; [exact Gq|]. apply Z.eqb_neq in E0. rewrite <- Hk in *. apply sgn_sub_same; assumption.
    - exists q1. split; [exact G|reflexivity]. }
  (* the power of u after this step *)
  assert (Hnew : forall P0 e0, (get names1 u = None /\ P0 = m /\ e0 = 0) \/ (exists p, get names1 u = Some (p, e0) /\ P0 = p + m) ->
                 P0 <> 0 /\ Z.sgn P0 = Z.sgn m).
  { intros P0 e0 [(_ & -> & _)|(p & Gp & ->)]; [split; [exact Hm|reflexivity]|].
    rewrite Hgu in Gp. pose proof (NZ_get _ _ _ _ Hnz Gp) as Hp.
    destruct (Hbase b0 Hb0) as (q & e & Gq & S & _).
    pose proof (Hc u p e0 Gp Hu b0 q e Hb0 Gq) as Sq.
    apply sgn_add_same; [exact Hp|exact Hm|]. apply (sgn_mul_cancel (cdim u b0)); [exact Hb0|congruence]. }
  (* both cases of the final put *)
  assert (Hfin : forall P0 e0, P0 <> 0 -> Z.sgn P0 = Z.sgn m -> NZ (put names1 u (P0, e0)) /\ CONS (put names1 u (P0, e0))).
  { intros P0 e0 HP0 SP0. split; [apply put_Forall; [exact Hnz1|exact HP0]|].
    intros u' p' e' G' Hu' b q1 e1 Hb Gb.
    assert (Hbb : is_base b = true) by (apply (cdim_nonzero_base u' b Hb)).
    assert (Hbu : u <> b) by (intros ->; congruence).
    rewrite (get_put_other _ _ _ _ Hbu) in Gb. destruct (Hkeep b q1 e1 Hbb Gb) as (q & Gq & Sq). rewrite Sq.
    destruct (N.eqb_spec u u') as [<-|Hne].
    - rewrite get_put_same in G'. inversion G'; subst p' e'.
      destruct (Hbase b Hb) as (q2 & e2 & Gq2 & S2 & _). rewrite Gq in Gq2. inversion Gq2; subst q2.
      rewrite <- S2. rewrite !Z.sgn_mul, SP0. reflexivity.
    - rewrite (get_put_other _ _ _ _ Hne) in G'.
      assert (G'' : get names u' = Some (p', e')).
      { rewrite <- G'. symmetry. apply G1. intros Hin. destruct (closure_powers u) as (_ & Hab' & _). unfold all_base in Hab'. rewrite Forall_forall in Hab'.
        apply in_map_iff in Hin as [[k v] [E Hin]]. cbn in E. subst k. specialize (Hab' _ Hin). cbn in Hab'. congruence. }
      exact (Hc u' p' e' G'' Hu' b q e1 Hb Gq). }
  destruct (get names1 u) as [[p e]|] eqn:Eg; intros H; inversion H; subst names' out'; clear H.
  - destruct (Hnew (p + m) e (or_intror (ex_intro _ p (conj eq_refl eq_refl)))) as [A B]. apply Hfin; assumption.
  - destruct (Hnew m 0 (or_introl (conj eq_refl (conj eq_refl eq_refl)))) as [A B]. apply Hfin; assumption.
Qed.

Definition der_ok (d : unit * Z * Z) : Prop :=
  let '(u, power, n) := d in is_base u = false /\ (exists b, cdim u b <> 0) /\ power * n <> 0.

Lemma reconstruct_fold_NZ der : Forall der_ok der ->
  forall names out names' out', inv names -> NZ names -> CONS names ->
  fold_left reconstruct_step der (Some (names, out)) = Some (names', out') -> NZ names'.
Proof.
  induction 1 as [|[[u power] n] r (Hu & Hdim & Hpn) _ IH]; intros names out names' out' Hi Hnz Hc H; cbn [fold_left] in H.
  - inversion H; subst. exact Hnz.
  - destruct (reconstruct_step (Some (names, out)) (u, power, n)) as [[names1 out1]|] eqn:E; [|rewrite reconstruct_none in H; discriminate].
    destruct (reconstruct_step_spec names out u power n Hi Hu names1 out1 E) as (I1 & _ & _).
    destruct (reconstruct_step_NZ names out u power n names1 out1 Hi Hnz Hc Hu Hdim Hpn E) as (N1 & C1).
    exact (IH names1 out1 names' out' I1 N1 C1 H).
Qed.

(* the derived units base_units collects are entries of the compound *)
Lemma base_units_der_in (c : compound) :
  Forall (fun d : unit * Z => is_base (fst d) = false /\ exists st, In (fst d, st) c /\ snd d = spower st) (fst (base_units c)).
Proof.
  unfold base_units.
  assert (G : forall l acc, (forall x, In x l -> In x c) ->
    Forall (fun d : unit * Z => is_base (fst d) = false /\ exists st, In (fst d, st) c /\ snd d = spower st) (fst acc) ->
    Forall (fun d : unit * Z => is_base (fst d) = false /\ exists st, In (fst d, st) c /\ snd d = spower st) (fst (fold_left bu_step l acc))).
  { induction l as [|[u st] r IH]; intros acc Hsub H; cbn [fold_left]; [exact H|]. apply IH; [intros x Hx; apply Hsub; right; exact Hx|].
    unfold bu_step. cbn [fst snd]. destruct (is_base u) eqn:E; cbn [fst]; [exact H|]. apply Forall_app. split; [exact H|].
    constructor; [|constructor]. cbn [fst snd]. split; [exact E|]. exists st. split; [apply Hsub; left; reflexivity|reflexivity]. }
  apply G; [auto|constructor].
Qed.

Definition dimensional (c : compound) : Prop := Forall (fun us : unit * state => is_base (fst us) = true \/ exists b, cdim (fst us) b <> 0) c.

Lemma merge_step_NZ n nm bp : n <> 0 -> snd bp <> 0 -> NZ nm -> NZ (merge_step n nm bp).
Proof.
  intros Hn Hb H. unfold merge_step. destruct (get nm (fst bp)) as [[p e]|].
  - cbv zeta. destruct (p + snd bp * n =? 0) eqn:E; [apply del_Forall; exact H|apply put_Forall; [exact H|]]. cbn. apply Z.eqb_neq. exact E.
  - apply put_Forall; [exact H|]. cbn. nia.
Qed.
Lemma merge_fold_NZ n rb : n <> 0 -> Forall (fun kv : N * Z => snd kv <> 0) rb -> forall nm, NZ nm -> NZ (fold_left (merge_step n) rb nm).
Proof.
  intros Hn. induction 1 as [|bp r Hb _ IH]; intros nm H; cbn [fold_left]; [exact H|]. apply IH, merge_step_NZ; assumption.
Qed.

Lemma basic_CONS c : basic c -> CONS c.
Proof.
  intros B u p e G Hu. exfalso. apply get_In in G. unfold basic in B. rewrite Forall_forall in B. destruct (B _ G) as [H _]. cbn in H. congruence.
Qed.

Theorem mul_NZ (self other : compound) n lhs rhs c l r : n <> 0 -> NZ self -> NZ other -> dimensional self -> dimensional other ->
  mul self other n lhs rhs = Some (c, l, r) -> NZ c.
Proof.
  intros Hn Ns No Ds Do. unfold mul.
  destruct self as [|s0 sr].
  { cbn [is_empty orb]. intros H. inversion H; subst. unfold NZ in *. apply Forall_map. eapply Forall_impl; [|exact No]. intros us Hus. cbn [spower fst snd] in *. apply Z.neq_mul_0. split; assumption. }
  destruct other as [|o0 or]. { cbn [is_empty orb]. intros H. inversion H; subst. exact Ns. }
  cbn [is_empty orb]. set (self := s0 :: sr) in *. set (other := o0 :: or) in *.
  destruct (base_units_spec self) as [[Wl Zl] _]. destruct (base_units_spec other) as [[Wr Zr] _].
  pose proof (base_units_all_base self) as Al. pose proof (base_units_all_base other) as Ar.
  pose proof (base_units_der_in self) as Dl. pose proof (base_units_der_in other) as Dr.
  destruct (base_units self) as [lder lb]. destruct (base_units other) as [rder rb]. cbn [fst snd] in *.
  change (fold_left _ rb (List.map (fun bp : unit * Z => (fst bp, (snd bp, 0))) lb)) with (fold_left (merge_step n) rb (lift lb)).
  destruct (scale_in self lhs) as [l1|]; [|discriminate]. destruct (scale_in other rhs) as [r1|]; [|discriminate].
  destruct (fold_left reconstruct_step _ _) as [[names l2]|] eqn:Ef; [|discriminate].
  intros H. inversion H; subst c l r. clear H.
  set (names1 := fold_left (merge_step n) rb (lift lb)) in *.
  destruct (merge_fold n rb Ar Wr (lift lb) 0%N (lift_wfm lb Wl) (lift_basic lb Al)) as (W1 & B1 & _). fold names1 in W1, B1.
  assert (I1 : inv names1).
  { split; [exact W1|]. unfold prefix0. eapply Forall_impl; [|exact B1]. intros us [_ H]. exact H. }
  assert (N1 : NZ names1).
  { apply merge_fold_NZ; [exact Hn|exact Zr|]. unfold NZ, lift. apply Forall_map. eapply Forall_impl; [|exact Zl]. intros kv Hkv. exact Hkv. }
  assert (Hder : Forall der_ok (List.map (fun up : unit * Z => (fst up, snd up, 1)) lder ++ List.map (fun up : unit * Z => (fst up, snd up, n)) rder)).
  { assert (G : forall (cc : compound) dd k, k <> 0 -> NZ cc -> dimensional cc ->
              Forall (fun d : unit * Z => is_base (fst d) = false /\ exists st, In (fst d, st) cc /\ snd d = spower st) dd ->
              Forall der_ok (List.map (fun up : unit * Z => (fst up, snd up, k)) dd)).
    { intros cc dd k Hk Ncc Dcc F. apply Forall_map. eapply Forall_impl; [|exact F]. intros [u p] (Hu & st & Hin & Hp). cbn [fst snd] in *.
      unfold der_ok. split; [exact Hu|]. unfold NZ, dimensional in *. rewrite Forall_forall in Ncc, Dcc. split.
      - destruct (Dcc _ Hin) as [Hb|Hd]; cbn [fst] in *; [congruence|exact Hd].
      - specialize (Ncc _ Hin). cbn [snd] in Ncc. subst p. apply Z.neq_mul_0. split; assumption. }
    apply Forall_app. split; [apply (G self); auto; lia|apply (G other); auto]. }
  exact (reconstruct_fold_NZ _ Hder names1 l1 names l2 I1 N1 (basic_CONS _ B1) Ef).
Qed.

(* ---- the evaluator's products and quotients: the debug assertion of Compound::new cannot fire ---- *)
From AV Require Import model.Syntax model.Eval.

Theorem op_mul_no_panic debug span (a b : numeric) w :
  NZ (snd a) -> NZ (snd b) -> dimensional (snd a) -> dimensional (snd b) -> op_mul debug span a b <> Panic w.
Proof.
  intros Na Nb Da Db. unfold op_mul. destruct (mul (snd a) (snd b) 1 (fst a) (fst b)) as [[[u av] bv]|] eqn:E; [|discriminate].
  destruct (is_empty (snd a) || is_empty (snd b)); [discriminate|].
  unfold checked_new. assert (Hn : nonzero_powers u = true) by (apply nonzero_powers_NZ; apply (mul_NZ (snd a) (snd b) 1 (fst a) (fst b) u av bv); [lia|exact Na|exact Nb|exact Da|exact Db|exact E]).
  rewrite Hn. destruct debug; discriminate.
Qed.

Theorem op_div_no_panic debug span (a b : numeric) w :
  NZ (snd a) -> NZ (snd b) -> dimensional (snd a) -> dimensional (snd b) -> op_div debug span a b <> Panic w.
Proof.
  intros Na Nb Da Db. unfold op_div. destruct (mul (snd a) (snd b) (-1) (fst a) (fst b)) as [[[u av] bv]|] eqn:E; [|discriminate].
  assert (Hn : nonzero_powers u = true) by (apply nonzero_powers_NZ; apply (mul_NZ (snd a) (snd b) (-1) (fst a) (fst b) u av bv); [lia|exact Na|exact Nb|exact Da|exact Db|exact E]).
  destruct (is_empty (snd a) || is_empty (snd b)); [destruct (is_zero bv); discriminate|].
  unfold checked_new. rewrite Hn. destruct debug; cbn; destruct (is_zero bv); discriminate.
Qed.

(* every unit of the translated table has a dimension: its closure is not empty *)
Definition table_dimensional : bool :=
  forallb (fun r : drow => let '(i, cl, _, _, _) := r in existsb (fun bk : N * Z => negb (snd bk =? 0)) cl) derived_table.
Lemma table_dimensional_ok : table_dimensional = true.
Proof. vm_compute. reflexivity. Qed.
