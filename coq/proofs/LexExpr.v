(* The lexer on expression texts: a list of tokens each of which is spelled the way the lexer spells it, and each followed by a
   character that lets it end there, is what the lexer model returns for the concatenation of their texts.
   With proofs/ParseChains.v and proofs/ExprEval.v this carries the token-level theorems of C06/C01 to query strings. *)
From Coq Require Import ZArith NArith List Bool Lia Arith.
Import ListNotations.
From AV Require Import model.Syntax model.Lexer model.Literal spec.LiteralSpec proofs.LiteralProofs proofs.LexLiteral proofs.LexerProofs.
Local Open Scope N_scope.

(* after a binary + or - : a blank, an opening parenthesis, or the end *)
Definition sign_alone (rest : list chr) : Prop :=
  match rest with [] => True | c :: _ => is_ws c = true \/ c = 40 end.
Definition not_star (rest : list chr) : Prop := match rest with [] => True | c :: _ => c <> 42 end.
Definition ws_ends (rest : list chr) : Prop := match rest with [] => True | c :: _ => is_ws c = false end.

Definition tok_ok (t : token) (rest : list chr) : Prop :=
  match fst t with
  | WHITESPACE => snd t <> [] /\ Forall (fun c => is_ws c = true) (snd t) /\ ws_ends rest
  | NUMBER => exists l, well_formed l /\ snd t = chars_of (render l) /\ stops rest
  | PLUS => snd t = [43] /\ sign_alone rest
  | DASH => snd t = [45] /\ sign_alone rest
  | STAR => snd t = [42] /\ not_star rest
  | STARSTAR => snd t = [42; 42]
  | SLASH => snd t = [47]
  | CARET => snd t = [94]
  | PERCENTAGE => snd t = [37]
  | OPEN_PAREN => snd t = [40]
  | CLOSE_PAREN => snd t = [41]
  | _ => False
  end.
Definition text_of (toks : list token) : list chr := concat (map snd toks).
Fixpoint lexable (toks : list token) : Prop :=
  match toks with [] => True | t :: r => tok_ok t (text_of r) /\ lexable r end.

Lemma span_all p text rest : Forall (fun c => p c = true) text -> (match rest with [] => True | c :: _ => p c = false end) ->
  span p (text ++ rest) = (text, rest).
Proof.
  induction 1 as [|c t Hc _ IH]; intros Hr; cbn [app span].
  - destruct rest as [|c r]; [reflexivity|]. cbn [span]. now rewrite Hr.
  - rewrite Hc, (IH Hr). reflexivity.
Qed.

Lemma ws_facts c : is_ws c = true -> Lexer.is_digit c = false /\ (c =? 46) = false /\ is_e c = false.
Proof.
  unfold is_ws, Lexer.is_digit, is_e. intros H.
  repeat split.
  - destruct (48 <=? c) eqn:A, (c <=? 57) eqn:B; try reflexivity. exfalso. apply N.leb_le in A, B.
    repeat match type of H with context [(?a <=? ?b)] => let E := fresh in destruct (a <=? b) eqn:E; [apply N.leb_le in E|apply N.leb_gt in E] end;
    repeat match type of H with context [(?a =? ?b)] => let E := fresh in destruct (a =? b) eqn:E; [apply N.eqb_eq in E|apply N.eqb_neq in E] end;
    cbn in H; try discriminate; lia.
  - destruct (c =? 46) eqn:A; [|reflexivity]. exfalso. apply N.eqb_eq in A. subst c. vm_compute in H. discriminate.
  - destruct (c =? 101) eqn:A; [apply N.eqb_eq in A; subst c; vm_compute in H; discriminate|].
    destruct (c =? 69) eqn:B; [apply N.eqb_eq in B; subst c; vm_compute in H; discriminate|]. reflexivity.
Qed.

Lemma cnum_sign_alone rest : sign_alone rest -> cnum (length rest) false rest = ([], rest).
Proof.
  destruct rest as [|c r]; [reflexivity|]. intros [H|H]; cbn [length cnum].
  - destruct (ws_facts c H) as (H1 & H2 & H3). rewrite H1, H2, H3. reflexivity.
  - subst c. reflexivity.
Qed.

Lemma next_token t rest : tok_ok t rest -> next false (snd t ++ rest) = (t, rest, false) /\ snd t <> [].
Proof.
  destruct t as [k text]. unfold tok_ok. cbn [fst snd].
  destruct k; try contradiction.
  - (* WHITESPACE *) intros (Hne & Hall & Hr). split; [|exact Hne]. destruct text as [|c cs]; [congruence|].
    inversion Hall as [|c' cs' Hc Hcs]. subst. cbn [app]. unfold next. rewrite Hc.
    change (c :: cs ++ rest) with ((c :: cs) ++ rest). rewrite (span_all is_ws (c :: cs) rest Hall Hr). reflexivity.
  - (* STAR *) intros [-> Hr]. split; [|discriminate]. cbn [app]. destruct rest as [|c r]; [reflexivity|]. cbn in Hr.
    unfold next. change (is_ws 42) with false. cbv iota. change (42 =? 123) with false. change (42 =? 46) with false.
    change (42 =? 44) with false. change (Lexer.is_digit 42) with false. change (42 =? 42) with true. cbv iota.
    destruct c as [|p]; [reflexivity|].
    do 6 (try (destruct p as [p|p|]; try reflexivity)). congruence.
  - (* STARSTAR *) intros ->. split; [reflexivity|discriminate].
  - (* SLASH *) intros ->. split; [reflexivity|discriminate].
  - (* PLUS *) intros [-> Hr]. split; [|discriminate]. cbn [app]. unfold next.
    change (is_ws 43) with false. cbv iota. change (43 =? 123) with false. change (43 =? 46) with false. change (43 =? 44) with false.
    change (Lexer.is_digit 43) with false. change (43 =? 42) with false. change (43 =? 47) with false. change (is_sign 43) with true. cbv iota.
    rewrite (cnum_sign_alone rest Hr). reflexivity.
  - (* DASH *) intros [-> Hr]. split; [|discriminate]. cbn [app]. unfold next.
    change (is_ws 45) with false. cbv iota. change (45 =? 123) with false. change (45 =? 46) with false. change (45 =? 44) with false.
    change (Lexer.is_digit 45) with false. change (45 =? 42) with false. change (45 =? 47) with false. change (is_sign 45) with true. cbv iota.
    rewrite (cnum_sign_alone rest Hr). reflexivity.
  - (* CARET *) intros ->. split; [reflexivity|discriminate].
  - (* OPEN_PAREN *) intros ->. split; [reflexivity|discriminate].
  - (* CLOSE_PAREN *) intros ->. split; [reflexivity|discriminate].
  - (* NUMBER *) intros (l & W & -> & S). pose proof (literal_first_token l rest W S) as E. split; [exact E|].
    intros Hnil. rewrite Hnil in E. cbn [app] in E.
    destruct rest as [|c r]; [cbn in E; discriminate|].
    pose proof (next_ok false c r) as K. rewrite E in K. cbn in K. destruct K as [_ K]. congruence.
  - (* PERCENTAGE *) intros ->. split; [reflexivity|discriminate].
Qed.

Lemma lex_lexable : forall toks fuel, lexable toks -> (length (text_of toks) <= fuel)%nat -> lex fuel false (text_of toks) = toks.
Proof.
  induction toks as [|t r IH]; intros fuel Hl Hf.
  - cbn. destruct fuel; reflexivity.
  - cbn [lexable] in Hl. destruct Hl as [Ht Hr]. destruct (next_token t (text_of r) Ht) as [E Hne].
    unfold text_of in *. cbn [map concat] in *. rewrite app_length in Hf.
    destruct (snd t) as [|c cs] eqn:Et; [congruence|]. destruct fuel as [|fuel]; [cbn in Hf; lia|].
    cbn [lex app]. cbn [app] in E. rewrite E. f_equal. apply IH; [exact Hr|cbn in Hf; lia].
Qed.

Theorem tokens_lexable : forall toks, lexable toks -> tokens (text_of toks) = toks.
Proof. intros toks H. unfold tokens. apply lex_lexable; [exact H|lia]. Qed.
