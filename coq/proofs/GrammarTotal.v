(* Parse totality: the fuel of every loop of the parser model suffices, so [parse_root] always yields a forest. The measure is the
   length of the token buffer: no function lengthens it, every loop iteration shortens it. *)
From Coq Require Import NArith List Arith Bool Lia.
Import ListNotations.
From AV Require Import model.Syntax model.Grammar.
Local Close Scope N_scope.

Definition len (s : st) : nat := length (buf s).
Definition le_st (s s' : st) : Prop := len s' <= len s.

Lemma bump_len s : len (bump s) = len s - 1.
Proof. unfold len, bump. destruct (buf s) as [|t r] eqn:E; cbn; [rewrite E; reflexivity|lia]. Qed.
Lemma bumps_len n : forall s, len (bumps n s) = len s - n.
Proof. induction n as [|n IH]; intros s; cbn [bumps]; [lia|]. rewrite IH, bump_len. lia. Qed.
Lemma bump_node_len k s : len (bump_node k s) = len s - 1.
Proof. unfold len, bump_node. destruct (buf s) as [|t r] eqn:E; cbn; lia. Qed.
Lemma close_at_len c k s : len (close_at c k s) = len s.
Proof. reflexivity. Qed.
Lemma eat_len skip ks s : len (snd (eat skip ks s)) <= len s.
Proof. unfold eat. destruct (kinds_match s skip 0 ks); cbn [snd]; [rewrite bumps_len|]; lia. Qed.
Lemma bump_until_len f k : forall s, len (bump_until f k s) <= len s.
Proof.
  induction f as [|f IH]; intros s; cbn [bump_until]; [lia|]. destruct (buf s) as [|t r] eqn:E; [lia|].
  destruct (kind_beq (fst t) k); [rewrite bump_len; lia|]. specialize (IH (bump s)). rewrite bump_len in IH. lia.
Qed.

(* a token of a real kind at position [skip] means the buffer is longer than [skip] *)
Lemma nth_kind_some s skip : nth_kind s skip 0 <> EOF -> skip < len s.
Proof.
  unfold nth_kind, len. rewrite Nat.add_0_r. destruct (nth_error (buf s) skip) eqn:E; [|congruence].
  intros _. apply nth_error_Some. congruence.
Qed.

Lemma unit_trail_len f : forall s, len (snd (unit_trail f s)) <= len s.
Proof.
  induction f as [|f IH]; intros s; cbn [unit_trail]; [cbn; lia|].
  destruct (nth_kind s 0 0); cbn [snd]; try lia;
    match goal with |- context [unit_trail f (bump_node ?k s)] => specialize (IH (bump_node k s)); rewrite bump_node_len in IH; lia end.
Qed.

Lemma unit_loop_len f : forall skip c s, len (snd (unit_loop f skip c s)) <= len s.
Proof.
  induction f as [|f IH]; intros skip c s; cbn [unit_loop]; [cbn; lia|].
  assert (H : forall k, len (snd (let s1 := bumps skip s in let c' := match c with Some _ => c | None => Some (checkpoint s1) end in
             let s2 := bump_node k s1 in match unit_trail (S (length (buf s2))) s2 with (Some skip', s3) => unit_loop f skip' c' s3 | (None, s3) => (c', s3) end)) <= len s).
  { intros k. cbv zeta. pose proof (unit_trail_len (S (length (buf (bump_node k (bumps skip s))))) (bump_node k (bumps skip s))) as Ht.
    rewrite bump_node_len, bumps_len in Ht.
    destruct (unit_trail _ _) as [[skip'|] s3]; cbn [snd] in *.
    - specialize (IH skip' (match c with Some _ => c | None => Some (checkpoint (bumps skip s)) end) s3). lia.
    - lia. }
  destruct (nth_kind s skip 0) eqn:E; cbn [snd]; try lia; apply H.
Qed.

(* when unit() finds a unit it has consumed a token beyond the skipped blanks *)
Lemma unit_loop_some f : forall skip c s c' s', unit_loop f skip c s = (Some c', s') -> c = None -> len s' < len s.
Proof.
  destruct f as [|f]; intros skip c s c' s' H Hc; cbn [unit_loop] in H; [inversion H; congruence|].
  assert (G : forall k, nth_kind s skip 0 = k -> (k = NUMBER \/ k = WORD) ->
     (let s1 := bumps skip s in let cc := match c with Some _ => c | None => Some (checkpoint s1) end in
      let s2 := bump_node k s1 in match unit_trail (S (length (buf s2))) s2 with (Some skip', s3) => unit_loop f skip' cc s3 | (None, s3) => (cc, s3) end) = (Some c', s') -> len s' < len s).
  { intros k Ek Hk H'. cbv zeta in H'. assert (Hlt : skip < len s) by (apply nth_kind_some; rewrite Ek; destruct Hk as [Hk|Hk]; rewrite Hk; discriminate).
    pose proof (unit_trail_len (S (length (buf (bump_node k (bumps skip s))))) (bump_node k (bumps skip s))) as Ht.
    rewrite bump_node_len, bumps_len in Ht.
    destruct (unit_trail (S (length (buf (bump_node k (bumps skip s))))) (bump_node k (bumps skip s))) as [[skip'|] s3]; cbn [snd] in *.
    - pose proof (unit_loop_len f skip' (match c with Some _ => c | None => Some (checkpoint (bumps skip s)) end) s3) as Hl. rewrite H' in Hl. cbn [snd] in Hl. lia.
    - inversion H'; subst. lia. }
  destruct (nth_kind s skip 0) eqn:E; try (inversion H; congruence).
  - apply (G WORD eq_refl); [right; reflexivity|exact H].
  - apply (G NUMBER eq_refl); [left; reflexivity|exact H].
Qed.

Lemma unit_len skip s : len (snd (unit_ skip s)) <= len s.
Proof.
  unfold unit_. pose proof (unit_loop_len (S (length (buf s))) skip None s) as H. destruct (unit_loop _ _ _ _) as [[c|] s']; cbn [snd] in *; [rewrite close_at_len|]; lia.
Qed.
Lemma unit_some skip s c s' : unit_ skip s = (Some c, s') -> len s' < len s.
Proof.
  unfold unit_. destruct (unit_loop (S (length (buf s))) skip None s) as [[cc|] s1] eqn:E; intros H; inversion H; subst.
  rewrite close_at_len. eapply unit_loop_some; [exact E|reflexivity].
Qed.

Lemma words_loop_len f an : forall skip n s, len (snd (words_loop f an skip n s)) <= len s.
Proof.
  induction f as [|f IH]; intros skip n s; cbn [words_loop]; [cbn; lia|].
  destruct (_ || _); [|cbn; lia]. specialize (IH (count_skip (bump_node WORD (bumps skip s))) (S n) (bump_node WORD (bumps skip s))).
  rewrite bump_node_len, bumps_len in IH. lia.
Qed.
Lemma settle_len f p e cur : forall stack s, len (snd (settle f p e cur stack s)) = len s.
Proof.
  induction f as [|f IH]; intros stack s; cbn [settle]; [reflexivity|]. destruct stack as [|[[c p'] e'] rest]; [reflexivity|].
  destruct (p <? p').
  - destruct rest as [|[[c2 pb] e2] rest']; [rewrite IH; reflexivity|]. destruct (p <=? pb); rewrite IH; reflexivity.
  - destruct (p' <? p); reflexivity.
Qed.
Lemma fold_close_len stack : forall s, len (fold_left (fun s (e : entry) => close_at (fst (fst e)) OPERATION s) stack s) = len s.
Proof. induction stack as [|e r IH]; intros s; cbn [fold_left]; [reflexivity|]. rewrite IH. reflexivity. Qed.

(* ---- what the mutually recursive functions do to the buffer ---- *)
Definition four (k : kind) : bool := match k with OPEN_BRACE | OPEN_PAREN | WORD | NUMBER => true | _ => false end.
Definition shr (g : nat -> st -> res (option nat)) : Prop :=
  forall skip s r s', g skip s = Some (r, s') ->
    len s' <= len s /\ (r <> None -> len s' < len s) /\ (four (nth_kind s skip 0) = true -> len s' < len s).
Definition shr_call (g : st -> res bool) : Prop := forall s r s', g s = Some (r, s') -> len s' <= len s.

Lemma op_loop_mono valuef open : shr valuef ->
  forall lf skip first stack s r s', op_loop valuef open lf skip first stack s = Some (r, s') -> len s' <= len s.
Proof.
  intros Hv. induction lf as [|lf IH]; intros skip first stack s r s' H; cbn [op_loop] in H; [discriminate|]. cbv zeta in H.
  set (operand := if match stack with (_, _, e) :: _ => e | [] => false end then _ else _) in H.
  assert (Hop : forall x s1, operand = Some (x, s1) -> len s1 <= len s).
  { subst operand. intros x s1 E. destruct (match stack with (_, _, e) :: _ => e | [] => false end).
    - pose proof (unit_len 0 (bumps skip s)) as Hu. destruct (unit_ 0 (bumps skip s)) as [c s2]. inversion E; subst. cbn [snd] in Hu. rewrite bumps_len in Hu. lia.
    - apply Hv in E. lia. }
  destruct operand as [[[cur|] s1]|]; [|inversion H; subst; apply (Hop _ _ eq_refl)|discriminate].
  specialize (Hop _ _ eq_refl).
  destruct (op_of (nth_kind s1 (count_skip s1) 0)) as [[[prio operator] extra]|].
  - pose proof (settle_len (S (S (length (if first then [(open, prio, extra)] else stack)))) prio extra cur (if first then [(open, prio, extra)] else stack) s1) as Hs.
    destruct (settle _ _ _ _ _ _) as [stack2 s2]. cbn [snd] in Hs.
    apply IH in H. rewrite bump_node_len, bumps_len in H. lia.
  - inversion H; subst. rewrite fold_close_len. lia.
Qed.

(* the first operand of an operation is a value *)
Lemma op_loop_first valuef open : shr valuef ->
  forall lf skip s r s', op_loop valuef open lf skip true [] s = Some (r, s') ->
    (r <> None -> len s' < len s) /\ (four (nth_kind s skip 0) = true -> len s' < len s).
Proof.
  intros Hv lf skip s r s' H. destruct lf as [|lf]; cbn [op_loop] in H; [discriminate|]. cbv zeta in H.
  destruct (valuef skip s) as [[[cur|] s1]|] eqn:Ev; [| |discriminate].
  - apply Hv in Ev. destruct Ev as (E1 & E2 & E3). assert (Hlt : len s1 < len s) by (apply E2; discriminate).
    assert (Hle : len s' <= len s1).
    { destruct (op_of (nth_kind s1 (count_skip s1) 0)) as [[[prio operator] extra]|].
      - pose proof (settle_len 3 prio extra cur [(open, prio, extra)] s1) as Hs. cbn [length] in H.
        destruct (settle 3 prio extra cur [(open, prio, extra)] s1) as [stack2 s2]. cbn [snd] in Hs.
        apply (op_loop_mono valuef open Hv) in H. rewrite bump_node_len, bumps_len in H. lia.
      - inversion H; subst. cbn [fold_left]. lia. }
    split; intros _; lia.
  - inversion H; subst. apply Hv in Ev. destruct Ev as (E1 & E2 & E3). split; [congruence|exact E3].
Qed.

Lemma args_loop_mono operationf c : shr operationf -> forall lf s r s', args_loop operationf c lf s = Some (r, s') -> len s' <= len s.
Proof.
  intros Ho. induction lf as [|lf IH]; intros s r s' H; cbn [args_loop] in H; [discriminate|]. cbv zeta in H.
  assert (Hfin : forall skip s1, len s1 <= len s -> Some (eat skip [CLOSE_PAREN] (close_at c FN_ARGUMENTS s1)) = Some (r, s') -> len s' <= len s).
  { intros skip s1 H1 E. pose proof (eat_len skip [CLOSE_PAREN] (close_at c FN_ARGUMENTS s1)) as He. inversion E as [E']. rewrite E' in He. cbn [snd] in He.
    rewrite close_at_len in He. lia. }
  assert (Hgen : (match operationf (count_skip s) s with
                | None => None
                | Some (None, s1) => Some (false, s1)
                | Some (Some skip1, s1) =>
                    match eat skip1 [COMMA] s1 with
                    | (true, s2) => args_loop operationf c lf s2
                    | (false, s2) => Some (eat skip1 [CLOSE_PAREN] (close_at c FN_ARGUMENTS s2))
                    end end) = Some (r, s') -> len s' <= len s).
  { destruct (operationf (count_skip s) s) as [[[skip1|] s1]|] eqn:Eo; [| |discriminate].
    - apply Ho in Eo. destruct Eo as (E1 & _). pose proof (eat_len skip1 [COMMA] s1) as He.
      destruct (eat skip1 [COMMA] s1) as [[] s2]; cbn [snd] in He; intros H'.
      + apply IH in H'. lia.
      + eapply Hfin; [|exact H']. lia.
    - apply Ho in Eo. destruct Eo as (E1 & _). intros H'. inversion H'; subst. exact E1. }
  destruct (nth_kind s (count_skip s) 0); try (apply Hgen; exact H). eapply Hfin; [|exact H]. lia.
Qed.

Lemma value_body_shr operationf callf : shr operationf -> shr_call callf -> shr (value_body operationf callf).
Proof.
  intros Ho Hc skip s r s' H. unfold value_body in H.
  destruct (nth_kind s skip 0) eqn:E;
    try (inversion H; subst; cbn [four]; repeat split; [lia|congruence|discriminate]).
  - (* OPEN_PAREN *)
    assert (Hlt : skip < len s) by (apply nth_kind_some; rewrite E; discriminate). cbv zeta in H.
    destruct (operationf (count_skip (bump (bumps skip s))) (bump (bumps skip s))) as [[[skip'|] s3]|] eqn:Eo; [| |discriminate].
    + apply Ho in Eo. destruct Eo as (E1 & _). rewrite bump_len, bumps_len in E1.
      pose proof (eat_len skip' [CLOSE_PAREN] s3) as He. destruct (eat skip' [CLOSE_PAREN] s3) as [[] s4]; cbn [snd] in He; inversion H; subst; repeat split; intros; first [lia | congruence].
    + apply Ho in Eo. destruct Eo as (E1 & _). rewrite bump_len, bumps_len in E1. inversion H; subst. repeat split; intros; first [lia | congruence].
  - (* OPEN_BRACE *)
    assert (Hlt : skip < len s) by (apply nth_kind_some; rewrite E; discriminate). cbv zeta in H.
    pose proof (words_loop_len (S (length (buf (bump (bumps skip s))))) false (count_skip (bump (bumps skip s))) 0 (bump (bumps skip s))) as Hw.
    destruct (words_loop _ _ _ _ _) as [[skip' words] s3]. cbn [snd] in Hw. rewrite bump_len, bumps_len in Hw.
    set (s4 := if 1 <? words then close_at (checkpoint (bump (bumps skip s))) SENTENCE s3 else s3) in H.
    assert (H4 : len s4 = len s3) by (subst s4; destruct (1 <? words); reflexivity).
    pose proof (eat_len skip' [CLOSE_BRACE] s4) as He. destruct (eat skip' [CLOSE_BRACE] s4) as [[] s5]; cbn [snd] in He.
    + inversion H; subst. repeat split; intros; first [lia | congruence].
    + pose proof (bump_until_len (S (length (buf s5))) CLOSE_BRACE s5) as Hb.
      set (sb := bump_until (S (length (buf s5))) CLOSE_BRACE s5) in *. clearbody sb. inversion H; subst. repeat split; intros; first [lia | congruence].
  - (* WORD *)
    assert (Hlt : skip < len s) by (apply nth_kind_some; rewrite E; discriminate). cbv zeta in H.
    destruct (kind_beq (nth_kind (bump_node WORD (bumps skip s)) 0 0) OPEN_PAREN).
    + destruct (callf (bump (close_at (checkpoint (bumps skip s)) FN_NAME (bump_node WORD (bumps skip s))))) as [[[] s4]|] eqn:Ec; [| |discriminate];
        apply Hc in Ec; rewrite bump_len, close_at_len, bump_node_len, bumps_len in Ec; inversion H; subst; try rewrite close_at_len; repeat split; intros; first [lia | congruence].
    + pose proof (words_loop_len (S (length (buf (bump_node WORD (bumps skip s))))) true (count_skip (bump_node WORD (bumps skip s))) 0 (bump_node WORD (bumps skip s))) as Hw.
      destruct (words_loop _ _ _ _ _) as [[skip' words] s3]. cbn [snd] in Hw. rewrite bump_node_len, bumps_len in Hw. inversion H; subst.
      assert (Hl : len (if 0 <? words then close_at (checkpoint (bumps skip s)) SENTENCE s3 else s3) = len s3) by (destruct (0 <? words); reflexivity).
      rewrite Hl. repeat split; intros; first [lia | congruence].
  - (* NUMBER *)
    assert (Hlt : skip < len s) by (apply nth_kind_some; rewrite E; discriminate). cbv zeta in H.
    set (s2 := bump (bumps skip s)) in H. assert (H2 : len s2 = len s - skip - 1) by (subst s2; rewrite bump_len, bumps_len; lia).
    assert (Hu : (let (u, s3) := unit_ (count_skip s2) s2 in Some (Some (checkpoint (bumps skip s)), close_at (checkpoint (bumps skip s)) match u with Some _ => WITH_UNIT | None => NUMBER end s3)) = Some (r, s') ->
                 len s' < len s).
    { pose proof (unit_len (count_skip s2) s2) as Hl. destruct (unit_ _ _) as [u s3]. cbn [snd] in Hl. intros H'. inversion H'; subst. rewrite close_at_len. lia. }
    assert (G : len s' < len s).
    { destruct (nth_kind s2 (count_skip s2) 0); try (apply Hu; exact H). inversion H; subst. rewrite close_at_len, bump_len, bumps_len. lia. }
    repeat split; intros; first [lia | congruence].
Qed.

Lemma mutual_shr : forall fuel, shr (operation fuel) /\ shr (value fuel) /\ shr_call (call_arguments fuel).
Proof.
  induction fuel as [|f (IHo & IHv & IHc)]; [repeat split; intros; discriminate|]. repeat split.
  - cbn [operation] in H. eapply op_loop_mono; [exact IHv|exact H].
  - cbn [operation] in H. eapply op_loop_first; [exact IHv|exact H].
  - cbn [operation] in H. eapply op_loop_first; [exact IHv|exact H].
  - cbn [value] in H. apply (value_body_shr _ _ IHo IHc) in H. tauto.
  - cbn [value] in H. apply (value_body_shr _ _ IHo IHc) in H. tauto.
  - cbn [value] in H. apply (value_body_shr _ _ IHo IHc) in H. tauto.
  - intros s r s' H. cbn [call_arguments] in H. eapply args_loop_mono; [exact IHo|exact H].
Qed.

(* ---- fuel suffices ---- *)
Lemma op_loop_total valuef open N : shr valuef -> (forall skip s, len s <= N -> valuef skip s <> None) ->
  forall lf skip first stack s, len s < lf -> len s <= N -> op_loop valuef open lf skip first stack s <> None.
Proof.
  intros Hv Ht. induction lf as [|lf IH]; intros skip first stack s Hlf HN; [lia|]. cbn [op_loop]. cbv zeta.
  set (operand := if match stack with (_, _, e) :: _ => e | [] => false end then _ else _).
  assert (Hop : operand <> None /\ forall cur s1, operand = Some (Some cur, s1) -> len s1 < len s).
  { subst operand. destruct (match stack with (_, _, e) :: _ => e | [] => false end).
    - split; [destruct (unit_ 0 (bumps skip s)); discriminate|]. intros cur s1 E.
      destruct (unit_ 0 (bumps skip s)) as [c s2] eqn:Eu. inversion E; subst. apply unit_some in Eu. rewrite bumps_len in Eu. lia.
    - split; [apply Ht; exact HN|]. intros cur s1 E. apply Hv in E. destruct E as (_ & E2 & _). apply E2. discriminate. }
  destruct Hop as [Hne Hlt]. destruct operand as [[[cur|] s1]|]; [|discriminate|congruence].
  specialize (Hlt _ _ eq_refl).
  destruct (op_of (nth_kind s1 (count_skip s1) 0)) as [[[prio operator] extra]|]; [|discriminate].
  pose proof (settle_len (S (S (length (if first then [(open, prio, extra)] else stack)))) prio extra cur (if first then [(open, prio, extra)] else stack) s1) as Hs.
  destruct (settle _ _ _ _ _ _) as [stack2 s2]. cbn [snd] in Hs.
  apply IH; rewrite bump_node_len, bumps_len; lia.
Qed.

Lemma kinds_match_one s skip k : kinds_match s skip 0 [k] = true -> k <> EOF -> skip < len s.
Proof.
  cbn [kinds_match]. rewrite andb_true_r. intros H Hk. apply nth_kind_some. intros E. rewrite E in H. destruct k; try discriminate. congruence.
Qed.

Lemma args_loop_total operationf c N : shr operationf -> (forall skip s, len s <= N -> operationf skip s <> None) ->
  forall lf s, len s < lf -> len s <= N -> args_loop operationf c lf s <> None.
Proof.
  intros Ho Ht. induction lf as [|lf IH]; intros s Hlf HN; [lia|]. cbn [args_loop]. cbv zeta.
  assert (Hgen : (match operationf (count_skip s) s with
                | None => None
                | Some (None, s1) => Some (false, s1)
                | Some (Some skip1, s1) =>
                    match eat skip1 [COMMA] s1 with
                    | (true, s2) => args_loop operationf c lf s2
                    | (false, s2) => Some (eat skip1 [CLOSE_PAREN] (close_at c FN_ARGUMENTS s2))
                    end end) <> None).
  { pose proof (Ht (count_skip s) s HN) as Hn. destruct (operationf (count_skip s) s) as [[[skip1|] s1]|] eqn:Eo; [|discriminate|congruence].
    apply Ho in Eo. destruct Eo as (E1 & _). unfold eat. destruct (kinds_match s1 skip1 0 [COMMA]) eqn:Ek; [|discriminate].
    apply kinds_match_one in Ek; [|discriminate]. apply IH; rewrite bumps_len; cbn [length]; lia. }
  destruct (nth_kind s (count_skip s) 0); try exact Hgen; discriminate.
Qed.

Lemma value_body_total operationf callf (s : st) skip :
  shr operationf ->
  (forall skip' s', len s' < len s -> operationf skip' s' <> None) ->
  (forall s', len s' + 2 <= len s -> callf s' <> None) ->
  value_body operationf callf skip s <> None.
Proof.
  intros Ho To Tc. unfold value_body.
  destruct (nth_kind s skip 0) eqn:E; try discriminate.
  - (* OPEN_PAREN *)
    assert (Hlt : skip < len s) by (apply nth_kind_some; rewrite E; discriminate). cbv zeta.
    pose proof (To (count_skip (bump (bumps skip s))) (bump (bumps skip s))) as Hn. rewrite bump_len, bumps_len in Hn.
    destruct (operationf _ _) as [[[skip'|] s3]|]; [|discriminate|exfalso; apply Hn; [lia|reflexivity]].
    destruct (eat skip' [CLOSE_PAREN] s3) as [[] s4]; discriminate.
  - (* OPEN_BRACE *)
    cbv zeta. destruct (words_loop _ _ _ _ _) as [[skip' words] s3].
    destruct (eat skip' [CLOSE_BRACE] _) as [[] s5]; discriminate.
  - (* WORD *)
    assert (Hlt : skip < len s) by (apply nth_kind_some; rewrite E; discriminate). cbv zeta.
    destruct (kind_beq (nth_kind (bump_node WORD (bumps skip s)) 0 0) OPEN_PAREN) eqn:Ep.
    + assert (Hp : 0 < len (bump_node WORD (bumps skip s))).
      { apply nth_kind_some. intros Q. rewrite Q in Ep. discriminate. }
      rewrite bump_node_len, bumps_len in Hp.
      pose proof (Tc (bump (close_at (checkpoint (bumps skip s)) FN_NAME (bump_node WORD (bumps skip s))))) as Hn.
      rewrite bump_len, close_at_len, bump_node_len, bumps_len in Hn.
      destruct (callf _) as [[[] s4]|]; [discriminate|discriminate|exfalso; apply Hn; [lia|reflexivity]].
    + destruct (words_loop _ _ _ _ _) as [[skip' words] s3]. discriminate.
  - (* NUMBER *)
    cbv zeta. destruct (nth_kind (bump (bumps skip s)) (count_skip (bump (bumps skip s))) 0); try (destruct (unit_ _ _); discriminate). discriminate.
Qed.

Lemma mutual_total : forall fuel,
  (forall skip s, 2 * len s + 2 <= fuel -> operation fuel skip s <> None) /\
  (forall skip s, 2 * len s + 1 <= fuel -> value fuel skip s <> None) /\
  (forall s, 2 * len s + 3 <= fuel -> call_arguments fuel s <> None).
Proof.
  induction fuel as [|f (IHo & IHv & IHc)]; [repeat split; intros; lia|].
  destruct (mutual_shr f) as (So & Sv & Sc). repeat split.
  - intros skip s H. cbn [operation]. apply (op_loop_total (value f) (checkpoint s) (len s)); [exact Sv| |unfold len; lia|lia].
    intros skip' s' Hl. apply IHv. lia.
  - intros skip s H. cbn [value]. apply value_body_total; [exact So| |].
    + intros skip' s' Hl. apply IHo. lia.
    + intros s' Hl. apply IHc. lia.
  - intros s H. cbn [call_arguments]. apply (args_loop_total (operation f) (checkpoint s) (len s)); [exact So| |unfold len; lia|lia].
    intros skip' s' Hl. apply IHo. lia.
Qed.

Lemma root_loop_total : forall fuel c skip err s, len s < fuel -> root_loop fuel c skip err s <> None.
Proof.
  induction fuel as [|f IH]; intros c skip err s Hf; [lia|]. cbn [root_loop].
  assert (Hop : four (nth_kind s skip 0) = true ->
        (match operation (2 * length (buf s) + 2) skip s with
        | None => None
        | Some (Some skip', s1) => root_loop f c skip' err s1
        | Some (None, s1) => let s2 := close_at c ERROR s1 in root_loop f c (count_skip s2) err s2 end) <> None).
  { intros H4. destruct (mutual_total (2 * length (buf s) + 2)) as (To & _). specialize (To skip s (le_n _)).
    destruct (mutual_shr (2 * length (buf s) + 2)) as (So & _).
    destruct (operation _ skip s) as [[[skip'|] s1]|] eqn:Eo; [| |congruence]; apply So in Eo; destruct Eo as (_ & _ & E3); specialize (E3 H4).
    - apply IH. lia.
    - cbv zeta. apply IH. rewrite close_at_len. lia. }
  assert (Hbad : nth_kind s skip 0 <> EOF -> (let s1 := bump (bumps skip s) in root_loop f c (count_skip s1) true s1) <> None).
  { intros Hk. apply nth_kind_some in Hk. cbv zeta. apply IH. rewrite bump_len, bumps_len. lia. }
  destruct (nth_kind s skip 0) eqn:E; try (apply Hbad; discriminate); try (apply Hop; reflexivity). discriminate.
Qed.

Theorem parse_total : forall toks, parse_root toks <> None.
Proof.
  intros toks. unfold parse_root.
  pose proof (root_loop_total (S (S (length toks))) (checkpoint {| buf := toks; forest := [] |}) (count_skip {| buf := toks; forest := [] |}) false {| buf := toks; forest := [] |}) as H.
  destruct (root_loop _ _ _ _ _) as [[err s']|]; [discriminate|]. exfalso. apply H; [cbn; lia|reflexivity].
Qed.

From AV Require Import model.Lexer proofs.GrammarLossless.
Theorem source_always : forall s : list chr, exists f, parse_root (tokens s) = Some f /\ concat (map snd (leavesf f)) = s.
Proof.
  intros s. destruct (parse_root (tokens s)) as [f|] eqn:E; [|exfalso; exact (parse_total _ E)].
  exists f. split; [reflexivity|]. apply source_leaves. exact E.
Qed.
