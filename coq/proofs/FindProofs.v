(* C16: what asking for a fact by its own words does, as far as the query language and the stored payloads are concerned. *)
From Coq Require Import ZArith NArith List Bool QArith.
Import ListNotations.
From AV Require Import model.Syntax model.Lexer model.Grammar model.UnitTypes model.Eval model.Cbor model.Codec model.Find model.Run gen.Shipped.

Lemma chars_eqb_eq a b : chars_eqb a b = true -> a = b.
Proof.
  revert b. induction a as [|x a IH]; intros [|y b] H; try discriminate; [reflexivity|]. cbn [chars_eqb] in H.
  apply andb_prop in H as [H1 H2]. apply N.eqb_eq in H1. subst. f_equal. apply IH. exact H2.
Qed.

(* a phrase query is answered by the database's answer for exactly that text, which is then the one description *)
Theorem phrase_query_looks_up : forall (dbg describe : bool) (facts : db) (s : list chr), is_phrase_query s = true ->
  query dbg describe facts s =
    match db_lookup facts s with
    | Found _ v u => ([Ok (v, u)], if describe then [s] else [])
    | NotFound => ([Error (0%N, utf8_size s) Missing], [])
    | LookupFailed => ([Error (0%N, utf8_size s) LookupError], [])
    end.
Proof.
  intros dbg describe facts s H. unfold is_phrase_query in H. unfold query.
  destruct (parse_root (tokens s)) as [f|]; [|discriminate].
  destruct (skip_tokens (annotate_forest 0 f)) as [|t [|t2 r]] eqn:E; try discriminate.
  apply andb_prop in H as [H He]. apply andb_prop in H as [H Hs]. apply andb_prop in H as [Hk Ht].
  apply chars_eqb_eq in Ht. apply N.eqb_eq in He, Hs.
  assert (Sp : aspan t = (0%N, utf8_size s)) by (destruct (aspan t); cbn in *; subst; reflexivity).
  cbn [eval_roots eval]. rewrite Sp, Ht.
  assert (K : akind t = WORD \/ akind t = SENTENCE).
  { apply orb_prop in Hk as [Hk|Hk]; [left|right]; destruct (akind t); try discriminate; reflexivity. }
  destruct K as [-> | ->]; destruct (db_lookup facts s); destruct describe; reflexivity.
Qed.

(* over the shipped data, by computation: every constant whose words are plain lower-case words is asked for by a phrase, in every
   order of its words that is tried *)
Theorem plain_words_are_phrases :
  forallb (fun c : constant => implb (forallb plain_word (cwords c)) (forallb (fun o => is_phrase_query (join_words o)) (orders (cwords c)))) shipped = true.
Proof. vm_compute. reflexivity. Qed.

(* which is not vacuous: most constants have plain words, and some others are phrases as well *)
Theorem plain_words_exist : (length shipped <=? 2 * length (filter (fun c : constant => forallb plain_word (cwords c)) shipped))%nat = true /\
  (length (filter (fun c : constant => forallb plain_word (cwords c)) shipped) <=? length typeable_positions)%nat = true.
Proof. split; vm_compute; reflexivity. Qed.

(* every stored payload decodes to what was encoded and names a listed source *)
Theorem shipped_decode_completely : forallb (fun c => const_decodes c && source_listed c) shipped = true.
Proof. vm_compute. reflexivity. Qed.

(* each constant carries its own words, in every order *)
Lemma carries_refl_shipped : forallb (fun c : constant => forallb (fun o => carries (cwords c) o) (orders (cwords c))) shipped = true.
Proof. vm_compute. reflexivity. Qed.
