(* C06, tie between the abstract precedence discipline (spec/Climb.v) and the concrete lexer + parser model:
   for every sequence of up to five operators over + - * / ^ between plain numbers, lexing and parsing the text yields exactly
   the tree the documented grammar prescribes ([canon] over the priority levels), and changing the blanks in any one gap --
   none at all where the language allows it, one or several spaces, a tab, also at either end -- does not change it.
   Decided inside the kernel by computation over the finite set (the bound is part of the statement). *)
From Coq Require Import NArith List Arith Bool Lia Sorted.
Import ListNotations.
From AV Require Import model.Syntax model.Lexer model.Grammar spec.Climb proofs.ClimbProofs.
Local Close Scope N_scope.

(* operators as characters, with priority and tag (the operator node kind) *)
Definition opchars : list (chr * op) :=
  [(43%N, (2, 23)); (45%N, (2, 24)); (42%N, (3, 26)); (47%N, (3, 27)); (94%N, (10, 28))].
Definition levels : list nat := [2; 3; 10].

Fixpoint seqs (n : nat) : list (list (chr * op)) :=
  match n with O => [[]] | S k => flat_map (fun s => map (fun o => o :: s) opchars) (seqs k) end.
Definition all_upto (n : nat) := flat_map seqs (seq 0 (S n)).

(* the abstract input: Leaf 0 op Leaf 1 op ... *)
Fixpoint mk (i : nat) (ops : list (chr * op)) : list (op * Climb.tree) :=
  match ops with [] => [] | o :: r => (snd o, Leaf (S i)) :: mk (S i) r end.
Definition input (ops : list (chr * op)) : seg := (Leaf 0, mk 0 ops).

(* the text: operand i is the digit i; [gaps] gives the blank string of every gap (before the first operand, around
   every operator, after the last operand) *)
Definition digit (i : nat) : chr := (48 + N.of_nat i)%N.
Fixpoint text_from (i : nat) (ops : list (chr * op)) (gaps : list (list chr)) : list chr :=
  match ops with
  | [] => nth 0 gaps []
  | o :: r => nth 0 gaps [] ++ [fst o] ++ nth 1 gaps [] ++ [digit (S i)] ++ text_from (S i) r (skipn 2 gaps)
  end.
Definition text (ops : list (chr * op)) (gaps : list (list chr)) : list chr :=
  nth 0 gaps [] ++ [digit 0] ++ text_from 0 ops (skipn 1 gaps).

(* reading a concrete syntax tree back as an abstract one *)
Definition is_ws_tok (t : Grammar.tree) : bool := match t with Tok WHITESPACE _ => true | _ => false end.
Definition op_tag (k : kind) : option op :=
  match k with OP_ADD => Some (2, 23) | OP_SUB => Some (2, 24) | OP_MUL => Some (3, 26) | OP_DIV => Some (3, 27) | OP_POWER => Some (10, 28) | _ => None end.
Fixpoint erase (fuel : nat) (t : Grammar.tree) : option Climb.tree :=
  match fuel with
  | O => None
  | S f =>
      match t with
      | Grammar.Node NUMBER [Tok NUMBER [c]] => Some (Leaf (N.to_nat (c - 48)))
      | Grammar.Node OPERATION ch =>
          match filter (fun x => negb (is_ws_tok x)) ch with
          | hd :: rest =>
              match erase f hd with
              | None => None
              | Some h =>
                  (fix pairs (l : list Grammar.tree) (acc : list (op * Climb.tree)) : option Climb.tree :=
                     match l with
                     | [] => Some (Climb.Node h (rev acc))
                     | Grammar.Node k _ :: x :: r =>
                         match op_tag k, erase f x with
                         | Some o, Some y => pairs r ((o, y) :: acc)
                         | _, _ => None
                         end
                     | _ => None
                     end) rest []
              end
          | [] => None
          end
      | _ => None
      end
  end.

(* the whole front end on a text: exactly one root node, read back *)
Definition front (s : list chr) : option Climb.tree :=
  match parse_root (tokens s) with
  | Some f => match filter (fun x => negb (is_ws_tok x)) f with [t] => erase 20 t | _ => None end
  | None => None
  end.

Fixpoint ctree_eqb (a b : Climb.tree) {struct a} : bool :=
  match a, b with
  | Leaf n, Leaf m => n =? m
  | Climb.Node h t, Climb.Node h' t' =>
      ctree_eqb h h' &&
      (fix go (t t' : list (op * Climb.tree)) : bool :=
         match t, t' with
         | [], [] => true
         | (o, x) :: r, (o', x') :: r' => (fst o =? fst o') && (snd o =? snd o') && ctree_eqb x x' && go r r'
         | _, _ => false
         end) t t'
  | _, _ => false
  end.
Definition opt_eqb (a : option Climb.tree) (b : Climb.tree) : bool := match a with Some x => ctree_eqb x b | None => false end.

Lemma ctree_eqb_eq a : forall b, ctree_eqb a b = true -> a = b.
Proof.
  induction a as [n|h tl IHh IHt] using tree_ind2; intros [m|h' tl']; cbn [ctree_eqb]; try discriminate.
  - intros H. apply Nat.eqb_eq in H. now subst.
  - intros H. apply andb_prop in H as [H1 H2]. rewrite (IHh _ H1). f_equal.
    revert tl' H2. induction IHt as [|[o x] r Hx _ IHr]; intros [|[o' x'] r'] H2; try discriminate; [reflexivity|].
    apply andb_prop in H2 as [H2 H3]. apply andb_prop in H2 as [H2 H4]. apply andb_prop in H2 as [H2 H5].
    apply Nat.eqb_eq in H2, H5. cbn [snd] in Hx. rewrite (Hx _ H4), (IHr _ H3). destruct o, o'. cbn in *. now subst.
Qed.

(* layouts: the canonical one (single blanks between tokens, none at the ends) and all that differ from it in one gap *)
Definition SP : list chr := [32%N].
Definition alternatives (needs_blank : bool) : list (list chr) :=
  (if needs_blank then [] else [[]]) ++ [[32%N]; [32%N; 32%N]; [9%N]].
Definition canonical_gaps (ops : list (chr * op)) : list (list chr) :=
  [] :: flat_map (fun _ => [SP; SP]) ops ++ [[]].
(* gap 0 is the leading one; gaps 2i+1 and 2i+2 surround operator i; the last is the trailing one *)
Definition gap_needs_blank (ops : list (chr * op)) (g : nat) : bool :=
  if (g =? 0) || (g =? 2 * length ops + 1) then false
  else match nth_error ops ((g - 1) / 2) with
       | Some (c, _) => (c =? 43)%N || (c =? 45)%N         (* binary + and - need blanks on both sides *)
       | None => false
       end.
Fixpoint set_nth {A} (n : nat) (x : A) (l : list A) : list A :=
  match l, n with [], _ => [] | _ :: r, O => x :: r | y :: r, S k => y :: set_nth k x r end.
Definition variants (ops : list (chr * op)) : list (list (list chr)) :=
  flat_map (fun g => map (fun alt => set_nth g alt (canonical_gaps ops)) (alternatives (gap_needs_blank ops g)))
           (seq 0 (2 * length ops + 2)).

Definition ok_canonical (ops : list (chr * op)) : bool :=
  opt_eqb (front (text ops (canonical_gaps ops))) (canon levels (input ops)).
Definition ok_layouts (ops : list (chr * op)) : bool :=
  forallb (fun gaps => opt_eqb (front (text ops gaps)) (canon levels (input ops))) (variants ops).

Theorem parse_is_canon_bounded : forall ops, In ops (all_upto 5) ->
  front (text ops (canonical_gaps ops)) = Some (canon levels (input ops)).
Proof.
  intros ops H.
  assert (E : ok_canonical ops = true) by (apply (proj1 (forallb_forall ok_canonical (all_upto 5))); [vm_compute; reflexivity|exact H]).
  unfold ok_canonical, opt_eqb in E. destruct (front _) as [t|]; [|discriminate]. f_equal. apply ctree_eqb_eq. exact E.
Qed.

Theorem layout_irrelevant_bounded : forall ops gaps, In ops (all_upto 5) -> In gaps (variants ops) ->
  front (text ops gaps) = Some (canon levels (input ops)).
Proof.
  intros ops gaps H Hg.
  assert (E : ok_layouts ops = true) by (apply (proj1 (forallb_forall ok_layouts (all_upto 5))); [vm_compute; reflexivity|exact H]).
  unfold ok_layouts in E. pose proof (proj1 (forallb_forall _ _) E gaps Hg) as E'. cbv beta in E'.
  unfold opt_eqb in E'. destruct (front _) as [t|]; [|discriminate]. f_equal. apply ctree_eqb_eq. exact E'.
Qed.

(* ... and that tree is the one the abstract stack discipline computes (for any number of operators, see ClimbProofs) *)
Lemma mk_atoms i ops : atoms (mk i ops).
Proof. revert i. induction ops as [|o r IH]; intros i o' x H; cbn in H; [tauto|]. destruct H as [H|H]; [inversion H; eauto|eapply IH; eauto]. Qed.
Lemma levels_sorted : StronglySorted lt levels.
Proof. repeat constructor. Qed.
Lemma seqs_ops n : forall ops, In ops (seqs n) -> forall o, In o ops -> In o opchars.
Proof.
  induction n as [|n IH]; cbn [seqs]; intros ops H o Ho.
  - destruct H as [<-|[]]. destruct Ho.
  - apply in_flat_map in H as [s [Hs Hin]]. apply in_map_iff in Hin as [o' [<- Ho']]. destruct Ho as [<-|Ho]; [exact Ho'|eapply IH; eauto].
Qed.
Lemma mk_prio i ops : (forall o, In o ops -> In o opchars) -> forall o y, In (o, y) (mk i ops) -> In (prio o) levels.
Proof.
  revert i. induction ops as [|o r IH]; intros i Hin o' y H; cbn in H; [tauto|]. destruct H as [H|H].
  - inversion H; subst. specialize (Hin o (or_introl eq_refl)). cbn in Hin.
    repeat (destruct Hin as [<-|Hin]; [cbn; auto|]). destruct Hin.
  - eapply IH; eauto. intros o0 H0. apply Hin. right. exact H0.
Qed.

Theorem parse_is_climb_bounded : forall ops, In ops (all_upto 5) ->
  front (text ops (canonical_gaps ops)) = Some (climb (input ops)).
Proof.
  intros ops H. rewrite (parse_is_canon_bounded ops H). f_equal. symmetry. unfold input.
  apply climb_eq_canon; [apply levels_sorted|apply mk_atoms|].
  apply mk_prio. unfold all_upto in H. apply in_flat_map in H as [n [_ Hn]]. apply (seqs_ops n ops Hn).
Qed.

Lemma in_seqs ops : (forall o, In o ops -> In o opchars) -> In ops (seqs (length ops)).
Proof.
  induction ops as [|o s IH]; intros H; cbn [length seqs]; [left; reflexivity|].
  apply in_flat_map. exists s. split; [apply IH; intros o' Ho'; apply H; right; exact Ho'|].
  apply in_map_iff. exists o. split; [reflexivity|apply H; left; reflexivity].
Qed.
Lemma in_all_upto n ops : length ops <= n -> (forall o, In o ops -> In o opchars) -> In ops (all_upto n).
Proof.
  intros Hl H. unfold all_upto. apply in_flat_map. exists (length ops). split; [apply in_seq; lia|apply in_seqs; exact H].
Qed.

(* the same statements with the bound spelled out *)
Theorem parse_is_canon_upto5 : forall ops, length ops <= 5 -> (forall o, In o ops -> In o opchars) ->
  front (text ops (canonical_gaps ops)) = Some (canon levels (input ops)) /\
  canon levels (input ops) = climb (input ops).
Proof.
  intros ops Hl H. pose proof (in_all_upto 5 ops Hl H) as Hin. split; [apply parse_is_canon_bounded; exact Hin|].
  pose proof (parse_is_canon_bounded ops Hin) as E1. pose proof (parse_is_climb_bounded ops Hin) as E2. congruence.
Qed.
Theorem layout_irrelevant_upto5 : forall ops gaps, length ops <= 5 -> (forall o, In o ops -> In o opchars) -> In gaps (variants ops) ->
  front (text ops gaps) = Some (canon levels (input ops)).
Proof. intros ops gaps Hl H Hg. apply layout_irrelevant_bounded; [apply in_all_upto; assumption|exact Hg]. Qed.

Example bounded_example :
  front [49; 32; 45; 32; 50; 32; 42; 32; 51; 32; 45; 32; 52]%N =
    Some (Climb.Node (Leaf 1) [((2, 24), Climb.Node (Leaf 2) [((3, 26), Leaf 3)]); ((2, 24), Leaf 4)]).
Proof. vm_compute. reflexivity. Qed.
