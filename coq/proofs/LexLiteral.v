(* C07: the lexer takes a whole well-formed literal as one NUMBER token, at the end of the input or in front of any character that
   cannot continue a number. *)
From Coq Require Import ZArith NArith List Bool Lia.
Import ListNotations.
From AV Require Import model.Syntax model.Lexer model.Literal spec.LiteralSpec proofs.LiteralProofs.
Local Open Scope N_scope.

Definition dch (d : Z) : chr := Z.to_N (48 + d)%Z.
Definition chars_of (bs : list Z) : list chr := map Z.to_N bs.

Lemma dch_digit d : (0 <= d <= 9)%Z -> Lexer.is_digit (dch d) = true.
Proof.
  intros H. unfold dch, Lexer.is_digit. assert (E : Z.to_N (48 + d)%Z = (48 + Z.to_N d)%N) by lia. rewrite E.
  apply andb_true_intro; split; apply N.leb_le; lia.
Qed.

Lemma digits_chars ds : digits_ok ds -> Forall (fun c => Lexer.is_digit c = true) (chars_of (map dbyte ds)).
Proof.
  unfold digits_ok. induction 1 as [|d ds Hd _ IH]; cbn; constructor; [apply dch_digit; exact Hd|exact IH].
Qed.

(* what may follow a number: nothing, or a character that is neither a digit, a point, nor e/E *)
Definition stops (rest : list chr) : Prop :=
  match rest with [] => True | c :: _ => Lexer.is_digit c = false /\ (c =? 46) = false /\ is_e c = false end.

Lemma cnum_stop k dot rest : stops rest -> cnum k dot rest = ([], rest).
Proof.
  destruct k; [reflexivity|]. destruct rest as [|c r]; [reflexivity|]. intros (H1 & H2 & H3). cbn [cnum]. rewrite H1, H2, H3. reflexivity.
Qed.

Lemma cnum_digits ds : Forall (fun c => Lexer.is_digit c = true) ds -> forall k dot rest,
  cnum (length ds + k)%nat dot (ds ++ rest) = let (t, r') := cnum k dot rest in (ds ++ t, r').
Proof.
  induction 1 as [|a ds Ha _ IH]; intros k dot rest; [cbn; destruct (cnum k dot rest); reflexivity|].
  cbn [length app Nat.add cnum]. rewrite Ha, IH. destruct (cnum k dot rest); reflexivity.
Qed.

Lemma span_digits ds rest : Forall (fun c => Lexer.is_digit c = true) ds -> stops rest -> span Lexer.is_digit (ds ++ rest) = (ds, rest).
Proof.
  intros H S. induction H as [|a ds Ha _ IH]; cbn [span app].
  - destruct rest as [|c r]; [reflexivity|]. destruct S as (S1 & _). cbn [span]. rewrite S1. reflexivity.
  - rewrite Ha, IH. reflexivity.
Qed.

Definition expc (x : option (bool * option bool * list digit)) : list chr := chars_of (exp_bytes x).
Definition exp_ok (x : option (bool * option bool * list digit)) : Prop :=
  match x with None => True | Some (_, _, e) => digits_ok e /\ e <> [] end.

Lemma cnum_exp x rest : exp_ok x -> stops rest -> forall k dot, cnum (length (expc x) + k)%nat dot (expc x ++ rest) = (expc x, rest).
Proof.
  destruct x as [[[cap s] e]|]; intros H S k dot; [|apply cnum_stop; exact S]. destruct H as [Hd Hne].
  pose proof (digits_chars e Hd) as Hc. unfold expc, exp_bytes, chars_of in *. rewrite map_cons, map_app.
  set (ds := map Z.to_N (map dbyte e)) in *. change (map Z.to_N (map dbyte e)) with ds.
  assert (Hds : ds <> []) by (destruct e; [congruence|discriminate]). clearbody ds.
  cbn [length Nat.add cnum app].
  assert (Ha : forall a, a = Z.to_N (if cap then 69 else 101)%Z -> Lexer.is_digit a = false /\ (a =? 46)%N = false /\ is_e a = true).
  { intros a ->. destruct cap; repeat split; reflexivity. }
  destruct (Ha _ eq_refl) as (A1 & A2 & A3). rewrite A1, A2, A3. cbn [andb].
  destruct s as [[|]|]; cbn [sign_bytes map app].
  - cbn -[cnum]. rewrite (span_digits ds rest Hc S), (cnum_stop _ _ _ S). cbn. rewrite app_nil_r. reflexivity.
  - cbn -[cnum]. rewrite (span_digits ds rest Hc S), (cnum_stop _ _ _ S). cbn. rewrite app_nil_r. reflexivity.
  - destruct ds as [|d ds']; [congruence|]. inversion Hc as [|? ? Hd1 Hd2]; subst. cbn [app].
    rewrite Hd1. rewrite orb_true_r.
    assert (Sg : is_sign d = false).
    { unfold Lexer.is_digit in Hd1. apply andb_prop in Hd1 as [L1 L2]. apply N.leb_le in L1, L2. unfold is_sign.
      apply orb_false_intro; apply N.eqb_neq; lia. }
    rewrite Sg.
    match goal with |- context [span Lexer.is_digit ?t] => assert (E : span Lexer.is_digit t = (d :: ds', rest)) by exact (span_digits (d :: ds') rest Hc S) end.
    rewrite E, (cnum_stop _ _ _ S). cbn. rewrite app_nil_r. reflexivity.
Qed.

Definition dig (ds : list digit) : list chr := chars_of (map dbyte ds).
Definition fracc (f : option (list digit)) : list chr := match f with None => [] | Some f => 46%N :: dig f end.
Definition fracok (f : option (list digit)) : Prop := match f with None => True | Some f => digits_ok f end.

(* the mantissa after the point has been seen *)
Lemma cnum_after_dot f x rest : digits_ok f -> exp_ok x -> stops rest -> forall k,
  cnum (length (dig f ++ expc x) + k)%nat true ((dig f ++ expc x) ++ rest) = (dig f ++ expc x, rest).
Proof.
  intros Hf Hx S k. rewrite app_length, <- Nat.add_assoc, <- app_assoc. rewrite (cnum_digits (dig f) (digits_chars f Hf)).
  rewrite (cnum_exp x rest Hx S). reflexivity.
Qed.

(* digits, optional point and digits, optional exponent, the point not yet seen *)
Lemma cnum_mantissa i f x rest : digits_ok i -> fracok f -> exp_ok x -> stops rest -> forall k,
  cnum (length (dig i ++ fracc f ++ expc x) + k)%nat false ((dig i ++ fracc f ++ expc x) ++ rest) = (dig i ++ fracc f ++ expc x, rest).
Proof.
  intros Hi Hf Hx S k. rewrite app_length, <- Nat.add_assoc, <- app_assoc. rewrite (cnum_digits (dig i) (digits_chars i Hi)).
  destruct f as [f|]; cbn [fracc app].
  - cbn [length Nat.add cnum]. change (Lexer.is_digit 46) with false. change ((46 =? 46)%N && negb false) with true. cbv iota.
    rewrite (cnum_after_dot f x rest Hf Hx S). reflexivity.
  - rewrite (cnum_exp x rest Hx S). reflexivity.
Qed.

Lemma chars_render l : chars_of (render l) = chars_of (sign_bytes (lneg l)) ++ dig (lint l) ++ fracc (lfrac l) ++ expc (lexp l).
Proof.
  unfold render, chars_of, dig, fracc, expc, chars_of. rewrite !map_app. destruct (lfrac l); reflexivity.
Qed.

Lemma wf_parts l : well_formed l -> digits_ok (lint l) /\ fracok (lfrac l) /\ exp_ok (lexp l) /\ (lint l ++ fracd l <> []).
Proof.
  intros (H1 & H2 & H3 & H4 & H5). repeat split; try assumption.
  - unfold fracok, fracd in *. destruct (lfrac l); [exact H2|exact I].
  - unfold exp_ok. destruct (lexp l) as [[[c s] e]|]; [|exact I]. destruct H4 as (A & B & _). split; assumption.
Qed.

Lemma digit_first c : Lexer.is_digit c = true -> is_ws c = false /\ (c =? 123) = false /\ (c =? 46) = false /\ (c =? 44) = false.
Proof.
  unfold Lexer.is_digit. intros H. apply andb_prop in H as [L1 L2]. apply N.leb_le in L1, L2. unfold is_ws.
  repeat match goal with |- context [(?a =? ?b)%N] => replace (a =? b)%N with false by (symmetry; apply N.eqb_neq; lia) end.
  replace (c <=? 13) with false by (symmetry; apply N.leb_gt; lia).
  replace (8192 <=? c) with false by (symmetry; apply N.leb_gt; lia).
  rewrite !andb_false_r. cbn. repeat split; reflexivity.
Qed.

(* the first token of a well-formed literal followed by [rest] is the literal, and lexing continues with [rest] *)
Theorem literal_first_token l rest : well_formed l -> stops rest ->
  next false (chars_of (render l) ++ rest) = ((NUMBER, chars_of (render l)), rest, false).
Proof.
  intros W S. destruct (wf_parts l W) as (Hi & Hf & Hx & Hne). rewrite chars_render.
  set (body := dig (lint l) ++ fracc (lfrac l) ++ expc (lexp l)).
  assert (Hb : forall k, cnum (length body + k)%nat false (body ++ rest) = (body, rest)) by (intros k; apply cnum_mantissa; assumption).
  assert (Hbne : body <> []).
  { unfold body, dig, fracc, fracd, chars_of in *. destruct (lint l) as [|d ds]; [|discriminate]. destruct (lfrac l) as [f|]; [discriminate|]. cbn in Hne. congruence. }
  destruct (lneg l) as [[|]|]; cbn [sign_bytes chars_of map app].
  - (* "-" *) change (Z.to_N 45%Z) with 45%N. unfold next.
    change (is_ws 45) with false. cbv iota. change ((45 =? 123)%N) with false. change ((45 =? 46)%N) with false. change ((45 =? 44)%N) with false.
    change (Lexer.is_digit 45) with false. change ((45 =? 42)%N) with false. change ((45 =? 47)%N) with false. change (is_sign 45) with true. cbv iota.
    rewrite app_length, Hb. destruct body as [|b body']; [congruence|]. reflexivity.
  - (* "+" *) change (Z.to_N 43%Z) with 43%N. unfold next.
    change (is_ws 43) with false. cbv iota. change ((43 =? 123)%N) with false. change ((43 =? 46)%N) with false. change ((43 =? 44)%N) with false.
    change (Lexer.is_digit 43) with false. change ((43 =? 42)%N) with false. change ((43 =? 47)%N) with false. change (is_sign 43) with true. cbv iota.
    rewrite app_length, Hb. destruct body as [|b body']; [congruence|]. reflexivity.
  - (* no sign *) destruct (lint l) as [|d ds] eqn:Ei.
    + (* starts with the point *)
      unfold fracd in Hne.
      destruct (lfrac l) as [f|] eqn:Ef; [|cbn in Hne; congruence]. cbn [app] in Hne. cbn [fracok] in Hf.
      unfold body. cbn [dig chars_of map app fracc]. unfold next.
      change (is_ws 46) with false. cbv iota. change ((46 =? 123)%N) with false. change ((46 =? 46)%N) with true. cbv iota.
      change (map Z.to_N (map dbyte f)) with (dig f).
      rewrite app_length, (cnum_after_dot f (lexp l) rest Hf Hx S).
      destruct f as [|d f']; [congruence|]. reflexivity.
    + (* starts with a digit *)
      assert (Hd : Lexer.is_digit (dch d) = true) by (apply dch_digit; inversion Hi; assumption).
      destruct (digit_first _ Hd) as (F1 & F2 & F3 & F4).
      assert (Eb : body = dch d :: (dig ds ++ fracc (lfrac l) ++ expc (lexp l))) by reflexivity.
      rewrite Eb in *. set (r := dig ds ++ fracc (lfrac l) ++ expc (lexp l)) in *. clearbody r.
      cbn [app]. unfold next. rewrite F1, F2, F3, F4, Hd.
      change (dch d :: r ++ rest) with ((dch d :: r) ++ rest). rewrite app_length, Hb. reflexivity.
Qed.
