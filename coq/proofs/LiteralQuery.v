(* C07, query half: a source text that lexes to a single NUMBER token (followed or not by `%`) evaluates to exactly what
   `str::parse::<Rational>` reads from the same characters. *)
From Coq Require Import ZArith NArith QArith List Bool.
Import ListNotations.
From AV Require Import model.Syntax model.Lexer model.Grammar model.Literal model.Rat model.Eval model.Run.
Open Scope Z_scope.

Definition literal_result (text : list chr) : res numeric :=
  match from_str (List.map Z.of_N (utf8 text)) with
  | Literal.Ok num scale => Ok (to_Q num scale, [])
  | Literal.Err => Error (0%N, utf8_size text) ParseRationalError
  end.

Lemma parse_single_number text : parse_root [(NUMBER, text)] = Some [Node NUMBER [Tok NUMBER text]].
Proof. reflexivity. Qed.

Lemma parse_single_percent text p : parse_root [(NUMBER, text); (PERCENTAGE, p)] = Some [Node PERCENTAGE [Tok NUMBER text; Tok PERCENTAGE p]].
Proof. reflexivity. Qed.

Lemma utf8_size_app0 text : (0 + utf8_size text = utf8_size text)%N. Proof. reflexivity. Qed.

Theorem query_number debug describe facts s :
  tokens s = [(NUMBER, s)] -> query debug describe facts s = ([literal_result s], []).
Proof.
  intros H. unfold query. rewrite H, parse_single_number.
  cbn [annotate_forest annotate skip_tokens filter has_children achildren eval_roots].
  unfold literal_result.
  cbn [asize eval akind aspan atext app]. rewrite app_nil_r. unfold parse_number.
  destruct (from_str _); reflexivity.
Qed.

Definition percent_result (text p : list chr) : res numeric :=
  match from_str (List.map Z.of_N (utf8 text)) with
  | Literal.Ok num scale => Ok ((to_Q num scale / (100 # 1))%Q, [])
  | Literal.Err => Error (0%N, (utf8_size text + utf8_size p)%N) ParseRationalError
  end.

Theorem query_percent debug describe facts text p :
  tokens (text ++ p) = [(NUMBER, text); (PERCENTAGE, p)] ->
  query debug describe facts (text ++ p) = ([percent_result text p], []).
Proof.
  intros H. unfold query. rewrite H, parse_single_percent.
  cbn [annotate_forest annotate skip_tokens filter has_children achildren eval_roots].
  unfold percent_result.
  cbn [asize eval akind aspan atext app achildren kind_beq].
  unfold parse_number. rewrite N.add_0_l.
  destruct (from_str _); reflexivity.
Qed.
