(* C14: which document answers a lookup, and when that depends on how the index was built. *)
From Coq Require Import ZArith NArith List Bool Lia Permutation.
Import ListNotations.
From AV Require Import gen.DbSteps gen.Shipped model.Index.
Open Scope Z_scope.

Section Top.
Context {doc : Type}.
Variable score : doc -> Z.

Lemma top1_from_spec best l : let t := top1_from score best l in
  (t = best \/ In t l) /\ score best <= score t /\ (forall x, In x l -> score x <= score t).
Proof.
  revert best. induction l as [|d r IH]; intros best; cbn [top1_from]; [cbn; intuition lia|].
  destruct (score best <? score d) eqn:E; [apply Z.ltb_lt in E|apply Z.ltb_ge in E].
  - destruct (IH d) as (H1 & H2 & H3). cbv zeta in *. split; [cbn; destruct H1 as [->|H1]; auto|]. split; [lia|]. intros x [->|Hx]; auto.
  - destruct (IH best) as (H1 & H2 & H3). cbv zeta in *. split; [cbn; destruct H1 as [->|H1]; auto|]. split; [lia|]. intros x [->|Hx]; [lia|auto].
Qed.

Lemma top1_max l t : top1 score l = Some t -> is_top score l t.
Proof.
  destruct l as [|d r]; [discriminate|]. cbn [top1]. intros E. inversion E; subst. destruct (top1_from_spec d r) as (H1 & H2 & H3). cbv zeta in *.
  split; [cbn; destruct H1 as [->|H1]; auto|]. intros x [->|Hx]; auto.
Qed.

Lemma top1_first d r : (forall x, In x r -> score x <= score d) -> top1 score (d :: r) = Some d.
Proof.
  cbn [top1]. intros H. f_equal. induction r as [|x r IH]; cbn [top1_from]; [reflexivity|].
  assert (score d <? score x = false) as -> by (apply Z.ltb_ge; apply H; left; reflexivity). apply IH. intros y Hy. apply H. right. exact Hy.
Qed.

Lemma top1_some l : l <> [] -> exists t, top1 score l = Some t.
Proof. destruct l; [congruence|]. intros _. eexists. reflexivity. Qed.

End Top.

Section Idx.
Context {doc payload : Type}.
Variable pay : doc -> payload.
Variable score : doc -> Z.

(* any two storage orders of the same documents answer alike, as soon as the best-scored documents agree on their payload *)
Theorem schedule_independent l l' : Permutation l l' ->
  (forall d d', is_top score l d -> is_top score l d' -> pay d = pay d') ->
  option_map pay (top1 score l) = option_map pay (top1 score l').
Proof.
  intros Hp Hties. destruct (top1 score l) as [t|] eqn:E; destruct (top1 score l') as [t'|] eqn:E'; cbn.
  - f_equal. apply top1_max in E. apply top1_max in E' as [Hin' Hmax']. apply Hties; [exact E|]. split.
    + eapply Permutation_in; [apply Permutation_sym; exact Hp|exact Hin'].
    + intros x Hx. apply Hmax'. eapply Permutation_in; eauto.
  - destruct l' as [|? ?]; [|discriminate]. apply Permutation_sym, Permutation_nil in Hp. subst. discriminate.
  - destruct l as [|? ?]; [|discriminate]. apply Permutation_nil in Hp. subst. discriminate.
  - reflexivity.
Qed.

(* and if two best-scored documents differ in payload, two storage orders answer differently *)
Theorem tie_breaks_it l d d' : is_top score l d -> is_top score l d' -> pay d <> pay d' ->
  exists l1 l2, Permutation l l1 /\ Permutation l l2 /\ option_map pay (top1 score l1) <> option_map pay (top1 score l2).
Proof.
  intros [Hin Hmax] [Hin' Hmax'] Hne.
  destruct (in_split _ _ Hin) as (a & b & ->). destruct (in_split _ _ Hin') as (a' & b' & E).
  exists (d :: a ++ b), (d' :: a' ++ b'). split; [apply Permutation_sym, Permutation_middle|].
  split; [rewrite E; apply Permutation_sym, Permutation_middle|].
  rewrite top1_first, top1_first; cbn.
  - congruence.
  - intros x Hx. apply Hmax'. rewrite E. apply in_app_or in Hx. apply in_or_app. cbn. tauto.
  - intros x Hx. apply Hmax. apply in_app_or in Hx. apply in_or_app. cbn. tauto.
Qed.
End Idx.

(* the writer the code creates today stores the documents in insertion order *)
Lemma stored_now {doc : Type} (docs sigma : list doc) : stored writer_threads docs sigma -> sigma = docs.
Proof. unfold writer_threads. cbn [stored]. intros H. exact H. Qed.

Lemma stored_refl {doc : Type} n (docs : list doc) : stored n docs docs.
Proof. destruct n as [|[|n]]; cbn; try reflexivity; apply Permutation_refl. Qed.

Lemma stored_perm {doc : Type} n (docs sigma : list doc) : stored n docs sigma -> Permutation docs sigma.
Proof. destruct n as [|[|n]]; cbn; intros H; try exact H. subst. apply Permutation_refl. Qed.

(* every session of every history searches the documents in insertion order *)
Theorem history_independent {doc : Type} (docs : list doc) p h os p' :
  runs writer_threads docs p h os p' -> persistent_ok writer_threads docs p -> Forall (fun o => o = docs) os /\ persistent_ok writer_threads docs p'.
Proof.
  induction 1 as [p|p h os p' o Ho Hr IH|o h os p' Hr IH|o h os p' Ho Hr IH|p o h os p' Ho Hr IH]; intros Hp.
  - split; [constructor|exact Hp].
  - destruct (IH Hp) as [F P]. split; [constructor; [apply stored_now; exact Ho|exact F]|exact P].
  - destruct (IH Hp) as [F P]. split; [constructor; [apply stored_now; exact Hp|exact F]|exact P].
  - destruct (IH Ho) as [F P]. split; [constructor; [apply stored_now; exact Ho|exact F]|exact P].
  - destruct (IH Ho) as [F P]. split; [constructor; [apply stored_now; exact Ho|exact F]|exact P].
Qed.

(* the answer of any session in any history is the one function of data and query (the score function stands for the query) *)
Theorem answers_function_of_data {doc : Type} (docs : list doc) (score : doc -> Z) p h os p' p2 h2 os2 p2' o o2 :
  runs writer_threads docs p h os p' -> persistent_ok writer_threads docs p ->
  runs writer_threads docs p2 h2 os2 p2' -> persistent_ok writer_threads docs p2 ->
  In o os -> In o2 os2 -> top1 score o = top1 score o2 /\ top1 score o = top1 score docs.
Proof.
  intros R1 P1 R2 P2 I1 I2. destruct (history_independent _ _ _ _ _ R1 P1) as [F1 _]. destruct (history_independent _ _ _ _ _ R2 P2) as [F2 _].
  rewrite Forall_forall in F1, F2. rewrite (F1 _ I1), (F2 _ I2). split; reflexivity.
Qed.

(* whatever the number of threads: every history's sessions search permutations of the documents, hence answer alike for
   every query whose best-scored documents agree on their payload *)
Lemma runs_perm {doc : Type} n (docs : list doc) p h os p' :
  runs n docs p h os p' -> persistent_ok n docs p -> Forall (fun o => Permutation docs o) os.
Proof.
  induction 1 as [p|p h os p' o Ho Hr IH|o h os p' Hr IH|o h os p' Ho Hr IH|p o h os p' Ho Hr IH]; intros Hp.
  - constructor.
  - constructor; [eapply stored_perm; exact Ho|exact (IH Hp)].
  - constructor; [eapply stored_perm; exact Hp|exact (IH Hp)].
  - constructor; [eapply stored_perm; exact Ho|exact (IH Ho)].
  - constructor; [eapply stored_perm; exact Ho|exact (IH Ho)].
Qed.

Theorem untied_queries_any_threads {doc payload : Type} (pay : doc -> payload) n (docs : list doc) (score : doc -> Z) p h os p' o :
  runs n docs p h os p' -> persistent_ok n docs p -> In o os ->
  (forall d d', is_top score docs d -> is_top score docs d' -> pay d = pay d') ->
  option_map pay (top1 score o) = option_map pay (top1 score docs).
Proof.
  intros R P I T. pose proof (runs_perm _ _ _ _ _ _ R P) as F. rewrite Forall_forall in F. symmetry.
  apply schedule_independent; [apply F; exact I|exact T].
Qed.

(* with more than one thread a tie between different payloads makes two builds answer differently *)
Theorem multi_thread_breaks {doc payload : Type} (pay : doc -> payload) n (docs : list doc) (score : doc -> Z) d d' :
  n <> 1%nat -> is_top score docs d -> is_top score docs d' -> pay d <> pay d' ->
  exists o1 o2, runs n docs None [InMemory] [o1] None /\ runs n docs None [InMemory] [o2] None /\
                option_map pay (top1 score o1) <> option_map pay (top1 score o2).
Proof.
  intros Hn T1 T2 Hne. destruct (tie_breaks_it pay score docs d d' T1 T2 Hne) as (l1 & l2 & P1 & P2 & D).
  exists l1, l2. assert (S : forall l, Permutation docs l -> stored n docs l).
  { intros l Pl. destruct n as [|[|n]]; cbn; [exact Pl|congruence|exact Pl]. }
  repeat split; [constructor; [apply S; exact P1|constructor]|constructor; [apply S; exact P2|constructor]|exact D].
Qed.

(* the shipped data does contain different facts filed under the same words: they score alike for every query *)
Definition words_of (c : list (list N) * (Z * Z) * list (N * (Z * Z)) * Z) := fst (fst (fst c)).
Definition payload_of (c : list (list N) * (Z * Z) * list (N * (Z * Z)) * Z) := (snd (fst (fst c)), snd (fst c)).
Definition eqb_words (a b : list (list N)) : bool :=
  if list_eq_dec (list_eq_dec N.eq_dec) a b then true else false.
Definition eqb_payload (a b : (Z * Z) * list (N * (Z * Z))) : bool :=
  if (let pd := (fun x y : Z * Z => match Z.eq_dec (fst x) (fst y), Z.eq_dec (snd x) (snd y) with left _, left _ => true | _, _ => false end) in
      pd (fst a) (fst b) && (if list_eq_dec (fun x y : N * (Z * Z) => ltac:(decide equality; [decide equality; apply Z.eq_dec|apply N.eq_dec])) (snd a) (snd b) then true else false))
  then true else false.
Definition same_words_other_fact : list (nat * nat) :=
  let idx := combine (seq 0 (length shipped)) shipped in
  flat_map (fun a => flat_map (fun b => if (fst a <? fst b)%nat && eqb_words (words_of (snd a)) (words_of (snd b)) && negb (eqb_payload (payload_of (snd a)) (payload_of (snd b)))
                                        then [(fst a, fst b)] else []) idx) idx.
Lemma shipped_has_ties : same_words_other_fact <> [].
Proof. vm_compute. discriminate. Qed.

(* the candidate sorter used by the correspondence returns a best-scored candidate, the earliest one *)
Lemma insert_pos_perm c l : Permutation (c :: l) (insert_pos c l).
Proof.
  induction l as [|d r IH]; cbn [insert_pos]; [apply Permutation_refl|]. destruct (fst c <=? fst d)%N; [apply Permutation_refl|].
  eapply Permutation_trans; [apply perm_swap|]. apply perm_skip. exact IH.
Qed.
Lemma sort_pos_perm l : Permutation l (sort_pos l).
Proof. induction l as [|c l IH]; cbn; [constructor|]. eapply Permutation_trans; [apply perm_skip; exact IH|apply insert_pos_perm]. Qed.
Theorem winner_is_top cands w : winner cands = Some w -> exists s, In (w, s) cands /\ forall x, In x cands -> snd x <= s.
Proof.
  unfold winner. destruct (top1 snd (sort_pos cands)) as [[w' s]|] eqn:E; [|discriminate]. cbn. intros H. inversion H; subst.
  apply top1_max in E. destruct E as [Hin Hmax]. exists s. split.
  - eapply Permutation_in; [apply Permutation_sym, sort_pos_perm|exact Hin].
  - intros x Hx. apply (Hmax x). eapply Permutation_in; [apply sort_pos_perm|exact Hx].
Qed.

Lemma history_example :
  runs writer_threads [1; 2; 3] None [InMemory; OnDisk; OnDisk; Rebuild] [[1; 2; 3]; [1; 2; 3]; [1; 2; 3]; [1; 2; 3]] (Some [1; 2; 3]) /\
  top1 (fun d => if d =? 1 then 5 else if d =? 3 then 5 else 0) [1; 2; 3] = Some 1.
Proof.
  split; [|reflexivity]. apply runs_mem; [reflexivity|]. apply runs_first; [reflexivity|]. apply runs_reopen. apply runs_rebuild; [reflexivity|]. constructor.
Qed.
