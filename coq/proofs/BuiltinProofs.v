(* C10: the builtins floor, ceil and round of the model return the mathematically defined value, carry the unit of
   their argument through and reject a wrong number of arguments. *)
From Coq Require Import ZArith NArith QArith Qpower Qabs List Bool Lia.
Import ListNotations.
From AV Require Import model.Syntax model.Rat model.UnitTypes model.Map model.Compound model.Eval proofs.RatProofs.
Open Scope Z_scope.

Lemma is_integer_spec q : is_integer q = true -> (q == inject_Z (Z.quot (qnum q) (qden q)))%Q.
Proof.
  unfold is_integer, qnum, qden. intros H. apply Z.eqb_eq in H. destruct q as [n d]. cbn in *.
  unfold Qeq, inject_Z. cbn. pose proof (Z.quot_rem' n (Zpos d)). lia.
Qed.

Lemma is_integer_iff q : is_integer q = true <-> exists z : Z, (q == inject_Z z)%Q.
Proof.
  split; [intros H; eexists; apply is_integer_spec; exact H|].
  intros [z H]. unfold is_integer, qnum, qden. apply Z.eqb_eq. destruct q as [n d]. unfold Qeq, inject_Z in H. cbn [Qnum Qden] in *.
  assert (n = z * Zpos d) as -> by lia. apply Z.rem_mul. lia.
Qed.

Lemma pos_pow_1_l p : (1 ^ p)%positive = 1%positive.
Proof. apply Pos2Z.inj. rewrite Pos2Z.inj_pow. apply Z.pow_1_l. lia. Qed.

Lemma pow10_nonneg n : 0 <= n -> (pow10 n == inject_Z (10 ^ n))%Q.
Proof.
  intros H. unfold pow10. destruct n as [|p|p]; [reflexivity| |lia].
  rewrite Qpower_decomp_pos. rewrite pos_pow_1_l. reflexivity.
Qed.
Lemma pow10_neg p : (pow10 (Zneg p) == 1 # (10 ^ p))%Q.
Proof.
  unfold pow10. change (10 # 1) with (Zpos 10 # 1). rewrite Qpower_decomp_neg_pos. rewrite Z.pow_1_l by lia. reflexivity.
Qed.

(* floor: the greatest integer not above q *)
Theorem floor_q_spec q : exists z : Z, (floor_q q == inject_Z z)%Q /\ (inject_Z z <= q)%Q /\ (q < inject_Z z + 1)%Q.
Proof.
  unfold floor_q. destruct (is_integer q) eqn:E.
  - exists (Z.quot (qnum q) (qden q)). pose proof (is_integer_spec q E) as H. split; [exact H|]. rewrite <- H. split; [apply Qle_refl|].
    rewrite <- (Qplus_0_r q) at 1. apply Qplus_lt_r. reflexivity.
  - exists (floor_num (qnum q) (qden q)). split; [reflexivity|].
    pose proof (floor_spec (qnum q) (qden q) ltac:(unfold qden; lia)) as H. cbv zeta in H.
    destruct q as [n d]. unfold qnum, qden in *. cbn [Qnum Qden] in *. unfold Qle, Qlt, Qplus, inject_Z. cbn. lia.
Qed.

(* ceil: the least integer not below q *)
Theorem ceil_q_spec q : exists z : Z, (ceil_q q == inject_Z z)%Q /\ (q <= inject_Z z)%Q /\ (inject_Z z - 1 < q)%Q.
Proof.
  unfold ceil_q. destruct (is_integer q) eqn:E.
  - exists (Z.quot (qnum q) (qden q)). pose proof (is_integer_spec q E) as H. split; [exact H|]. rewrite <- H. split; [apply Qle_refl|].
    rewrite <- (Qplus_0_r q) at 2. unfold Qminus. apply Qplus_lt_r. reflexivity.
  - exists (ceil_num (qnum q) (qden q)). split; [reflexivity|].
    pose proof (ceil_spec (qnum q) (qden q) ltac:(unfold qden; lia)) as H. cbv zeta in H.
    destruct q as [n d]. unfold qnum, qden in *. cbn [Qnum Qden] in *. unfold Qle, Qlt, Qminus, Qplus, Qopp, inject_Z. cbn. lia.
Qed.

(* round: the nearest integer, halves away from zero:  |2q - 2z| <= 1, with equality only when |q| < |z| *)
Definition nearest_away (q : Q) (z : Z) : Prop :=
  (Qabs (2 * q - 2 * inject_Z z) <= 1)%Q /\ ((Qabs (2 * q - 2 * inject_Z z) == 1)%Q -> (Qabs q < Qabs (inject_Z z))%Q).

Lemma Qabs_Z (n : Z) (d : positive) : Qabs (n # d) = (Z.abs n # d). Proof. reflexivity. Qed.

Theorem round_q_spec q : nearest_away q (round_num (qnum q) (qden q)).
Proof.
  pose proof (round_spec (qnum q) (qden q) ltac:(unfold qden; lia)) as H. cbv zeta in H. destruct H as [H1 H2].
  destruct q as [n d]. unfold qnum, qden in *. cbn [Qnum Qden] in *. set (r := round_num n (Zpos d)) in *.
  unfold nearest_away.
  assert (E : (2 * (n # d) - 2 * inject_Z r == (2 * n - 2 * r * Zpos d) # d)%Q).
  { unfold Qeq, Qminus, Qplus, Qmult, Qopp, inject_Z. cbn. lia. }
  split.
  - rewrite E, Qabs_Z. unfold Qle. cbn [Qnum Qden]. lia.
  - intros H3. rewrite E, Qabs_Z in H3. unfold Qeq in H3. cbn [Qnum Qden] in H3.
    assert (Z.abs (2 * n - 2 * r * Zpos d) = Zpos d) as H4 by lia. specialize (H2 H4).
    unfold inject_Z. rewrite !Qabs_Z. unfold Qlt. cbn [Qnum Qden]. rewrite Z.abs_mul in H2. lia.
Qed.

(* ---- the builtins ---- *)
Theorem fn_floor_ok span x u : exists z : Z,
  fn_floor span [(x, u)] = Ok (floor_q x, u) /\ (floor_q x == inject_Z z)%Q /\ (inject_Z z <= x)%Q /\ (x < inject_Z z + 1)%Q.
Proof. destruct (floor_q_spec x) as [z H]. exists z. split; [reflexivity|exact H]. Qed.

Theorem fn_ceil_ok span x u : exists z : Z,
  fn_ceil span [(x, u)] = Ok (ceil_q x, u) /\ (ceil_q x == inject_Z z)%Q /\ (x <= inject_Z z)%Q /\ (inject_Z z - 1 < x)%Q.
Proof. destruct (ceil_q_spec x) as [z H]. exists z. split; [reflexivity|exact H]. Qed.

Lemma integer_nearest q : is_integer q = true -> nearest_away q (Z.quot (qnum q) (qden q)).
Proof.
  intros H. pose proof (is_integer_spec q H) as E. unfold nearest_away.
  assert (Z0 : (2 * q - 2 * inject_Z (Z.quot (qnum q) (qden q)) == 0)%Q) by (rewrite <- E; ring).
  split; [rewrite Z0; discriminate|]. intros H1. rewrite Z0 in H1. discriminate H1.
Qed.

(* round(x): one argument *)
Theorem fn_round1_ok span x u : exists (v : Q) (z : Z),
  fn_round false span [(x, u)] = Ok (v, u) /\ (v == inject_Z z)%Q /\ nearest_away x z.
Proof.
  unfold fn_round. cbn [bind]. replace (0 <=? 0) with true by reflexivity. cbn [andb].
  destruct (is_integer (fst (x, u))) eqn:E; cbn [fst snd] in *.
  - exists x, (Z.quot (qnum x) (qden x)). split; [reflexivity|]. split; [apply is_integer_spec; exact E|apply integer_nearest; exact E].
  - exists (round_q x), (round_num (qnum x) (qden x)). split; [reflexivity|]. split; [reflexivity|apply round_q_spec].
Qed.

Lemma pow10_pos e : (0 < pow10 e)%Q.
Proof. unfold pow10. apply Qpower_0_lt. reflexivity. Qed.
Lemma pow10_nz e : ~ (pow10 e == 0)%Q.
Proof. intros H. pose proof (pow10_pos e) as P. rewrite H in P. discriminate P. Qed.

(* round(x, n): the nearest multiple of 10^-n (for every integer n, positive or negative):
   the result is z / 10^n for the integer z nearest to x * 10^n, halves away from zero *)
Theorem fn_round2_ok span x u (n : Z) : in_i32 n = true -> exists (v : Q) (z : Z),
  fn_round false span [(x, u); (inject_Z n, [])] = Ok (v, u) /\ (v * pow10 n == inject_Z z)%Q /\ nearest_away (x * pow10 n) z.
Proof.
  intros Hn. unfold fn_round. unfold to_i32, to_integer, qnum, qden. cbn [fst snd inject_Z Qnum Qden].
  rewrite Z.quot_1_r, Hn. cbn [bind andb fst snd orb negb]. cbn [fst snd].
  destruct ((0 <=? n) && is_integer x) eqn:E1.
  - apply andb_prop in E1 as [E1 E2]. apply Z.leb_le in E1.
    (* an integer is already a multiple of 10^-n for n >= 0 *)
    exists x. pose proof (is_integer_spec x E2) as Hx.
    assert (Hp : exists k : Z, (pow10 n == inject_Z k)%Q) by (exists (10 ^ n); apply pow10_nonneg; exact E1).
    destruct Hp as [k Hk]. exists (Z.quot (qnum x) (qden x) * k). split; [reflexivity|].
    assert (Ei : (x * pow10 n == inject_Z (Z.quot (qnum x) (qden x) * k))%Q).
    { rewrite inject_Z_mult, <- Hx, <- Hk. reflexivity. }
    split; [exact Ei|]. unfold nearest_away.
    assert (Z0 : (2 * (x * pow10 n) - 2 * inject_Z (Z.quot (qnum x) (qden x) * k) == 0)%Q) by (rewrite <- Ei; ring).
    split; [rewrite Z0; discriminate|]. intros H1. rewrite Z0 in H1. discriminate H1.
  - destruct (n =? 0) eqn:E0.
    + apply Z.eqb_eq in E0. subst n. exists (round_q x), (round_num (qnum x) (qden x)). split; [reflexivity|].
      assert (P1 : (pow10 0 == 1)%Q) by reflexivity. split; [rewrite P1; unfold round_q; ring|].
      pose proof (round_q_spec x) as [R1 R2]. unfold nearest_away. rewrite P1, Qmult_1_r. split; assumption.
    + exists (round_q (x * pow10 n) / pow10 n)%Q, (round_num (qnum (x * pow10 n)) (qden (x * pow10 n))). split; [reflexivity|].
      split; [|apply round_q_spec]. unfold round_q. field. apply pow10_nz.
Qed.

(* the unit of the argument is carried through unchanged *)
Theorem builtin_unit_carried span x u r :
  (fn_floor span [(x, u)] = Ok r \/ fn_ceil span [(x, u)] = Ok r \/ fn_round false span [(x, u)] = Ok r) -> snd r = u.
Proof.
  intros [H|[H|H]].
  - inversion H. reflexivity.
  - inversion H. reflexivity.
  - destruct (fn_round1_ok span x u) as (v & z & E & _). rewrite E in H. inversion H. reflexivity.
Qed.

(* a wrong number of arguments is an error *)
Theorem arity_errors debug span (args : list numeric) :
  (length args <> 1%nat -> fn_floor span args = Error span (ArgumentMismatch 1 (length args)) /\
                           fn_ceil span args = Error span (ArgumentMismatch 1 (length args))) /\
  (length args <> 1%nat -> length args <> 2%nat -> exists e, fn_round debug span args = Error span (ArgumentMismatch e (length args))).
Proof.
  split.
  - intros H. destruct args as [|a [|b r]]; cbn in H; try congruence; split; reflexivity.
  - intros H1 H2. destruct args as [|a [|b [|c r]]]; cbn in H1, H2; try congruence; eexists; reflexivity.
Qed.

(* the debug assertion of round never fires *)
Theorem fn_round_no_panic span args w : fn_round true span args <> Panic w.
Proof.
  unfold fn_round. destruct args as [|a [|b [|c r]]]; cbn [bind]; try discriminate.
  - replace (0 <=? 0) with true by reflexivity. replace (0 <? 0) with false by reflexivity. cbn [andb orb].
    destruct (is_integer (fst a)) eqn:E; [rewrite E; discriminate|].
    replace (0 =? 0) with true by reflexivity.
    assert (is_integer (round_q (fst a)) = true) as -> by (unfold round_q, is_integer, qnum, qden, inject_Z; cbn; rewrite Z.rem_1_r; reflexivity).
    discriminate.
  - destruct (to_i32 (fst b)) as [s|]; cbn [bind]; [|discriminate].
    destruct (0 <? s) eqn:Es; cbn [andb orb negb]; [destruct (_ && _); discriminate|].
    assert (Hs : s <= 0) by (apply Z.ltb_ge in Es; exact Es).
    destruct ((0 <=? s) && is_integer (fst a)) eqn:E1.
    { apply andb_prop in E1 as [_ E2]. rewrite E2. discriminate. }
    destruct (s =? 0) eqn:E0.
    { assert (is_integer (round_q (fst a)) = true) as -> by (unfold round_q, is_integer, qnum, qden, inject_Z; cbn; rewrite Z.rem_1_r; reflexivity). discriminate. }
    (* s < 0: round(x * 10^s) / 10^s = integer * 10^|s| *)
    assert (Hi : is_integer (round_q (fst a * pow10 s) / pow10 s)%Q = true).
    { apply Z.eqb_neq in E0. apply is_integer_iff. unfold round_q. set (r := round_num _ _).
      destruct s as [|p|p]; try lia. exists (r * Zpos (10 ^ p)). rewrite pow10_neg.
      unfold Qeq, Qdiv, Qinv, Qmult, inject_Z. cbn [Qnum Qden]. lia. }
    rewrite Hi. discriminate.
Qed.

Example rounding_examples :
  (floor_q (-3 # 2) == -2 # 1)%Q /\ (ceil_q (-3 # 2) == -1 # 1)%Q /\ (round_q (-5 # 2) == -3 # 1)%Q /\
  (exists u, fn_round true (0%N, 0%N) [((126 # 100)%Q, []); (inject_Z 1, [])] = Ok u /\ (fst u == 13 # 10)%Q) /\
  (exists u, fn_round true (0%N, 0%N) [((1250 # 1)%Q, []); (inject_Z (-2), [])] = Ok u /\ (fst u == 1300 # 1)%Q).
Proof.
  repeat split; try (vm_compute; reflexivity).
  - eexists. split; [vm_compute; reflexivity|vm_compute; reflexivity].
  - eexists. split; [vm_compute; reflexivity|vm_compute; reflexivity].
Qed.
