(* C06, the general refinement: the concrete `operation()` loop of the parser model (model/Grammar.v: forest, checkpoints,
   the precedence stack of entries, `settle`, `close_at`) simulates the abstract stack of frames of spec/Climb.v step by step,
   for ANY number of operators, any operands and any blanks.  The operands are abstract here: whatever the operand parser
   (value() or unit()) appends to the forest; the instantiations are in proofs/ParseChains.v.
   The concrete forest is compared with a rendering [ritems] of the abstract tree. *)
From Coq Require Import NArith List Arith Bool Lia.
Import ListNotations.
From AV Require Import model.Syntax model.Grammar spec.Climb.
Local Close Scope N_scope.

Definition mkst (b : list tok) (F : list Grammar.tree) : st := {| buf := b; forest := F |}.
Definition toktree (t : tok) : Grammar.tree := Tok (fst t) (snd t).
Definition extra_of (p : nat) : bool := p =? 1.

Lemma op_of_extra k q operator extra : op_of k = Some (q, operator, extra) -> extra = extra_of q.
Proof. destruct k; cbn; intros H; inversion H; reflexivity. Qed.

Lemma firstn_nil' {A} n : firstn n (@nil A) = []. Proof. destruct n; reflexivity. Qed.
Lemma skipn_nil' {A} n : skipn n (@nil A) = []. Proof. destruct n; reflexivity. Qed.

Lemma bumps_mk n : forall b F, bumps n (mkst b F) = mkst (skipn n b) (F ++ map toktree (firstn n b)).
Proof.
  induction n as [|n IH]; intros b F; cbn [bumps].
  - cbn. now rewrite app_nil_r.
  - destruct b as [|t r].
    + change (bump (mkst [] F)) with (mkst [] F). rewrite IH, skipn_nil', firstn_nil'. reflexivity.
    + change (bump (mkst (t :: r) F)) with (mkst r (F ++ [toktree t])). rewrite IH. cbn [skipn firstn map].
      now rewrite <- app_assoc.
Qed.

Lemma skipn_nth_error {A} (l : list A) : forall n t, nth_error l n = Some t -> skipn n l = t :: skipn (S n) l.
Proof. induction l as [|a r IH]; intros [|n] t H; cbn in *; try discriminate; [now inversion H|]. now apply IH. Qed.

Lemma close_at_mk A B k b : close_at (length A) k (mkst b (A ++ B)) = mkst b (A ++ [Grammar.Node k B]).
Proof.
  unfold close_at, mkst. cbn [buf forest]. f_equal.
  rewrite firstn_app, Nat.sub_diag, firstn_all, skipn_app, Nat.sub_diag, skipn_all. cbn. now rewrite app_nil_r.
Qed.

Section Render.
Variable glue : nat -> list Grammar.tree.   (* glue 0: the blanks before the first operand;  glue (S i): blanks, the node of operator i+1, blanks *)
Variable body : nat -> list Grammar.tree.   (* the trees operand i contributes *)
Definition operand_items (n : nat) : list Grammar.tree := match n with O => glue 0 ++ body 0 | S _ => body n end.

(* the concrete forest that an abstract tree stands for *)
Fixpoint ritems (t : Climb.tree) : list Grammar.tree :=
  match t with
  | Leaf n => operand_items n
  | Climb.Node hd tl =>
      [Grammar.Node OPERATION (ritems hd ++
         (fix go (l : list (op * Climb.tree)) : list Grammar.tree :=
            match l with [] => [] | (o, x) :: r => glue (snd o) ++ ritems x ++ go r end) tl)]
  end.
Fixpoint rtail (l : list (op * Climb.tree)) : list Grammar.tree :=
  match l with [] => [] | (o, x) :: r => glue (snd o) ++ ritems x ++ rtail r end.
Lemma ritems_node hd tl : ritems (Climb.Node hd tl) = [Grammar.Node OPERATION (ritems hd ++ rtail tl)].
Proof. reflexivity. Qed.
Lemma rtail_app a b : rtail (a ++ b) = rtail a ++ rtail b.
Proof. induction a as [|[o x] r IH]; [reflexivity|]. cbn [app rtail]. rewrite IH. now rewrite !app_assoc. Qed.

Definition fseg0 (f : frame) : list Grammar.tree := ritems (fhd f) ++ rtail (ftl f).
Definition fseg (f : frame) : list Grammar.tree := fseg0 f ++ glue (snd (fd f)).
Fixpoint below (S : list frame) : list Grammar.tree := match S with [] => [] | f :: r => below r ++ fseg f end.
Fixpoint cstack (n : nat) (S : list frame) : list entry :=
  match S with [] => [] | f :: r => (n + length (below r), fp f, extra_of (fp f)) :: cstack n r end.
Lemma cstack_length n S : length (cstack n S) = length S.
Proof. induction S as [|f r IH]; [reflexivity|]. cbn. now rewrite IH. Qed.

Lemma ritems_close f x : ritems (close f x) = [Grammar.Node OPERATION (fseg f ++ ritems x)].
Proof.
  unfold close. rewrite ritems_node, rtail_app. cbn [rtail]. unfold fseg, fseg0. now rewrite app_nil_r, !app_assoc.
Qed.

Lemma close_frame n F0 S f x b : length F0 = n ->
  close_at (n + length (below S)) OPERATION (mkst b (F0 ++ below (f :: S) ++ ritems x)) = mkst b (F0 ++ below S ++ ritems (close f x)).
Proof.
  intros Hn. cbn [below]. rewrite ritems_close.
  replace (F0 ++ (below S ++ fseg f) ++ ritems x) with ((F0 ++ below S) ++ (fseg f ++ ritems x)) by now rewrite !app_assoc.
  replace (n + length (below S)) with (length (F0 ++ below S)) by (rewrite app_length; lia).
  rewrite close_at_mk. now rewrite app_assoc.
Qed.

(* settle = reduce *)
Lemma settle_sim q o n : prio o = q -> forall fuel S x F0 b cur, S <> [] -> length S < fuel -> length F0 = n ->
  (match S with f :: _ => fp f < q -> cur = n + length (below S) | [] => True end) ->
  exists f' rest', reduce q o S x = f' :: rest' /\ fp f' = q /\ fd f' = o /\
    settle fuel q (extra_of q) cur (cstack n S) (mkst b (F0 ++ below S ++ ritems x))
      = (cstack n (f' :: rest'), mkst b (F0 ++ below rest' ++ fseg0 f')).
Proof.
  intros Hq fuel. induction fuel as [|fuel IH]; intros S x F0 b cur HS Hf Hn Hcur; [lia|].
  destruct S as [|f rest]; [congruence|]. clear HS. cbn [settle cstack reduce].
  destruct (q <? fp f) eqn:E1.
  - (* the operation on top binds tighter: it is closed *)
    rewrite (close_frame n F0 rest f x b Hn).
    destruct rest as [|g rest2].
    + cbn [cstack]. exists (fresh q (close f x) o), []. repeat split; try reflexivity.
      destruct fuel as [|fuel]; [cbn in Hf; lia|]. cbn [settle]. rewrite Nat.ltb_irrefl.
      unfold fseg0, fresh. cbn [fhd ftl rtail below]. now rewrite app_nil_r.
    + cbn [cstack]. destruct (q <=? fp g) eqn:E2.
      * destruct (IH (g :: rest2) (close f x) F0 b cur) as [f' [rest' [R [P [D ST]]]]]; [congruence|cbn in *; lia|exact Hn| |].
        { intros Hlt. apply Nat.leb_le in E2. lia. }
        exists f', rest'. repeat split; assumption.
      * exists (fresh q (close f x) o), (g :: rest2). repeat split; try reflexivity.
        destruct fuel as [|fuel]; [cbn in Hf; lia|]. cbn [settle]. rewrite Nat.ltb_irrefl.
        unfold fseg0, fresh. cbn [fhd ftl rtail cstack fp]. now rewrite app_nil_r.
  - destruct (fp f <? q) eqn:E3.
    + (* the operation on top binds looser: a new one is opened at the operand *)
      exists (fresh q x o), (f :: rest). repeat split; try reflexivity.
      apply Nat.ltb_lt in E3. rewrite (Hcur E3). unfold fseg0, fresh. cbn [fhd ftl rtail cstack fp]. now rewrite app_nil_r.
    + (* same priority: the operation on top continues *)
      apply Nat.ltb_ge in E1, E3.
      exists {| fp := fp f; fhd := fhd f; ftl := ftl f ++ [(fd f, x)]; fd := o |}, rest. repeat split; try reflexivity.
      * cbn [fp]. lia.
      * cbn [cstack fp below]. f_equal. unfold fseg, fseg0. cbn [fhd ftl]. rewrite rtail_app. cbn [rtail].
        unfold mkst. f_equal. now rewrite app_nil_r, !app_assoc.
Qed.

Lemma fold_close_sim n : forall S x F0 b, length F0 = n ->
  fold_left (fun s (e : entry) => close_at (fst (fst e)) OPERATION s) (cstack n S) (mkst b (F0 ++ below S ++ ritems x))
  = mkst b (F0 ++ ritems (fold_left (fun x f => close f x) S x)).
Proof.
  induction S as [|f rest IH]; intros x F0 b Hn; cbn [cstack fold_left]; [reflexivity|].
  cbn [fst]. rewrite (close_frame n F0 rest f x b Hn). now apply IH.
Qed.

(* ---- the loop ---- *)
Definition operandf (valuef : nat -> st -> res (option nat)) (u : bool) (skip : nat) (s : st) : res (option nat) :=
  if u then (let (c, s') := unit_ 0 (bumps skip s) in Some (c, s')) else valuef skip s.
Definition OperandAt valuef (u : bool) (skip : nat) (b : list tok) (pre ts : list Grammar.tree) (b1 : list tok) : Prop :=
  forall F, operandf valuef u skip (mkst b F) = Some (Some (length F + length pre), mkst b1 (F ++ pre ++ ts)).
Definition kind_at (b : list tok) (n : nat) : kind := match nth_error b n with Some (k, _) => k | None => EOF end.

(* what the token buffer must look like: operand i, then either no operator, or blanks, an operator and the rest.
   [mid0] is what the caller has already put behind the open operations (blanks and the operator node). *)
Inductive Run (valuef : nat -> st -> res (option nat)) :
  nat -> bool -> nat -> list tok -> list Grammar.tree -> list nat -> nat -> list tok -> Prop :=
| Run_end i u skip b mid0 pre b1 :
    OperandAt valuef u skip b pre (body i) b1 -> glue i = mid0 ++ pre ->
    op_of (kind_at b1 (count_ws b1)) = None ->
    Run valuef i u skip b mid0 [] (count_ws b1) b1
| Run_op i u skip b mid0 pre b1 q operator extra t b2 qs skip_end b_end :
    OperandAt valuef u skip b pre (body i) b1 -> glue i = mid0 ++ pre ->
    nth_error b1 (count_ws b1) = Some t -> op_of (fst t) = Some (q, operator, extra) ->
    b2 = skipn (S (count_ws b1)) b1 ->
    Run valuef (S i) extra (count_ws b2) b2
        (map toktree (firstn (count_ws b1) b1) ++ [Grammar.Node operator [toktree t]]) qs skip_end b_end ->
    Run valuef i u skip b mid0 (q :: qs) skip_end b_end.

Fixpoint mkin (i : nat) (qs : list nat) : list (op * Climb.tree) :=
  match qs with [] => [] | q :: r => ((q, S i), Leaf (S i)) :: mkin (S i) r end.

Lemma nth_kind_mk b F skip : nth_kind (mkst b F) skip 0 = kind_at b skip.
Proof. unfold nth_kind, kind_at, mkst. cbn [buf]. now rewrite Nat.add_0_r. Qed.

Lemma op_step (valuef : nat -> st -> res (option nat)) open lf skip first stack s :
  op_loop valuef open (S lf) skip first stack s =
    match operandf valuef (match stack with (_, _, e) :: _ => e | [] => false end) skip s with
    | None => None
    | Some (None, s1) => Some (None, s1)
    | Some (Some cur, s1) =>
        let cs := count_skip s1 in
        match op_of (nth_kind s1 cs 0) with
        | None =>
            let s2 := fold_left (fun s (e : entry) => close_at (fst (fst e)) OPERATION s) stack s1 in
            Some (Some (count_skip s1), s2)
        | Some (prio, operator, extra) =>
            let stack1 := if first then [(open, prio, extra)] else stack in
            let (stack2, s2) := settle (S (S (length stack1))) prio extra cur stack1 s1 in
            let s3 := bump_node operator (bumps cs s2) in
            op_loop valuef open lf (count_skip s3) false stack2 s3
        end
    end.
Proof. reflexivity. Qed.

Lemma after_operator b1 F t operator : nth_error b1 (count_ws b1) = Some t ->
  bump_node operator (bumps (count_ws b1) (mkst b1 F)) =
  mkst (skipn (S (count_ws b1)) b1) (F ++ map toktree (firstn (count_ws b1) b1) ++ [Grammar.Node operator [toktree t]]).
Proof.
  intros H. rewrite bumps_mk, (skipn_nth_error _ _ _ H). unfold bump_node, mkst. cbn [buf forest]. now rewrite <- app_assoc.
Qed.

Lemma loop_sim valuef open : forall qs lf i u skip b mid0 F0 f rest skip_end b_end,
  Run valuef (S i) u skip b mid0 qs skip_end b_end -> length qs < lf ->
  u = extra_of (fp f) -> snd (fd f) = S i ->
  op_loop valuef open lf skip false (cstack (length F0) (f :: rest)) (mkst b (F0 ++ below rest ++ fseg0 f ++ mid0))
  = Some (Some skip_end, mkst b_end (F0 ++ ritems (run reduce (f :: rest) (Leaf (S i)) (mkin (S i) qs)))).
Proof.
  induction qs as [|q qs IH]; intros lf i u skip b mid0 F0 f rest skip_end b_end HR Hlf Hu Htag;
    subst u; (destruct lf as [|lf]; [cbn in Hlf; lia|]); rewrite op_step; cbn [cstack].
  - inversion HR as [i' u' skip' b' mid0' pre b1 HO HG HK|]; subst i' skip' b' mid0' skip_end b1.
    rewrite (HO _). cbv zeta. change (count_skip (mkst b_end ?F)) with (count_ws b_end). rewrite nth_kind_mk, HK.
    f_equal. f_equal. cbn [mkin run].
    replace ((F0 ++ below rest ++ fseg0 f ++ mid0) ++ pre ++ body (S i)) with (F0 ++ below (f :: rest) ++ ritems (Leaf (S i))).
    + exact (fold_close_sim (length F0) (f :: rest) (Leaf (S i)) F0 b_end eq_refl).
    + cbn [below ritems operand_items]. unfold fseg. rewrite Htag, HG. now rewrite !app_assoc.
  - inversion HR as [|i' u' skip' b' mid0' pre b1 q' operator extra t b2 qs' se be HO HG HT HOP Hb2 HR'];
      subst i' skip' b' mid0' q' qs' se be b2.
    rewrite (HO _). cbv zeta. change (count_skip (mkst b1 ?F)) with (count_ws b1). rewrite nth_kind_mk. unfold kind_at. rewrite HT.
    destruct t as [tk tt]. cbn [fst] in HOP. rewrite HOP. cbv iota beta.
    pose proof (op_of_extra _ _ _ _ HOP) as He. subst extra.
    replace ((F0 ++ below rest ++ fseg0 f ++ mid0) ++ pre ++ body (S i)) with (F0 ++ below (f :: rest) ++ ritems (Leaf (S i)))
      by (cbn [below ritems operand_items]; unfold fseg; rewrite Htag, HG; now rewrite !app_assoc).
    destruct (settle_sim q (q, S (S i)) (length F0) eq_refl (S (S (length (cstack (length F0) (f :: rest))))) (f :: rest) (Leaf (S i)) F0 b1
                (length (F0 ++ below rest ++ fseg0 f ++ mid0) + length pre)) as [f' [rest' [R [P [D ST]]]]];
      [congruence|rewrite cstack_length; lia|reflexivity| |].
    { intros _. cbn [below]. unfold fseg. rewrite Htag, HG. rewrite !app_length. lia. }
    change ((length F0 + length (below rest), fp f, extra_of (fp f)) :: cstack (length F0) rest) with (cstack (length F0) (f :: rest)).
    match goal with |- context[settle ?a1 ?a2 ?a3 ?a4 ?a5 ?a6] =>
      replace (settle a1 a2 a3 a4 a5 a6) with (cstack (length F0) (f' :: rest'), mkst b1 (F0 ++ below rest' ++ fseg0 f')) by (symmetry; exact ST) end.
    rewrite (after_operator b1 _ (tk, tt) operator HT).
    change (count_skip (mkst ?B ?F)) with (count_ws B).
    cbn [mkin run]. cbn [prio fst]. rewrite R.
    replace ((F0 ++ below rest' ++ fseg0 f') ++ map toktree (firstn (count_ws b1) b1) ++ [Grammar.Node operator [toktree (tk, tt)]])
      with (F0 ++ below rest' ++ fseg0 f' ++ (map toktree (firstn (count_ws b1) b1) ++ [Grammar.Node operator [toktree (tk, tt)]]))
      by now rewrite !app_assoc.
    apply (IH lf (S i) (extra_of q)); [exact HR'|cbn in Hlf; lia|now rewrite P|now rewrite D].
Qed.

(* the whole loop, from its first iteration: it builds the rendering of [climb] *)
Theorem op_loop_climb valuef : forall qs lf skip b F skip_end b_end,
  Run valuef 0 false skip b [] qs skip_end b_end -> length qs < lf ->
  op_loop valuef (length F) lf skip true [] (mkst b F)
  = Some (Some skip_end, mkst b_end (F ++ ritems (climb (Leaf 0, mkin 0 qs)))).
Proof.
  intros qs lf skip b F skip_end b_end HR Hlf. destruct lf as [|lf]; [lia|]. rewrite op_step.
  inversion HR as [i' u' skip' b' mid0' pre b1 HO HG HK|i' u' skip' b' mid0' pre b1 q operator extra t b2 qs' se be HO HG HT HOP Hb2 HR'].
  - subst i' u' skip' b' mid0' skip_end b1 qs.
    rewrite (HO _). cbv zeta. change (count_skip (mkst b_end ?F)) with (count_ws b_end). rewrite nth_kind_mk, HK.
    cbn [fold_left]. unfold climb. cbn [mkin run fst snd fold_left ritems operand_items]. rewrite HG. reflexivity.
  - subst i' u' skip' b' mid0' qs se be b2.
    rewrite (HO _). cbv zeta. change (count_skip (mkst b1 ?F)) with (count_ws b1). rewrite nth_kind_mk. unfold kind_at. rewrite HT.
    destruct t as [tk tt]. cbn [fst] in HOP. rewrite HOP. cbv iota beta.
    pose proof (op_of_extra _ _ _ _ HOP) as He. subst extra.
    cbn [length settle]. rewrite Nat.ltb_irrefl.
    rewrite (after_operator b1 _ (tk, tt) operator HT). change (count_skip (mkst ?B ?F)) with (count_ws B).
    unfold climb. cbn [mkin run fst snd prio reduce].
    pose (f := fresh q (Leaf 0) (q, 1)).
    replace [(length F, q, extra_of q)] with (cstack (length F) [f]) by (cbn; now rewrite Nat.add_0_r).
    replace ((F ++ pre ++ body 0) ++ map toktree (firstn (count_ws b1) b1) ++ [Grammar.Node operator [toktree (tk, tt)]])
      with (F ++ below [] ++ fseg0 f ++ (map toktree (firstn (count_ws b1) b1) ++ [Grammar.Node operator [toktree (tk, tt)]])).
    + apply (loop_sim valuef (length F) qs' lf 0 (extra_of q)); [exact HR'|cbn in Hlf; lia|reflexivity|reflexivity].
    + unfold fseg0, f, fresh. cbn [fhd ftl rtail below ritems operand_items]. rewrite HG. cbn [app]. now rewrite app_nil_r, !app_assoc.
Qed.
End Render.
