(* C15: whatever state the data directory is in and however often a start is killed at whatever point, the next completed start
   answers from the shipped data, and the metadata never declares the index current before it is completely committed. *)
From Coq Require Import List Bool Arith Lia.
Import ListNotations.
From AV Require Import model.DbTypes model.DbProto gen.DbSteps.

Definition all_meta := [MAbsent; MGarbage] ++ flat_map (fun v => map (MJson v) [None; Some HCur; Some HOther]) [None; Some VThis; Some VOther].
Definition all_index := [IMissing; IBroken; IOpen Empty; IOpen Shipped; IOpen Other].
Definition all_disks := flat_map (fun m => map (fun i => {| dmeta := m; dindex := i |}) all_index) all_meta.
Lemma all_disks_complete d : In d all_disks.
Proof. destruct d as [m i]; destruct m as [| |[[]|] [[]|]]; destruct i as [| |[]]; vm_compute; tauto. Qed.

(* the crash points the translated steps mention *)
Definition max_cp : nat := fold_left (fun m s => match s with CP n => Nat.max m n | _ => m end) (open_index_steps ++ after_open_steps ++ rebuild_steps) 0.

Lemma run_p_beyond l : forall cp dp, (forall n, In (inr n) l -> n <> cp) -> run_p cp l dp = run_p 0 l dp \/ In (inr 0) l.
Proof.
  induction l as [|[a|n] r IH]; intros cp dp H; cbn [run_p]; [left; reflexivity| |].
  - destruct (IH cp (apply a dp)) as [E|E]; [intros n Hn; apply H; right; exact Hn|left; exact E|right; right; exact E].
  - destruct (Nat.eqb_spec n cp) as [->|Hn]; [exfalso; apply (H cp); [left; reflexivity|reflexivity]|].
    destruct (Nat.eqb_spec n 0) as [->|H0]; [right; left; reflexivity|].
    destruct (IH cp dp) as [E|E]; [intros m Hm; apply H; right; exact Hm|left; exact E|right; right; exact E].
Qed.
Lemma run_beyond l : forall cp d, (forall n, In (inr n) l -> n <> cp) -> run cp l d = run 0 l d \/ In (inr 0) l.
Proof. intros cp d H. unfold run. destruct (run_p_beyond l cp (d, nothing_pending) H) as [E|E]; [left; rewrite E; reflexivity|right; exact E]. Qed.

(* one killed start preserves the invariant, for every crash point and every disk state *)
Definition step_ok (d : disk) : bool := negb (good d) || forallb (fun cp => good (crash_run cp d)) (seq 0 (S (S max_cp))).
Lemma all_steps_ok : forallb step_ok all_disks = true.
Proof. vm_compute. reflexivity. Qed.
Definition plan_cps_small (d : disk) : bool := forallb (fun x => match x with inr n => (Nat.leb 1 n) && (Nat.leb n max_cp) | inl _ => true end) (plan d).
Lemma all_plans_small : forallb plan_cps_small all_disks = true.
Proof. vm_compute. reflexivity. Qed.

Lemma good_step d cp : good d = true -> good (crash_run cp d) = true.
Proof.
  intros Hg. pose proof (all_disks_complete d) as Hin.
  pose proof (proj1 (forallb_forall _ _) all_steps_ok d Hin) as H1. unfold step_ok in H1. rewrite Hg in H1. cbn [negb orb] in H1.
  rewrite forallb_forall in H1.
  destruct (le_lt_dec (S (S max_cp)) cp) as [Hbig|Hsmall]; [|apply H1; apply in_seq; lia].
  (* a crash point beyond every marker is never reached: the start completes, like crash point max_cp + 1 *)
  pose proof (proj1 (forallb_forall _ _) all_plans_small d Hin) as H2. unfold plan_cps_small in H2. rewrite forallb_forall in H2.
  assert (Hne : forall c, max_cp < c -> forall n, In (inr n) (plan d) -> n <> c).
  { intros c Hc n Hn. specialize (H2 _ Hn). cbv beta iota in H2. apply andb_prop in H2 as [_ H2]. apply Nat.leb_le in H2. lia. }
  assert (H0 : ~ In (inr 0) (plan d)).
  { intros Hn. specialize (H2 _ Hn). cbv beta iota in H2. apply andb_prop in H2 as [H2 _]. discriminate. }
  unfold crash_run. destruct (run_beyond (plan d) cp d (Hne cp ltac:(lia))) as [E|E]; [|contradiction].
  destruct (run_beyond (plan d) (S max_cp) d (Hne (S max_cp) ltac:(lia))) as [E2|E2]; [|contradiction].
  rewrite E, <- E2. apply (H1 (S max_cp)). apply in_seq. lia.
Qed.

Definition complete_ok (d : disk) : bool :=
  negb (good d) || (match answers (complete d) with Shipped => true | _ => false end && good (complete d) && meta_current (complete d)).
Lemma all_complete_ok : forallb complete_ok all_disks = true.
Proof. vm_compute. reflexivity. Qed.

Lemma good_complete d : good d = true -> answers (complete d) = Shipped /\ good (complete d) = true /\ meta_current (complete d) = true.
Proof.
  intros Hg. pose proof (proj1 (forallb_forall _ _) all_complete_ok d (all_disks_complete d)) as H. unfold complete_ok in H.
  rewrite Hg in H. cbn [negb orb] in H. apply andb_prop in H as [H H3]. apply andb_prop in H as [H1 H2].
  repeat split; try assumption. destruct (answers (complete d)); congruence.
Qed.

Lemma good_fold ks : forall d, good d = true -> good (fold_left (fun d cp => crash_run cp d) ks d) = true.
Proof. induction ks as [|k ks IH]; intros d H; cbn [fold_left]; [exact H|]. apply IH. now apply good_step. Qed.

(* after any history of killed starts, the next start that completes answers from the shipped data and leaves current metadata *)
Theorem recovers : forall (ks : list nat) d, good d = true ->
  let d' := complete (fold_left (fun d cp => crash_run cp d) ks d) in
  answers d' = Shipped /\ meta_current d' = true.
Proof.
  intros ks d H. destruct (good_complete _ (good_fold ks d H)) as (A & _ & M). split; assumption.
Qed.

(* the metadata never declares the index current before the index is completely committed *)
Theorem meta_never_early : forall (ks : list nat) d, good d = true ->
  let d' := fold_left (fun d cp => crash_run cp d) ks d in
  meta_current d' = true -> dindex d' = IOpen Shipped \/ dindex d' = IMissing \/ dindex d' = IBroken.
Proof.
  intros ks d H d' Hm. pose proof (good_fold ks d H) as Hg. fold d' in Hg.
  unfold good in Hg. rewrite Hm in Hg. cbn in Hg. destruct (dindex d') as [| |[]]; auto; discriminate.
Qed.

(* in the translated order the commit precedes the write of the metadata, and the metadata is removed before the index directory is touched *)
Fixpoint before (a b : effect) (l : list step) : bool :=
  match l with
  | [] => false
  | Eff e :: r => if (match e, a with
                      | RemoveMeta, RemoveMeta | RemoveDir, RemoveDir | CreateDir, CreateDir | CreateIndex, CreateIndex
                      | DeleteAll, DeleteAll | AddDocs, AddDocs | Commit, Commit | WriteMeta, WriteMeta => true | _, _ => false end)
                  then existsb (fun s => match s, b with
                                         | Eff RemoveMeta, RemoveMeta | Eff RemoveDir, RemoveDir | Eff CreateDir, CreateDir | Eff CreateIndex, CreateIndex
                                         | Eff DeleteAll, DeleteAll | Eff AddDocs, AddDocs | Eff Commit, Commit | Eff WriteMeta, WriteMeta => true | _, _ => false end) r
                  else before a b r
  | CP _ :: r => before a b r
  end.
Theorem commit_before_meta : before Commit WriteMeta rebuild_steps = true /\ before RemoveMeta RemoveDir open_index_steps = true /\
  before RemoveMeta CreateIndex open_index_steps = true.
Proof. vm_compute. repeat split. Qed.

(* non-vacuity: the state that used to defeat recovery -- current metadata, index directory missing, killed right after the empty
   index was created -- is good, and the start after the kill rebuilds *)
Example recovery_example :
  let d := {| dmeta := MJson (Some VThis) (Some HCur); dindex := IMissing |} in
  good d = true /\ crash_run 5 d = {| dmeta := MAbsent; dindex := IOpen Empty |} /\ answers (complete (crash_run 5 d)) = Shipped.
Proof. vm_compute. repeat split. Qed.

(* starts that keep their index in memory, anywhere in the history *)
Definition mem_ok (d : disk) : bool := negb (good d) || good (mem_start d).
Lemma all_mem_ok : forallb mem_ok all_disks = true.
Proof. vm_compute. reflexivity. Qed.
Lemma good_mem d : good d = true -> good (mem_start d) = true.
Proof.
  intros Hg. pose proof (proj1 (forallb_forall _ _) all_mem_ok d (all_disks_complete d)) as H. unfold mem_ok in H.
  rewrite Hg in H. exact H.
Qed.
Lemma good_events es : forall d, good d = true -> good (fold_left step_event es d) = true.
Proof.
  induction es as [|e es IH]; intros d H; cbn [fold_left]; [exact H|]. apply IH. destruct e as [cp|]; cbn [step_event];
  [now apply good_step|now apply good_mem].
Qed.
Theorem recovers_events : forall (es : list event) d, good d = true ->
  let d' := complete (fold_left step_event es d) in
  answers d' = Shipped /\ meta_current d' = true.
Proof.
  intros es d H. destruct (good_complete _ (good_events es d H)) as (A & _ & M). split; assumption.
Qed.
Theorem meta_never_early_events : forall (es : list event) d, good d = true ->
  let d' := fold_left step_event es d in
  meta_current d' = true -> dindex d' = IOpen Shipped \/ dindex d' = IMissing \/ dindex d' = IBroken.
Proof.
  intros es d H d' Hm. pose proof (good_events es d H) as Hg. fold d' in Hg.
  unfold good in Hg. rewrite Hm in Hg. cbn in Hg. destruct (dindex d') as [| |[]]; auto; discriminate.
Qed.
(* with the guard as translated, a start in memory leaves the data directory exactly as it found it *)
Theorem memory_start_leaves_disk : forall d, mem_start d = d.
Proof. intros d. destruct d as [m i]; destruct m as [| |[[]|] [[]|]]; destruct i as [| |[]]; vm_compute; reflexivity. Qed.
Example memory_example :
  let d := crash_run 6 {| dmeta := MAbsent; dindex := IMissing |} in
  d = {| dmeta := MAbsent; dindex := IOpen Empty |} /\ good d = true /\ answers (complete (mem_start d)) = Shipped.
Proof. vm_compute. repeat split. Qed.
