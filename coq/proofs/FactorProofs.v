(* C02 / C03: `Powers`, `Compound::base_units` and `Compound::factor` of the model against dimension vectors and SI scale.
   For compounds of proportional units (no offset scale): factor succeeds iff both sides have the same base dimensions,
   and when it does the SI value is preserved:  v' * scale target == v * scale source. *)
From Coq Require Import ZArith NArith QArith Qpower Qfield List Bool Sorted Lia.
Import ListNotations.
From AV Require Import model.UnitTypes model.Map model.Units model.Rat model.Compound proofs.MapProofs gen.UnitDefs.
Open Scope Z_scope.

(* ---- Powers ---- *)
Definition getz (m : powers) (b : unit) : Z := match get m b with Some v => v | None => 0 end.
Definition wfp (m : powers) : Prop := wfm m /\ Forall (fun kv => snd kv <> 0) m.

Lemma wfp_nil : wfp []. Proof. split; [apply wfm_nil|constructor]. Qed.

Lemma get_nonzero m b v : wfp m -> get m b = Some v -> v <> 0.
Proof. intros [_ H] Hg. apply get_In in Hg. rewrite Forall_forall in H. apply (H _ Hg). Qed.

Lemma pinsert_wfp m u p : wfp m -> wfp (pinsert m u p).
Proof.
  intros [H1 H2]. unfold pinsert. destruct (get m u) as [v|] eqn:E.
  - destruct (v + p =? 0) eqn:E0; [split; [apply del_wfm|apply del_Forall]; assumption|].
    apply Z.eqb_neq in E0. split; [apply put_wfm; assumption|apply put_Forall; assumption].
  - destruct (p =? 0) eqn:E0; [split; assumption|]. apply Z.eqb_neq in E0. split; [apply put_wfm; assumption|apply put_Forall; assumption].
Qed.

Lemma getz_pinsert m u p b : wfp m -> getz (pinsert m u p) b = getz m b + (if (u =? b)%N then p else 0).
Proof.
  intros [H1 H2]. unfold pinsert, getz. destruct (N.eqb_spec u b) as [->|Hn].
  - destruct (get m b) as [v|] eqn:E.
    + destruct (v + p =? 0) eqn:E0; [rewrite get_del_same by assumption; apply Z.eqb_eq in E0; lia|rewrite get_put_same; lia].
    + destruct (p =? 0) eqn:E0; [rewrite E; apply Z.eqb_eq in E0; lia|rewrite get_put_same; lia].
  - destruct (get m u) as [v|] eqn:E.
    + destruct (v + p =? 0); [rewrite get_del_other by assumption|rewrite get_put_other by assumption]; lia.
    + destruct (p =? 0); [|rewrite get_put_other by assumption]; lia.
Qed.

(* ---- dimension vectors ---- *)
Definition cdim (u b : unit) : Z := fold_right (fun bk acc => (if (fst bk =? b)%N then snd bk else 0) + acc) 0 (closure_of u).
Definition dim (c : compound) (b : unit) : Z := fold_right (fun us acc => spower (snd us) * cdim (fst us) b + acc) 0 c.

Lemma fold_pinsert l : forall m p b, wfp m ->
  wfp (fold_left (fun m bk => pinsert m (fst bk) (p * snd bk)) l m) /\
  getz (fold_left (fun m bk => pinsert m (fst bk) (p * snd bk)) l m) b =
  getz m b + p * fold_right (fun bk acc => (if (fst bk =? b)%N then snd bk else 0) + acc) 0 l.
Proof.
  induction l as [|[b' k] r IH]; intros m p b Hm; cbn [fold_left fold_right fst snd]; [split; [exact Hm|lia]|].
  destruct (IH (pinsert m b' (p * k)) p b (pinsert_wfp _ _ _ Hm)) as [W G]. split; [exact W|].
  rewrite G, getz_pinsert by exact Hm. destruct (b' =? b)%N; lia.
Qed.
Lemma add_closure_spec m u p b : wfp m -> wfp (add_closure m u p) /\ getz (add_closure m u p) b = getz m b + p * cdim u b.
Proof. intros Hm. unfold add_closure, cdim. apply fold_pinsert. exact Hm. Qed.

Lemma cdim_base u b : is_base u = true -> cdim u b = if (u =? b)%N then 1 else 0.
Proof. intros H. unfold cdim, closure_of. rewrite H. cbn. destruct (u =? b)%N; lia. Qed.

Lemma base_units_fold c : forall der m b, wfp m ->
  wfp (snd (fold_left bu_step c (der, m))) /\ getz (snd (fold_left bu_step c (der, m))) b = getz m b + dim c b.
Proof.
  induction c as [|[u [p e]] r IH]; intros der m b Hm; cbn [fold_left]; [cbn; split; [exact Hm|lia]|].
  unfold bu_step at 2 4. cbn [fst snd spower]. destruct (is_base u) eqn:Eb.
  - destruct (IH der (pinsert m u p) b (pinsert_wfp _ _ _ Hm)) as [W G]. split; [exact W|].
    rewrite G, getz_pinsert by exact Hm. change (dim ((u, (p, e)) :: r) b) with (p * cdim u b + dim r b). rewrite (cdim_base u b Eb). destruct (u =? b)%N; lia.
  - destruct (add_closure_spec m u p b Hm) as [W1 G1].
    destruct (IH (der ++ [(u, p)]) (add_closure m u p) b W1) as [W G]. split; [exact W|].
    rewrite G, G1. change (dim ((u, (p, e)) :: r) b) with (p * cdim u b + dim r b). lia.
Qed.
Theorem base_units_spec c : wfp (snd (base_units c)) /\ forall b, getz (snd (base_units c)) b = dim c b.
Proof.
  unfold base_units. split; [apply (base_units_fold c [] [] 0%N wfp_nil)|].
  intros b. destruct (base_units_fold c [] [] b wfp_nil) as [_ G]. etransitivity; [exact G|]. unfold getz. cbn [get]. lia.
Qed.

(* ---- the comparison made by factor ---- *)
Lemma getz_in m b : wfp m -> (In b (keys m) <-> getz m b <> 0).
Proof.
  intros [W Z]. rewrite (get_in m b W). unfold getz. destruct (get m b) as [v|] eqn:E.
  - pose proof (get_nonzero m b v (conj W Z) E). split; [auto|congruence].
  - split; [congruence|lia].
Qed.

Theorem same_bases_iff l r : wfp l -> wfp r -> (same_bases l r = true <-> forall b, getz l b = getz r b).
Proof.
  intros Hl Hr. unfold same_bases. rewrite andb_true_iff, Nat.eqb_eq, forallb_forall. split.
  - intros [Hlen Hall].
    assert (Hincl : incl (keys r) (keys l)).
    { intros b Hb. apply in_map_iff in Hb as [[b' v] [E Hin]]. cbn in E. subst b'. specialize (Hall _ Hin). cbn in Hall.
      apply (get_in l b (proj1 Hl)). destruct (get l b); [discriminate|discriminate]. }
    assert (Hincl' : incl (keys l) (keys r)).
    { apply NoDup_length_incl; [apply wfm_nodup, Hr|unfold keys; rewrite !map_length; lia|exact Hincl]. }
    intros b. destruct (in_dec N.eq_dec b (keys r)) as [Hin|Hni].
    + apply in_map_iff in Hin as [[b' v] [E Hin]]. cbn in E. subst b'. pose proof (Hall _ Hin) as Ha. cbn in Ha.
      unfold getz. rewrite (In_get r b v (proj1 Hr) Hin). destruct (get l b) as [v'|]; [apply Z.eqb_eq in Ha; exact Ha|discriminate].
    + assert (~ In b (keys l)) as Hnl by (intros H; apply Hni, Hincl', H).
      unfold getz. rewrite (get_in r b (proj1 Hr)) in Hni. rewrite (get_in l b (proj1 Hl)) in Hnl.
      destruct (get r b); [exfalso; apply Hni; discriminate|]. destruct (get l b); [exfalso; apply Hnl; discriminate|reflexivity].
  - intros Heq.
    assert (Hk : forall b, In b (keys l) <-> In b (keys r)) by (intros b; rewrite (getz_in l b Hl), (getz_in r b Hr), Heq; tauto).
    split.
    + assert (length (keys l) = length (keys r)) as H.
      { apply Nat.le_antisymm; apply NoDup_incl_length; try (apply wfm_nodup; apply Hl || apply Hr); intros b; apply Hk. }
      unfold keys in H. now rewrite !map_length in H.
    + intros [b v] Hin. cbn. pose proof (In_get r b v (proj1 Hr) Hin) as Hg.
      assert (getz r b = v) as Hv by (unfold getz; rewrite Hg; reflexivity).
      assert (v <> 0) by (eapply get_nonzero; eauto).
      specialize (Heq b). unfold getz in Heq at 1. destruct (get l b) as [v'|]; [apply Z.eqb_eq; lia|lia].
Qed.

(* ---- scale ---- *)
Definition fac (u : unit) : Q := match conv_of u with CFactor n d => Qmake n (Z.to_pos d) | _ => 1%Q end.
Definition unit_scale (us : unit * state) : Q := (pow10 (sprefix (snd us) * spower (snd us)) * fac (fst us) ^ spower (snd us))%Q.
Definition scale (c : compound) : Q := fold_right (fun us acc => unit_scale us * acc)%Q 1%Q c.
Definition proportional (c : compound) : Prop := Forall (fun us => has_offset (fst us) = false) c.

(* every conversion factor of the translated table is positive *)
Definition table_factors_positive : bool :=
  forallb (fun r : drow => match r with (_, _, CFactor n d, _, _) => (0 <? n) && (0 <? d) | _ => true end) derived_table.
Lemma table_factors_positive_ok : table_factors_positive = true.
Proof. vm_compute. reflexivity. Qed.

Lemma find_derived_in t id r : find_derived t id = Some r -> In r t.
Proof.
  induction t as [|[[[[i cl] c] sg] pl] rest IH]; cbn; [discriminate|]. destruct (i =? id)%N; [intros H; inversion H; auto|auto].
Qed.
Lemma fac_pos u : (0 < fac u)%Q.
Proof.
  unfold fac, conv_of, derived. destruct (is_base u); [reflexivity|].
  destruct (find_derived derived_table u) as [[[[[i cl] c] sg] pl]|] eqn:E; [|reflexivity].
  pose proof table_factors_positive_ok as T. unfold table_factors_positive in T. rewrite forallb_forall in T.
  specialize (T _ (find_derived_in _ _ _ E)). cbn in T. destruct c; try reflexivity.
  apply andb_prop in T as [T1 T2]. apply Z.ltb_lt in T1. unfold Qlt. cbn. lia.
Qed.

Lemma pow10_pos e : (0 < pow10 e)%Q.
Proof. unfold pow10. apply Qpower_0_lt. reflexivity. Qed.
Lemma unit_scale_pos us : (0 < unit_scale us)%Q.
Proof. unfold unit_scale. apply Qmult_lt_0_compat; [apply pow10_pos|]. apply Qpower_0_lt. apply fac_pos. Qed.
Lemma scale_pos c : (0 < scale c)%Q.
Proof. induction c as [|us r IH]; cbn; [reflexivity|]. apply Qmult_lt_0_compat; [apply unit_scale_pos|assumption]. Qed.

(* apply_conversion on a proportional unit multiplies by fac^pow *)
Lemma apply_conversion_prop pow alone v u : has_offset u = false ->
  exists v', apply_conversion pow alone v (conv_of u) = Some v' /\ (v' == v * fac u ^ pow)%Q.
Proof.
  unfold has_offset, fac. destruct (conv_of u) as [|n d|n d|t f]; try discriminate; intros _; cbn [apply_conversion].
  - eexists. split; [reflexivity|]. rewrite Qpower_1. ring.
  - destruct (pow =? 0) eqn:E; eexists; (split; [reflexivity|]); [apply Z.eqb_eq in E; subst; cbn; ring|reflexivity].
Qed.

Lemma scale_in_fold (alone : state -> bool) l : Forall (fun us => has_offset (fst us) = false) l -> forall v,
  exists v', fold_left (fun acc us => match acc with
                           | None => None
                           | Some v => let st := snd us in
                                       apply_conversion (spower st) (alone st) (v * pow10 (sprefix st * spower st))%Q (conv_of (fst us))
                           end) l (Some v) = Some v' /\ (v' == v * scale l)%Q.
Proof.
  induction 1 as [|us r Hu Hr IH]; intros v; cbn [fold_left]; [exists v; split; [reflexivity|cbn; ring]|].
  destruct (apply_conversion_prop (spower (snd us)) (alone (snd us)) (v * pow10 (sprefix (snd us) * spower (snd us)))%Q (fst us) Hu) as (v1 & E1 & Q1).
  cbv zeta. rewrite E1. destruct (IH v1) as (v' & E' & Q'). exists v'. split; [exact E'|].
  rewrite Q', Q1. change (scale (us :: r)) with (unit_scale us * scale r)%Q. unfold unit_scale. ring.
Qed.
Lemma scale_in_spec c v : proportional c -> exists v', scale_in c v = Some v' /\ (v' == v * scale c)%Q.
Proof. intros H. unfold scale_in. apply (scale_in_fold (is_alone c) c H v). Qed.

Lemma scale_out_fold (alone : state -> bool) l : Forall (fun us => has_offset (fst us) = false) l -> forall v,
  exists v', fold_left (fun acc us => match acc with
                           | None => None
                           | Some v => let st := snd us in
                                       match apply_conversion (- spower st) (alone st) v (conv_of (fst us)) with
                                       | None => None
                                       | Some v' => Some (v' / pow10 (sprefix st * spower st))%Q
                                       end
                           end) l (Some v) = Some v' /\ (v' * scale l == v)%Q.
Proof.
  induction 1 as [|us r Hu Hr IH]; intros v; cbn [fold_left]; [exists v; split; [reflexivity|cbn; ring]|].
  destruct (apply_conversion_prop (- spower (snd us)) (alone (snd us)) v (fst us) Hu) as (v1 & E1 & Q1).
  cbv zeta. rewrite E1. destruct (IH (v1 / pow10 (sprefix (snd us) * spower (snd us)))%Q) as (v' & E' & Q'). exists v'. split; [exact E'|].
  change (scale (us :: r)) with (unit_scale us * scale r)%Q.
  rewrite Qmult_assoc, (Qmult_comm v'), <- Qmult_assoc, Q', Q1. unfold unit_scale.
  rewrite Qpower_opp. pose proof (pow10_pos (sprefix (snd us) * spower (snd us))) as HA.
  pose proof (Qpower_0_lt (fac (fst us)) (spower (snd us)) (fac_pos _)) as HB.
  revert HA HB. generalize (pow10 (sprefix (snd us) * spower (snd us))) as A. generalize (fac (fst us) ^ spower (snd us))%Q as B. intros B A HA HB.
  field. split; intros E; rewrite E in *; [apply (Qlt_irrefl 0); assumption|apply (Qlt_irrefl 0); assumption].
Qed.
Lemma scale_out_spec c v : proportional c -> exists v', scale_out c v = Some v' /\ (v' * scale c == v)%Q.
Proof. intros H. unfold scale_out. apply (scale_out_fold (is_alone c) c H v). Qed.

(* ---- factor ---- *)
Theorem factor_ok_iff self other v : self <> [] -> other <> [] -> proportional self -> proportional other ->
  ((exists v', factor self other v = Some (true, v')) <-> forall b, dim self b = dim other b) /\
  ((forall v', factor self other v <> Some (true, v')) -> factor self other v = Some (false, v)).
Proof.
  intros Hs Ho Ps Po. unfold factor.
  destruct self as [|s0 sr]; [congruence|]. destruct other as [|o0 or]; [congruence|]. cbn [is_empty orb].
  destruct (base_units_spec (s0 :: sr)) as [W1 G1]. destruct (base_units_spec (o0 :: or)) as [W2 G2].
  destruct (same_bases _ _) eqn:E; cbn [negb].
  - pose proof (proj1 (same_bases_iff _ _ W1 W2) E) as E'.
    destruct (scale_in_spec (o0 :: or) v Po) as (v1 & E1 & _). rewrite E1.
    destruct (scale_out_spec (s0 :: sr) v1 Ps) as (v2 & E2 & _). rewrite E2.
    split; [split; [intros _ b; rewrite <- G1, <- G2; apply E'|intros _; eexists; reflexivity]|].
    intros H. exfalso. apply (H v2). reflexivity.
  - split; [|reflexivity]. split; [intros [v' H]; discriminate|].
    intros H. exfalso. assert (same_bases (snd (base_units (s0 :: sr))) (snd (base_units (o0 :: or))) = true) as E'.
    { apply (proj2 (same_bases_iff _ _ W1 W2)). intros b. rewrite G1, G2. apply H. }
    congruence.
Qed.

Theorem factor_si self other v v' : self <> [] -> other <> [] -> proportional self -> proportional other ->
  factor self other v = Some (true, v') -> (v' * scale self == v * scale other)%Q.
Proof.
  intros Hs Ho Ps Po. unfold factor.
  destruct self as [|s0 sr]; [congruence|]. destruct other as [|o0 or]; [congruence|]. cbn [is_empty orb].
  destruct (same_bases _ _); cbn [negb]; [|discriminate].
  destruct (scale_in_spec (o0 :: or) v Po) as (v1 & E1 & Q1). rewrite E1.
  destruct (scale_out_spec (s0 :: sr) v1 Ps) as (v2 & E2 & Q2). rewrite E2.
  intros H. inversion H; subst. rewrite Q2. exact Q1.
Qed.

(* a proportional conversion never fails with CompoundError *)
Theorem factor_total self other v : proportional self -> proportional other -> factor self other v <> None.
Proof.
  intros Ps Po. unfold factor. destruct (is_empty self || is_empty other); [discriminate|].
  destruct (negb _); [discriminate|].
  destruct (scale_in_spec other v Po) as (v1 & E1 & _). rewrite E1.
  destruct (scale_out_spec self v1 Ps) as (v2 & E2 & _). rewrite E2. discriminate.
Qed.
