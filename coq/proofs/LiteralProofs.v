(* C07: every well-formed literal is read as exactly the number it spells. *)
From Coq Require Import ZArith QArith List Lia Bool.
Import ListNotations.
From AV Require Import model.Literal spec.LiteralSpec.
Open Scope Z_scope.

(* ---------- proofs ---------- *)
Lemma is_digit_dbyte d : 0 <= d <= 9 -> is_digit (dbyte d) = true /\ dbyte d - 48 = d /\ (dbyte d =? 46) = false /\ (dbyte d =? 101) = false /\ (dbyte d =? 69) = false.
Proof. intros H. unfold is_digit, dbyte. repeat split; lia. Qed.

Lemma val_app a x y : val a (x ++ y) = val (val a x) y.
Proof. revert a. induction x as [|d r IH]; intros a; cbn; [reflexivity|apply IH]. Qed.
Lemma val_nonneg a ds : digits_ok ds -> 0 <= a -> 0 <= val a ds.
Proof. intros H. revert a. induction H as [|d r Hd _ IH]; intros a Ha; cbn; [assumption|apply IH; lia]. Qed.
Lemma val_mono a ds : digits_ok ds -> 0 <= a -> a <= val a ds.
Proof. intros H. revert a. induction H as [|d r Hd Hr IH]; intros a Ha; cbn; [lia|]. specialize (IH (a * 10 + d) ltac:(lia)). lia. Qed.

(* exponent digits: exp_loop computes val, independent of the leading-zero flag as long as exp = 0 when not init *)
Lemma exp_loop_digits e : digits_ok e -> forall init acc, (init = false -> acc = 0) -> 0 <= acc -> val acc e <= u32_max ->
  exp_loop (map dbyte e) init acc = Some (val acc e).
Proof.
  induction 1 as [|d r Hd Hr IH]; intros init acc Hinit Hacc Hmax; cbn [map exp_loop val]; [reflexivity|].
  destruct (is_digit_dbyte d Hd) as (Hdig & Hsub & _).
  destruct ((dbyte d =? 48) && negb init) eqn:E.
  - apply andb_prop in E as [E1 E2]. apply Z.eqb_eq in E1. apply negb_true_iff in E2. subst init. rewrite (Hinit eq_refl) in *.
    assert (d = 0) by (unfold dbyte in E1; lia). subst d. cbn [val] in *. apply IH; auto; lia.
  - rewrite Hdig, Hsub.
    assert (acc * 10 + d <= u32_max) as Hle.
    { cbn [val] in Hmax. pose proof (val_mono (acc * 10 + d) r Hr ltac:(lia)). lia. }
    apply Z.leb_le in Hle. rewrite Hle. apply IH; [discriminate|lia|exact Hmax].
Qed.

(* integer-part digits (before any point) *)
Lemma main_int ds : digits_ok ds -> forall rest init acc, (init = false -> acc = 0) ->
  exists init', (init' = false -> val acc ds = 0) /\ (init = true -> init' = true) /\
    main_loop (map dbyte ds ++ rest) false init 0 acc = main_loop rest false init' 0 (val acc ds).
Proof.
  induction 1 as [|d r Hd Hr IH]; intros rest init acc Hinit; cbn [map app val].
  - exists init. auto.
  - cbn [main_loop]. destruct (is_digit_dbyte d Hd) as (Hdig & Hsub & _).
    destruct ((dbyte d =? 48) && negb init) eqn:E.
    + apply andb_prop in E as [E1 E2]. apply Z.eqb_eq in E1. apply negb_true_iff in E2. subst init. rewrite (Hinit eq_refl) in *.
      assert (d = 0) by (unfold dbyte in E1; lia). subst d. replace (0 * 10 + 0) with 0 by lia.
      destruct (IH rest false 0 (fun _ => eq_refl)) as (i' & H1 & H2 & H3). exists i'. repeat split; auto; try discriminate.
    + rewrite Hdig, Hsub. cbn [negb]. destruct (IH rest true (acc * 10 + d) ltac:(discriminate)) as (i' & H1 & H2 & H3).
      exists i'. repeat split; auto; intros; auto.
Qed.

(* fraction digits (after the point: init is already true, every digit counts) *)
Lemma main_frac ds : digits_ok ds -> forall rest dots acc, 0 <= dots -> dots + Z.of_nat (length ds) <= u32_max ->
  main_loop (map dbyte ds ++ rest) true true dots acc = main_loop rest true true (dots + Z.of_nat (length ds)) (val acc ds).
Proof.
  induction 1 as [|d r Hd Hr IH]; intros rest dots acc Hdots Hmax; cbn [map app val length].
  - f_equal; lia.
  - cbn [main_loop]. destruct (is_digit_dbyte d Hd) as (Hdig & Hsub & _). rewrite andb_false_r, Hdig, Hsub.
    cbn [length] in Hmax. rewrite Nat2Z.inj_succ in Hmax. assert (dots + 1 <=? u32_max = true) as -> by (apply Z.leb_le; lia).
    rewrite IH by lia. f_equal. rewrite Nat2Z.inj_succ. lia.
Qed.

Lemma strip_sign_digits ds rest : digits_ok ds -> (forall b r, rest = b :: r -> b <> 45 /\ b <> 43) ->
  strip_sign (map dbyte ds ++ rest) = (false, map dbyte ds ++ rest).
Proof.
  intros H Hr. destruct H as [|d r Hd _]; cbn [map app].
  - destruct rest as [|b r]; [reflexivity|]. destruct (Hr b r eq_refl). unfold strip_sign.
    destruct b as [|p|p]; try reflexivity. do 6 (destruct p as [p|p|]; try reflexivity); exfalso; auto.
  - unfold strip_sign, dbyte. assert (48 + d <> 45 /\ 48 + d <> 43) as [H1 H2] by lia.
    destruct (48 + d) as [|p|p] eqn:E; try reflexivity. do 6 (destruct p as [p|p|]; try reflexivity); exfalso; auto.
Qed.

Lemma strip_sign_sign s r : strip_sign (sign_bytes (Some s) ++ r) = (s, r).
Proof. destruct s; reflexivity. Qed.

(* tail after the mantissa: nothing or an exponent *)

Lemma main_tail x dot init dots acc :
  match x with None => True | Some (_, _, e) => digits_ok e /\ e <> [] /\ val 0 e <= u32_max end ->
  main_loop (exp_bytes x) dot init dots acc =
  Ok acc ((match x with None => 0 | Some (_, s, e) => match s with Some true => - val 0 e | _ => val 0 e end end) - dots).
Proof.
  destruct x as [[[cap s] e]|]; cbn [exp_bytes]; [|intros _; cbn; f_equal; lia].
  intros (He & Hne & Hmax). cbn [main_loop].
  assert (Hb : forall b, b = 69 \/ b = 101 -> ((b =? 48) && negb init = false) /\ is_digit b = false /\ ((b =? 46) && negb dot = false) /\ ((b =? 101) || (b =? 69) = true)).
  { intros b [->| ->]; cbn; repeat split; try reflexivity. }
  destruct (Hb (if cap then 69 else 101) ltac:(destruct cap; auto)) as (H1 & H2 & H3 & H4). rewrite H1, H2, H3, H4.
  destruct s as [s|].
  - rewrite strip_sign_sign. rewrite exp_loop_digits; auto; try lia.
  - cbn [sign_bytes app]. rewrite <- (app_nil_r (map dbyte e)). rewrite strip_sign_digits; auto; [|discriminate].
    rewrite app_nil_r. rewrite exp_loop_digits; auto; lia.
Qed.

Theorem from_str_exact : forall l, well_formed l -> from_str (render l) = Ok (spelled_num l) (spelled_scale l).
Proof.
  intros [sg int frac ex] (Hint & Hfrac & Hne & Hex & Hlen). unfold render, spelled_num, spelled_scale, expv, fracd in *. cbn [lneg lint lfrac lexp] in *.
  unfold from_str.
  (* sign *)
  assert (Hs : strip_sign (sign_bytes sg ++ map dbyte int ++ (match frac with None => [] | Some f => 46 :: map dbyte f end) ++ exp_bytes ex)
               = (match sg with Some true => true | _ => false end, map dbyte int ++ (match frac with None => [] | Some f => 46 :: map dbyte f end) ++ exp_bytes ex)).
  { destruct sg as [s|]; [rewrite strip_sign_sign; destruct s; reflexivity|]. cbn [sign_bytes app].
    apply strip_sign_digits; [assumption|]. intros b r Hr. destruct frac as [f|]; [inversion Hr; lia|].
    destruct ex as [[[cap s] e]|]; [|discriminate]. cbn in Hr. inversion Hr. destruct cap; lia. }
  rewrite Hs. clear Hs.
  destruct (main_int int Hint ((match frac with None => [] | Some f => 46 :: map dbyte f end) ++ exp_bytes ex) false 0 (fun _ => eq_refl)) as (i' & Hi1 & _ & Hi3).
  rewrite Hi3. clear Hi3.
  destruct frac as [f|].
  - cbn [app main_loop]. assert (((46 =? 48) && negb i') = false) as -> by reflexivity.
    assert (is_digit 46 = false) as -> by reflexivity. assert (((46 =? 46) && negb false) = true) as -> by reflexivity. cbv iota.
    rewrite main_frac by (auto; lia). rewrite main_tail by exact Hex. rewrite val_app. cbn [Z.add].
    destruct sg as [[]|]; f_equal; lia.
  - cbn [app]. rewrite main_tail by exact Hex. rewrite app_nil_r. cbn [length Z.of_nat].
    destruct sg as [[]|]; f_equal; lia.
Qed.


Example example_literal :
  let l := {| lneg := Some true; lint := [0; 1; 2]; lfrac := Some [5; 0]; lexp := Some (false, Some true, [3]) |} in
  well_formed l /\ from_str (render l) = Ok (-1250) (-5).
Proof.
  cbv zeta. split; [|vm_compute; reflexivity].
  unfold well_formed, digits_ok, fracd; cbn [lint lfrac lexp lneg].
  repeat split; try (repeat constructor; lia); try discriminate; vm_compute; congruence.
Qed.
