(* C10 core: num-rational's floor / ceil / round meet their mathematical definitions for every (unreduced) n/d, d > 0. *)
From Coq Require Import ZArith QArith Lia.
From AV Require Import model.Rat.
Open Scope Z_scope.
Ltac Zify.zify_post_hook ::= Z.div_mod_to_equations.

Lemma qr n d : 0 < d -> n = d * Z.quot n d + Z.rem n d /\ (0 <= n -> 0 <= Z.rem n d < d) /\ (n <= 0 -> - d < Z.rem n d <= 0).
Proof. intros Hd. split; [apply Z.quot_rem'|]. split; intros H; [apply Z.rem_bound_pos_pos|apply Z.rem_bound_pos_neg]; lia. Qed.

Theorem floor_spec n d : 0 < d -> let f := floor_num n d in f * d <= n < (f + 1) * d.
Proof. intros Hd. unfold floor_num. destruct (n <? 0) eqn:E; [apply Z.ltb_lt in E|apply Z.ltb_ge in E]; cbn zeta;
  [destruct (qr (n - d + 1) d Hd) as (H1 & H2 & H3) | destruct (qr n d Hd) as (H1 & H2 & H3)];
  try (specialize (H3 ltac:(lia))); try (specialize (H2 ltac:(lia))); nia. Qed.

Theorem ceil_spec n d : 0 < d -> let c := ceil_num n d in (c - 1) * d < n <= c * d.
Proof. intros Hd. unfold ceil_num. destruct (n <? 0) eqn:E; [apply Z.ltb_lt in E|apply Z.ltb_ge in E]; cbn zeta;
  [destruct (qr n d Hd) as (H1 & H2 & H3) | destruct (qr (n + d - 1) d Hd) as (H1 & H2 & H3)];
  try (specialize (H3 ltac:(lia))); try (specialize (H2 ltac:(lia))); nia. Qed.

(* nearest integer, halves away from zero:  |2n - 2rd| <= d, and equality only on the side away from zero *)
Theorem round_spec n d : 0 < d -> let r := round_num n d in
  Z.abs (2 * n - 2 * r * d) <= d /\ (Z.abs (2 * n - 2 * r * d) = d -> Z.abs n < Z.abs (r * d)).
Proof.
  intros Hd. unfold round_num, trunc. destruct (qr n d Hd) as (Hq & Hr & Hr').
  pose proof (Z.quot_rem' d 2) as Hd2. pose proof (Z.rem_bound_pos d 2 ltac:(lia) ltac:(lia)).
  assert (He : Z.even d = true -> Z.rem d 2 = 0) by (intros H1; apply Z.even_spec in H1; destruct H1 as [k ->]; rewrite Z.mul_comm; apply Z.rem_mul; lia).
  assert (Ho : Z.even d = false -> Z.rem d 2 = 1).
  { intros H1. rewrite <- Z.negb_odd in H1. apply Bool.negb_false_iff in H1. apply Z.odd_spec in H1. destruct H1 as [k ->].
    rewrite Z.rem_mod_nonneg by lia. rewrite Z.add_comm, Z.mul_comm, Z.mod_add by lia. reflexivity. }
  destruct (Z.even d) eqn:Ev; [specialize (He eq_refl)|specialize (Ho eq_refl)];
  destruct (_ >=? _) eqn:E1; [apply Z.geb_le in E1| rewrite Z.geb_leb in E1; apply Z.leb_gt in E1 | apply Z.geb_le in E1 | rewrite Z.geb_leb in E1; apply Z.leb_gt in E1];
  try (destruct (n >=? 0) eqn:E2; [apply Z.geb_le in E2|rewrite Z.geb_leb in E2; apply Z.leb_gt in E2]); cbn zeta;
  destruct (Z_le_gt_dec 0 n); try (specialize (Hr ltac:(lia))); try (specialize (Hr' ltac:(lia))); nia.
Qed.

