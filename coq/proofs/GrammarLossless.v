(* C12, parser half: every grammar function conserves the token stream (leaves(forest) ++ buffer is invariant),
   so a finished parse has exactly the lexer's tokens as leaves, in order. *)
From Coq Require Import NArith List Arith Bool Lia.
Import ListNotations.
From AV Require Import model.Syntax model.Grammar.
Local Close Scope N_scope.

Fixpoint leaves (t : tree) : list tok :=
  match t with Tok k n => [(k, n)] | Node _ ch => (fix go (l : list tree) := match l with [] => [] | x :: r => leaves x ++ go r end) ch end.
Fixpoint leavesf (f : list tree) : list tok := match f with [] => [] | x :: r => leaves x ++ leavesf r end.
Lemma leaves_N k ch : leaves (Node k ch) = leavesf ch.
Proof. cbn. induction ch as [|x r IH]; cbn; [reflexivity|]. now rewrite IH. Qed.
Lemma leavesf_app a b : leavesf (a ++ b) = leavesf a ++ leavesf b.
Proof. induction a as [|x r IH]; cbn; [reflexivity|]. now rewrite IH, app_assoc. Qed.

Definition stream (s : st) : list tok := leavesf (forest s) ++ buf s.
Definition cons (s s' : st) : Prop := stream s' = stream s.   (* conservation *)

Lemma cons_refl s : cons s s. Proof. reflexivity. Qed.
Lemma cons_trans a b c : cons a b -> cons b c -> cons a c. Proof. unfold cons; congruence. Qed.

Lemma bump_cons s : cons s (bump s).
Proof. unfold cons, stream, bump. destruct s as [[|[k n] r] f]; cbn; [reflexivity|]. rewrite leavesf_app. cbn. now rewrite <- app_assoc. Qed.
Lemma bumps_cons n : forall s, cons s (bumps n s).
Proof. induction n as [|n IH]; intros s; cbn; [apply cons_refl|]. eapply cons_trans; [apply bump_cons|apply IH]. Qed.
Lemma bump_node_cons k s : cons s (bump_node k s).
Proof. unfold cons, stream, bump_node. destruct s as [[|[k' n] r] f]; cbn; rewrite leavesf_app; cbn; [now rewrite !app_nil_r|now rewrite <- app_assoc]. Qed.
Lemma close_at_cons c k s : cons s (close_at c k s).
Proof.
  unfold cons, stream, close_at. cbn. rewrite leavesf_app. cbn [leavesf]. rewrite leaves_N, app_nil_r.
  rewrite <- leavesf_app, firstn_skipn. reflexivity.
Qed.
Lemma eat_cons skip ks s : cons s (snd (eat skip ks s)).
Proof. unfold eat. destruct (kinds_match s skip 0 ks); cbn; [apply bumps_cons|apply cons_refl]. Qed.
Lemma bump_until_cons f k : forall s, cons s (bump_until f k s).
Proof.
  induction f as [|f IH]; intros s; cbn; [apply cons_refl|]. destruct (buf s) as [|t r] eqn:E; [apply cons_refl|].
  destruct (kind_beq (fst t) k); [apply bump_cons|]. eapply cons_trans; [apply bump_cons|apply IH].
Qed.
Lemma unit_trail_cons f : forall s, cons s (snd (unit_trail f s)).
Proof.
  induction f as [|f IH]; intros s; cbn; [apply cons_refl|].
  destruct (nth_kind s 0 0); try apply cons_refl; cbn; (eapply cons_trans; [apply bump_node_cons|apply IH]).
Qed.
Lemma unit_loop_cons f : forall skip c s, cons s (snd (unit_loop f skip c s)).
Proof.
  induction f as [|f IH]; intros skip c s; cbn [unit_loop]; [apply cons_refl|].
  assert (H : forall k, cons s (snd (let s1 := bumps skip s in let c' := match c with Some _ => c | None => Some (checkpoint s1) end in
             let s2 := bump_node k s1 in match unit_trail (S (length (buf s2))) s2 with (Some skip', s3) => unit_loop f skip' c' s3 | (None, s3) => (c', s3) end))).
  { intros k. cbv zeta. pose proof (unit_trail_cons (S (length (buf (bump_node k (bumps skip s))))) (bump_node k (bumps skip s))) as Ht.
    destruct (unit_trail _ _) as [[skip'|] s3]; cbn [snd] in *.
    - eapply cons_trans; [apply bumps_cons|]. eapply cons_trans; [apply bump_node_cons|]. eapply cons_trans; [exact Ht|apply IH].
    - eapply cons_trans; [apply bumps_cons|]. eapply cons_trans; [apply bump_node_cons|exact Ht]. }
  destruct (nth_kind s skip 0) eqn:E; try apply cons_refl; apply H.
Qed.
Lemma unit_cons skip s : cons s (snd (unit_ skip s)).
Proof.
  unfold unit_. pose proof (unit_loop_cons (S (length (buf s))) skip None s) as H. destruct (unit_loop _ _ _ _) as [[c|] s']; cbn in *; [|exact H].
  eapply cons_trans; [exact H|apply close_at_cons].
Qed.
Lemma words_loop_cons f an : forall skip n s, cons s (snd (words_loop f an skip n s)).
Proof.
  induction f as [|f IH]; intros skip n s; cbn; [apply cons_refl|].
  destruct (_ || _); [|apply cons_refl]. eapply cons_trans; [apply bumps_cons|]. eapply cons_trans; [apply bump_node_cons|apply IH].
Qed.
Lemma settle_cons f p e cur : forall stack s, cons s (snd (settle f p e cur stack s)).
Proof.
  induction f as [|f IH]; intros stack s; cbn [settle]; [apply cons_refl|]. destruct stack as [|[[c p'] e'] rest]; [apply cons_refl|].
  destruct (p <? p').
  - destruct rest as [|[[c2 pb] e2] rest']; [eapply cons_trans; [apply close_at_cons|apply IH]|].
    destruct (p <=? pb); (eapply cons_trans; [apply close_at_cons|apply IH]).
  - destruct (p' <? p); apply cons_refl.
Qed.
Lemma fold_close_cons stack : forall s, cons s (fold_left (fun s (e : entry) => close_at (fst (fst e)) OPERATION s) stack s).
Proof. induction stack as [|e r IH]; intros s; cbn; [apply cons_refl|]. eapply cons_trans; [apply close_at_cons|apply IH]. Qed.

Definition okres {A} (s : st) (r : option (A * st)) : Prop := match r with None => True | Some (_, s') => cons s s' end.

Lemma op_loop_cons valuef open : (forall skip s, okres s (valuef skip s)) ->
  forall lf skip first stack s, okres s (op_loop valuef open lf skip first stack s).
Proof.
  intros Hv. induction lf as [|lf IHl]; intros skip first stack s; cbn [op_loop]; [exact I|]. cbv zeta.
  set (operand := if match stack with (_, _, e) :: _ => e | [] => false end then _ else _).
  assert (Hop : okres s operand).
  { subst operand. destruct (match stack with (_, _, e) :: _ => e | [] => false end).
    - pose proof (unit_cons 0 (bumps skip s)) as Hu. destruct (unit_ 0 (bumps skip s)) as [c s']. cbn in *.
      eapply cons_trans; [apply bumps_cons|exact Hu].
    - apply Hv. }
  destruct operand as [[[cur|] s1]|]; cbn in Hop; try exact I; [|exact Hop].
  destruct (op_of (nth_kind s1 (count_skip s1) 0)) as [[[prio operator] extra]|].
  - pose proof (settle_cons (S (S (length (if first then [(open, prio, extra)] else stack)))) prio extra cur (if first then [(open, prio, extra)] else stack) s1) as Hs.
    destruct (settle _ _ _ _ _ _) as [stack2 s2]. cbn [snd] in Hs.
    specialize (IHl (count_skip (bump_node operator (bumps (count_skip s1) s2))) false stack2 (bump_node operator (bumps (count_skip s1) s2))).
    destruct (op_loop _ _ _ _ _ _ _) as [[r s4]|]; cbn in *; [|exact I].
    eapply cons_trans; [exact Hop|]. eapply cons_trans; [exact Hs|]. eapply cons_trans; [apply bumps_cons|]. eapply cons_trans; [apply bump_node_cons|exact IHl].
  - cbn. eapply cons_trans; [exact Hop|apply fold_close_cons].
Qed.

Lemma args_loop_cons operationf c : (forall skip s, okres s (operationf skip s)) ->
  forall lf s, okres s (args_loop operationf c lf s).
Proof.
  intros Ho. induction lf as [|lf IHl]; intros s; cbn [args_loop]; [exact I|]. cbv zeta.
  assert (Hfin : forall skip s1, cons s s1 -> okres s (Some (eat skip [CLOSE_PAREN] (close_at c FN_ARGUMENTS s1)))).
  { intros skip s1 H1. pose proof (eat_cons skip [CLOSE_PAREN] (close_at c FN_ARGUMENTS s1)) as He.
    destruct (eat _ _ _) as [b s2]. cbn in *. eapply cons_trans; [exact H1|]. eapply cons_trans; [apply close_at_cons|exact He]. }
  assert (Hgen : okres s (match operationf (count_skip s) s with
                | None => None
                | Some (None, s1) => Some (false, s1)
                | Some (Some skip1, s1) =>
                    match eat skip1 [COMMA] s1 with
                    | (true, s2) => args_loop operationf c lf s2
                    | (false, s2) => Some (eat skip1 [CLOSE_PAREN] (close_at c FN_ARGUMENTS s2))
                    end end)).
  { pose proof (Ho (count_skip s) s) as H. destruct (operationf _ _) as [[[skip1|] s1]|]; cbn in H; try exact I; [|exact H].
    pose proof (eat_cons skip1 [COMMA] s1) as He. destruct (eat skip1 [COMMA] s1) as [[] s2]; cbn [snd] in He.
    - specialize (IHl s2). destruct (args_loop _ _ _ _) as [[b s3]|]; cbn in *; [|exact I]. eapply cons_trans; [exact H|]. eapply cons_trans; eauto.
    - apply Hfin. eapply cons_trans; eauto. }
  destruct (nth_kind s (count_skip s) 0); try exact Hgen. apply Hfin. apply cons_refl.
Qed.

Lemma value_body_cons operationf callf : (forall skip s, okres s (operationf skip s)) -> (forall s, okres s (callf s)) ->
  forall skip s, okres s (value_body operationf callf skip s).
Proof.
  intros IHo IHc skip s. unfold value_body. destruct (nth_kind s skip 0) eqn:E; try (cbn [okres]; apply cons_refl).
  - (* OPEN_PAREN *)
    cbv zeta. pose proof (IHo (count_skip (bump (bumps skip s))) (bump (bumps skip s))) as Ho.
    destruct (operationf _ _) as [[[skip'|] s3]|]; cbn [snd fst okres] in *; try exact I.
    + pose proof (eat_cons skip' [CLOSE_PAREN] s3) as He. destruct (eat skip' [CLOSE_PAREN] s3) as [[] s4]; cbn [snd fst okres] in *;
        (eapply cons_trans; [apply bumps_cons|]; eapply cons_trans; [apply bump_cons|]; eapply cons_trans; [exact Ho|exact He]).
    + eapply cons_trans; [apply bumps_cons|]. eapply cons_trans; [apply bump_cons|exact Ho].
  - (* OPEN_BRACE *)
    cbv zeta. pose proof (words_loop_cons (S (length (buf (bump (bumps skip s))))) false (count_skip (bump (bumps skip s))) 0 (bump (bumps skip s))) as Hw.
    destruct (words_loop _ _ _ _ _) as [[skip' words] s3]. cbn [snd] in Hw.
    set (s4 := if 1 <? words then close_at (checkpoint (bump (bumps skip s))) SENTENCE s3 else s3).
    assert (H4 : cons s s4).
    { subst s4. eapply cons_trans; [apply bumps_cons|]. eapply cons_trans; [apply bump_cons|]. eapply cons_trans; [exact Hw|].
      destruct (1 <? words); [apply close_at_cons|apply cons_refl]. }
    pose proof (eat_cons skip' [CLOSE_BRACE] s4) as He. destruct (eat skip' [CLOSE_BRACE] s4) as [[] s5]; cbn [snd fst okres] in *.
    + eapply cons_trans; eauto.
    + eapply cons_trans; [exact H4|]. eapply cons_trans; [exact He|apply bump_until_cons].
  - (* WORD *)
    cbv zeta. destruct (kind_beq (nth_kind (bump_node WORD (bumps skip s)) 0 0) OPEN_PAREN).
    + pose proof (IHc (bump (close_at (checkpoint (bumps skip s)) FN_NAME (bump_node WORD (bumps skip s))))) as Hc.
      assert (H3 : cons s (bump (close_at (checkpoint (bumps skip s)) FN_NAME (bump_node WORD (bumps skip s))))).
      { eapply cons_trans; [apply bumps_cons|]. eapply cons_trans; [apply bump_node_cons|]. eapply cons_trans; [apply close_at_cons|apply bump_cons]. }
      destruct (callf _) as [[[] s4]|]; cbn [snd fst okres] in *; try exact I.
      * eapply cons_trans; [exact H3|]. eapply cons_trans; [exact Hc|apply close_at_cons].
      * eapply cons_trans; eauto.
    + pose proof (words_loop_cons (S (length (buf (bump_node WORD (bumps skip s))))) true (count_skip (bump_node WORD (bumps skip s))) 0 (bump_node WORD (bumps skip s))) as Hw.
      destruct (words_loop _ _ _ _ _) as [[skip' words] s3]. cbn [snd fst okres] in *.
      eapply cons_trans; [apply bumps_cons|]. eapply cons_trans; [apply bump_node_cons|]. eapply cons_trans; [exact Hw|].
      destruct (0 <? words); [apply close_at_cons|apply cons_refl].
  - (* NUMBER *)
    cbv zeta. set (s2 := bump (bumps skip s)). assert (H2 : cons s s2) by (subst s2; eapply cons_trans; [apply bumps_cons|apply bump_cons]).
    assert (Hu : okres s (let (u, s3) := unit_ (count_skip s2) s2 in Some (Some (checkpoint (bumps skip s)), close_at (checkpoint (bumps skip s)) match u with Some _ => WITH_UNIT | None => NUMBER end s3))).
    { pose proof (unit_cons (count_skip s2) s2) as H. destruct (unit_ _ _) as [u s3]. cbn [snd fst okres] in *. eapply cons_trans; [exact H2|]. eapply cons_trans; [exact H|apply close_at_cons]. }
    destruct (nth_kind s2 (count_skip s2) 0); try exact Hu.
    cbn [okres]. eapply cons_trans; [exact H2|]. eapply cons_trans; [apply bumps_cons|]. eapply cons_trans; [apply bump_cons|apply close_at_cons].
Qed.

Lemma mutual_cons : forall fuel,
  (forall skip s, okres s (operation fuel skip s)) /\ (forall skip s, okres s (value fuel skip s)) /\ (forall s, okres s (call_arguments fuel s)).
Proof.
  induction fuel as [|f [IHo [IHv IHc]]]; [repeat split; intros; exact I|]. repeat split.
  - intros skip s. cbn [operation]. now apply op_loop_cons.
  - intros skip s. cbn [value]. now apply value_body_cons.
  - intros s. cbn [call_arguments]. now apply args_loop_cons.
Qed.

Lemma root_loop_cons f c : forall skip err s, okres s (root_loop f c skip err s).
Proof.
  induction f as [|f IH]; intros skip err s; cbn [root_loop]; [exact I|].
  assert (Hop : okres s (match operation (2 * length (buf s) + 2) skip s with
        | None => None
        | Some (Some skip', s1) => root_loop f c skip' err s1
        | Some (None, s1) => let s2 := close_at c ERROR s1 in root_loop f c (count_skip s2) err s2 end)).
  { destruct (mutual_cons (2 * length (buf s) + 2)) as [Ho _]. specialize (Ho skip s).
    destruct (operation _ _ _) as [[[skip'|] s1]|]; cbn in Ho; try exact I.
    - specialize (IH skip' err s1). destruct (root_loop f c skip' err s1) as [[b s2]|]; cbn in *; [|exact I]. eapply cons_trans; eauto.
    - cbv zeta. specialize (IH (count_skip (close_at c ERROR s1)) err (close_at c ERROR s1)).
      destruct (root_loop f c _ err _) as [[b s2]|]; cbn in *; [|exact I]. eapply cons_trans; [exact Ho|]. eapply cons_trans; [apply close_at_cons|exact IH]. }
  assert (Hbad : okres s (let s1 := bump (bumps skip s) in root_loop f c (count_skip s1) true s1)).
  { cbv zeta. specialize (IH (count_skip (bump (bumps skip s))) true (bump (bumps skip s))).
    destruct (root_loop f c _ true _) as [[b s2]|]; cbn in *; [|exact I]. eapply cons_trans; [apply bumps_cons|]. eapply cons_trans; [apply bump_cons|exact IH]. }
  destruct (nth_kind s skip 0); try exact Hbad; try exact Hop. cbn. apply bumps_cons.
Qed.

(* at EOF nothing is left in the buffer (the lexer never produces the pseudo-kind EOF) *)
Definition no_eof (toks : list tok) : Prop := Forall (fun t => fst t <> EOF) toks.
Lemma bumps_drain n : forall s, (length (buf s) <= n)%nat -> buf (bumps n s) = [].
Proof.
  induction n as [|n IH]; intros s H; cbn.
  - destruct (buf s); [reflexivity|cbn in H; lia].
  - apply IH. unfold bump. destruct (buf s) as [|t r] eqn:E; cbn; [rewrite E; cbn; lia|cbn in H; lia].
Qed.
Lemma no_eof_stream s s' : cons s s' -> no_eof (stream s) -> no_eof (buf s').
Proof. unfold cons, no_eof, stream. intros H Hn. rewrite <- H in Hn. apply Forall_app in Hn. tauto. Qed.

Lemma root_loop_drains f c : forall skip err s b s', no_eof (stream s) -> root_loop f c skip err s = Some (b, s') -> buf s' = [].
Proof.
  induction f as [|f IH]; intros skip err s b s' Hne H; cbn [root_loop] in H; [discriminate|].
  assert (Hop : (match operation (2 * length (buf s) + 2) skip s with
        | None => None
        | Some (Some skip', s1) => root_loop f c skip' err s1
        | Some (None, s1) => let s2 := close_at c ERROR s1 in root_loop f c (count_skip s2) err s2 end) = Some (b, s') -> buf s' = []).
  { destruct (mutual_cons (2 * length (buf s) + 2)) as [Ho _]. specialize (Ho skip s).
    destruct (operation _ _ _) as [[[skip'|] s1]|]; try discriminate; cbn in Ho; intros H'.
    - eapply IH; [|exact H']. unfold cons in Ho. rewrite Ho. exact Hne.
    - eapply IH; [|exact H']. pose proof (close_at_cons c ERROR s1) as Hc. unfold cons in *. rewrite Hc, Ho. exact Hne. }
  assert (Hbad : (let s1 := bump (bumps skip s) in root_loop f c (count_skip s1) true s1) = Some (b, s') -> buf s' = []).
  { intros H'. eapply IH; [|exact H']. pose proof (bumps_cons skip s) as H1. pose proof (bump_cons (bumps skip s)) as H2. unfold cons in *. rewrite H2, H1. exact Hne. }
  destruct (nth_kind s skip 0) eqn:E; try (apply Hbad; exact H); try (apply Hop; exact H).
  inversion H; subst. apply bumps_drain. unfold nth_kind in E. rewrite Nat.add_0_r in E.
  destruct (nth_error (buf s) skip) as [[k n]|] eqn:En; [|apply nth_error_None in En; exact En].
  subst k. exfalso. apply nth_error_In in En. unfold no_eof, stream in Hne. apply Forall_app in Hne as [_ Hb].
  rewrite Forall_forall in Hb. apply (Hb _ En). reflexivity.
Qed.

Theorem parse_leaves : forall toks f, no_eof toks -> parse_root toks = Some f -> leavesf f = toks.
Proof.
  intros toks f Hne H. unfold parse_root in H.
  set (s0 := {| buf := toks; forest := [] |}) in *.
  pose proof (root_loop_cons (S (S (length toks))) (checkpoint s0) (count_skip s0) false s0) as Hc.
  destruct (root_loop _ _ _ _ _) as [[err s']|] eqn:E; [|discriminate]. cbn in Hc.
  pose proof (root_loop_drains _ _ _ _ s0 _ _ (Hne : no_eof (stream s0)) E) as Hd.
  assert (Hs : stream s' = toks) by (rewrite Hc; reflexivity).
  inversion H; subst f. destruct err.
  - pose proof (close_at_cons 0 ERROR s') as H0. unfold cons, stream in H0. cbn [buf close_at] in H0. unfold stream in Hs. rewrite Hd in *. rewrite !app_nil_r in *. congruence.
  - unfold stream in Hs. rewrite Hd, app_nil_r in Hs. exact Hs.
Qed.


From AV Require Import model.Lexer proofs.LexerProofs.

Lemma tokens_no_eof s : no_eof (tokens s).
Proof.
  unfold no_eof. eapply Forall_impl; [|apply tokens_kinds]. intros [k tx] H E. cbn [fst] in *. subst k. discriminate.
Qed.

Theorem source_leaves : forall (s : list chr) (f : list tree),
  parse_root (tokens s) = Some f -> concat (map snd (leavesf f)) = s.
Proof.
  intros s f H. rewrite (parse_leaves _ _ (tokens_no_eof s) H). apply tokens_lossless.
Qed.

Example example_parses :
  let s := [114; 111; 117; 110; 100; 40; 49; 46; 53; 32; 107; 109; 32; 42; 32; 40; 50; 32; 43; 32; 51; 41; 44; 32; 49; 41]%N in
  exists f, parse_root (tokens s) = Some f /\ concat (map snd (leavesf f)) = s.
Proof. cbv zeta. eexists. split; [vm_compute; reflexivity|vm_compute; reflexivity]. Qed.
