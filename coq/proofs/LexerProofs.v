(* C12, lexer half: the lexer terminates, every token is non-empty and the tokens concatenate to the input. *)
From Coq Require Import NArith List Lia Bool Arith.
Import ListNotations.
From AV Require Import model.Syntax model.Lexer.
Open Scope N_scope.

(* ---------- losslessness ---------- *)
Lemma span_app p s : fst (span p s) ++ snd (span p s) = s.
Proof. induction s as [|c r IH]; cbn; [reflexivity|]. destruct (p c); [|reflexivity]. destruct (span p r); cbn in *. now rewrite IH. Qed.
Lemma span_len p s : (length (snd (span p s)) <= length s)%nat.
Proof. induction s as [|c r IH]; cbn; [lia|]. destruct (p c); [|cbn; lia]. destruct (span p r); cbn in *. lia. Qed.
Lemma span_head p c r : p c = true -> fst (span p (c :: r)) <> [].
Proof. intros H. cbn. rewrite H. destruct (span p r). discriminate. Qed.

Lemma cnum_app f : forall dot s, fst (cnum f dot s) ++ snd (cnum f dot s) = s.
Proof.
  induction f as [|f IH]; intros dot s; cbn [cnum]; [reflexivity|]. destruct s as [|a r]; [reflexivity|].
  destruct (is_digit a). { specialize (IH dot r). destruct (cnum f dot r); cbn in *. now rewrite IH. }
  destruct ((a =? 46) && negb dot). { specialize (IH true r). destruct (cnum f true r); cbn in *. now rewrite IH. }
  destruct (is_e a && _); [|reflexivity].
  destruct r as [|b r1].
  - cbn [span]. specialize (IH dot []). destruct (cnum f dot []); cbn in *. now rewrite IH.
  - destruct (is_sign b).
    + pose proof (span_app is_digit r1) as Hs. destruct (span is_digit r1) as [ds r2]. specialize (IH dot r2).
      destruct (cnum f dot r2) as [t r']. cbn in *. rewrite <- Hs, <- IH. now rewrite <- !app_assoc.
    + pose proof (span_app is_digit (b :: r1)) as Hs. destruct (span is_digit (b :: r1)) as [ds r2]. specialize (IH dot r2).
      destruct (cnum f dot r2) as [t r']. cbn in *. rewrite <- Hs, <- IH. now rewrite <- !app_assoc.
Qed.

Lemma cnum_digit f dot c r : is_digit c = true -> fst (cnum (S f) dot (c :: r)) <> [].
Proof. intros H. cbn [cnum]. rewrite H. destruct (cnum f dot r). discriminate. Qed.

Definition text_of (ts : list token) : list chr := concat (map snd ts).

Lemma next_ok esc c r : let '(t, rest, _) := next esc (c :: r) in snd t ++ rest = c :: r /\ snd t <> [].
Proof.
  unfold next. destruct esc.
  - destruct (is_ws c) eqn:Ew.
    + pose proof (span_app is_ws (c :: r)). pose proof (span_head is_ws c r Ew). destruct (span is_ws (c :: r)); cbn in *. auto.
    + destruct (c =? 125); cbn; split; auto; discriminate.
  - destruct (is_ws c) eqn:Ew.
    { pose proof (span_app is_ws (c :: r)). pose proof (span_head is_ws c r Ew). destruct (span is_ws (c :: r)); cbn in *. auto. }
    destruct (c =? 123). { cbn; split; auto; discriminate. }
    destruct (c =? 46).
    { pose proof (cnum_app (length r) true r). destruct (cnum (length r) true r) as [t r']. cbn in *. destruct t; cbn in *; subst; split; auto; discriminate. }
    destruct (c =? 44). { cbn; split; auto; discriminate. }
    destruct (is_digit c) eqn:Ed.
    { pose proof (cnum_app (length (c :: r)) false (c :: r)). pose proof (cnum_digit (length r) false c r Ed).
      cbn [length] in *. destruct (cnum (S (length r)) false (c :: r)); cbn in *. auto. }
    destruct (c =? 42). { destruct r as [|[|p] r']; cbn; try (split; auto; discriminate). do 6 (destruct p; try (cbn; split; auto; discriminate)). }
    destruct (c =? 47). { cbn; split; auto; discriminate. }
    destruct (is_sign c).
    { pose proof (cnum_app (length r) false r). destruct (cnum (length r) false r) as [t r']. cbn in *. destruct t; cbn in *; subst; split; auto; discriminate. }
    destruct (c =? 94). { cbn; split; auto; discriminate. }
    destruct (c =? 37). { cbn; split; auto; discriminate. }
    destruct (c =? 40). { cbn; split; auto; discriminate. }
    destruct (c =? 41). { cbn; split; auto; discriminate. }
    pose proof (span_app is_wordc (c :: r)). destruct (span is_wordc (c :: r)) as [w r']. cbn in *.
    destruct w; cbn in *; [subst; split; auto; discriminate|]. split; [assumption|discriminate].
Qed.

Theorem lex_lossless : forall fuel esc s, (length s <= fuel)%nat ->
  text_of (lex fuel esc s) = s /\ Forall (fun t => snd t <> []) (lex fuel esc s).
Proof.
  induction fuel as [|f IH]; intros esc s Hl.
  - destruct s; [cbn; auto|cbn in Hl; lia].
  - cbn [lex]. destruct s as [|c r]; [cbn; auto|].
    pose proof (next_ok esc c r) as Hn. destruct (next esc (c :: r)) as [[t rest] e]. destruct Hn as [Happ Hne].
    assert (length rest <= f)%nat as Hlen.
    { assert (length (snd t ++ rest) = length (c :: r)) as Hle by now rewrite Happ. rewrite app_length in Hle. cbn in Hl, Hle.
      destruct (snd t); [congruence|]. cbn in Hle. lia. }
    destruct (IH e rest Hlen) as [H1 H2]. split.
    + unfold text_of in *. cbn [map concat]. rewrite H1. exact Happ.
    + constructor; assumption.
Qed.

Corollary tokens_lossless s : text_of (tokens s) = s /\ Forall (fun t => snd t <> []) (tokens s).
Proof. apply lex_lossless. lia. Qed.

(* the lexer never produces the parser's end-of-input marker (nor any node kind) *)
Definition lex_kind (k : kind) : bool :=
  match k with
  | WHITESPACE | STAR | STARSTAR | SLASH | PLUS | DASH | CARET | COMMA | OPEN_PAREN | CLOSE_PAREN
  | OPEN_BRACE | CLOSE_BRACE | TO | WORD | NUMBER | PERCENTAGE | ERROR => true
  | _ => false
  end.

Lemma next_kind esc s : lex_kind (fst (fst (fst (next esc s)))) = true.
Proof.
  unfold next. destruct s as [|c r]; [reflexivity|]. destruct esc.
  - destruct (is_ws c). { destruct (span is_ws (c :: r)); reflexivity. }
    destruct (c =? 125); reflexivity.
  - destruct (is_ws c). { destruct (span is_ws (c :: r)); reflexivity. }
    destruct (c =? 123); [reflexivity|].
    destruct (c =? 46). { destruct (cnum (length r) true r) as [t r']. destruct t; reflexivity. }
    destruct (c =? 44); [reflexivity|].
    destruct (is_digit c). { destruct (cnum (length (c :: r)) false (c :: r)); reflexivity. }
    destruct (c =? 42). { destruct r as [|[|p] r']; try reflexivity. do 6 (destruct p; try reflexivity). }
    destruct (c =? 47); [reflexivity|].
    destruct (is_sign c). { destruct (cnum (length r) false r) as [t r']. destruct t; [destruct (c =? 43)|]; reflexivity. }
    destruct (c =? 94); [reflexivity|]. destruct (c =? 37); [reflexivity|].
    destruct (c =? 40); [reflexivity|]. destruct (c =? 41); [reflexivity|].
    destruct (span is_wordc (c :: r)) as [w r']. destruct w as [|w0 w']; [reflexivity|].
    unfold word_kind. cbn [fst]. destruct w' as [|b [|? ?]]; try reflexivity. destruct ((w0 =? 116) && (b =? 111)); reflexivity.
Qed.

Lemma lex_kinds fuel : forall esc s, Forall (fun t => lex_kind (fst t) = true) (lex fuel esc s).
Proof.
  induction fuel as [|f IH]; intros esc s; cbn [lex]; [constructor|].
  destruct s as [|c r]; [constructor|].
  pose proof (next_kind esc (c :: r)) as Hk. destruct (next esc (c :: r)) as [[t rest] e]. cbn [fst] in Hk.
  constructor; [exact Hk|apply IH].
Qed.

Corollary tokens_kinds s : Forall (fun t => lex_kind (fst t) = true) (tokens s).
Proof. apply lex_kinds. Qed.
