(* C02, C03, C13 (additive part): laws of addition, subtraction and conversion that follow from factor_ok_iff / factor_si. *)
From Coq Require Import ZArith NArith QArith Qpower Qfield List Bool Lia.
Import ListNotations.
From AV Require Import model.UnitTypes model.Map model.Units model.Rat model.Compound model.Eval proofs.MapProofs proofs.FactorProofs
  gen.Prefixes.
Open Scope Z_scope.

Definition samedim (a b : compound) : Prop := forall x, dim a x = dim b x.
Definition si (n : numeric) : Q := (fst n * scale (snd n))%Q.

Lemma scale_nz c : ~ (scale c == 0)%Q.
Proof. intros H. pose proof (scale_pos c) as P. rewrite H in P. discriminate P. Qed.

(* ---- C02: + and - succeed exactly between commensurable units ---- *)
Theorem add_ok_iff span (a b : numeric) : snd a <> [] -> snd b <> [] -> proportional (snd a) -> proportional (snd b) ->
  ((exists r, op_add span a b = Ok r) <-> samedim (snd a) (snd b)) /\
  (~ samedim (snd a) (snd b) -> op_add span a b = Error span IllegalOperation).
Proof.
  intros Ha Hb Pa Pb. unfold samedim. destruct (factor_ok_iff (snd a) (snd b) (fst b) Ha Hb Pa Pb) as [[F1 F2] F3]. unfold op_add. split; [split|].
  - intros [r Hr]. apply F1. destruct (factor _ _ _) as [[[] v']|]; try discriminate. eexists; reflexivity.
  - intros Hd. destruct (F2 Hd) as [v' E]. rewrite E. eexists; reflexivity.
  - intros Hn. rewrite F3; [reflexivity|]. intros v' E. apply Hn, F1. eexists; exact E.
Qed.
Theorem sub_ok_iff span (a b : numeric) : snd a <> [] -> snd b <> [] -> proportional (snd a) -> proportional (snd b) ->
  ((exists r, op_sub span a b = Ok r) <-> samedim (snd a) (snd b)) /\
  (~ samedim (snd a) (snd b) -> op_sub span a b = Error span IllegalOperation).
Proof.
  intros Ha Hb Pa Pb. unfold samedim. destruct (factor_ok_iff (snd a) (snd b) (fst b) Ha Hb Pa Pb) as [[F1 F2] F3]. unfold op_sub. split; [split|].
  - intros [r Hr]. apply F1. destruct (factor _ _ _) as [[[] v']|]; try discriminate. eexists; reflexivity.
  - intros Hd. destruct (F2 Hd) as [v' E]. rewrite E. eexists; reflexivity.
  - intros Hn. rewrite F3; [reflexivity|]. intros v' E. apply Hn, F1. eexists; exact E.
Qed.
(* the decision made by `to` is the same one: factor with the target unit as `self` *)
Theorem cast_ok_iff (target src : compound) v : target <> [] -> src <> [] -> proportional target -> proportional src ->
  ((exists v', factor target src v = Some (true, v')) <-> samedim target src) /\
  (~ samedim target src -> factor target src v = Some (false, v)).
Proof.
  intros Ht Hs Pt Ps. unfold samedim. destruct (factor_ok_iff target src v Ht Hs Pt Ps) as [F1 F3]. split; [exact F1|].
  intros Hn. apply F3. intros v' E. apply Hn, F1. eexists; exact E.
Qed.

(* a plain number combined with a quantity adopts the quantity's unit, whichever side it is on *)
Theorem plain_adopts_unit span x y (u : compound) : u <> [] ->
  op_add span (x, []) (y, u) = Ok ((x + y)%Q, u) /\ op_add span (y, u) (x, []) = Ok ((y + x)%Q, u) /\
  op_sub span (x, []) (y, u) = Ok ((x - y)%Q, u) /\ op_sub span (y, u) (x, []) = Ok ((y - x)%Q, u).
Proof.
  intros Hu. unfold op_add, op_sub, factor, adopt. cbn [fst snd is_empty orb].
  destruct u as [|u0 ur]; [congruence|]. cbn [is_empty orb]. repeat split; reflexivity.
Qed.

(* ---- C03: conversion preserves the quantity ---- *)
Theorem round_trip (a b : compound) v v1 v2 : a <> [] -> b <> [] -> proportional a -> proportional b ->
  factor a b v = Some (true, v1) -> factor b a v1 = Some (true, v2) -> (v2 == v)%Q.
Proof.
  intros Ha Hb Pa Pb H1 H2. pose proof (factor_si a b v v1 Ha Hb Pa Pb H1) as E1. pose proof (factor_si b a v1 v2 Hb Ha Pb Pa H2) as E2.
  apply (Qmult_inj_r _ _ (scale b)); [apply scale_nz|]. rewrite E2. exact E1.
Qed.
Theorem via_equals_direct (a b c : compound) v vd v1 v2 : a <> [] -> b <> [] -> c <> [] -> proportional a -> proportional b -> proportional c ->
  factor c a v = Some (true, vd) -> factor b a v = Some (true, v1) -> factor c b v1 = Some (true, v2) -> (v2 == vd)%Q.
Proof.
  intros Ha Hb Hc Pa Pb Pc H0 H1 H2.
  pose proof (factor_si c a v vd Hc Ha Pc Pa H0) as E0. pose proof (factor_si b a v v1 Hb Ha Pb Pa H1) as E1.
  pose proof (factor_si c b v1 v2 Hc Hb Pc Pb H2) as E2.
  apply (Qmult_inj_r _ _ (scale c)); [apply scale_nz|]. rewrite E2, E1. symmetry. exact E0.
Qed.
Theorem conversion_linear (a b : compound) k v v1 vk : a <> [] -> b <> [] -> proportional a -> proportional b ->
  factor a b v = Some (true, v1) -> factor a b (k * v) = Some (true, vk) -> (vk == k * v1)%Q.
Proof.
  intros Ha Hb Pa Pb H1 H2. pose proof (factor_si a b v v1 Ha Hb Pa Pb H1) as E1. pose proof (factor_si a b (k * v) vk Ha Hb Pa Pb H2) as E2.
  apply (Qmult_inj_r _ _ (scale a)); [apply scale_nz|]. rewrite E2. rewrite <- !Qmult_assoc. rewrite E1. reflexivity.
Qed.

(* an SI prefix is exactly its power of ten; powers and products convert by powers and products of the factors *)
Lemma pow10_add a b : (pow10 (a + b) == pow10 a * pow10 b)%Q.
Proof. unfold pow10. apply Qpower_plus. discriminate. Qed.
Theorem prefix_exact (u : unit) (p e : Z) : (scale [(u, (p, e))] == pow10 (e * p)%Z * scale [(u, (p, 0%Z))])%Q.
Proof. cbn [scale fold_right]. unfold unit_scale. cbn [fst snd sprefix spower]. replace (0 * p) with 0 by lia. change (pow10 0) with 1%Q. ring. Qed.
Theorem scale_power (u : unit) (p e k : Z) : (scale [(u, ((p * k)%Z, e))] == scale [(u, (p, e))] ^ k)%Q.
Proof.
  cbn [scale fold_right]. unfold unit_scale. cbn [fst snd sprefix spower]. rewrite !Qmult_1_r.
  rewrite Qmult_power. unfold pow10. rewrite <- !Qpower_mult. rewrite Z.mul_assoc. reflexivity.
Qed.
Theorem scale_product (c1 c2 : compound) : (scale (c1 ++ c2) == scale c1 * scale c2)%Q.
Proof.
  induction c1 as [|us r IH].
  - change (scale ([] ++ c2)) with (scale c2). change (scale []) with 1%Q. ring.
  - change (scale ((us :: r) ++ c2)) with (unit_scale us * scale (r ++ c2))%Q. change (scale (us :: r)) with (unit_scale us * scale r)%Q.
    rewrite IH. ring.
Qed.

(* the prefix exponents of the translated table are the SI ones *)
Theorem prefix_table_is_SI :
  List.map fst prefix_table = [-24; -21; -18; -15; -12; -9; -6; -3; -2; -1; 0; 1; 2; 3; 6; 9; 12; 15; 18; 21; 24].
Proof. reflexivity. Qed.

(* ---- C13, additive laws: the SI value of a sum is the sum of the SI values ---- *)
Theorem add_si span (a b r : numeric) : snd a <> [] -> snd b <> [] -> proportional (snd a) -> proportional (snd b) ->
  op_add span a b = Ok r -> (si r == si a + si b)%Q /\ snd r = snd a.
Proof.
  intros Ha Hb Pa Pb. unfold op_add. destruct (factor (snd a) (snd b) (fst b)) as [[[] v']|] eqn:E; try discriminate.
  intros H. inversion H; subst r. unfold si, adopt. cbn [fst snd]. destruct (snd a) as [|a0 ar] eqn:Ea; [congruence|]. cbn [is_empty].
  split; [|reflexivity]. rewrite <- Ea in *. pose proof (factor_si _ _ _ _ Ha Hb Pa Pb E) as Q1. rewrite <- Q1. ring.
Qed.
Theorem sub_si span (a b r : numeric) : snd a <> [] -> snd b <> [] -> proportional (snd a) -> proportional (snd b) ->
  op_sub span a b = Ok r -> (si r == si a - si b)%Q /\ snd r = snd a.
Proof.
  intros Ha Hb Pa Pb. unfold op_sub. destruct (factor (snd a) (snd b) (fst b)) as [[[] v']|] eqn:E; try discriminate.
  intros H. inversion H; subst r. unfold si, adopt. cbn [fst snd]. destruct (snd a) as [|a0 ar] eqn:Ea; [congruence|]. cbn [is_empty].
  split; [|reflexivity]. rewrite <- Ea in *. pose proof (factor_si _ _ _ _ Ha Hb Pa Pb E) as Q1. rewrite <- Q1. ring.
Qed.

Lemma samedim_sym a b : samedim a b -> samedim b a. Proof. intros H x. symmetry. apply H. Qed.

(* a + b and b + a: one is a number iff the other is, and then they are the same quantity *)
Theorem add_comm span (a b : numeric) : snd a <> [] -> snd b <> [] -> proportional (snd a) -> proportional (snd b) ->
  ((exists r, op_add span a b = Ok r) <-> (exists r, op_add span b a = Ok r)) /\
  (forall r r', op_add span a b = Ok r -> op_add span b a = Ok r' -> (si r == si r')%Q /\ samedim (snd r) (snd r')).
Proof.
  intros Ha Hb Pa Pb. destruct (add_ok_iff span a b Ha Hb Pa Pb) as [I1 _]. destruct (add_ok_iff span b a Hb Ha Pb Pa) as [I2 _]. split.
  - rewrite I1, I2. split; apply samedim_sym.
  - intros r r' H1 H2. destruct (add_si span a b r Ha Hb Pa Pb H1) as [S1 U1]. destruct (add_si span b a r' Hb Ha Pb Pa H2) as [S2 U2].
    split; [rewrite S1, S2; ring|]. rewrite U1, U2. apply I1. eexists; exact H1.
Qed.

(* a - a is zero *)
Theorem sub_self span (a : numeric) : snd a <> [] -> proportional (snd a) -> exists r, op_sub span a a = Ok r /\ (si r == 0)%Q /\ snd r = snd a.
Proof.
  intros Ha Pa. destruct (sub_ok_iff span a a Ha Ha Pa Pa) as [[_ I] _]. destruct (I (fun x => eq_refl)) as [r Hr].
  exists r. destruct (sub_si span a a r Ha Ha Pa Pa Hr) as [S U]. repeat split; [exact Hr| |exact U]. rewrite S. ring.
Qed.

(* (a + b) + c and a + (b + c) are the same quantity whenever both are numbers *)
Theorem add_assoc span (a b c ab bc l r : numeric) : snd a <> [] -> snd b <> [] -> snd c <> [] ->
  proportional (snd a) -> proportional (snd b) -> proportional (snd c) ->
  op_add span a b = Ok ab -> op_add span ab c = Ok l -> op_add span b c = Ok bc -> op_add span a bc = Ok r ->
  (si l == si r)%Q /\ snd l = snd r.
Proof.
  intros Ha Hb Hc Pa Pb Pc H1 H2 H3 H4.
  destruct (add_si span a b ab Ha Hb Pa Pb H1) as [S1 U1].
  assert (Hab : snd ab <> []) by (rewrite U1; exact Ha). assert (Pab : proportional (snd ab)) by (rewrite U1; exact Pa).
  destruct (add_si span ab c l Hab Hc Pab Pc H2) as [S2 U2].
  destruct (add_si span b c bc Hb Hc Pb Pc H3) as [S3 U3].
  assert (Hbc : snd bc <> []) by (rewrite U3; exact Hb). assert (Pbc : proportional (snd bc)) by (rewrite U3; exact Pb).
  destruct (add_si span a bc r Ha Hbc Pa Pbc H4) as [S4 U4].
  split; [rewrite S2, S1, S4, S3; ring|congruence].
Qed.

(* non-vacuity: J/N against m (the base dimensions of kg, m and s cancel on the left), km against m, and a mismatch *)
Definition u_J : unit := 3766052723%N.
Definition u_N : unit := 353022001%N.
Definition u_m : unit := base_key 2.
Definition u_s : unit := base_key 3.
Example unit_examples :
  proportional [(u_N, (-1, 0)); (u_J, (1, 0))] /\ samedim [(u_m, (1, 0))] [(u_N, (-1, 0)); (u_J, (1, 0))] /\
  factor [(u_m, (1, 0))] [(u_N, (-1, 0)); (u_J, (1, 0))] (3 # 1) = Some (true, (3 # 1)%Q) /\
  (exists v, factor [(u_m, (1, 0))] [(u_m, (1, 3))] (5 # 2) = Some (true, v) /\ (v == 2500 # 1)%Q) /\
  factor [(u_m, (1, 0))] [(u_s, (1, 0))] 1 = Some (false, 1%Q).
Proof.
  assert (P1 : proportional [(u_N, (-1, 0)); (u_J, (1, 0))]) by (repeat constructor).
  assert (P2 : proportional [(u_m, (1, 0))]) by (repeat constructor).
  assert (E : factor [(u_m, (1, 0))] [(u_N, (-1, 0)); (u_J, (1, 0))] (3 # 1) = Some (true, (3 # 1)%Q)) by (vm_compute; reflexivity).
  split; [exact P1|]. split.
  - assert (N1 : [(u_m, (1, 0))] <> ([] : compound)) by discriminate.
    assert (N2 : [(u_N, (-1, 0)); (u_J, (1, 0))] <> ([] : compound)) by discriminate.
    unfold samedim. apply (proj1 (proj1 (factor_ok_iff _ _ (3 # 1)%Q N1 N2 P2 P1))). eexists; exact E.
  - split; [exact E|]. split; [eexists; split; vm_compute; reflexivity|vm_compute; reflexivity].
Qed.
