(* C01: on syntax trees of numeric expressions the evaluator computes exactly what exact arithmetic assigns, and reports an
   error where arithmetic is undefined. *)
From Coq Require Import ZArith NArith QArith Qpower List Bool Lia.
Import ListNotations.
From AV Require Import model.Syntax model.Rat model.UnitTypes model.Map model.Compound model.Eval spec.Arith.
Open Scope Z_scope.

Section Exact.
Variable debug : bool.
Variable facts : db.
Variable describe : bool.

Definition binop_kind (o : binop) (k : kind) : Prop :=
  match o with
  | Add => k = OP_ADD | Sub => k = OP_SUB | Mul => k = OP_MUL \/ k = OP_IMPLICIT_MUL | Div => k = OP_DIV | Pow => k = OP_POWER
  end.

(* how a syntax tree is read as a numeric expression: number leaves, percentages, and OPERATION nodes whose children
   (tokens skipped) are an operand followed by (operator, operand) pairs, read as a left fold *)
Inductive shape : atree -> expr -> Prop :=
  | S_num t q : akind t = NUMBER -> parse_number (aspan t) (atext t) = Ok (q, []) -> shape t (Lit q)
  | S_pct c rest s e q : akind c = NUMBER -> parse_number (s, e) (atext c) = Ok (q, []) ->
      shape (ANode PERCENTAGE (c :: rest) s e) (Lit (q / (100 # 1))%Q)
  | S_op ch s e base rest eb ee : skip_tokens ch = base :: rest -> shape base eb -> pairs rest eb ee ->
      shape (ANode OPERATION ch s e) ee
with pairs : list atree -> expr -> expr -> Prop :=
  | P_nil acc : pairs [] acc acc
  | P_cons op rhs rest acc o er ee : binop_kind o (akind op) -> shape rhs er -> pairs rest (Bin o acc er) ee ->
      pairs (op :: rhs :: rest) acc ee.

(* result of the evaluator vs the specification: a value equal to the denoted number (and no unit), or an error *)
Definition agrees (r : res numeric) (o : option Q) : Prop :=
  match o with
  | Some q => exists v, r = Ok (v, []) /\ (v == q)%Q
  | None => exists s k, r = Error s k
  end.

Lemma pow_loop_spec n b acc : (pow_loop n b acc == acc * b ^ Z.of_nat n)%Q.
Proof.
  revert acc. induction n as [|n IH]; intros acc; cbn [pow_loop]; [cbn; ring|].
  rewrite IH. rewrite Nat2Z.inj_succ. unfold Z.succ.
  destruct (Qeq_dec b 0) as [E|E].
  - rewrite E. rewrite (Qpower_0 (Z.of_nat n + 1)) by lia. ring.
  - rewrite Qpower_plus by exact E. cbn. ring.
Qed.

Lemma is_zero_Qeq x y : (x == y)%Q -> is_zero x = is_zero y.
Proof.
  unfold is_zero, qnum, Qeq. intros H. destruct x as [a b], y as [c d]. cbn in *.
  destruct (a =? 0) eqn:E1, (c =? 0) eqn:E2; try reflexivity.
  - apply Z.eqb_eq in E1. apply Z.eqb_neq in E2. subst. lia.
  - apply Z.eqb_eq in E2. apply Z.eqb_neq in E1. subst. lia.
Qed.
Lemma is_zero_spec x : is_zero x = true <-> (x == 0)%Q.
Proof. unfold is_zero, qnum, Qeq. destruct x as [a b]. cbn. rewrite Z.eqb_eq. lia. Qed.

Lemma is_integer_Qeq x y : (x == y)%Q -> is_integer x = is_integer y.
Proof.
  intros H. unfold is_integer, qnum, qden. destruct x as [a b], y as [c d]. unfold Qeq in H. cbn [Qnum Qden] in *.
  assert (K : forall a b c d : Z, 0 < b -> 0 < d -> a * d = c * b -> Z.rem a b = 0 -> Z.rem c d = 0).
  { clear. intros a b c d Hb Hd H E. apply Z.rem_divide in E; [|lia]. destruct E as [k ->].
    apply Z.rem_divide; [lia|]. exists k. nia. }
  destruct (Z.rem a (Zpos b) =? 0) eqn:E1, (Z.rem c (Zpos d) =? 0) eqn:E2; try reflexivity.
  - apply Z.eqb_eq in E1. apply Z.eqb_neq in E2. exfalso. apply E2. apply (K a (Zpos b) c (Zpos d)); lia.
  - apply Z.eqb_eq in E2. apply Z.eqb_neq in E1. exfalso. apply E1. apply (K c (Zpos d) a (Zpos b)); lia.
Qed.
Lemma to_integer_Qeq x y : (x == y)%Q -> is_integer x = true -> to_integer x = to_integer y.
Proof.
  intros H Hi. pose proof Hi as Hj. rewrite (is_integer_Qeq _ _ H) in Hj.
  unfold is_integer, to_integer, qnum, qden in *. apply Z.eqb_eq in Hi, Hj.
  destruct x as [a b], y as [c d]. unfold Qeq in H. cbn [Qnum Qden] in *.
  pose proof (Z.quot_rem' a (Zpos b)) as Ha. pose proof (Z.quot_rem' c (Zpos d)) as Hc.
  set (qa := Z.quot a (Zpos b)) in *. set (qc := Z.quot c (Zpos d)) in *.
  assert (E : Zpos b * Zpos d * qa = Zpos b * Zpos d * qc) by (rewrite Hi, Z.add_0_r in Ha; rewrite Hj, Z.add_0_r in Hc; rewrite Ha, Hc in H; lia).
  apply Z.mul_reg_l in E; lia.
Qed.

(* the binary operators on plain numbers *)
Lemma op_agrees o k span x y x' y' : binop_kind o k -> (x' == x)%Q -> (y' == y)%Q ->
  exists fn, binop_of debug k = Some fn /\ agrees (fn span (x', []) (y', [])) (apply_op o x y).
Proof.
  intros Hk Hx Hy. destruct o; cbn in Hk.
  - subst k. eexists. split; [reflexivity|]. cbn. eexists. split; [reflexivity|]. rewrite Hx, Hy. reflexivity.
  - subst k. eexists. split; [reflexivity|]. cbn. eexists. split; [reflexivity|]. rewrite Hx, Hy. reflexivity.
  - destruct Hk as [-> | ->]; (eexists; split; [reflexivity|]; cbn; eexists; split; [reflexivity|]; rewrite Hx, Hy; reflexivity).
  - subst k. eexists. split; [reflexivity|]. unfold op_div, mul. cbn [snd fst is_empty orb bind]. cbn [List.map].
    rewrite (is_zero_Qeq y' y Hy). unfold agrees, apply_op. destruct (is_zero y); [eexists; eexists; reflexivity|].
    eexists. split; [reflexivity|]. rewrite Hx, Hy. reflexivity.
  - subst k. eexists. split; [reflexivity|]. unfold op_pow. cbn [snd fst is_empty negb bind].
    rewrite (is_integer_Qeq y' y Hy). unfold agrees, apply_op. destruct (is_integer y) eqn:Ei; cbn [negb]; [|eexists; eexists; reflexivity].
    rewrite (to_integer_Qeq y' y Hy) by (rewrite (is_integer_Qeq y' y Hy); exact Ei).
    destruct (to_integer y =? 0) eqn:E0; [eexists; split; [reflexivity|reflexivity]|].
    rewrite (is_zero_Qeq x' x Hx). destruct (is_zero x) eqn:Ez.
    + destruct (to_integer y <? 0); [eexists; eexists; reflexivity|]. eexists. split; [reflexivity|exact Hx].
    + eexists. split; [reflexivity|]. rewrite pow_loop_spec, Qmult_1_l.
      assert (Hxn : ~ (x == 0)%Q) by (intros E; apply is_zero_spec in E; congruence).
      destruct (to_integer y <? 0) eqn:En.
      * apply Z.ltb_lt in En. rewrite Z2Nat.id by lia. rewrite Hx.
        rewrite Qinv_power. rewrite <- Qpower_opp. rewrite Z.abs_neq by lia. rewrite Z.opp_involutive. reflexivity.
      * apply Z.ltb_ge in En. rewrite Z2Nat.id by lia. rewrite Z.abs_eq by lia. rewrite Hx. reflexivity.
Qed.

Lemma asize_child k ch s e x : In x ch -> (asize x < asize (ANode k ch s e))%nat.
Proof.
  cbn [asize]. induction ch as [|y r IH]; [intros []|]. intros [->|H]; [lia|]. specialize (IH H). lia.
Qed.
Lemma skip_tokens_incl ch x : In x (skip_tokens ch) -> In x ch.
Proof. unfold skip_tokens. intros H. apply filter_In in H. tauto. Qed.

Lemma pairs_none l a e : pairs l a e -> denote a = None -> denote e = None.
Proof. intros H. induction H; [auto|]. intros Ha. apply IHpairs. cbn. rewrite Ha. reflexivity. Qed.

Definition ev f := eval debug facts describe f.

(* the operand that the loop holds: either a node still to be evaluated or a value already computed *)
Definition holds (f : nat) (b : delayed) (acc : expr) : Prop :=
  match b with
  | DNode n => shape n acc /\ (asize n <= f)%nat
  | DNum v => snd v = [] /\ exists q, denote acc = Some q /\ (fst v == q)%Q
  end.

Lemma force_agrees f b acc d :
  (forall t e d, shape t e -> (asize t <= f)%nat -> agrees (fst (ev f t d)) (denote e) /\ snd (ev f t d) = d) ->
  holds f b acc -> agrees (fst (force (ev f) b d)) (denote acc) /\ snd (force (ev f) b d) = d.
Proof.
  intros IH Hb. destruct b as [n|[v u]]; cbn [force].
  - destruct Hb as [Hn Hs]. apply IH; assumption.
  - destruct Hb as (Hu & q & Hq & Hv). cbn in *. subst u. rewrite Hq. split; [|reflexivity]. eexists. split; [reflexivity|exact Hv].
Qed.

Lemma op_loop_exact f :
  (forall t e d, shape t e -> (asize t <= f)%nat -> agrees (fst (ev f t d)) (denote e) /\ snd (ev f t d) = d) ->
  forall rest acc ee, pairs rest acc ee -> Forall (fun x => (asize x <= f)%nat) rest ->
  forall b d span, holds f b acc ->
    agrees (fst (op_loop debug (ev f) span rest b d)) (denote ee) /\ snd (op_loop debug (ev f) span rest b d) = d.
Proof.
  intros IH rest acc ee Hp. induction Hp as [acc|op rhs rest acc o er ee Hk Hr Hp IHp]; intros Hall b d span Hb.
  - cbn [op_loop]. apply force_agrees; assumption.
  - inversion Hall as [|? ? _ Hall1]; subst. inversion Hall1 as [|? ? Hrs Hall2]; subst.
    destruct (IH rhs er d Hr Hrs) as [Ar Dr].
    destruct (force_agrees f b acc d IH Hb) as [Ab Db].
    assert (Hnone : denote (Bin o acc er) = None -> agrees (Error (0%N, 0%N) SyntaxError) (denote ee)).
    { intros H. rewrite (pairs_none _ _ _ Hp H). cbn. do 2 eexists. reflexivity. }
    cbn [op_loop].
    assert (Hop : exists fn, binop_of debug (akind op) = Some fn /\ akind op <> OP_CAST /\ akind op <> ERROR /\
                   forall x y x' y', (x' == x)%Q -> (y' == y)%Q -> agrees (fn span (x', []) (y', [])) (apply_op o x y)).
    { destruct o; cbn in Hk; try destruct Hk as [Hk|Hk]; rewrite Hk; eexists; (split; [reflexivity|]); (split; [discriminate|]); (split; [discriminate|]);
      intros x y x' y' Hx Hy.
      - destruct (op_agrees Add OP_ADD span x y x' y' eq_refl Hx Hy) as (fn & E & A). inversion E; subst. exact A.
      - destruct (op_agrees Sub OP_SUB span x y x' y' eq_refl Hx Hy) as (fn & E & A). inversion E; subst. exact A.
      - destruct (op_agrees Mul OP_MUL span x y x' y' (or_introl eq_refl) Hx Hy) as (fn & E & A). inversion E; subst. exact A.
      - destruct (op_agrees Mul OP_IMPLICIT_MUL span x y x' y' (or_intror eq_refl) Hx Hy) as (fn & E & A). inversion E; subst. exact A.
      - destruct (op_agrees Div OP_DIV span x y x' y' eq_refl Hx Hy) as (fn & E & A). inversion E; subst. exact A.
      - destruct (op_agrees Pow OP_POWER span x y x' y' eq_refl Hx Hy) as (fn & E & A). inversion E; subst. exact A. }
    destruct Hop as (fn & Hfn & Hn1 & Hn2 & Hag).
    assert (Hstep : op_loop debug (ev f) span (op :: rhs :: rest) b d =
              match ev f rhs d with
              | (Ok r, d1) =>
                  match force (ev f) b d1 with
                  | (Ok bv, d2) =>
                      match fn span bv r with
                      | Ok x => op_loop debug (ev f) span rest (DNum x) d2
                      | Error s k => (Error s k, d2)
                      | Panic w => (Panic w, d2)
                      | Opaque => (Opaque, d2)
                      end
                  | (r', d2) => (r', d2)
                  end
              | (r', d1) => (r', d1)
              end).
    { cbn [op_loop]. destruct (akind op); try congruence; rewrite Hfn; reflexivity. }
    change (agrees (fst (op_loop debug (ev f) span (op :: rhs :: rest) b d)) (denote ee) /\
            snd (op_loop debug (ev f) span (op :: rhs :: rest) b d) = d).
    rewrite Hstep. clear Hstep.
    destruct (ev f rhs d) as [rr d1]. cbn [fst snd] in Ar, Dr. subst d1.
    destruct (denote er) as [qr|] eqn:Eqr.
    2:{ destruct Ar as (s0 & k0 & ->). split; [|reflexivity].
        assert (H : denote (Bin o acc er) = None) by (cbn; rewrite Eqr; destruct (denote acc); reflexivity).
        rewrite (pairs_none _ _ _ Hp H). do 2 eexists. reflexivity. }
    destruct Ar as (vr & -> & Hvr).
    destruct (force (ev f) b d) as [rb d2]. cbn [fst snd] in Ab, Db. subst d2.
    destruct (denote acc) as [qa|] eqn:Eqa.
    2:{ destruct Ab as (s0 & k0 & ->). split; [|reflexivity].
        assert (H : denote (Bin o acc er) = None) by (cbn; rewrite Eqa; reflexivity).
        rewrite (pairs_none _ _ _ Hp H). do 2 eexists. reflexivity. }
    destruct Ab as (vb & -> & Hvb).
    specialize (Hag qa qr vb vr Hvb Hvr).
    destruct (apply_op o qa qr) as [q|] eqn:Eap.
    + destruct Hag as (v & -> & Hv). apply IHp; [exact Hall2|]. cbn. split; [reflexivity|].
      exists q. split; [rewrite Eqa, Eqr; exact Eap|exact Hv].
    + destruct Hag as (s0 & k0 & ->). split; [|reflexivity].
      assert (H : denote (Bin o acc er) = None) by (cbn; rewrite Eqa, Eqr; exact Eap).
      rewrite (pairs_none _ _ _ Hp H). do 2 eexists. reflexivity.
Qed.

(* main theorem, by induction on the fuel *)
Theorem eval_exact : forall fuel t e d, shape t e -> (asize t <= fuel)%nat ->
  agrees (fst (ev fuel t d)) (denote e) /\ snd (ev fuel t d) = d.
Proof.
  induction fuel as [|f IH]; intros t e d Hs Hf.
  { destruct t; cbn in Hf; lia. }
  destruct Hs as [t q Hk Hp | c rest s e0 q Hk Hp | ch s e0 base rest eb ee Hch Hb Hp].
  - unfold ev. cbn [eval]. rewrite Hk. cbn. rewrite Hp. cbn. split; [eexists; split; reflexivity|reflexivity].
  - unfold ev. cbn [eval akind achildren aspan]. rewrite Hk. cbn [kind_beq]. rewrite Hp. cbn.
    split; [eexists; split; reflexivity|reflexivity].
  - unfold ev. cbn [eval akind achildren aspan]. rewrite Hch.
    assert (Hin : forall x, In x (base :: rest) -> (asize x <= f)%nat).
    { intros x Hx. rewrite <- Hch in Hx. apply skip_tokens_incl in Hx.
      pose proof (asize_child OPERATION ch s e0 x Hx). lia. }
    apply (op_loop_exact f IH rest eb ee Hp).
    + apply Forall_forall. intros x Hx. apply Hin. right. exact Hx.
    + cbn. split; [exact Hb|apply Hin; left; reflexivity].
Qed.
End Exact.

Corollary undefined_is_error : forall debug facts describe fuel t e d,
  shape t e -> (asize t <= fuel)%nat -> denote e = None ->
  exists s k, fst (eval debug facts describe fuel t d) = Error s k.
Proof.
  intros debug facts describe fuel t e d Hs Hf Hn. destruct (eval_exact debug facts describe fuel t e d Hs Hf) as [A _].
  rewrite Hn in A. exact A.
Qed.

(* non-vacuity: the tree the parser builds for "1 - 2 * 3 - 4.5%" has a shape, and it denotes 1 - 2*3 - 0.045 *)
From AV Require Import model.Lexer model.Grammar model.Run.
Definition example_src : list chr := [49; 32; 45; 32; 50; 32; 42; 32; 51; 32; 45; 32; 52; 46; 53; 37]%N.
Definition example_tree : atree :=
  match parse_root (tokens example_src) with Some f => hd (ATok ERROR [] 0%N 0%N) (skip_tokens (annotate_forest 0 f)) | None => ATok ERROR [] 0%N 0%N end.
Example example_shape : exists e, shape example_tree e /\ (match denote e with Some q => (q == (-5045) # 1000)%Q | None => False end).
Proof.
  eexists. split.
  - unfold example_tree. vm_compute.
    eapply S_op; [vm_compute; reflexivity| |].
    + apply S_num; [reflexivity|vm_compute; reflexivity].
    + eapply (P_cons _ _ _ _ Sub); [reflexivity| |].
      * eapply S_op; [vm_compute; reflexivity| |].
        -- apply S_num; [reflexivity|vm_compute; reflexivity].
        -- eapply (P_cons _ _ _ _ Mul); [left; reflexivity| |apply P_nil].
           apply S_num; [reflexivity|vm_compute; reflexivity].
      * eapply (P_cons _ _ _ _ Sub); [reflexivity| |apply P_nil].
        apply S_pct; [reflexivity|vm_compute; reflexivity].
  - vm_compute. reflexivity.
Qed.
