(* C19: what the command line prints, as far as it is logic: one item per result in order; the exact form is the reduced fraction
   (lowest terms, positive denominator, equal to the value) with the slash exactly when the denominator is not one; the space
   before the unit exactly when the unit has a numerator part. *)
From Coq Require Import ZArith NArith QArith List Bool Lia.
Import ListNotations.
From AV Require Import model.Syntax model.Rat model.Display model.UnitTypes model.Map model.Units model.Compound model.Eval model.Cli.
Open Scope Z_scope.

Theorem render_one_per_result exact rs : length (render exact rs) = length rs /\
  forall i r, nth_error rs i = Some r -> nth_error (render exact rs) i = Some (render_one exact r).
Proof.
  unfold render. split; [apply map_length|]. intros i r H. apply map_nth_error. exact H.
Qed.

(* the pair printed in exact mode *)
Theorem reduced_spec (v : Q) : let '(n, d) := reduced v in 0 < d /\ Z.gcd n d = 1 /\ (v == n # Z.to_pos d)%Q.
Proof.
  unfold reduced. pose proof (Qred_correct v) as Hc. destruct v as [a b]. unfold Qred in *.
  pose proof (Z.ggcd_gcd a (Zpos b)) as Hg. pose proof (Z.ggcd_correct_divisors a (Zpos b)) as Hd.
  destruct (Z.ggcd a (Zpos b)) as [g [aa bb]]. cbn [fst snd] in *. destruct Hd as [Ha Hb].
  assert (Hgpos : 0 < g).
  { subst g. pose proof (Z.gcd_nonneg a (Zpos b)). destruct (Z.eq_dec (Z.gcd a (Zpos b)) 0) as [E|E]; [|lia].
    apply Z.gcd_eq_0_r in E. lia. }
  assert (Hbb : 0 < bb) by nia.
  cbn [Qnum Qden]. rewrite Z2Pos.id by exact Hbb. split; [exact Hbb|]. split.
  - assert (Hgg : Z.gcd a (Zpos b) = g) by (symmetry; exact Hg).
    rewrite Ha, Hb in Hgg. rewrite Z.gcd_mul_mono_l_nonneg in Hgg by lia. nia.
  - symmetry. exact Hc.
Qed.

Theorem exact_slash_iff_denominator (v : Q) :
  render_value true v = (let '(n, d) := reduced v in if d =? 1 then zdec n else zdec n ++ 47%N :: dec d).
Proof. reflexivity. Qed.

Theorem space_iff_numerator exact (x : numeric) :
  render_line exact x = render_value exact (fst x) ++ (if has_numerator (snd x) then [32%N] else []) ++ compound_display (snd x) (negb (is_one (fst x))).
Proof. reflexivity. Qed.

Example cli_examples :
  render_line true ((10 # 4)%Q, [(base_key 2, (-1, 0))]) = [53; 47; 50; 47; 109]%N /\                       (* 5/2/m *)
  render_line false ((2 # 1)%Q, [(1021976576%N, (1, 0))]) = [50; 32; 100; 101; 99; 97; 100; 101; 115]%N /\  (* 2 decades *)
  render_line false ((1 # 1)%Q, [(1021976576%N, (1, 0))]) = [49; 32; 100; 101; 99; 97; 100; 101]%N /\       (* 1 decade *)
  render_line false ((1 # 3)%Q, []) = [48; 46; 51; 51; 51; 51; 51; 51; 51; 51; 51; 51; 51; 51; 8230]%N.     (* 0.333333333333... *)
Proof. repeat split; vm_compute; reflexivity. Qed.
