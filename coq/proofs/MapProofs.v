(* Lemmas about the sorted association lists of model/Map.v. *)
From Coq Require Import NArith List Bool Sorted Lia.
Import ListNotations.
From AV Require Import model.Map.
Open Scope N_scope.

Section MapProofs.
Context {V : Type}.
Implicit Types m : nmap V.

Definition wfm m : Prop := StronglySorted N.lt (keys m).
Definition above (k : N) m : Prop := Forall (fun k' => k < k') (keys m).

Lemma wfm_nil : wfm ([] : nmap V). Proof. constructor. Qed.
Lemma wfm_cons k v m : wfm ((k, v) :: m) <-> wfm m /\ above k m.
Proof. unfold wfm, above. cbn. split; [intros H; inversion H; subst; auto|intros [H1 H2]; constructor; auto]. Qed.

Lemma get_put_same m k v : get (put m k v) k = Some v.
Proof.
  induction m as [|[k' v'] r IH]; cbn; [rewrite N.eqb_refl; reflexivity|].
  destruct (k' =? k) eqn:E; cbn; [rewrite N.eqb_refl; reflexivity|].
  destruct (k <? k'); cbn; [rewrite N.eqb_refl; reflexivity|]. rewrite E. exact IH.
Qed.
Lemma get_put_other m k v k2 : k <> k2 -> get (put m k v) k2 = get m k2.
Proof.
  intros Hn. induction m as [|[k' v'] r IH]; cbn.
  - destruct (k =? k2) eqn:E; [apply N.eqb_eq in E; congruence|reflexivity].
  - destruct (k' =? k) eqn:E; cbn.
    + apply N.eqb_eq in E. subst k'. destruct (k =? k2) eqn:E2; [apply N.eqb_eq in E2; congruence|reflexivity].
    + destruct (k <? k'); cbn.
      * destruct (k =? k2) eqn:E2; [apply N.eqb_eq in E2; congruence|reflexivity].
      * destruct (k' =? k2); [reflexivity|exact IH].
Qed.
Lemma get_del_other m k k2 : k <> k2 -> get (del m k) k2 = get m k2.
Proof.
  intros Hn. induction m as [|[k' v'] r IH]; cbn; [reflexivity|].
  destruct (k' =? k) eqn:E; cbn.
  - apply N.eqb_eq in E. subst k'. destruct (k =? k2) eqn:E2; [apply N.eqb_eq in E2; congruence|reflexivity].
  - destruct (k' =? k2); [reflexivity|exact IH].
Qed.
Lemma get_above m k : above k m -> get m k = None.
Proof.
  unfold above. induction m as [|[k' v'] r IH]; cbn; [reflexivity|]. intros H. inversion H; subst.
  destruct (k' =? k) eqn:E; [apply N.eqb_eq in E; lia|auto].
Qed.
Lemma get_del_same m k : wfm m -> get (del m k) k = None.
Proof.
  induction m as [|[k' v'] r IH]; cbn; [reflexivity|]. intros H. apply wfm_cons in H as [H1 H2].
  destruct (k' =? k) eqn:E; cbn.
  - apply N.eqb_eq in E. subst. apply get_above. exact H2.
  - rewrite E. auto.
Qed.

Lemma keys_put m k v x : In x (keys (put m k v)) <-> x = k \/ In x (keys m).
Proof.
  induction m as [|[k' v'] r IH]; cbn; [intuition congruence|].
  destruct (k' =? k) eqn:E; cbn.
  - apply N.eqb_eq in E. subst. intuition congruence.
  - destruct (k <? k'); cbn; [intuition congruence|]. rewrite IH. intuition congruence.
Qed.
Lemma keys_del m k x : In x (keys (del m k)) -> In x (keys m).
Proof.
  induction m as [|[k' v'] r IH]; cbn; [tauto|]. destruct (k' =? k); cbn; [tauto|]. intros [H|H]; auto.
Qed.
Lemma above_put m k v a : above a m -> a < k -> above a (put m k v).
Proof.
  unfold above. intros H Hk. apply Forall_forall. intros x Hx. apply keys_put in Hx as [->|Hx]; [exact Hk|].
  rewrite Forall_forall in H. auto.
Qed.
Lemma above_del m k a : above a m -> above a (del m k).
Proof.
  unfold above. intros H. apply Forall_forall. intros x Hx. apply keys_del in Hx. rewrite Forall_forall in H. auto.
Qed.
Lemma above_trans m a b : a < b -> above b m -> above a m.
Proof. unfold above. intros H. apply Forall_impl. intros; lia. Qed.

Lemma put_wfm m k v : wfm m -> wfm (put m k v).
Proof.
  induction m as [|[k' v'] r IH]; cbn; intros H.
  - apply wfm_cons. split; [apply wfm_nil|constructor].
  - apply wfm_cons in H as [H1 H2]. destruct (k' =? k) eqn:E.
    + apply N.eqb_eq in E. subst. apply wfm_cons. split; assumption.
    + destruct (k <? k') eqn:E2.
      * apply N.ltb_lt in E2. apply wfm_cons. split; [apply wfm_cons; split; assumption|].
        unfold above. cbn. constructor; [exact E2|]. apply (above_trans r k k' E2 H2).
      * apply N.ltb_ge in E2. apply N.eqb_neq in E. apply wfm_cons. split; [auto|]. apply above_put; [exact H2|lia].
Qed.
Lemma del_wfm m k : wfm m -> wfm (del m k).
Proof.
  induction m as [|[k' v'] r IH]; cbn; intros H; [exact H|]. apply wfm_cons in H as [H1 H2].
  destruct (k' =? k); [exact H1|]. apply wfm_cons. split; [auto|apply above_del; exact H2].
Qed.

Lemma wfm_nodup m : wfm m -> NoDup (keys m).
Proof.
  induction m as [|[k v] r IH]; cbn; intros H; [constructor|]. apply wfm_cons in H as [H1 H2]. constructor; [|auto].
  intros Hin. unfold above in H2. rewrite Forall_forall in H2. specialize (H2 _ Hin). lia.
Qed.
Lemma get_in m k : wfm m -> (In k (keys m) <-> get m k <> None).
Proof.
  induction m as [|[k' v'] r IH]; cbn; intros H; [split; [tauto|congruence]|]. apply wfm_cons in H as [H1 H2].
  destruct (k' =? k) eqn:E.
  - apply N.eqb_eq in E. subst. split; [discriminate|auto].
  - apply N.eqb_neq in E. rewrite <- (IH H1). split; [intros [?|?]; [congruence|assumption]|auto].
Qed.
Lemma get_In m k v : get m k = Some v -> In (k, v) m.
Proof.
  induction m as [|[k' v'] r IH]; cbn; [discriminate|]. destruct (k' =? k) eqn:E.
  - apply N.eqb_eq in E. intros H. inversion H. subst. auto.
  - auto.
Qed.
Lemma In_get m k v : wfm m -> In (k, v) m -> get m k = Some v.
Proof.
  induction m as [|[k' v'] r IH]; cbn; [tauto|]. intros H [Hin|Hin]; apply wfm_cons in H as [H1 H2].
  - inversion Hin; subst. rewrite N.eqb_refl. reflexivity.
  - destruct (k' =? k) eqn:E; [|auto]. apply N.eqb_eq in E. subst. exfalso.
    unfold above in H2. rewrite Forall_forall in H2. specialize (H2 k (in_map fst _ _ Hin)). lia.
Qed.
End MapProofs.

Section MapForall.
Context {V : Type}.
Lemma In_put (m : nmap V) k v x : In x (put m k v) -> x = (k, v) \/ In x m.
Proof.
  induction m as [|[k' v'] r IH]; cbn; [intuition congruence|].
  destruct (k' =? k); cbn; [intuition congruence|]. destruct (k <? k'); cbn; [intuition congruence|].
  intros [H|H]; [auto|]. destruct (IH H); auto.
Qed.
Lemma In_del (m : nmap V) k x : In x (del m k) -> In x m.
Proof.
  induction m as [|[k' v'] r IH]; cbn; [tauto|]. destruct (k' =? k); cbn; [tauto|]. intros [H|H]; auto.
Qed.
Lemma put_Forall (P : N * V -> Prop) (m : nmap V) k v : Forall P m -> P (k, v) -> Forall P (put m k v).
Proof. intros H Hp. apply Forall_forall. intros x Hx. apply In_put in Hx as [->|Hx]; [exact Hp|]. rewrite Forall_forall in H. auto. Qed.
Lemma del_Forall (P : N * V -> Prop) (m : nmap V) k : Forall P m -> Forall P (del m k).
Proof. intros H. apply Forall_forall. intros x Hx. apply In_del in Hx. rewrite Forall_forall in H. auto. Qed.
End MapForall.
