(* C17, type level: rationals, units, unit expressions survive the serde encoding unchanged; every derived unit has a unique
   identifier that decodes to the same unit; every shipped constant decodes and re-encodes without loss. *)
From Coq Require Import ZArith NArith List Lia Bool Arith Sorted.
Import ListNotations.
From AV Require Import model.Syntax model.UnitTypes model.Map model.Units model.Compound model.Cbor model.Codec proofs.MapProofs proofs.CborProofs
  gen.UnitDefs gen.Shipped spec.RefIds.
Open Scope N_scope.

(* ---- u32 digit vectors ---- *)
Lemma to_digits_spec fuel : forall z, z < 2 ^ N.of_nat fuel -> of_digits (to_digits fuel z) = z /\ Forall (fun d => d < B32) (to_digits fuel z).
Proof.
  induction fuel as [|f IH]; intros z Hz; cbn [to_digits].
  - cbn in Hz. assert (z = 0) by lia. subst. cbn. split; [reflexivity|constructor].
  - destruct (N.eqb_spec z 0) as [->|Hn]; [cbn; split; [reflexivity|constructor]|].
    assert (Hq : z / B32 < 2 ^ N.of_nat f).
    { rewrite Nat2N.inj_succ, N.pow_succ_r' in Hz. unfold B32. apply N.div_lt_upper_bound; [lia|]. lia. }
    destruct (IH _ Hq) as [E F]. cbn [of_digits]. rewrite E. split.
    + unfold B32 in *. pose proof (N.div_mod z 4294967296 ltac:(lia)). lia.
    + constructor; [apply N.mod_lt; unfold B32; lia|exact F].
Qed.
Lemma digits_roundtrip z : of_digits (digits_of z) = z /\ Forall (fun d => d < B32) (digits_of z).
Proof.
  unfold digits_of. apply to_digits_spec. destruct z as [|p]; [cbn; lia|].
  rewrite Nat2N.inj_succ, N2Nat.id. apply N.log2_spec. lia.
Qed.

Lemma uints_map l : Forall (fun d => d < B32) l -> uints (List.map CUInt l) = Some l.
Proof.
  induction 1 as [|d r Hd _ IH]; [reflexivity|]. cbn [List.map uints]. apply N.ltb_lt in Hd. rewrite Hd, IH. reflexivity.
Qed.

Theorem bigint_roundtrip z : dec_bigint (enc_bigint z) = Some z.
Proof.
  destruct z as [|p|p]; [reflexivity| |]; cbn [enc_bigint dec_bigint]; destruct (digits_roundtrip (Npos p)) as [E F];
    rewrite (uints_map _ F), E; reflexivity.
Qed.
Theorem rational_roundtrip n d : d <> 0%Z -> dec_rational (enc_rational n d) = Some (n, d).
Proof.
  intros Hd. unfold enc_rational, dec_rational. rewrite !bigint_roundtrip. destruct (Z.eqb_spec d 0); [congruence|reflexivity].
Qed.

Theorem int_roundtrip z : dec_int (enc_int z) = Some z.
Proof. unfold enc_int, dec_int. destruct (0 <=? z)%Z eqn:E; [apply Z.leb_le in E|apply Z.leb_gt in E]; f_equal; lia. Qed.
Theorem state_roundtrip s : dec_state (enc_state s) = Some s.
Proof. destruct s as [p e]. unfold enc_state, dec_state. cbn [fst snd]. rewrite !int_roundtrip. reflexivity. Qed.

(* ---- units: facts about the translated tables, decided by computation ---- *)
Definition derived_ids : list N := List.map (fun r : drow => match r with (i, _, _, _, _) => i end) derived_table.
Definition ids_decode_to_themselves : bool :=
  forallb (fun i => match id_to_derived i with Some u => (u =? i) && (i <? B32) | None => false end) derived_ids.
Definition base_names_invert : bool :=
  forallb (fun r : N * list N => match base_of_name (snd r) with Some i => i =? fst r | None => false end) base_names.
Fixpoint nodupb (l : list N) : bool := match l with [] => true | x :: r => negb (existsb (N.eqb x) r) && nodupb r end.
Lemma ids_ok : ids_decode_to_themselves = true. Proof. vm_compute. reflexivity. Qed.
Lemma base_names_ok : base_names_invert = true. Proof. vm_compute. reflexivity. Qed.
(* every derived unit has a unique identifier, the identifier constants of generated/ids.rs are pairwise distinct, and
   id_to_derived knows exactly the derived units *)
Theorem ids_unique : nodupb derived_ids = true /\ nodupb id_consts = true /\
  forallb (fun i => existsb (N.eqb i) derived_ids) (List.map fst id_to_derived_table) = true /\
  forallb (fun i => existsb (N.eqb i) (List.map fst id_to_derived_table)) derived_ids = true.
Proof. vm_compute. repeat split. Qed.

(* identifiers are stable: every identifier of the pinned reference table still belongs to a derived unit that prints the same
   symbol (units may be added; none may be renumbered or have its identifier reused) *)
Definition same_chars (a b : list N) : bool := if list_eq_dec N.eq_dec a b then true else false.
Definition ref_id_kept (r : N * list N) : bool :=
  existsb (fun d : N * list (N * Z) * conv * list N * list N => let '(i, _, _, sg, _) := d in N.eqb i (fst r) && same_chars sg (snd r)) derived_table.
Theorem ids_stable : forallb ref_id_kept ref_ids = true.
Proof. vm_compute. reflexivity. Qed.

Definition known_unit (u : unit) : bool :=
  if is_base u then match base_name (u - BASE_CODE) with Some _ => true | None => false end
  else existsb (N.eqb u) derived_ids.

Lemma find_some_in {A} (f : A -> bool) l x : find f l = Some x -> In x l /\ f x = true.
Proof. apply find_some. Qed.

Theorem unit_roundtrip u : known_unit u = true -> exists c, enc_unit u = Some c /\ dec_unit c = Some u.
Proof.
  unfold known_unit, enc_unit. destruct (is_base u) eqn:Eb.
  - destruct (base_name (u - BASE_CODE)) as [n|] eqn:En; [|discriminate]. intros _. exists (CText n). split; [reflexivity|].
    unfold base_name in En. destruct (find _ base_names) as [[i n']|] eqn:Ef; [|discriminate]. inversion En; subst n'.
    apply find_some_in in Ef as [Hin Hi]. cbn [fst] in Hi. apply N.eqb_eq in Hi. subst i.
    pose proof base_names_ok as T. unfold base_names_invert in T. rewrite forallb_forall in T. specialize (T _ Hin). cbn [fst snd] in T.
    cbn [dec_unit]. destruct (base_of_name n) as [i|]; [|discriminate]. apply N.eqb_eq in T. subst i. f_equal.
    unfold base_key. unfold is_base in Eb. apply N.leb_le in Eb. lia.
  - intros H. exists (CMap [(CText T_Derived, CUInt u)]). split; [reflexivity|]. cbn [dec_unit].
    assert (bytes_eqb T_Derived T_Derived = true) as -> by reflexivity.
    apply existsb_exists in H as [i [Hin Hi]]. apply N.eqb_eq in Hi. subst i.
    pose proof ids_ok as T. unfold ids_decode_to_themselves in T. rewrite forallb_forall in T. specialize (T _ Hin).
    destruct (id_to_derived u) as [x|]; [|discriminate]. apply andb_prop in T as [T1 T2]. rewrite T2. cbn [andb]. apply N.eqb_eq in T1. subst x. reflexivity.
Qed.

(* ---- unit expressions ---- *)
Lemma put_append (acc : compound) k v : Forall (fun k' => k' < k) (keys acc) -> put acc k v = acc ++ [(k, v)].
Proof.
  induction acc as [|[k' v'] r IH]; intros H; [reflexivity|]. cbn [keys List.map fst] in H. inversion H as [|? ? Hk Hr]; subst.
  cbn [put app]. destruct (N.eqb_spec k' k); [lia|]. destruct (N.ltb_spec k k'); [lia|]. rewrite IH by exact Hr. reflexivity.
Qed.

Lemma dec_entries_sorted (c : compound) : forall l acc, enc_entries c = Some l -> Forall (fun us => known_unit (fst us) = true) c ->
  wfm (acc ++ c) -> dec_entries l acc = Some (acc ++ c).
Proof.
  induction c as [|[u s] r IH]; intros l acc He Hk W; cbn [enc_entries] in He.
  - inversion He; subst. cbn. rewrite app_nil_r. reflexivity.
  - inversion Hk as [|? ? Hu Hr]; subst. cbn [fst] in Hu. destruct (unit_roundtrip u Hu) as (cu & E1 & E2). rewrite E1 in He.
    destruct (enc_entries r) as [lr|] eqn:Er; [|discriminate]. inversion He; subst l. cbn [dec_entries]. rewrite E2, state_roundtrip.
    assert (Hlt : Forall (fun k' => k' < u) (keys acc)).
    { unfold wfm in W. unfold keys in *. rewrite map_app in W. cbn [List.map fst] in W.
      clear - W. induction acc as [|[k v] a IHa]; [constructor|]. cbn [List.map fst app] in *. inversion W as [|? ? Ws Hf]; subst. constructor.
      - rewrite Forall_forall in Hf. apply Hf. apply in_or_app. right. left. reflexivity.
      - apply IHa. exact Ws. }
    rewrite put_append by exact Hlt. replace (acc ++ (u, s) :: r) with ((acc ++ [(u, s)]) ++ r) by (rewrite <- app_assoc; reflexivity).
    apply IH; [reflexivity|exact Hr|]. rewrite <- app_assoc. exact W.
Qed.

Theorem compound_roundtrip (c : compound) : wfm c -> Forall (fun us => known_unit (fst us) = true) c ->
  exists v, enc_compound c = Some v /\ dec_compound v = Some c.
Proof.
  intros W Hk. assert (He : exists l, enc_entries c = Some l).
  { clear W. induction Hk as [|[u s] r Hu _ IH]; [eexists; reflexivity|]. cbn [fst] in Hu. destruct (unit_roundtrip u Hu) as (cu & E1 & _).
    destruct IH as [lr Er]. cbn [enc_entries]. rewrite E1, Er. eexists; reflexivity. }
  destruct He as [l He]. unfold enc_compound. rewrite He. eexists. split; [reflexivity|]. cbn [dec_compound].
  assert (bytes_eqb T_names T_names = true) as -> by reflexivity. apply (dec_entries_sorted c l [] He Hk W).
Qed.

(* ---- all shipped constants, by computation over the translated data ---- *)
Definition shipped_ok (k : list (list N) * (Z * Z) * compound * Z) : bool :=
  let '(_, (n, d), u, _) := k in
  (match rational_of_bytes (rational_bytes n d) with Some (n', d') => (n' =? n)%Z && (d' =? d)%Z | None => false end) &&
  (match compound_bytes u with
   | Some bs => match compound_of_bytes bs with
                | Some u' => (length u' =? length u)%nat && forallb (fun p => (fst (fst p) =? fst (snd p)) && (fst (snd (fst p)) =? fst (snd (snd p)))%Z && (snd (snd (fst p)) =? snd (snd (snd p)))%Z) (combine u' u)
                | None => false
                end
   | None => false
   end).
Theorem shipped_roundtrip : forallb shipped_ok shipped = true.
Proof. vm_compute. reflexivity. Qed.
Theorem shipped_units_known :
  forallb (fun k : list (list N) * (Z * Z) * compound * Z => let '(_, _, u, _) := k in forallb (fun us => known_unit (fst us)) u) shipped = true.
Proof. vm_compute. reflexivity. Qed.

Example codec_examples :
  rational_bytes 1 100 = [130; 130; 1; 129; 1; 130; 1; 129; 24; 100] /\
  rational_of_bytes [130; 130; 32; 130; 26; 42; 5; 242; 0; 1; 130; 1; 129; 3] = Some ((-5000000000)%Z, 3%Z) /\
  (exists bs, compound_bytes [(353022001, (1%Z, 3%Z)); (base_key 3, ((-2)%Z, 0%Z))] = Some bs /\
              compound_of_bytes bs = Some [(353022001, (1%Z, 3%Z)); (base_key 3, ((-2)%Z, 0%Z))]).
Proof. split; [vm_compute; reflexivity|]. split; [vm_compute; reflexivity|]. eexists. split; [vm_compute; reflexivity|vm_compute; reflexivity]. Qed.

(* ---- constants ---- *)
Lemma texts_map l : texts (List.map CText l) = Some l.
Proof. induction l as [|s r IH]; [reflexivity|]. cbn [List.map texts]. rewrite IH. reflexivity. Qed.

Theorem constant_roundtrip (k : constant) : wfm (k_unit k) -> Forall (fun us => known_unit (fst us) = true) (k_unit k) -> snd (k_value k) <> 0%Z ->
  exists v, enc_constant k = Some v /\ dec_constant v = Some k.
Proof.
  intros W Hk Hd. destruct (compound_roundtrip (k_unit k) W Hk) as (cu & E1 & E2). unfold enc_constant. rewrite E1. eexists. split; [reflexivity|].
  cbn [dec_constant]. repeat (match goal with |- context [bytes_eqb ?a ?a] => change (bytes_eqb a a) with true end). cbn [andb].
  rewrite texts_map, rational_roundtrip by exact Hd. rewrite E2. destruct k as [[s|] tk desc [n d] u]; reflexivity.
Qed.

(* ---- down to the bytes ---- *)
Definition i32z (z : Z) : Prop := (- 2147483648 <= z <= 2147483647)%Z.
Lemma enc_int_wf z : i32z z -> wf (enc_int z).
Proof. unfold i32z, enc_int, wf, u64. intros H. destruct (0 <=? z)%Z eqn:E; [apply Z.leb_le in E|apply Z.leb_gt in E]; lia. Qed.

Lemma wf_text s : (length s < 1000)%nat -> wf (CText s).
Proof. intros H. cbn [wf]. unfold u64. lia. Qed.

Theorem rational_bytes_roundtrip n d : d <> 0%Z -> wf (enc_rational n d) -> rational_of_bytes (rational_bytes n d) = Some (n, d).
Proof.
  intros Hd W. unfold rational_of_bytes, rational_bytes. pose proof (bytes_roundtrip _ W) as B. unfold byte in *. rewrite B. apply rational_roundtrip. exact Hd.
Qed.
Theorem compound_bytes_roundtrip (c : compound) v : wfm c -> Forall (fun us => known_unit (fst us) = true) c ->
  enc_compound c = Some v -> wf v -> compound_of_bytes (encode v) = Some c.
Proof.
  intros W Hk He Wv. unfold compound_of_bytes. pose proof (bytes_roundtrip _ Wv) as B. unfold byte in *. rewrite B.
  destruct (compound_roundtrip c W Hk) as (v' & E1 & E2). rewrite He in E1. inversion E1; subst v'. exact E2.
Qed.
