(* C06, core: the stack discipline always produces a parse that is valid for the documented grammar (n-ary left-associative
   nodes of one priority whose children are atoms or nodes of strictly higher priority) with the input as its yield; a valid
   parse is determined by its yield; hence climb = canon, for any number of operators. *)
From Coq Require Import List Arith Lia Bool Sorted.
Import ListNotations.
From AV Require Import spec.Climb.

(* --- grammar validity --- *)
Definition above (p : nat) (t : tree) : Prop :=
  match t with Leaf _ => True | Node _ tl => forall o x, In (o, x) tl -> p < prio o end.

Fixpoint Valid (t : tree) : Prop :=
  match t with
  | Leaf _ => True
  | Node hd tl =>
      tl <> [] /\
      exists p, (forall o x, In (o, x) tl -> prio o = p) /\
                Valid hd /\ above p hd /\
                (fix all (l : list (op * tree)) : Prop :=
                   match l with [] => True | (_, x) :: r => (Valid x /\ above p x) /\ all r end) tl
  end.

Fixpoint AllV (p : nat) (l : list (op * tree)) : Prop :=
  match l with [] => True | (_, x) :: r => (Valid x /\ above p x) /\ AllV p r end.

Lemma Valid_node hd tl :
  Valid (Node hd tl) <-> tl <> [] /\ exists p, (forall o x, In (o, x) tl -> prio o = p) /\ Valid hd /\ above p hd /\ AllV p tl.
Proof.
  cbn [Valid]. split; intros [H0 [p [H1 [H2 [H3 H4]]]]]; (split; [exact H0|]); exists p; repeat split; try assumption.
  - clear H0 H1. induction tl as [|[o x] r IH]; cbn in *; tauto.
  - clear H0 H1. induction tl as [|[o x] r IH]; cbn in *; tauto.
Qed.

Lemma AllV_app p a b : AllV p (a ++ b) <-> AllV p a /\ AllV p b.
Proof. induction a as [|[o x] r IH]; cbn; tauto. Qed.

(* --- yield: the operand/operator sequence a tree stands for --- *)
Fixpoint yield (t : tree) : seg :=
  match t with
  | Leaf n => (Leaf n, [])
  | Node hd tl =>
      let (x0, r0) := yield hd in
      (x0, r0 ++ (fix go (l : list (op * tree)) : list (op * tree) :=
                    match l with [] => [] | (o, x) :: r => let (y0, ry) := yield x in (o, y0) :: ry ++ go r end) tl)
  end.
Fixpoint ytl (l : list (op * tree)) : list (op * tree) :=
  match l with [] => [] | (o, x) :: r => (o, fst (yield x)) :: snd (yield x) ++ ytl r end.
Lemma yield_node hd tl : yield (Node hd tl) = (fst (yield hd), snd (yield hd) ++ ytl tl).
Proof.
  cbn [yield]. destruct (yield hd) as [x0 r0]. cbn [fst snd]. f_equal. f_equal.
  induction tl as [|[o x] r IH]; cbn [ytl]; [reflexivity|]. destruct (yield x) as [y0 ry]. cbn [fst snd]. now rewrite IH.
Qed.
Lemma ytl_app a b : ytl (a ++ b) = ytl a ++ ytl b.
Proof. induction a as [|[o x] r IH]; cbn [ytl app]; [reflexivity|]. rewrite IH. now rewrite <- !app_assoc. Qed.

(* the sequence represented by a parser state: frames (top first), current operand, unread input *)
Definition fyield (f : frame) (inner : seg) : seg :=
  (fst (yield (fhd f)), snd (yield (fhd f)) ++ ytl (ftl f) ++ (fd f, fst inner) :: snd inner).
Definition unwind (S : list frame) (inner : seg) : seg := fold_left (fun i f => fyield f i) S inner.
Definition state_yield (S : list frame) (x : tree) (rest : list (op * tree)) : seg :=
  unwind S (fst (yield x), snd (yield x) ++ rest).

(* --- invariant --- *)
Definition frame_ok (f : frame) : Prop :=
  (forall o x, In (o, x) (ftl f) -> prio o = fp f) /\ prio (fd f) = fp f /\
  Valid (fhd f) /\ above (fp f) (fhd f) /\ AllV (fp f) (ftl f).
Definition stack_ok (S : list frame) : Prop :=
  StronglySorted (fun a b => fp b < fp a) S /\ Forall frame_ok S.
Definition top_above (S : list frame) (x : tree) : Prop :=
  match S with [] => True | f :: _ => above (fp f) x end.

Lemma close_valid f x : frame_ok f -> Valid x -> above (fp f) x -> Valid (close f x) /\ (forall p, p < fp f -> above p (close f x)).
Proof.
  intros (Hops & Hd & Hv & Ha & Hall) Hx Hax. unfold close. split.
  - apply Valid_node. split; [destruct (ftl f); discriminate|]. exists (fp f). repeat split; try assumption.
    + intros o y Hin. apply in_app_or in Hin as [Hin|[Heq|[]]]; [eauto|]. now inversion Heq; subst.
    + apply AllV_app. split; [assumption|]. cbn. tauto.
  - intros p Hp o y Hin. cbn in Hin. apply in_app_or in Hin as [Hin|[Heq|[]]].
    + rewrite (Hops _ _ Hin). exact Hp.
    + inversion Heq; subst. rewrite Hd. exact Hp.
Qed.

Lemma fresh_ok q x o : prio o = q -> Valid x -> above q x -> frame_ok (fresh q x o).
Proof. intros; unfold frame_ok, fresh; cbn; repeat split; try assumption; intros ? ? []. Qed.

Lemma reduce_inv q o S x :
  prio o = q -> stack_ok S -> Valid x -> top_above S x ->
  (match S with f :: _ => fp f < q -> above q x | [] => above q x end) ->
  stack_ok (reduce q o S x).
Proof.
  intros Ho. revert x. induction S as [|f rest IH]; intros x [Hs Hf] Hx Htop Hq.
  - cbn. split; [repeat constructor|]. constructor; [|constructor]. now apply fresh_ok.
  - cbn [reduce]. destruct (StronglySorted_inv Hs) as [Hs' Hlt]. pose proof (Forall_inv Hf) as Hf1. pose proof (Forall_inv_tail Hf) as Hf'.
    cbn in Htop. destruct (close_valid f x Hf1 Hx Htop) as [Hcv Hca].
    destruct (q <? fp f) eqn:E1.
    + apply Nat.ltb_lt in E1. destruct rest as [|g rest'].
      * split; [repeat constructor|]. constructor; [|constructor]. apply fresh_ok; auto.
      * destruct (q <=? fp g) eqn:E2.
        -- apply Nat.leb_le in E2. apply IH; [split; assumption|exact Hcv| |].
           ++ cbn. apply Hca. exact (Forall_inv Hlt).
           ++ intros Hlt'. lia.
        -- apply Nat.leb_gt in E2. split.
           ++ constructor; [assumption|]. constructor; [cbn; lia|].
              destruct (StronglySorted_inv Hs') as [_ Hlt2]. eapply Forall_impl; [|exact Hlt2]. cbn. intros; lia.
           ++ constructor; [|assumption]. apply fresh_ok; auto.
    + apply Nat.ltb_ge in E1. destruct (fp f <? q) eqn:E3.
      * apply Nat.ltb_lt in E3. split.
        -- constructor; [constructor; assumption|]. constructor; [cbn; lia|].
           eapply Forall_impl; [|exact Hlt]. cbn. intros; lia.
        -- constructor; [|constructor; assumption]. apply fresh_ok; auto.
      * apply Nat.ltb_ge in E3. assert (q = fp f) by lia. subst q. split.
        -- constructor; [assumption|]. exact Hlt.
        -- constructor; [|assumption]. destruct Hf1 as (Hops & Hd & Hv & Ha & Hall).
           unfold frame_ok; cbn. repeat split; try assumption.
           ++ intros o' y Hin. apply in_app_or in Hin as [Hin|[Heq|[]]]; [eauto|]. now inversion Heq; subst.
           ++ apply AllV_app. split; [assumption|]. cbn. tauto.
Qed.

Lemma unwind_cons f S i : unwind (f :: S) i = unwind S (fyield f i).
Proof. reflexivity. Qed.

Lemma reduce_yield q o S x y rest : yield y = (y, []) ->
  state_yield (reduce q o S x) y rest = state_yield S x ((o, y) :: rest).
Proof.
  intros Hy.
  assert (Hclose : forall f x0 S', state_yield (fresh q (close f x0) o :: S') y rest = state_yield (f :: S') x0 ((o, y) :: rest)).
  { intros f x0 S'. unfold state_yield. rewrite Hy. cbn [fst snd app]. rewrite !unwind_cons. f_equal.
    unfold fyield, fresh, close; cbn [fp fhd ftl fd fst snd ytl app].
    rewrite yield_node. cbn [fst snd]. rewrite ytl_app. cbn [ytl]. rewrite app_nil_r.
    repeat (rewrite <- app_assoc; cbn [app]). reflexivity. }
  assert (Hpop : forall f x0 S', state_yield S' (close f x0) ((o, y) :: rest) = state_yield (f :: S') x0 ((o, y) :: rest)).
  { intros f x0 S'. unfold state_yield. rewrite !unwind_cons. f_equal. unfold fyield, close; cbn [fst snd].
    rewrite yield_node. cbn [fst snd]. rewrite ytl_app. cbn [ytl]. rewrite app_nil_r. repeat (rewrite <- app_assoc; cbn [app]). reflexivity. }
  revert x. induction S as [|f rest' IH]; intros x.
  - unfold state_yield. rewrite Hy. cbn. unfold fyield, fresh; cbn. reflexivity.
  - cbn [reduce]. destruct (q <? fp f).
    + destruct rest' as [|g r]; [apply Hclose|]. destruct (q <=? fp g); [|apply Hclose].
      rewrite IH. apply Hpop.
    + destruct (fp f <? q).
      * unfold state_yield. rewrite Hy. cbn [fst snd app]. rewrite unwind_cons. f_equal.
      * unfold state_yield. rewrite Hy. cbn [fst snd app]. rewrite !unwind_cons. f_equal. unfold fyield; cbn [fp fhd ftl fd fst snd].
        rewrite ytl_app. cbn [ytl]. rewrite app_nil_r. repeat (rewrite <- app_assoc; cbn [app]). reflexivity.
Qed.

Lemma finish S x : stack_ok S -> Valid x -> top_above S x ->
  Valid (fold_left (fun x f => close f x) S x) /\ yield (fold_left (fun x f => close f x) S x) = state_yield S x [].
Proof.
  revert x. induction S as [|f rest IH]; intros x [Hs Hf] Hx Htop.
  - cbn. split; [assumption|]. unfold state_yield; cbn. rewrite app_nil_r. now destruct (yield x).
  - cbn [fold_left]. destruct (StronglySorted_inv Hs) as [Hs' Hlt]. pose proof (Forall_inv Hf) as Hf1. pose proof (Forall_inv_tail Hf) as Hf'.
    destruct (close_valid f x Hf1 Hx Htop) as [Hcv Hca].
    destruct (IH (close f x)) as [Hv Hy]; [split; assumption|assumption| |].
    + destruct rest as [|g r]; cbn; [exact I|]. apply Hca. exact (Forall_inv Hlt).
    + split; [assumption|]. rewrite Hy. unfold state_yield. rewrite unwind_cons. f_equal.
      unfold fyield, close; cbn [fst snd]. rewrite yield_node. cbn [fst snd]. rewrite ytl_app. cbn [ytl]. rewrite !app_nil_r.
      repeat (rewrite <- app_assoc; cbn [app]). reflexivity.
Qed.

Definition atoms (rest : list (op * tree)) : Prop := forall o x, In (o, x) rest -> exists n, x = Leaf n.

Lemma run_correct rest : atoms rest -> forall S x,
  stack_ok S -> Valid x -> top_above S x -> (exists n, x = Leaf n) ->
  Valid (run reduce S x rest) /\ yield (run reduce S x rest) = state_yield S x rest.
Proof.
  induction rest as [|[o y] rest IH]; intros Hat S x HS Hx Htop [n Hn].
  - cbn [run]. now apply finish.
  - cbn [run]. destruct (Hat o y (or_introl eq_refl)) as [m Hm]. subst x y.
    destruct (IH (fun o x H => Hat o x (or_intror H)) (reduce (prio o) o S (Leaf n)) (Leaf m)) as [Hv Hy].
    + apply reduce_inv; auto; destruct S; cbn; auto.
    + exact I.
    + destruct (reduce (prio o) o S (Leaf n)); cbn; exact I.
    + eauto.
    + split; [exact Hv|]. rewrite Hy. now apply reduce_yield.
Qed.

Theorem climb_parses : forall n rest, atoms rest ->
  Valid (climb (Leaf n, rest)) /\ yield (climb (Leaf n, rest)) = (Leaf n, rest).
Proof.
  intros n rest Hat. unfold climb; cbn [fst snd].
  destruct (run_correct rest Hat [] (Leaf n)) as [Hv Hy]; [split; constructor|exact I|exact I|eauto|].
  split; [exact Hv|]. rewrite Hy. reflexivity.
Qed.


Section tree_ind2.
  Variable P : tree -> Prop.
  Hypothesis HL : forall n, P (Leaf n).
  Hypothesis HN : forall hd tl, P hd -> Forall (fun ox => P (snd ox)) tl -> P (Node hd tl).
  Fixpoint tree_ind2 (t : tree) : P t :=
    match t with
    | Leaf n => HL n
    | Node hd tl => HN hd tl (tree_ind2 hd)
        ((fix go (l : list (op * tree)) : Forall (fun ox => P (snd ox)) l :=
           match l with [] => Forall_nil _ | ox :: r => Forall_cons ox (tree_ind2 (snd ox)) (go r) end) tl)
    end.
End tree_ind2.

Lemma split_app_none l a b : (forall o x, In (o, x) a -> prio o <> l) ->
  split l (a ++ b) = (a ++ fst (split l b), snd (split l b)).
Proof.
  induction a as [|[o y] r IH]; intros H; cbn [app split].
  - now destruct (split l b).
  - rewrite IH by (intros; eapply H; right; eauto). cbn [fst snd].
    destruct (prio o =? l) eqn:E; [apply Nat.eqb_eq in E; exfalso; eapply H; [left; reflexivity|exact E]|reflexivity].
Qed.

Lemma split_none l rest : (forall o x, In (o, x) rest -> prio o <> l) -> split l rest = (rest, []).
Proof. intros H. rewrite <- (app_nil_r rest) at 1. rewrite split_app_none by exact H. cbn. now rewrite app_nil_r. Qed.

Lemma canon_atom ls x : canon ls (x, []) = x.
Proof. induction ls as [|l ls IH]; cbn; [reflexivity|exact IH]. Qed.

Lemma AllV_In p l o x : AllV p l -> In (o, x) l -> Valid x /\ above p x.
Proof. induction l as [|[o' x'] r IH]; cbn; [tauto|]. intros [H1 H2] [Heq|Hin]; [inversion Heq; subst; exact H1|auto]. Qed.

Lemma in_ytl tl o y : In (o, y) (ytl tl) ->
  (exists x, In (o, x) tl /\ y = fst (yield x)) \/ (exists o' x, In (o', x) tl /\ In (o, y) (snd (yield x))).
Proof.
  induction tl as [|[o' x'] r IH]; cbn [ytl]; [intros []|]. intros [Heq|Hin].
  - inversion Heq; subst. left. exists x'. split; [left; reflexivity|reflexivity].
  - apply in_app_or in Hin as [Hin|Hin].
    + right. exists o', x'. split; [left; reflexivity|exact Hin].
    + destruct (IH Hin) as [[x [H1 H2]]|[o2 [x [H1 H2]]]]; [left; exists x|right; exists o2, x]; split; auto; right; auto.
Qed.

Lemma ytl_in tl o' x o y : In (o', x) tl -> In (o, y) (snd (yield x)) -> In (o, y) (ytl tl).
Proof.
  induction tl as [|[o1 x1] r1 IHr]; [intros []|]. cbn [ytl]. intros [E|Hx] H.
  - inversion E; subst. right. apply in_or_app. left. exact H.
  - right. apply in_or_app. right. auto.
Qed.

(* every operator in the yield of a valid tree that is `above p` has priority > p *)
Lemma above_yield : forall t p, Valid t -> above p t -> forall o y, In (o, y) (snd (yield t)) -> p < prio o.
Proof.
  induction t as [n|hd tl IHhd IHtl] using tree_ind2; intros p Hv Ha o y Hin.
  - cbn in Hin. destruct Hin.
  - apply Valid_node in Hv as [Hne [p' [Hops [Hvh [Hah Hall]]]]].
    assert (Hpp : p < p').
    { destruct tl as [|[o0 x0] r]; [congruence|]. rewrite <- (Hops o0 x0 (or_introl eq_refl)). apply (Ha o0 x0). left; reflexivity. }
    rewrite yield_node in Hin. cbn [snd] in Hin. apply in_app_or in Hin as [Hin|Hin].
    + specialize (IHhd p' Hvh Hah o y Hin). lia.
    + apply in_ytl in Hin as [[x [H1 H2]]|[o2 [x [H1 H2]]]].
      * rewrite (Hops _ _ H1). exact Hpp.
      * destruct (AllV_In _ _ _ _ Hall H1) as [Hvx Hax].
        rewrite Forall_forall in IHtl. specialize (IHtl (o2, x) H1 p' Hvx Hax o y H2). lia.
Qed.

Lemma split_ytl p tl : (forall o x, In (o, x) tl -> prio o = p) -> AllV p tl ->
  split p (ytl tl) = ([], map (fun ox => (fst ox, yield (snd ox))) tl).
Proof.
  induction tl as [|[o x] r IH]; intros Hops Hall; cbn [ytl map split]; [reflexivity|].
  destruct Hall as [[Hvx Hax] Hall'].
  rewrite split_app_none by (intros o' y Hin; pose proof (above_yield x p Hvx Hax o' y Hin); lia).
  rewrite IH by (auto; intros; eapply Hops; right; eauto). cbn [fst snd]. rewrite app_nil_r.
  rewrite (Hops o x (or_introl eq_refl)), Nat.eqb_refl. cbn [fst snd]. now destruct (yield x).
Qed.

Lemma split_root hd tl p : (forall o x, In (o, x) tl -> prio o = p) -> Valid hd -> above p hd -> AllV p tl ->
  split p (snd (yield (Node hd tl))) = (snd (yield hd), map (fun ox => (fst ox, yield (snd ox))) tl).
Proof.
  intros Hops Hvh Hah Hall. rewrite yield_node. cbn [snd].
  rewrite split_app_none by (intros o y Hin; pose proof (above_yield hd p Hvh Hah o y Hin); lia).
  rewrite split_ytl by assumption. cbn [fst snd]. now rewrite app_nil_r.
Qed.

Theorem canon_yield : forall ls, StronglySorted lt ls ->
  forall t, Valid t -> (forall o y, In (o, y) (snd (yield t)) -> In (prio o) ls) -> canon ls (yield t) = t.
Proof.
  induction ls as [|l ls IH]; intros Hs t Hv Hin.
  - destruct t as [n|hd tl]; [reflexivity|]. exfalso.
    apply Valid_node in Hv as [Hne _]. destruct tl as [|[o x] r]; [congruence|].
    rewrite yield_node in Hin. cbn [snd ytl] in Hin. eapply (Hin o). apply in_or_app. right. left. reflexivity.
  - destruct (StronglySorted_inv Hs) as [Hs' Hlt]. rewrite Forall_forall in Hlt.
    destruct t as [n|hd tl]; [cbn [yield]; apply canon_atom|].
    pose proof Hv as Hv0. apply Valid_node in Hv as [Hne [p [Hops [Hvh [Hah Hall]]]]].
    (* all operators of the yield are >= p, root ones are = p *)
    assert (Hge : forall o y, In (o, y) (snd (yield (Node hd tl))) -> p <= prio o).
    { intros o y H. rewrite yield_node in H. cbn [snd] in H. apply in_app_or in H as [H|H].
      - pose proof (above_yield hd p Hvh Hah o y H). lia.
      - apply in_ytl in H as [[x [H1 H2]]|[o2 [x [H1 H2]]]]; [rewrite (Hops _ _ H1); lia|].
        destruct (AllV_In _ _ _ _ Hall H1) as [Hvx Hax]. pose proof (above_yield x p Hvx Hax o y H2). lia. }
    assert (Hp : In p (l :: ls)).
    { destruct tl as [|[o0 x0] r]; [congruence|]. rewrite <- (Hops o0 x0 (or_introl eq_refl)).
      apply (Hin o0 (fst (yield x0))). rewrite yield_node. cbn [snd ytl]. apply in_or_app. right. left. reflexivity. }
    destruct (Nat.eq_dec p l) as [Heq|Hne'].
    + subst l. cbn [canon]. rewrite (split_root hd tl p Hops Hvh Hah Hall).
      assert (Hsub : forall t', Valid t' -> above p t' -> (forall o y, In (o, y) (snd (yield t')) -> In (prio o) (p :: ls)) -> canon ls (yield t') = t').
      { intros t' Hv' Ha' Hin'. apply IH; [assumption|assumption|]. intros o y H. destruct (Hin' o y H) as [E|E]; [|exact E].
        pose proof (above_yield t' p Hv' Ha' o y H). lia. }
      assert (Hmap : map (fun os : op * seg => (fst os, canon ls (snd os))) (map (fun ox : op * tree => (fst ox, yield (snd ox))) tl) = tl).
      { rewrite map_map. cbn [fst snd]. rewrite <- (map_id tl) at 2. apply map_ext_in. intros [o x] Hx. cbn [fst snd]. f_equal.
        destruct (AllV_In _ _ _ _ Hall Hx) as [Hvx Hax]. apply Hsub; [assumption|assumption|].
        intros o' y H. apply (Hin o' y). rewrite yield_node. cbn [snd]. apply in_or_app. right.
        eapply ytl_in; eauto. }
      assert (Hhd : canon ls (fst (yield (Node hd tl)), snd (yield hd)) = hd).
      { rewrite yield_node. cbn [fst]. rewrite <- surjective_pairing. apply Hsub; [assumption|assumption|].
        intros o y H. apply (Hin o y). rewrite yield_node. cbn [snd]. apply in_or_app. left. exact H. }
      destruct (map (fun ox : op * tree => (fst ox, yield (snd ox))) tl) as [|s0 segs] eqn:Em.
      { destruct tl; [congruence|discriminate Em]. }
      rewrite Hmap, Hhd. reflexivity.
    + assert (Hlp : l < p) by (destruct Hp as [E|E]; [congruence|exact (Hlt p E)]).
      cbn [canon]. rewrite split_none by (intros o y H; pose proof (Hge o y H); lia).
      rewrite <- surjective_pairing. apply IH; [assumption|assumption|].
      intros o y H. destruct (Hin o y H) as [E|E]; [pose proof (Hge o y H); lia|exact E].
Qed.

Theorem climb_eq_canon : forall ls n rest, StronglySorted lt ls -> atoms rest ->
  (forall o y, In (o, y) rest -> In (prio o) ls) -> climb (Leaf n, rest) = canon ls (Leaf n, rest).
Proof.
  intros ls n rest Hs Hat Hin. destruct (climb_parses n rest Hat) as [Hv Hy].
  rewrite <- Hy at 2. symmetry. apply canon_yield; [assumption|assumption|]. rewrite Hy. exact Hin.
Qed.

Theorem grammar_unambiguous : forall ls t t', StronglySorted lt ls -> Valid t -> Valid t' ->
  (forall o y, In (o, y) (snd (yield t)) -> In (prio o) ls) -> yield t = yield t' -> t = t'.
Proof.
  intros ls t t' Hs Hv Hv' Hin Hy. rewrite <- (canon_yield ls Hs t Hv Hin). rewrite Hy. apply canon_yield; [assumption|assumption|].
  rewrite <- Hy. exact Hin.
Qed.


