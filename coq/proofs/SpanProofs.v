(* C11, source ranges: every error the evaluator reports carries the span of a node of the syntax tree; the spans of the tree built
   from a source text lie between 0 and the byte length of the text (they are sums of the byte lengths of whole tokens). *)
From Coq Require Import ZArith NArith QArith List Bool Lia.
Import ListNotations.
From AV Require Import model.Syntax model.Grammar model.Rat model.UnitTypes model.Map model.Compound model.UnitWord model.Eval.
Open Scope N_scope.

Definition inside (lo hi : N) (sp : N * N) : Prop := lo <= fst sp /\ fst sp <= snd sp /\ snd sp <= hi.

Fixpoint within (lo hi : N) (t : atree) : Prop :=
  match t with
  | ATok _ _ s e => lo <= s /\ s <= e /\ e <= hi
  | ANode _ ch s e => lo <= s /\ s <= e /\ e <= hi /\
      (fix all (l : list atree) : Prop := match l with [] => True | x :: r => within s e x /\ all r end) ch
  end.
Fixpoint all_within (lo hi : N) (l : list atree) : Prop := match l with [] => True | x :: r => within lo hi x /\ all_within lo hi r end.
Lemma within_node lo hi k ch s e : within lo hi (ANode k ch s e) <-> lo <= s /\ s <= e /\ e <= hi /\ all_within s e ch.
Proof. cbn [within]. assert (H : forall l, (fix all (l : list atree) : Prop := match l with [] => True | x :: r => within s e x /\ all r end) l <-> all_within s e l) by (induction l; cbn; tauto). rewrite H. tauto. Qed.

Lemma within_span lo hi t : within lo hi t -> inside lo hi (aspan t).
Proof. destruct t; cbn; unfold inside; cbn; tauto. Qed.
Lemma within_weaken lo hi lo' hi' t : lo' <= lo -> hi <= hi' -> within lo hi t -> within lo' hi' t.
Proof. destruct t as [k tx s e|k ch s e]; cbn [within]; intros; repeat split; try lia; tauto. Qed.
Lemma all_within_in lo hi l x : all_within lo hi l -> In x l -> within lo hi x.
Proof. induction l as [|y r IH]; cbn; [tauto|]. intros [H1 H2] [->|H]; auto. Qed.
Lemma children_within lo hi t x : within lo hi t -> In x (achildren t) -> within lo hi x.
Proof.
  destruct t as [k tx s e|k ch s e]; [intros _ []|]. rewrite within_node. intros (H1 & H2 & H3 & H4) Hin. cbn [achildren] in Hin.
  apply (within_weaken s e); [lia|lia|]. eapply all_within_in; eauto.
Qed.

(* ---- the annotated forest of a source text ---- *)
Section gtree_ind2.
  Variable P : tree -> Prop.
  Hypothesis HT : forall k x, P (Tok k x).
  Hypothesis HN : forall k ch, Forall P ch -> P (Node k ch).
  Fixpoint gtree_ind2 (t : tree) : P t :=
    match t with
    | Tok k x => HT k x
    | Node k ch => HN k ch ((fix G (l : list tree) : Forall P l := match l with [] => Forall_nil _ | x :: r => Forall_cons x (gtree_ind2 x) (G r) end) ch)
    end.
End gtree_ind2.

Lemma annotate_within t : forall pos, pos <= snd (annotate pos t) /\ within pos (snd (annotate pos t)) (fst (annotate pos t)).
Proof.
  induction t as [k text|k ch IH] using gtree_ind2.
  - intros pos. cbn [annotate fst snd within]. lia.
  - intros pos. cbn [annotate].
    set (go := fix go (p : N) (l : list tree) : list atree * N := match l with [] => ([], p) | x :: r => let '(ax, p1) := annotate p x in let '(ar, p2) := go p1 r in (ax :: ar, p2) end).
    assert (G : forall p, p <= snd (go p ch) /\ forall lo, lo <= p -> all_within lo (snd (go p ch)) (fst (go p ch))).
    { induction IH as [|x r Hx _ IHr]; intros p; cbn [go fst snd]; [split; [lia|intros; exact I]|].
      destruct (Hx p) as [H1 H2]. destruct (annotate p x) as [ax p1]. cbn [fst snd] in *.
      destruct (IHr p1) as [H3 H4]. destruct (go p1 r) as [ar p2]. cbn [fst snd] in *. split; [lia|].
      intros lo Hlo. split; [apply (within_weaken p p1); [lia|lia|exact H2]|apply H4; lia]. }
    destruct (G pos) as [G1 G2]. destruct (go pos ch) as [ach e]. cbn [fst snd] in *. split; [exact G1|].
    apply within_node. repeat split; try lia. apply G2. lia.
Qed.

Lemma annotate_forest_within f : forall pos, exists hi, pos <= hi /\ all_within pos hi (annotate_forest pos f).
Proof.
  induction f as [|x r IH]; intros pos; cbn [annotate_forest]; [exists pos; split; [lia|exact I]|].
  destruct (annotate_within x pos) as [H1 H2]. destruct (annotate pos x) as [ax p]. cbn [fst snd] in *.
  destruct (IH p) as (hi & H3 & H4). exists hi. split; [lia|]. split; [apply (within_weaken pos p); [lia|lia|exact H2]|].
  clear - H1 H4. revert H4. generalize (annotate_forest p r). induction l as [|y l IH]; cbn; [tauto|]. intros [A B]. split; [apply (within_weaken p hi); [lia|lia|exact A]|auto].
Qed.

(* ---- errors of eval_unit and eval carry spans inside the bounds of the node ---- *)
Definition err_inside (lo hi : N) {A} (r : res A) : Prop := forall sp k, r = Error sp k -> inside lo hi sp.

Lemma update_all_err lo hi span c cur l last : inside lo hi span -> err_inside lo hi (update_all span c cur l last).
Proof.
  intros Hs. revert c last. induction l as [|[e u] r IH]; intros c last sp k; cbn [update_all]; [discriminate|].
  destruct (update c u cur e); [apply IH|intros H; inversion H; subst; exact Hs].
Qed.

Lemma unit_loop_err lo hi fuel : forall nodes cur c last, (forall x, In x nodes -> within lo hi x) ->
  err_inside lo hi (unit_loop fuel nodes cur c last).
Proof.
  induction fuel as [|f IH]; intros nodes cur c last Hn sp k; cbn [unit_loop]; [discriminate|].
  destruct (next_node nodes) as [[node rest]|] eqn:En; [|discriminate].
  assert (Hnode : within lo hi node /\ forall x, In x rest -> within lo hi x).
  { clear - En Hn. revert En. induction nodes as [|y l IH]; cbn [next_node]; [discriminate|]. destruct (has_children y).
    - intros H. inversion H; subst. split; [apply Hn; left; reflexivity|intros x Hx; apply Hn; right; exact Hx].
    - intros H. apply IH; [intros x Hx; apply Hn; right; exact Hx|exact H]. }
  destruct Hnode as [Hw Hrest]. pose proof (within_span _ _ _ Hw) as Hsp.
  destruct (akind node); try (intros H; inversion H; subst; exact Hsp); try (apply IH; exact Hrest).
  - destruct (parse_units _ _) as [l bad]. unfold bind.
    pose proof (update_all_err lo hi (aspan node) c cur l last Hsp) as Hu.
    destruct (update_all (aspan node) c cur l last) as [cl| | |]; try discriminate.
    + destruct bad; [intros H; inversion H; subst; exact Hsp|apply IH; exact Hrest].
    + intros H. inversion H; subst. apply (Hu sp k). reflexivity.
  - destruct (parse_i32 (atext node)); [|intros H; inversion H; subst; exact Hsp].
    destruct (negb _); [intros H; inversion H; subst; exact Hsp|apply IH; exact Hrest].
  - destruct (next_node rest) as [[n rest']|] eqn:En2.
    + assert (Hn2 : within lo hi n /\ forall x, In x rest' -> within lo hi x).
      { clear - En2 Hrest. revert En2. induction rest as [|y l IH]; cbn [next_node]; [discriminate|]. destruct (has_children y).
        - intros H. inversion H; subst. split; [apply Hrest; left; reflexivity|intros x Hx; apply Hrest; right; exact Hx].
        - intros H. apply IH; [intros x Hx; apply Hrest; right; exact Hx|exact H]. }
      destruct Hn2 as [Hwn Hr2]. pose proof (within_span _ _ _ Hwn) as Hspn.
      destruct last as [[e u]|]; [|intros H; inversion H; subst; exact Hspn].
      destruct (kind_beq (akind n) NUMBER); [|intros H; inversion H; subst; exact Hspn].
      destruct (parse_i32 (atext n)); [apply IH; exact Hr2|intros H; inversion H; subst; exact Hspn].
    + destruct last as [[e u]|]; intros H; inversion H; subst; exact Hsp.
Qed.
Lemma eval_unit_err lo hi (t : atree) : within lo hi t -> err_inside lo hi (eval_unit (achildren t)).
Proof. intros W. unfold eval_unit. apply unit_loop_err. intros x Hx. eapply children_within; eauto. Qed.

Section Spans.
Variable debug : bool.
Variable facts : db.
Variable describe : bool.
Variables lo hi : N.

Definition rok (r : res numeric * st) : Prop := err_inside lo hi (fst r).

Lemma op_err span (fn : N * N -> numeric -> numeric -> res numeric) k a b : binop_of debug k = Some fn -> inside lo hi span -> err_inside lo hi (fn span a b).
Proof.
  intros Hk Hs sp kk. destruct k; cbn [binop_of] in Hk; inversion Hk; subst; clear Hk.
  - unfold op_add. destruct (factor _ _ _) as [[[] v]|]; intros H; inversion H; subst; exact Hs.
  - unfold op_sub. destruct (factor _ _ _) as [[[] v]|]; intros H; inversion H; subst; exact Hs.
  - unfold op_mul. destruct (mul _ _ _ _ _) as [[[u av] bv]|]; [|intros H; inversion H; subst; exact Hs].
    destruct (if is_empty (snd a) || is_empty (snd b) then Ok u else checked_new debug u) eqn:E; cbn [bind]; try discriminate.
    destruct (is_empty (snd a) || is_empty (snd b)); [discriminate|]. unfold checked_new in E. destruct (debug && _); discriminate.
  - unfold op_mul. destruct (mul _ _ _ _ _) as [[[u av] bv]|]; [|intros H; inversion H; subst; exact Hs].
    destruct (if is_empty (snd a) || is_empty (snd b) then Ok u else checked_new debug u) eqn:E; cbn [bind]; try discriminate.
    destruct (is_empty (snd a) || is_empty (snd b)); [discriminate|]. unfold checked_new in E. destruct (debug && _); discriminate.
  - unfold op_div. destruct (mul _ _ _ _ _) as [[[u av] bv]|]; [|intros H; inversion H; subst; exact Hs].
    destruct (if is_empty (snd a) || is_empty (snd b) then Ok u else checked_new debug u) eqn:E; cbn [bind].
    + destruct (is_zero bv); [intros H; inversion H; subst; exact Hs|discriminate].
    + destruct (is_empty (snd a) || is_empty (snd b)); [discriminate|]. unfold checked_new in E. destruct (debug && _); discriminate.
    + discriminate.
    + discriminate.
  - unfold op_pow. destruct (negb _); [intros H; inversion H; subst; exact Hs|]. destruct (negb _); [intros H; inversion H; subst; exact Hs|].
    destruct (is_empty (snd a)); cbn [bind].
    + destruct (_ =? 0)%Z; [discriminate|]. destruct (is_zero _); [destruct (_ <? 0)%Z; [intros H; inversion H; subst; exact Hs|discriminate]|discriminate].
    + destruct (if in_i32 _ then _ else _); cbn [bind]; [|intros H; inversion H; subst; exact Hs].
      destruct (_ =? 0)%Z; [discriminate|]. destruct (is_zero _); [destruct (_ <? 0)%Z; [intros H; inversion H; subst; exact Hs|discriminate]|discriminate].
Qed.

Lemma builtin_err name fn span args : builtin debug name = Some fn -> inside lo hi span -> err_inside lo hi (fn span args).
Proof.
  unfold builtin. intros H Hs sp k Hp.
  repeat match type of H with (if ?c then _ else _) = _ => destruct c end; inversion H; subst; clear H.
  - unfold fn_trig, fn_one, bind in Hp. destruct args as [|a [|? ?]]; inversion Hp; subst; exact Hs.
  - unfold fn_trig, fn_one, bind in Hp. destruct args as [|a [|? ?]]; inversion Hp; subst; exact Hs.
  - unfold fn_round in Hp. destruct args as [|a [|b [|c r]]]; cbn [bind] in Hp.
    + inversion Hp; subst; exact Hs.
    + destruct (debug && _); discriminate.
    + destruct (to_i32 (fst b)); cbn [bind] in Hp; [destruct (debug && _); discriminate|inversion Hp; subst; exact Hs].
    + inversion Hp; subst; exact Hs.
  - unfold fn_floor, fn_one, bind in Hp. destruct args as [|a [|? ?]]; inversion Hp; subst; exact Hs.
  - unfold fn_ceil, fn_one, bind in Hp. destruct args as [|a [|? ?]]; inversion Hp; subst; exact Hs.
Qed.

Section Loops.
Variable ev : atree -> st -> res numeric * st.
Hypothesis Hev : forall t d, within lo hi t -> rok (ev t d).

Lemma force_err b d : (match b with DNode n => within lo hi n | DNum _ => True end) -> rok (force ev b d).
Proof. destruct b as [n|x]; cbn [force]; [apply Hev|intros _ sp k H; discriminate]. Qed.

Lemma op_loop_err_n span : inside lo hi span -> forall n rest b d, (length rest <= n)%nat -> (forall x, In x rest -> within lo hi x) ->
  (match b with DNode n => within lo hi n | DNum _ => True end) -> rok (op_loop debug ev span rest b d).
Proof.
  intros Hs. induction n as [|n IHn]; intros rest b d Hlen Hall Hb.
  { destruct rest; [cbn [op_loop]; apply force_err; exact Hb|cbn in Hlen; lia]. }
  assert (IH : forall rest' b d, (length rest' <= n)%nat -> (forall x, In x rest' -> within lo hi x) ->
                 (match b with DNode n => within lo hi n | DNum _ => True end) -> rok (op_loop debug ev span rest' b d)) by exact IHn.
  destruct rest as [|op [|rhs rest']]; cbn [op_loop]; try (apply force_err; exact Hb).
  assert (Hl' : (length rest' <= n)%nat) by (cbn in Hlen; lia).
  assert (Hop : within lo hi op) by (apply Hall; left; reflexivity).
  assert (Hrhs : within lo hi rhs) by (apply Hall; right; left; reflexivity).
  assert (Hall2 : forall x, In x rest' -> within lo hi x) by (intros x Hx; apply Hall; right; right; exact Hx).
  pose proof (within_span _ _ _ Hop) as Hsop.
  assert (Hstep : forall fn, binop_of debug (akind op) = Some fn ->
     rok (match ev rhs d with
          | (Ok r, d1) => match force ev b d1 with
                          | (Ok bv, d2) => match fn span bv r with
                                           | Ok x => op_loop debug ev span rest' (DNum x) d2
                                           | Error s k => (Error s k, d2) | Panic w => (Panic w, d2) | Opaque => (Opaque, d2) end
                          | (r', d2) => (r', d2) end
          | (r', d1) => (r', d1) end)).
  { intros fn Hfn. pose proof (Hev rhs d Hrhs) as H1. destruct (ev rhs d) as [r1 d1]. destruct r1 as [rv|e1 k1|w1|]; try exact H1; try (intros sp kk H; discriminate).
    pose proof (force_err b d1 Hb) as H2. destruct (force ev b d1) as [b1 d2]. destruct b1 as [bv|e2 k2|w2|]; try exact H2; try (intros sp kk H; discriminate).
    pose proof (op_err span fn _ bv rv Hfn Hs) as H3. destruct (fn span bv rv) as [x|e3 k3|w3|]; try (intros sp kk H; discriminate).
    - apply IH; [exact Hl'|exact Hall2|exact I].
    - intros sp kk H. cbn [fst] in H. exact (H3 sp kk H). }
  unfold rok. destruct (akind op) eqn:Ek; cbn [binop_of] in *; try (intros sp kk H; cbn [fst] in H; inversion H; subst; exact Hsop); try (apply Hstep; reflexivity).
  (* OP_CAST *)
  pose proof (eval_unit_err lo hi rhs Hrhs) as Hu. destruct (eval_unit (achildren rhs)) as [target| | |]; try (intros sp kk H; discriminate).
  - pose proof (force_err b d Hb) as H2. destruct (force ev b d) as [b1 d2]. destruct b1 as [lhs| | |]; try exact H2; try (intros sp kk H; discriminate).
    destruct (factor target (snd lhs) (fst lhs)) as [[[] v]|]; try (intros sp kk H; cbn [fst] in H; inversion H; subst; exact Hs). apply IH; [exact Hl'|exact Hall2|exact I].
  - intros sp kk H. cbn [fst] in H. inversion H; subst. exact (Hu _ _ eq_refl).
Qed.

Lemma op_loop_err span : inside lo hi span -> forall rest b d, (forall x, In x rest -> within lo hi x) ->
  (match b with DNode n => within lo hi n | DNum _ => True end) -> rok (op_loop debug ev span rest b d).
Proof. intros Hs rest b d. apply (op_loop_err_n span Hs (length rest)). lia. Qed.

Lemma args_loop_err : forall l acc d, (forall x, In x l -> within lo hi x) -> err_inside lo hi (fst (args_loop ev l acc d)).
Proof.
  induction l as [|a r IH]; intros acc d Hall sp kk; cbn [args_loop]; [discriminate|].
  pose proof (Hev a d (Hall a (or_introl eq_refl))) as H1. destruct (ev a d) as [r1 d1]. destruct r1 as [v| | |]; cbn [fst] in *; try discriminate.
  - apply IH. intros x Hx. apply Hall. right. exact Hx.
  - intros H. inversion H; subst. exact (H1 _ _ eq_refl).
Qed.
End Loops.

Theorem eval_err_inside : forall fuel t d, within lo hi t -> rok (eval debug facts describe fuel t d).
Proof.
  induction fuel as [|f IH]; intros t d W; [intros sp kk H; discriminate|].
  pose proof (within_span _ _ _ W) as Hs.
  assert (Hch : forall x, In x (achildren t) -> within lo hi x) by (intros x Hx; eapply children_within; eauto).
  assert (Hskip : forall l x, In x (skip_tokens l) -> In x l) by (intros l x Hx; unfold skip_tokens in Hx; apply filter_In in Hx; tauto).
  unfold rok. cbn [eval]. destruct (akind t); try (intros sp kk H; cbn [fst] in H; inversion H; subst; exact Hs).
  - destruct (db_lookup facts (atext t)); intros sp kk H; cbn [fst] in H; inversion H; subst; exact Hs.
  - destruct (db_lookup facts (atext t)); intros sp kk H; cbn [fst] in H; inversion H; subst; exact Hs.
  - unfold parse_number. destruct (Literal.from_str _); intros sp kk H; cbn [fst] in H; inversion H; subst; exact Hs.
  - destruct (achildren t) as [|value_node rest] eqn:Ec; [intros sp kk H; cbn [fst] in H; inversion H; subst; exact Hs|].
    destruct (next_node rest) as [[unit_node r']|] eqn:En; [|intros sp kk H; cbn [fst] in H; inversion H; subst; exact Hs].
    assert (Hun : within lo hi unit_node).
    { apply Hch. right. clear - En. revert En. induction rest as [|y l IHl]; cbn [next_node]; [discriminate|]. destruct (has_children y); [intros H; inversion H; subst; left; reflexivity|intros H; right; apply IHl; exact H]. }
    destruct (negb _); [intros sp kk H; cbn [fst] in H; inversion H; subst; apply within_span; exact Hun|].
    pose proof (IH value_node d (Hch value_node (or_introl eq_refl))) as H1. destruct (eval debug facts describe f value_node d) as [r1 d1].
    destruct r1 as [v| | |]; try exact H1; try (intros sp kk H; discriminate).
    pose proof (eval_unit_err lo hi unit_node Hun) as Hu. destruct (eval_unit (achildren unit_node)); try (intros sp kk H; discriminate).
    intros sp kk H. cbn [fst] in H. inversion H; subst. exact (Hu _ _ eq_refl).
  - destruct (skip_tokens (achildren t)) as [|name more] eqn:Es; [intros sp kk H; cbn [fst] in H; inversion H; subst; exact Hs|].
    destruct (negb _); [intros sp kk H; cbn [fst] in H; inversion H; subst; exact Hs|].
    destruct more as [|arguments m2]; [intros sp kk H; cbn [fst] in H; inversion H; subst; exact Hs|].
    destruct (negb _); [intros sp kk H; cbn [fst] in H; inversion H; subst; exact Hs|].
    assert (Harg : within lo hi arguments) by (apply Hch, (Hskip (achildren t)); rewrite Es; right; left; reflexivity).
    assert (Hargs : forall x, In x (skip_tokens (achildren arguments)) -> within lo hi x) by (intros x Hx; apply Hskip in Hx; eapply children_within; eauto).
    pose proof (args_loop_err (eval debug facts describe f) IH (skip_tokens (achildren arguments)) [] d Hargs) as Ha.
    destruct (args_loop (eval debug facts describe f) (skip_tokens (achildren arguments)) [] d) as [ra d1]. cbn [fst] in Ha.
    destruct ra as [argv| | |]; try (intros sp kk H; discriminate).
    + destruct (builtin debug (atext name)) as [fn|] eqn:Eb; [|intros sp kk H; cbn [fst] in H; inversion H; subst; exact Hs].
      intros sp kk H. cbn [fst] in H. exact (builtin_err _ fn (aspan t) argv Eb Hs sp kk H).
    + intros sp kk H. cbn [fst] in H. inversion H; subst. exact (Ha _ _ eq_refl).
  - destruct (achildren t) as [|number r] eqn:Ec; [intros sp kk H; cbn [fst] in H; inversion H; subst; exact Hs|].
    destruct (kind_beq _ _).
    + unfold parse_number. destruct (Literal.from_str _); intros sp kk H; cbn [fst] in H; inversion H; subst; exact Hs.
    + intros sp kk H. cbn [fst] in H. inversion H; subst. apply within_span. apply Hch. left. reflexivity.
  - destruct (skip_tokens (achildren t)) as [|base rest] eqn:Es; [intros sp kk H; cbn [fst] in H; inversion H; subst; exact Hs|].
    assert (Hall : forall x, In x (base :: rest) -> within lo hi x) by (intros x Hx; apply Hch, (Hskip (achildren t)); rewrite Es; exact Hx).
    apply (op_loop_err (eval debug facts describe f) IH (aspan t) Hs rest (DNode base) d); [intros x Hx; apply Hall; right; exact Hx|apply Hall; left; reflexivity].
Qed.
End Spans.

(* ---- down to the source text: the forest of a text ends at the byte length of the text ---- *)
From AV Require Import model.Lexer proofs.LexerProofs proofs.GrammarLossless model.Run.
Open Scope N_scope.

Lemma utf8_size_app a b : utf8_size (a ++ b) = utf8_size a + utf8_size b.
Proof. induction a as [|c r IH]; cbn [app utf8_size]; [reflexivity|]. rewrite IH. lia. Qed.

Definition leaves_text (l : list tok) : list chr := concat (List.map snd l).
Lemma leaves_text_app a b : leaves_text (a ++ b) = leaves_text a ++ leaves_text b.
Proof. unfold leaves_text. rewrite map_app, concat_app. reflexivity. Qed.

Lemma annotate_end t : forall pos, snd (annotate pos t) = pos + utf8_size (leaves_text (leaves t)).
Proof.
  induction t as [k text|k ch IH] using gtree_ind2; intros pos.
  - cbn [annotate snd leaves]. unfold leaves_text. cbn. rewrite app_nil_r. reflexivity.
  - cbn [annotate]. rewrite leaves_N.
    set (go := fix go (p : N) (l : list tree) : list atree * N := match l with [] => ([], p) | x :: r => let '(ax, p1) := annotate p x in let '(ar, p2) := go p1 r in (ax :: ar, p2) end).
    assert (G : forall p, snd (go p ch) = p + utf8_size (leaves_text (leavesf ch))).
    { induction IH as [|x r Hx _ IHr]; intros p; cbn [go snd leavesf]; [unfold leaves_text; cbn; lia|].
      specialize (Hx p). destruct (annotate p x) as [ax p1]. cbn [snd] in Hx. specialize (IHr p1). destruct (go p1 r) as [ar p2]. cbn [snd] in *.
      rewrite leaves_text_app, utf8_size_app. lia. }
    specialize (G pos). destruct (go pos ch) as [ach e]. cbn [snd] in *. exact G.
Qed.

Lemma annotate_forest_bound f : forall pos, all_within pos (pos + utf8_size (leaves_text (leavesf f))) (annotate_forest pos f).
Proof.
  induction f as [|x r IH]; intros pos; cbn [annotate_forest leavesf]; [exact I|].
  destruct (annotate_within x pos) as [H1 H2]. pose proof (annotate_end x pos) as He. destruct (annotate pos x) as [ax p]. cbn [fst snd] in *.
  rewrite leaves_text_app, utf8_size_app. split.
  - apply (within_weaken pos p); [lia|lia|exact H2].
  - specialize (IH p). subst p. rewrite N.add_assoc.
    revert IH. generalize (annotate_forest (pos + utf8_size (leaves_text (leaves x))) r).
    induction l as [|y l IHl]; cbn; [tauto|]. intros [A B]. split; [eapply within_weaken; [| |exact A]; lia|auto].
Qed.

(* every error a query reports has a source range inside the text, from a node start to a node end *)
Theorem query_error_spans debug describe facts (s : list chr) sp k :
  In (Error sp k) (fst (query debug describe facts s)) -> inside 0 (utf8_size s) sp.
Proof.
  unfold query. destruct (parse_root (tokens s)) as [f|] eqn:Ep; [|intros [H|[]]; discriminate].
  pose proof (annotate_forest_bound f 0) as Hb. rewrite N.add_0_l in Hb.
  assert (Hs : leaves_text (leavesf f) = s) by (apply (source_leaves s f Ep)). rewrite Hs in Hb.
  assert (G : forall roots d, (forall x, In x roots -> within 0 (utf8_size s) x) ->
            In (Error sp k) (fst (eval_roots debug facts describe roots d)) -> inside 0 (utf8_size s) sp).
  { induction roots as [|t r IH]; intros d Hr; cbn [eval_roots]; [intros []|].
    pose proof (eval_err_inside debug facts describe 0 (utf8_size s) (S (asize t)) t d (Hr t (or_introl eq_refl))) as H1.
    destruct (eval debug facts describe (S (asize t)) t d) as [x d1]. destruct (eval_roots debug facts describe r d1) as [xs d2] eqn:E.
    cbn [fst]. intros [Hx|Hin]; [subst x; exact (H1 sp k eq_refl)|].
    apply (IH d1); [intros y Hy; apply Hr; right; exact Hy|rewrite E; exact Hin]. }
  apply G. intros x Hx. unfold skip_tokens in Hx. apply filter_In in Hx as [Hx _]. eapply all_within_in; eauto.
Qed.

Example span_example :
  fst (query true false [] [49; 32; 109; 32; 43; 32; 49; 32; 115; 8195]%N) = [Error (0%N, 9%N) IllegalOperation].
Proof. vm_compute. reflexivity. Qed.
