(* C07 at full strength: a well-formed literal, typed as a query (alone or followed by a percent sign), evaluates to exactly the
   number it spells: lexer (one NUMBER token) + parser + evaluator + number parser composed. *)
From Coq Require Import ZArith NArith QArith List Bool Lia.
Import ListNotations.
From AV Require Import model.Syntax model.Lexer model.Grammar model.Literal spec.LiteralSpec model.Rat model.Eval model.Run
  proofs.LiteralProofs proofs.LiteralQuery proofs.LexLiteral.
Local Open Scope N_scope.

Lemma lex_nil k e : lex k e [] = [].
Proof. destruct k; reflexivity. Qed.

Theorem literal_one_token l : well_formed l -> tokens (chars_of (render l)) = [(NUMBER, chars_of (render l))].
Proof.
  intros W. pose proof (literal_first_token l [] W I) as H. rewrite app_nil_r in H. unfold tokens.
  destruct (chars_of (render l)) as [|c r] eqn:E.
  - exfalso. cbn in H. discriminate.
  - cbn [length lex]. rewrite H, lex_nil. reflexivity.
Qed.

Theorem literal_percent_tokens l : well_formed l ->
  tokens (chars_of (render l) ++ [37]) = [(NUMBER, chars_of (render l)); (PERCENTAGE, [37])].
Proof.
  intros W. assert (S : stops [37]) by (repeat split; reflexivity).
  pose proof (literal_first_token l [37] W S) as H. unfold tokens.
  destruct (chars_of (render l)) as [|c r] eqn:E.
  - exfalso. cbn in H. discriminate.
  - cbn [app length lex]. cbn [app] in H. rewrite H. rewrite app_length. cbn [length]. rewrite Nat.add_comm. cbn [Nat.add lex].
    unfold next. cbn. rewrite lex_nil. reflexivity.
Qed.

(* ASCII bytes are their own UTF-8 encoding *)
Lemma ascii_utf8 bs : Forall (fun b => (0 <= b < 128)%Z) bs -> map Z.of_N (utf8 (chars_of bs)) = bs.
Proof.
  induction 1 as [|b bs Hb _ IH]; [reflexivity|]. unfold utf8, chars_of in *. cbn [map flat_map]. unfold utf8_bytes at 1.
  assert (L : (Z.to_N b <? 128) = true) by (apply N.ltb_lt; lia). rewrite L. cbn [app map]. rewrite IH. f_equal. lia.
Qed.

Lemma digits_ascii ds : digits_ok ds -> Forall (fun b => (0 <= b < 128)%Z) (map dbyte ds).
Proof. unfold digits_ok. induction 1 as [|d ds Hd _ IH]; cbn [map]; constructor; [unfold dbyte; lia|exact IH]. Qed.

Lemma render_ascii l : well_formed l -> Forall (fun b => (0 <= b < 128)%Z) (render l).
Proof.
  intros (H1 & H2 & H3 & H4 & H5). unfold render. repeat (apply Forall_app; split).
  - destruct (lneg l) as [[|]|]; cbn; repeat constructor; lia.
  - apply digits_ascii. exact H1.
  - unfold fracd in H2. destruct (lfrac l); [constructor; [lia|apply digits_ascii; exact H2]|constructor].
  - destruct (lexp l) as [[[c s] e]|]; cbn [exp_bytes]; [|constructor]. destruct H4 as (A & _).
    constructor; [destruct c; lia|]. apply Forall_app; split; [destruct s as [[|]|]; cbn; repeat constructor; lia|apply digits_ascii; exact A].
Qed.

(* C07 at full strength: a well-formed literal typed as a query evaluates to exactly the number it spells *)
Theorem literal_query debug describe facts l : well_formed l ->
  query debug describe facts (chars_of (render l)) = ([Ok (to_Q (spelled_num l) (spelled_scale l), [])], []).
Proof.
  intros W. rewrite (query_number debug describe facts _ (literal_one_token l W)). unfold literal_result.
  rewrite (ascii_utf8 _ (render_ascii l W)), (from_str_exact l W). reflexivity.
Qed.

Theorem literal_percent_query debug describe facts l : well_formed l ->
  query debug describe facts (chars_of (render l) ++ [37]) = ([Ok ((to_Q (spelled_num l) (spelled_scale l) / (100 # 1))%Q, [])], []).
Proof.
  intros W. rewrite (query_percent debug describe facts _ _ (literal_percent_tokens l W)). unfold percent_result.
  rewrite (ascii_utf8 _ (render_ascii l W)), (from_str_exact l W). reflexivity.
Qed.
