(* C04: `Compound::mul` with `reconstruct` / `bases_match` / `inner_match` preserves the SI value and adds the dimensions,
   whichever derived units the matching heuristic chooses to re-introduce. *)
From Coq Require Import ZArith NArith QArith Qpower Qfield List Bool Sorted Lia.
Import ListNotations.
From AV Require Import model.UnitTypes model.Map model.Units model.Rat model.Compound model.Eval proofs.MapProofs proofs.FactorProofs gen.UnitDefs.
Open Scope Z_scope.

(* ---- dimension and scale of a compound under map updates ---- *)
Definition udim (k : N) (o : option state) (b : unit) : Z := match o with Some s => spower s * cdim k b | None => 0 end.
Definition uscale (k : N) (o : option state) : Q := match o with Some s => unit_scale (k, s) | None => 1%Q end.

Lemma dim_cons us (c : compound) b : dim (us :: c) b = spower (snd us) * cdim (fst us) b + dim c b.
Proof. reflexivity. Qed.
Lemma scale_cons us (c : compound) : scale (us :: c) = (unit_scale us * scale c)%Q.
Proof. reflexivity. Qed.

Lemma dim_above (c : compound) k b : above k c -> udim k (get c k) b = 0.
Proof. intros H. rewrite (get_above c k H). reflexivity. Qed.

Lemma dim_put (c : compound) k st b : wfm c -> dim (put c k st) b = dim c b - udim k (get c k) b + spower st * cdim k b.
Proof.
  induction c as [|[k' s'] r IH]; intros W; cbn [put get].
  - rewrite dim_cons. cbn. lia.
  - apply wfm_cons in W as [W1 W2]. destruct (N.eqb_spec k' k) as [->|Hn].
    + rewrite !dim_cons. cbn [fst snd udim]. lia.
    + destruct (k <? k')%N eqn:E.
      * rewrite !dim_cons. cbn [fst snd]. apply N.ltb_lt in E.
        assert (get r k = None) as -> by (apply get_above; eapply above_trans; eauto). cbn. lia.
      * rewrite !dim_cons, IH by exact W1. cbn [fst snd]. lia.
Qed.
Lemma dim_del (c : compound) k b : wfm c -> dim (del c k) b = dim c b - udim k (get c k) b.
Proof.
  induction c as [|[k' s'] r IH]; intros W; cbn [del get]; [cbn; lia|].
  apply wfm_cons in W as [W1 W2]. destruct (N.eqb_spec k' k) as [->|Hn].
  - rewrite dim_cons. cbn [fst snd udim]. lia.
  - rewrite !dim_cons, IH by exact W1. cbn [fst snd]. lia.
Qed.

Lemma unit_scale_nz us : ~ (unit_scale us == 0)%Q.
Proof. intros H. pose proof (unit_scale_pos us) as P. rewrite H in P. discriminate P. Qed.
Lemma uscale_nz k o : ~ (uscale k o == 0)%Q.
Proof. destruct o; cbn; [apply unit_scale_nz|discriminate]. Qed.

Lemma scale_put (c : compound) k st : wfm c -> (scale (put c k st) * uscale k (get c k) == scale c * unit_scale (k, st))%Q.
Proof.
  induction c as [|[k' s'] r IH]; intros W; cbn [put get].
  - unfold scale. cbn [fold_right uscale]. ring.
  - apply wfm_cons in W as [W1 W2]. destruct (N.eqb_spec k' k) as [->|Hn].
    + rewrite !scale_cons. cbn [uscale]. ring.
    + destruct (k <? k')%N eqn:E.
      * rewrite !scale_cons. apply N.ltb_lt in E.
        assert (get r k = None) as -> by (apply get_above; eapply above_trans; eauto). cbn [uscale]. ring.
      * rewrite !scale_cons. rewrite <- Qmult_assoc, IH by exact W1. ring.
Qed.
Lemma scale_del (c : compound) k : wfm c -> (scale (del c k) * uscale k (get c k) == scale c)%Q.
Proof.
  induction c as [|[k' s'] r IH]; intros W; cbn [del get]; [unfold scale; cbn [fold_right uscale]; ring|].
  apply wfm_cons in W as [W1 W2]. destruct (N.eqb_spec k' k) as [->|Hn].
  - rewrite scale_cons. cbn [uscale]. ring.
  - rewrite !scale_cons. rewrite <- Qmult_assoc, IH by exact W1. reflexivity.
Qed.

(* ---- entries with prefix zero ---- *)
Definition prefix0 (c : compound) : Prop := Forall (fun us => sprefix (snd us) = 0) c.
Lemma prefix0_get (c : compound) k s : prefix0 c -> get c k = Some s -> sprefix s = 0.
Proof. intros H Hg. apply get_In in Hg. unfold prefix0 in H. rewrite Forall_forall in H. apply (H _ Hg). Qed.

Lemma fac_base u : is_base u = true -> fac u = 1%Q.
Proof. intros H. unfold fac, conv_of, derived. rewrite H. reflexivity. Qed.
Lemma unit_scale_p0 (u : N) (p : Z) : (unit_scale (u, (p, 0%Z)) == fac u ^ p)%Q.
Proof. unfold unit_scale. cbn [fst snd sprefix spower]. replace (0 * p) with 0 by lia. change (pow10 0) with 1%Q. ring. Qed.
Lemma unit_scale_base (u : N) (p : Z) : is_base u = true -> (unit_scale (u, (p, 0%Z)) == 1)%Q.
Proof. intros H. rewrite unit_scale_p0, (fac_base u H). apply Qpower_1. Qed.

(* ---- the initial base map of mul ---- *)
Definition all_base (m : powers) : Prop := Forall (fun kv => is_base (fst kv) = true) m.

Lemma is_base_key i : is_base (base_key i) = true.
Proof. unfold is_base, base_key, BASE_CODE. apply N.leb_le. lia. Qed.
Lemma closure_base u : Forall (fun bk => is_base (fst bk) = true) (closure_of u).
Proof.
  unfold closure_of. destruct (is_base u) eqn:E; [repeat constructor; exact E|].
  destruct (derived u) as [[[[[i cl] c] sg] pl]|]; [|constructor]. apply Forall_forall. intros bk Hin.
  apply in_map_iff in Hin as [x [<- _]]. apply is_base_key.
Qed.
Lemma pinsert_all_base m u p : all_base m -> is_base u = true -> all_base (pinsert m u p).
Proof.
  intros H Hu. unfold pinsert, all_base. destruct (get m u); [destruct (_ =? 0); [apply del_Forall|apply put_Forall]|destruct (p =? 0); [|apply put_Forall]]; auto.
Qed.
Lemma add_closure_all_base m u p : all_base m -> all_base (add_closure m u p).
Proof.
  unfold add_closure. pose proof (closure_base u) as Hc. revert m. induction Hc as [|bk r Hb _ IH]; intros m Hm; cbn [fold_left]; [exact Hm|].
  apply IH. apply pinsert_all_base; assumption.
Qed.
Lemma bu_step_all_base acc us : all_base (snd acc) -> all_base (snd (bu_step acc us)).
Proof.
  intros H. unfold bu_step. destruct (is_base (fst us)) eqn:E; cbn [snd]; [apply pinsert_all_base|apply add_closure_all_base]; assumption.
Qed.
Lemma base_units_all_base (c : compound) : all_base (snd (base_units c)).
Proof.
  unfold base_units. assert (G : forall acc, all_base (snd acc) -> all_base (snd (fold_left bu_step c acc))).
  { induction c as [|us r IH]; intros acc Hm; cbn [fold_left]; [exact Hm|]. apply IH. apply bu_step_all_base. exact Hm. }
  apply G. constructor.
Qed.

Definition lift (m : powers) : compound := List.map (fun bp => (fst bp, (snd bp, 0))) m.
Lemma keys_lift m : keys (lift m) = keys m.
Proof. unfold keys, lift. rewrite map_map. reflexivity. Qed.
Lemma lift_wfm m : wfm m -> wfm (lift m).
Proof. unfold wfm. rewrite keys_lift. auto. Qed.
Lemma get_lift m k : get (lift m) k = match get m k with Some p => Some (p, 0) | None => None end.
Proof. induction m as [|[k' p] r IH]; cbn; [reflexivity|]. destruct (k' =? k)%N; [reflexivity|exact IH]. Qed.
Lemma lift_prefix0 m : prefix0 (lift m).
Proof. unfold prefix0, lift. apply Forall_forall. intros us H. apply in_map_iff in H as [x [<- _]]. reflexivity. Qed.

Definition basic (c : compound) : Prop := Forall (fun us => is_base (fst us) = true /\ sprefix (snd us) = 0) c.
Lemma basic_scale c : basic c -> (scale c == 1)%Q.
Proof.
  induction 1 as [|[u [p e]] r [Hb He] _ IH]; [reflexivity|]. rewrite scale_cons, IH. cbn in He. subst e. rewrite (unit_scale_base u p Hb). ring.
Qed.
Lemma basic_dim c b : wfm c -> basic c -> dim c b = match get c b with Some s => spower s | None => 0 end.
Proof.
  induction c as [|[u [p e]] r IH]; intros W H; [reflexivity|]. apply wfm_cons in W as [W1 W2]. inversion H as [|? ? [Hb He] Hr]; subst.
  rewrite dim_cons. cbn [fst snd spower get]. rewrite (cdim_base u b Hb). destruct (N.eqb_spec u b) as [->|Hn].
  - rewrite (IH W1 Hr). rewrite (get_above r b W2). cbn [spower fst]. lia.
  - rewrite (IH W1 Hr). lia.
Qed.
Lemma lift_basic m : all_base m -> basic (lift m).
Proof.
  intros H. unfold basic, lift. apply Forall_forall. intros us Hin. apply in_map_iff in Hin as [x [<- Hx]].
  unfold all_base in H. rewrite Forall_forall in H. split; [apply (H _ Hx)|reflexivity].
Qed.
Lemma basic_put c k p : basic c -> is_base k = true -> basic (put c k (p, 0)).
Proof. intros H Hk. apply put_Forall; [exact H|split; [exact Hk|reflexivity]]. Qed.
Lemma basic_del c k : basic c -> basic (del c k).
Proof. apply del_Forall. Qed.

(* names1: the left bases, then the right bases times n folded in *)
Definition merge_step (n : Z) (nm : compound) (bp : unit * Z) : compound :=
  match get nm (fst bp) with
  | None => put nm (fst bp) (snd bp * n, 0)
  | Some (p, e) => let p' := p + snd bp * n in if p' =? 0 then del nm (fst bp) else put nm (fst bp) (p', e)
  end.
Definition pw_of (c : compound) (b : unit) : Z := match get c b with Some s => spower s | None => 0 end.

Lemma merge_step_spec n nm bp b : wfm nm -> basic nm -> is_base (fst bp) = true ->
  wfm (merge_step n nm bp) /\ basic (merge_step n nm bp) /\
  pw_of (merge_step n nm bp) b = pw_of nm b + (if (fst bp =? b)%N then snd bp * n else 0).
Proof.
  intros W B Hb. unfold merge_step, pw_of. destruct bp as [k v]. cbn [fst snd] in *.
  destruct (get nm k) as [[p e]|] eqn:E.
  - assert (e = 0) by (apply get_In in E; unfold basic in B; rewrite Forall_forall in B; destruct (B _ E) as [_ H]; exact H). subst e.
    cbv zeta. destruct (p + v * n =? 0) eqn:E0.
    + split; [apply del_wfm; exact W|]. split; [apply basic_del; exact B|].
      destruct (N.eqb_spec k b) as [->|Hn]; [rewrite get_del_same by exact W; rewrite E; cbn; apply Z.eqb_eq in E0; lia|rewrite get_del_other by exact Hn; lia].
    + split; [apply put_wfm; exact W|]. split; [apply basic_put; assumption|].
      destruct (N.eqb_spec k b) as [->|Hn]; [rewrite get_put_same, E; cbn; lia|rewrite get_put_other by exact Hn; lia].
  - split; [apply put_wfm; exact W|]. split; [apply basic_put; assumption|].
    destruct (N.eqb_spec k b) as [->|Hn]; [rewrite get_put_same, E; cbn; lia|rewrite get_put_other by exact Hn; lia].
Qed.
Lemma merge_fold n rb : all_base rb -> wfm rb -> forall nm b, wfm nm -> basic nm ->
  wfm (fold_left (merge_step n) rb nm) /\ basic (fold_left (merge_step n) rb nm) /\
  pw_of (fold_left (merge_step n) rb nm) b = pw_of nm b + n * getz rb b.
Proof.
  induction rb as [|[k v] r IH]; intros Hab Wr nm b W B; cbn [fold_left]; [unfold getz; cbn; repeat split; auto; lia|].
  inversion Hab as [|? ? Hk Hr]; subst. apply wfm_cons in Wr as [Wr1 Wr2].
  destruct (merge_step_spec n nm (k, v) b W B Hk) as (W1 & B1 & P1).
  destruct (IH Hr Wr1 (merge_step n nm (k, v)) b W1 B1) as (W2 & B2 & P2). split; [exact W2|]. split; [exact B2|].
  rewrite P2, P1. cbn [fst snd]. unfold getz. cbn [get]. destruct (N.eqb_spec k b) as [->|Hn].
  - rewrite (get_above r b Wr2). lia.
  - lia.
Qed.

(* ---- bases_match guarantees that every base of the closure is present ---- *)
Lemma all_match_present names pw : forall cur dec m, all_match names pw cur dec = Some m ->
  Forall (fun bk : unit * Z => get names (fst bk) <> None) pw.
Proof.
  induction pw as [|[u p] r IH]; intros cur dec m H; [constructor|]. cbn [all_match] in H.
  destruct (inner_match names u p cur dec) as [ok cur'] eqn:E. destruct ok; [|discriminate].
  constructor; [|eapply IH; eauto]. cbn [fst]. unfold inner_match in E. destruct (get names u); [discriminate|inversion E].
Qed.

(* ---- subtracting the closure from the base entries ---- *)
Definition sub_step (m : Z) (nm : compound) (us : unit * Z) : compound :=
  match get nm (fst us) with
  | Some (p, e) => let p' := p - snd us * m in if p' =? 0 then del nm (fst us) else put nm (fst us) (p', e)
  | None => nm
  end.
Lemma sub_bases_fold names pw m : sub_bases names pw m = fold_left (sub_step m) pw names.
Proof. reflexivity. Qed.

Lemma sub_step_spec m nm k v : wfm nm -> prefix0 nm -> is_base k = true -> get nm k <> None ->
  wfm (sub_step m nm (k, v)) /\ prefix0 (sub_step m nm (k, v)) /\ (scale (sub_step m nm (k, v)) == scale nm)%Q /\
  (forall b, dim (sub_step m nm (k, v)) b = dim nm b - m * (if (k =? b)%N then v else 0)) /\
  (forall u, u <> k -> get (sub_step m nm (k, v)) u = get nm u).
Proof.
  intros W P Hb Hp. unfold sub_step. cbn [fst snd]. destruct (get nm k) as [[p e]|] eqn:E; [|congruence].
  assert (e = 0) by (apply (prefix0_get nm k (p, e) P E)). subst e. cbv zeta.
  assert (S1 : (uscale k (get nm k) == 1)%Q) by (rewrite E; cbn [uscale]; apply unit_scale_base; exact Hb).
  destruct (p - v * m =? 0) eqn:E0.
  - split; [apply del_wfm; exact W|]. split; [apply del_Forall; exact P|]. split; [|split].
    + pose proof (scale_del nm k W) as H. rewrite S1, Qmult_1_r in H. exact H.
    + intros b. rewrite dim_del by exact W. rewrite E. cbn [udim spower fst]. rewrite (cdim_base k b Hb). apply Z.eqb_eq in E0.
      destruct (k =? b)%N; lia.
    + intros u Hu. apply get_del_other. congruence.
  - split; [apply put_wfm; exact W|]. split; [apply put_Forall; [exact P|reflexivity]|]. split; [|split].
    + pose proof (scale_put nm k (p - v * m, 0) W) as H. rewrite S1, Qmult_1_r in H. rewrite H.
      rewrite (unit_scale_base k _ Hb). ring.
    + intros b. rewrite dim_put by exact W. rewrite E. cbn [udim spower fst]. rewrite (cdim_base k b Hb). destruct (k =? b)%N; lia.
    + intros u Hu. apply get_put_other. congruence.
Qed.

Lemma sub_bases_spec m pw : wfm pw -> all_base pw -> forall nm, wfm nm -> prefix0 nm ->
  Forall (fun bk : unit * Z => get nm (fst bk) <> None) pw ->
  wfm (fold_left (sub_step m) pw nm) /\ prefix0 (fold_left (sub_step m) pw nm) /\
  (scale (fold_left (sub_step m) pw nm) == scale nm)%Q /\
  (forall b, dim (fold_left (sub_step m) pw nm) b = dim nm b - m * getz pw b) /\
  (forall u, ~ In u (keys pw) -> get (fold_left (sub_step m) pw nm) u = get nm u).
Proof.
  induction pw as [|[k v] r IH]; intros Wp Hab nm W P Hpres; cbn [fold_left].
  - repeat split; auto; try reflexivity. intros b. unfold getz. cbn. lia.
  - apply wfm_cons in Wp as [Wp1 Wp2]. inversion Hab as [|? ? Hk Hr]; subst. inversion Hpres as [|? ? Hpk Hpr]; subst. cbn [fst] in *.
    destruct (sub_step_spec m nm k v W P Hk Hpk) as (W1 & P1 & S1 & D1 & G1).
    assert (Hpres' : Forall (fun bk : unit * Z => get (sub_step m nm (k, v)) (fst bk) <> None) r).
    { apply Forall_forall. intros bk Hin. rewrite G1; [rewrite Forall_forall in Hpr; apply (Hpr _ Hin)|].
      intros Ek. unfold above in Wp2. rewrite Forall_forall in Wp2. specialize (Wp2 _ (in_map fst _ _ Hin)). rewrite Ek in Wp2. lia. }
    destruct (IH Wp1 Hr (sub_step m nm (k, v)) W1 P1 Hpres') as (W2 & P2 & S2 & D2 & G2).
    split; [exact W2|]. split; [exact P2|]. split; [rewrite S2; exact S1|]. split.
    + intros b. rewrite D2, D1. unfold getz. cbn [get]. destruct (N.eqb_spec k b) as [->|Hn].
      * rewrite (get_above r b Wp2). lia.
      * lia.
    + intros u Hu. cbn [keys List.map fst] in Hu. rewrite G2 by (intros H; apply Hu; right; exact H). apply G1. intros ->. apply Hu. left. reflexivity.
Qed.

(* ---- one step of reconstruct ---- *)
Definition inv (names : compound) : Prop := wfm names /\ prefix0 names.

Lemma closure_powers u : wfp (add_closure [] u 1) /\ all_base (add_closure [] u 1) /\ forall b, getz (add_closure [] u 1) b = cdim u b.
Proof.
  destruct (add_closure_spec [] u 1 0%N wfp_nil) as [W _]. split; [exact W|]. split; [apply add_closure_all_base; constructor|].
  intros b. destruct (add_closure_spec [] u 1 b wfp_nil) as [_ G]. rewrite G. unfold getz. cbn [get]. lia.
Qed.

Lemma derived_not_in_closure u : is_base u = false -> ~ In u (keys (add_closure [] u 1)).
Proof.
  intros Hu Hin. destruct (closure_powers u) as (_ & Hab & _). unfold all_base in Hab. rewrite Forall_forall in Hab.
  apply in_map_iff in Hin as [[k v] [E Hin]]. cbn in E. subst k. specialize (Hab _ Hin). cbn in Hab. congruence.
Qed.

Lemma fac_nz u : ~ (fac u == 0)%Q.
Proof. intros H. pose proof (fac_pos u) as P. rewrite H in P. discriminate P. Qed.

Lemma reconstruct_step_spec names out u power n : inv names -> is_base u = false ->
  forall names' out', reconstruct_step (Some (names, out)) (u, power, n) = Some (names', out') ->
  inv names' /\ (out' * scale names' == out * scale names)%Q /\ forall b, dim names' b = dim names b.
Proof.
  intros [W P] Hu names' out'. unfold reconstruct_step. destruct (has_offset u) eqn:Ho.
  { intros H. inversion H; subst. repeat split; auto; reflexivity. }
  destruct (bases_match (power * n) (add_closure [] u 1) names) as [m|] eqn:Em.
  2:{ intros H. inversion H; subst. repeat split; auto; reflexivity. }
  destruct (closure_powers u) as ((Wp & _) & Hab & Hg).
  unfold bases_match in Em. pose proof (all_match_present _ _ _ _ _ Em) as Hpres.
  rewrite sub_bases_fold.
  destruct (sub_bases_spec m (add_closure [] u 1) Wp Hab names W P Hpres) as (W1 & P1 & S1 & D1 & G1).
  set (names1 := fold_left (sub_step m) (add_closure [] u 1) names) in *.
  destruct (apply_conversion_prop (- m) false out u Ho) as (o' & Eo & Qo). rewrite Eo.
  assert (Hgu : get names1 u = get names u) by (apply G1; apply derived_not_in_closure; exact Hu).
  destruct (get names1 u) as [[p e]|] eqn:Eg; intros H; inversion H; subst names' out'; clear H.
  - assert (e = 0) by (apply (prefix0_get names1 u (p, e) P1 Eg)). subst e.
    split; [split; [apply put_wfm; exact W1|apply put_Forall; [exact P1|reflexivity]]|]. split.
    + pose proof (scale_put names1 u (p + m, 0) W1) as Hs. rewrite Eg in Hs. cbn [uscale] in Hs.
      rewrite !unit_scale_p0 in Hs. rewrite Qo. rewrite <- S1.
      assert (Hp : (fac u ^ (p + m) == fac u ^ p * fac u ^ m)%Q) by (apply Qpower_plus; apply fac_nz).
      rewrite Hp in Hs. rewrite Qpower_opp.
      pose proof (Qpower_not_0 (fac u) p (fac_nz u)) as N1. pose proof (Qpower_not_0 (fac u) m (fac_nz u)) as N2.
      revert Hs N1 N2. generalize (Qpower (fac u) p) as Fp. generalize (Qpower (fac u) m) as Fm.
      generalize (scale (put names1 u (p + m, 0))) as X. generalize (scale names1) as Y. intros Y X Fm Fp Hs N1 N2.
      apply (Qmult_inj_r _ _ Fp N1).
      transitivity (out * / Fm * (X * Fp))%Q; [ring|]. rewrite Hs. field. exact N2.
    + intros b. rewrite dim_put by exact W1. rewrite Eg. cbn [udim spower fst]. rewrite D1, Hg. lia.
  - split; [split; [apply put_wfm; exact W1|apply put_Forall; [exact P1|reflexivity]]|]. split.
    + pose proof (scale_put names1 u (m, 0) W1) as Hs. rewrite Eg in Hs. cbn [uscale] in Hs. rewrite Qmult_1_r in Hs.
      rewrite Hs, unit_scale_p0, Qo, S1. rewrite Qpower_opp. pose proof (Qpower_not_0 (fac u) m (fac_nz u)) as N2. field. exact N2.
    + intros b. rewrite dim_put by exact W1. rewrite Eg. cbn [udim spower fst]. rewrite D1, Hg. lia.
Qed.

Lemma reconstruct_none der : fold_left reconstruct_step der None = None.
Proof. induction der as [|d r IH]; [reflexivity|exact IH]. Qed.

Lemma reconstruct_fold der : Forall (fun d : unit * Z * Z => is_base (fst (fst d)) = false) der ->
  forall names out names' out', inv names -> fold_left reconstruct_step der (Some (names, out)) = Some (names', out') ->
  inv names' /\ (out' * scale names' == out * scale names)%Q /\ forall b, dim names' b = dim names b.
Proof.
  induction 1 as [|[[u power] n] r Hu _ IH]; intros names out names' out' Hi H; cbn [fold_left] in H.
  - inversion H; subst. repeat split; try apply Hi; reflexivity.
  - destruct (reconstruct_step (Some (names, out)) (u, power, n)) as [[names1 out1]|] eqn:E; [|rewrite reconstruct_none in H; discriminate].
    destruct (reconstruct_step_spec names out u power n Hi Hu names1 out1 E) as (I1 & S1 & D1).
    destruct (IH names1 out1 names' out' I1 H) as (I2 & S2 & D2).
    split; [exact I2|]. split; [rewrite S2; exact S1|]. intros b. rewrite D2. apply D1.
Qed.

(* ---- Compound::mul ---- *)
Lemma bu_step_der acc us : Forall (fun d : unit * Z => is_base (fst d) = false) (fst acc) ->
  Forall (fun d : unit * Z => is_base (fst d) = false) (fst (bu_step acc us)).
Proof.
  intros H. unfold bu_step. destruct (is_base (fst us)) eqn:E; cbn [fst]; [exact H|]. apply Forall_app. split; [exact H|repeat constructor; exact E].
Qed.
Lemma base_units_der (c : compound) : Forall (fun d : unit * Z => is_base (fst d) = false) (fst (base_units c)).
Proof.
  unfold base_units. assert (G : forall acc, Forall (fun d : unit * Z => is_base (fst d) = false) (fst acc) ->
    Forall (fun d : unit * Z => is_base (fst d) = false) (fst (fold_left bu_step c acc))).
  { induction c as [|us r IH]; intros acc H; cbn [fold_left]; [exact H|]. apply IH. apply bu_step_der. exact H. }
  apply G. constructor.
Qed.

Lemma pw_of_lift m b : pw_of (lift m) b = getz m b.
Proof. unfold pw_of, getz. rewrite get_lift. destruct (get m b); reflexivity. Qed.

Theorem mul_si (self other : compound) n lhs rhs c l r : self <> [] -> other <> [] -> proportional self -> proportional other ->
  mul self other n lhs rhs = Some (c, l, r) ->
  (l * scale c == lhs * scale self)%Q /\ (r == rhs * scale other)%Q /\
  (forall b, dim c b = dim self b + n * dim other b) /\ wfm c.
Proof.
  intros Hs Ho Ps Po. unfold mul.
  destruct self as [|s0 sr]; [congruence|]. destruct other as [|o0 or]; [congruence|]. cbn [is_empty orb].
  set (self := s0 :: sr) in *. set (other := o0 :: or) in *.
  destruct (base_units_spec self) as [[Wl Zl] Gl]. destruct (base_units_spec other) as [[Wr Zr] Gr].
  pose proof (base_units_all_base self) as Al. pose proof (base_units_all_base other) as Ar.
  pose proof (base_units_der self) as Dl. pose proof (base_units_der other) as Dr.
  destruct (base_units self) as [lder lb]. destruct (base_units other) as [rder rb]. cbn [fst snd] in *.
  change (fold_left _ rb (List.map (fun bp : unit * Z => (fst bp, (snd bp, 0))) lb)) with (fold_left (merge_step n) rb (lift lb)).
  destruct (scale_in_spec self lhs Ps) as (l1 & El & Ql). rewrite El.
  destruct (scale_in_spec other rhs Po) as (r1 & Er & Qr). rewrite Er.
  destruct (fold_left reconstruct_step _ _) as [[names l2]|] eqn:Ef; [|discriminate].
  intros H. inversion H; subst c l r. clear H.
  set (names1 := fold_left (merge_step n) rb (lift lb)) in *.
  assert (Hm : wfm names1 /\ basic names1 /\ forall b, pw_of names1 b = pw_of (lift lb) b + n * getz rb b).
  { destruct (merge_fold n rb Ar Wr (lift lb) 0%N (lift_wfm lb Wl) (lift_basic lb Al)) as (W1 & B1 & _). split; [exact W1|]. split; [exact B1|].
    intros b. destruct (merge_fold n rb Ar Wr (lift lb) b (lift_wfm lb Wl) (lift_basic lb Al)) as (_ & _ & P1). exact P1. }
  destruct Hm as (W1 & B1 & P1).
  assert (I1 : inv names1).
  { split; [exact W1|]. unfold prefix0. eapply Forall_impl; [|exact B1]. intros us [_ H]. exact H. }
  assert (Hder : Forall (fun d : unit * Z * Z => is_base (fst (fst d)) = false)
                   (List.map (fun up : unit * Z => (fst up, snd up, 1)) lder ++ List.map (fun up : unit * Z => (fst up, snd up, n)) rder)).
  { apply Forall_app. split; apply Forall_forall; intros d Hin; apply in_map_iff in Hin as [x [<- Hx]]; cbn [fst].
    - rewrite Forall_forall in Dl. apply (Dl _ Hx).
    - rewrite Forall_forall in Dr. apply (Dr _ Hx). }
  destruct (reconstruct_fold _ Hder names1 l1 names l2 I1 Ef) as ([Wn Pn] & Sn & Dn).
  split; [|split; [exact Qr|split; [|exact Wn]]].
  - rewrite Sn, (basic_scale names1 B1), Qmult_1_r. exact Ql.
  - intros b. rewrite Dn, (basic_dim names1 b W1 B1). change (match get names1 b with Some s => spower s | None => 0 end) with (pw_of names1 b).
    rewrite P1, pw_of_lift, Gl, Gr. reflexivity.
Qed.

(* the shortcut when one side has no unit *)
Definition cscale_n (other : compound) (n : Z) : compound := List.map (fun us => (fst us, (spower (snd us) * n, sprefix (snd us)))) other.
Lemma scale_n other n : (scale (cscale_n other n) == scale other ^ n)%Q.
Proof.
  induction other as [|[u [p e]] r IH].
  - change (scale (cscale_n [] n)) with 1%Q. change (scale []) with 1%Q. rewrite Qpower_1. reflexivity.
  - change (cscale_n ((u, (p, e)) :: r) n) with ((u, (p * n, e)) :: cscale_n r n). rewrite !scale_cons, IH.
    rewrite Qmult_power. unfold unit_scale. cbn [fst snd sprefix spower]. rewrite Qmult_power. unfold pow10.
    rewrite <- !Qpower_mult. rewrite Z.mul_assoc. reflexivity.
Qed.
Lemma dim_n other n b : dim (cscale_n other n) b = n * dim other b.
Proof.
  induction other as [|[u [p e]] r IH]; [cbn; lia|].
  change (cscale_n ((u, (p, e)) :: r) n) with ((u, (p * n, e)) :: cscale_n r n). rewrite !dim_cons, IH. cbn [fst snd spower]. lia.
Qed.
Lemma mul_empty_left other n lhs rhs : mul [] other n lhs rhs = Some (cscale_n other n, lhs, rhs).
Proof. reflexivity. Qed.
Lemma mul_empty_right (self : compound) n lhs rhs : self <> [] -> mul self [] n lhs rhs = Some (self, lhs, rhs).
Proof. intros H. unfold mul. destruct self; [congruence|]. reflexivity. Qed.

(* ---- the evaluator's * and / on quantities ---- *)
Definition si (x : numeric) : Q := (fst x * scale (snd x))%Q.

Lemma scale_nz c : ~ (scale c == 0)%Q.
Proof. intros H. pose proof (scale_pos c) as P. rewrite H in P. discriminate P. Qed.

Theorem op_mul_si span (a b r : numeric) : proportional (snd a) -> proportional (snd b) ->
  op_mul false span a b = Ok r -> (si r == si a * si b)%Q /\ forall x, dim (snd r) x = dim (snd a) x + dim (snd b) x.
Proof.
  intros Pa Pb. unfold op_mul, si. destruct a as [av au], b as [bv bu]. cbn [fst snd] in *.
  destruct au as [|a0 ar].
  - rewrite mul_empty_left. cbn [is_empty orb bind]. intros H. inversion H; subst r. cbn [fst snd]. split.
    + rewrite scale_n. change (scale []) with 1%Q. rewrite Qpower_1_r. ring.
    + intros x. rewrite dim_n. change (dim [] x) with 0. lia.
  - destruct bu as [|b0 br].
    + rewrite mul_empty_right by discriminate. cbn [is_empty orb bind]. intros H. inversion H; subst r. cbn [fst snd]. split.
      * change (scale []) with 1%Q. ring.
      * intros x. change (dim [] x) with 0. lia.
    + destruct (mul (a0 :: ar) (b0 :: br) 1 av bv) as [[[u l] rr]|] eqn:E; [|discriminate].
      cbn [is_empty orb checked_new andb bind]. intros H. inversion H; subst r. cbn [fst snd].
      assert (N1 : a0 :: ar <> ([] : compound)) by discriminate. assert (N2 : b0 :: br <> ([] : compound)) by discriminate.
      destruct (mul_si _ _ _ _ _ _ _ _ N1 N2 Pa Pb E) as (S1 & S2 & D & _). split.
      * rewrite <- S1, S2. ring.
      * intros x. rewrite D. lia.
Qed.

Theorem op_div_si span (a b r : numeric) : proportional (snd a) -> proportional (snd b) ->
  op_div false span a b = Ok r -> (si r == si a / si b)%Q /\ (forall x, dim (snd r) x = dim (snd a) x - dim (snd b) x) /\ ~ (si b == 0)%Q.
Proof.
  intros Pa Pb. unfold op_div, si. destruct a as [av au], b as [bv bu]. cbn [fst snd] in *.
  assert (Hz : forall v, is_zero v = false -> ~ (v == 0)%Q).
  { intros v H E. unfold is_zero, qnum in H. apply Z.eqb_neq in H. apply H. unfold Qeq in E. cbn in E. lia. }
  destruct au as [|a0 ar].
  - rewrite mul_empty_left. cbn [is_empty orb bind]. destruct (is_zero bv) eqn:Ez; [discriminate|]. intros H. inversion H; subst r. cbn [fst snd].
    pose proof (Hz _ Ez) as Nz. split; [|split].
    + rewrite scale_n. change (scale []) with 1%Q. change (-1) with (- (1)). rewrite Qpower_opp, Qpower_1_r. field. split; [apply scale_nz|exact Nz].
    + intros x. rewrite dim_n. change (dim [] x) with 0. lia.
    + intros E. apply (Qmult_integral) in E as [E|E]; [exact (Nz E)|exact (scale_nz _ E)].
  - destruct bu as [|b0 br].
    + rewrite mul_empty_right by discriminate. cbn [is_empty orb bind]. destruct (is_zero bv) eqn:Ez; [discriminate|]. intros H. inversion H; subst r. cbn [fst snd].
      pose proof (Hz _ Ez) as Nz. change (scale []) with 1%Q. split; [field; exact Nz|split; [intros x; change (dim [] x) with 0; lia|]].
      rewrite Qmult_1_r. exact Nz.
    + destruct (mul (a0 :: ar) (b0 :: br) (-1) av bv) as [[[u l] rr]|] eqn:E; [|discriminate].
      cbn [is_empty orb checked_new andb bind]. destruct (is_zero rr) eqn:Ez; [discriminate|]. intros H. inversion H; subst r. cbn [fst snd].
      assert (N1 : a0 :: ar <> ([] : compound)) by discriminate. assert (N2 : b0 :: br <> ([] : compound)) by discriminate.
      destruct (mul_si _ _ _ _ _ _ _ _ N1 N2 Pa Pb E) as (S1 & S2 & D & _).
      pose proof (Hz _ Ez) as Nz. rewrite S2 in Nz. split; [|split].
      * rewrite <- S1, <- S2. field. rewrite S2. exact Nz.
      * intros x. rewrite D. lia.
      * exact Nz.
Qed.

(* ---- totality: products and quotients of proportional quantities never fail with CompoundError ---- *)
Lemma reconstruct_step_total names out d : exists r, reconstruct_step (Some (names, out)) d = Some r.
Proof.
  destruct d as [[u power] n]. unfold reconstruct_step. destruct (has_offset u) eqn:Ho; [eexists; reflexivity|].
  destruct (bases_match _ _ _) as [m|]; [|eexists; reflexivity].
  destruct (apply_conversion_prop (- m) false out u Ho) as (o' & Eo & _). rewrite Eo. eexists; reflexivity.
Qed.
Lemma reconstruct_total der : forall names out, exists r, fold_left reconstruct_step der (Some (names, out)) = Some r.
Proof.
  induction der as [|d r IH]; intros names out; cbn [fold_left]; [eexists; reflexivity|].
  destruct (reconstruct_step_total names out d) as [[n1 o1] E]. rewrite E. apply IH.
Qed.
Theorem mul_total (self other : compound) n lhs rhs : proportional self -> proportional other -> mul self other n lhs rhs <> None.
Proof.
  intros Ps Po. unfold mul. destruct (is_empty self || is_empty other); [discriminate|].
  destruct (base_units self) as [lder lb]. destruct (base_units other) as [rder rb].
  destruct (scale_in_spec self lhs Ps) as (l1 & El & _). rewrite El.
  destruct (scale_in_spec other rhs Po) as (r1 & Er & _). rewrite Er.
  destruct (fold_left reconstruct_step _ _) as [[? ?]|] eqn:E2; [discriminate|]. exfalso.
  match type of E2 with fold_left reconstruct_step ?d (Some (?nm, ?o)) = None =>
    destruct (reconstruct_total d nm o) as [r E]; pose proof (eq_trans (eq_sym E) E2) as C; discriminate C end.
Qed.

(* ---- integer powers ---- *)
From AV Require Import spec.Arith proofs.EvalExact.

Lemma cpow_spec (u : compound) n c : cpow u n = Some c -> (scale c == scale u ^ n)%Q /\ forall b, dim c b = n * dim u b.
Proof.
  unfold cpow. destruct (n =? 0) eqn:E0.
  - apply Z.eqb_eq in E0. subst n. intros H. inversion H; subst c. split; [reflexivity|intros b; change (dim [] b) with 0; lia].
  - destruct (forallb _ u); [|discriminate]. intros H. inversion H; subst c. split; [apply scale_n|intros b; apply dim_n].
Qed.

Theorem op_pow_si span (x : Q) (u : compound) (p : Q) (r : numeric) : proportional u ->
  op_pow span (x, u) (p, []) = Ok r ->
  is_integer p = true /\ (si r == si (x, u) ^ to_integer p)%Q /\ forall b, dim (snd r) b = to_integer p * dim u b.
Proof.
  intros Pu. unfold op_pow, si. cbn [fst snd is_empty negb]. destruct (is_integer p) eqn:Ei; cbn [negb]; [|discriminate].
  set (n := to_integer p).
  destruct (is_empty u) eqn:Eu.
  - destruct u; [|discriminate]. cbn [bind]. change (scale []) with 1%Q.
    assert (D0 : forall b, dim [] b = n * dim [] b) by (intros b; change (dim [] b) with 0; lia).
    destruct (n =? 0) eqn:E0.
    + intros H. inversion H; subst r. cbn [fst snd]. apply Z.eqb_eq in E0. split; [reflexivity|split; [rewrite E0; reflexivity|exact D0]].
    + destruct (is_zero x) eqn:Ez.
      * destruct (n <? 0) eqn:En; [discriminate|]. intros H. inversion H; subst r. cbn [fst snd]. split; [reflexivity|split; [|exact D0]].
        apply is_zero_spec in Ez. rewrite Ez. rewrite Qmult_0_l. apply Z.eqb_neq in E0. rewrite Qpower_0 by exact E0. reflexivity.
      * intros H. inversion H; subst r. cbn [fst snd]. split; [reflexivity|split; [|exact D0]].
        rewrite pow_loop_spec, !Qmult_1_r, Qmult_1_l. destruct (n <? 0) eqn:En.
        -- apply Z.ltb_lt in En. rewrite Z2Nat.id by lia. rewrite Qinv_power, <- Qpower_opp, Z.abs_neq by lia. rewrite Z.opp_involutive. reflexivity.
        -- apply Z.ltb_ge in En. rewrite Z2Nat.id by lia. rewrite Z.abs_eq by lia. reflexivity.
  - destruct (in_i32 n); [|discriminate]. destruct (cpow u n) as [c|] eqn:Ec; [|discriminate]. cbn [bind].
    destruct (cpow_spec u n c Ec) as [Sc Dc].
    destruct (n =? 0) eqn:E0.
    + intros H. inversion H; subst r. cbn [fst snd]. apply Z.eqb_eq in E0. split; [reflexivity|split; [|exact Dc]]. rewrite Sc, E0. reflexivity.
    + destruct (is_zero x) eqn:Ez.
      * destruct (n <? 0) eqn:En; [discriminate|]. intros H. inversion H; subst r. cbn [fst snd]. split; [reflexivity|split; [|exact Dc]].
        apply is_zero_spec in Ez. rewrite Ez, !Qmult_0_l. apply Z.eqb_neq in E0. rewrite Qpower_0 by exact E0. reflexivity.
      * intros H. inversion H; subst r. cbn [fst snd]. split; [reflexivity|split; [|exact Dc]].
        rewrite pow_loop_spec, Qmult_1_l, Sc, Qmult_power. apply Qmult_comp; [|reflexivity]. destruct (n <? 0) eqn:En.
        -- apply Z.ltb_lt in En. rewrite Z2Nat.id by lia. rewrite Qinv_power, <- Qpower_opp, Z.abs_neq by lia. rewrite Z.opp_involutive. reflexivity.
        -- apply Z.ltb_ge in En. rewrite Z2Nat.id by lia. rewrite Z.abs_eq by lia. reflexivity.
Qed.

(* non-vacuity: 3 N * 2 m is 6 J (reconstruct re-introduces a derived unit); (6 m) / (2 s) = 3 m/s; (2 km)^2 = 4 km^2 *)
Example mul_examples :
  (exists r, op_mul true (0%N, 0%N) ((3 # 1)%Q, [(353022001%N, (1, 0))]) ((2 # 1)%Q, [(base_key 2, (1, 0))]) = Ok r /\ (si r == 6 # 1)%Q) /\
  (exists r, op_div true (0%N, 0%N) ((6 # 1)%Q, [(base_key 2, (1, 0))]) ((2 # 1)%Q, [(base_key 3, (1, 0))]) = Ok r /\
             (fst r == 3 # 1)%Q /\ snd r = [(base_key 2, (1, 0)); (base_key 3, (-1, 0))]) /\
  (exists r, op_pow (0%N, 0%N) ((2 # 1)%Q, [(base_key 2, (1, 3))]) ((2 # 1)%Q, []) = Ok r /\ (si r == 4000000 # 1)%Q /\ snd r = [(base_key 2, (2, 3))]).
Proof.
  split; [|split]; eexists; (split; [vm_compute; reflexivity|]); try (split; vm_compute; reflexivity); vm_compute; reflexivity.
Qed.

(* ---- the unit of a product of proportional quantities is proportional ---- *)
Lemma base_no_offset u : is_base u = true -> has_offset u = false.
Proof. intros H. unfold has_offset, conv_of, derived. rewrite H. reflexivity. Qed.
Lemma basic_proportional c : basic c -> proportional c.
Proof. unfold basic, proportional. apply Forall_impl. intros us [H _]. apply base_no_offset. exact H. Qed.
Lemma sub_step_prop m nm k v : proportional nm -> is_base k = true -> proportional (sub_step m nm (k, v)).
Proof.
  intros P Hk. unfold sub_step. cbn [fst snd]. destruct (get nm k) as [[p e]|]; [|exact P]. cbv zeta.
  destruct (_ =? 0); [apply del_Forall; exact P|apply put_Forall; [exact P|apply base_no_offset; exact Hk]].
Qed.
Lemma sub_bases_prop m pw : all_base pw -> forall nm, proportional nm -> proportional (fold_left (sub_step m) pw nm).
Proof.
  induction 1 as [|[k v] r Hk _ IH]; intros nm P; cbn [fold_left]; [exact P|]. apply IH. apply sub_step_prop; assumption.
Qed.
Lemma reconstruct_step_prop names out d names' out' : proportional names ->
  reconstruct_step (Some (names, out)) d = Some (names', out') -> proportional names'.
Proof.
  intros P. destruct d as [[u power] n]. unfold reconstruct_step. destruct (has_offset u) eqn:Ho; [intros H; inversion H; subst; exact P|].
  destruct (bases_match _ _ _) as [m|]; [|intros H; inversion H; subst; exact P].
  rewrite sub_bases_fold. destruct (closure_powers u) as (_ & Hab & _).
  pose proof (sub_bases_prop m _ Hab names P) as P1. set (names1 := fold_left (sub_step m) (add_closure [] u 1) names) in *.
  destruct (apply_conversion _ _ _ _); [|discriminate].
  destruct (get names1 u) as [[p e]|]; intros H; inversion H; subst; apply put_Forall; auto.
Qed.
Lemma reconstruct_fold_prop der : forall names out names' out', proportional names ->
  fold_left reconstruct_step der (Some (names, out)) = Some (names', out') -> proportional names'.
Proof.
  induction der as [|d r IH]; intros names out names' out' P H; cbn [fold_left] in H; [inversion H; subst; exact P|].
  destruct (reconstruct_step (Some (names, out)) d) as [[n1 o1]|] eqn:E; [|rewrite reconstruct_none in H; discriminate].
  eapply IH; [eapply reconstruct_step_prop; eauto|exact H].
Qed.
Lemma cscale_n_prop other n : proportional other -> proportional (cscale_n other n).
Proof. unfold proportional, cscale_n. intros H. apply Forall_forall. intros us Hin. apply in_map_iff in Hin as [x [<- Hx]]. rewrite Forall_forall in H. apply (H _ Hx). Qed.

Theorem mul_proportional (self other : compound) n lhs rhs c l r : proportional self -> proportional other ->
  mul self other n lhs rhs = Some (c, l, r) -> proportional c.
Proof.
  intros Ps Po. unfold mul. destruct (is_empty self || is_empty other) eqn:Ee.
  - intros H. inversion H; subst. destruct (is_empty self); [apply cscale_n_prop; exact Po|exact Ps].
  - destruct (base_units_spec self) as [[Wl Zl] Gl]. destruct (base_units_spec other) as [[Wr Zr] Gr].
    pose proof (base_units_all_base self) as Al. pose proof (base_units_all_base other) as Ar.
    destruct (base_units self) as [lder lb]. destruct (base_units other) as [rder rb]. cbn [fst snd] in *.
    change (fold_left _ rb (List.map (fun bp : unit * Z => (fst bp, (snd bp, 0))) lb)) with (fold_left (merge_step n) rb (lift lb)).
    destruct (scale_in self lhs); [|discriminate]. destruct (scale_in other rhs); [|discriminate].
    destruct (fold_left reconstruct_step _ _) as [[names l2]|] eqn:Ef; [|discriminate].
    intros H. inversion H; subst. eapply reconstruct_fold_prop; [|exact Ef].
    apply basic_proportional. destruct (merge_fold n rb Ar Wr (lift lb) 0%N (lift_wfm lb Wl) (lift_basic lb Al)) as (_ & B1 & _). exact B1.
Qed.
