(* C09: kelvin, degrees Celsius and degrees Fahrenheit convert by their defining affine formulas; any chain of conversions ends
   where the direct one does; conversions are exactly invertible; and an offset scale that does not stand alone with power
   one is never converted (the zero-point offset is never added to such a quantity). *)
From Coq Require Import ZArith NArith QArith Qpower Qfield List Bool Lia.
Import ListNotations.
From AV Require Import model.UnitTypes model.Map model.Units model.Rat model.Compound proofs.FactorProofs gen.UnitDefs.
Open Scope Z_scope.

Inductive tscale := K | C | F.
(* the units are looked up in the translated table by their display names *)
Definition by_name (name : list N) : unit :=
  match find (fun r : drow => match r with (_, _, _, sg, _) => (fix eqb (a b : list N) := match a, b with [], [] => true | x :: a', y :: b' => (x =? y)%N && eqb a' b' | _, _ => false end) sg name end) derived_table with
  | Some (id, _, _, _, _) => id
  | None => 0%N
  end.
Definition tunit (s : tscale) : unit :=
  match s with K => base_key 5 | C => by_name [176; 67]%N | F => by_name [176; 70]%N end.
Definition tc (s : tscale) : compound := [(tunit s, (1, 0))].

Definition kelvin_offset : Q := 27315 # 100.
Definition to_kelvin (s : tscale) (v : Q) : Q :=
  match s with K => v | C => v + kelvin_offset | F => (v - 32) * (5 # 9) + kelvin_offset end.
Definition from_kelvin (s : tscale) (v : Q) : Q :=
  match s with K => v | C => v - kelvin_offset | F => (v - kelvin_offset) * (9 # 5) + 32 end.
(* the defining formulas: K = C + 273.15, C = (F - 32) * 5/9 *)
Definition cast (tgt src : tscale) (v : Q) : Q := from_kelvin tgt (to_kelvin src v).

(* what the translated table says about the three scales *)
Lemma conv_K : conv_of (tunit K) = CNone. Proof. vm_compute. reflexivity. Qed.
Lemma conv_C : conv_of (tunit C) = COffset 27315 100. Proof. vm_compute. reflexivity. Qed.
Lemma conv_F : conv_of (tunit F) = CMethods [MSub 32 1; MMul 5 9; MAdd 27315 100] [MSub 27315 100; MMul 9 5; MAdd 32 1].
Proof. vm_compute. reflexivity. Qed.
Lemma temps_same_bases a b : same_bases (snd (base_units (tc a))) (snd (base_units (tc b))) = true.
Proof. destruct a, b; vm_compute; reflexivity. Qed.

Lemma scale_in_temp s v : exists v', scale_in (tc s) v = Some v' /\ (v' == to_kelvin s v)%Q.
Proof.
  unfold scale_in, tc. cbn [fold_left snd fst spower sprefix is_alone length Nat.eqb andb]. replace (1 =? 1) with true by reflexivity.
  replace (0 * 1) with 0 by reflexivity. change (pow10 0) with 1%Q.
  destruct s; [rewrite conv_K|rewrite conv_C|rewrite conv_F]; cbn [apply_conversion Z.abs negb orb Z.eqb Pos.eqb Z.ltb Z.compare run_mops fold_left];
    eexists; (split; [reflexivity|]); unfold to_kelvin, kelvin_offset; cbn [Z.to_pos]; ring.
Qed.
Lemma scale_out_temp s v : exists v', scale_out (tc s) v = Some v' /\ (v' == from_kelvin s v)%Q.
Proof.
  unfold scale_out, tc. cbn [fold_left snd fst spower sprefix is_alone length Nat.eqb andb]. replace (1 =? 1) with true by reflexivity.
  replace (0 * 1) with 0 by reflexivity. change (pow10 0) with 1%Q.
  destruct s; [rewrite conv_K|rewrite conv_C|rewrite conv_F]; cbn [apply_conversion Z.abs Z.opp negb orb Z.eqb Pos.eqb Z.ltb Z.compare run_mops fold_left];
    eexists; (split; [reflexivity|]); unfold from_kelvin, kelvin_offset; cbn [Z.to_pos]; field; discriminate.
Qed.

Global Instance to_kelvin_proper s : Proper (Qeq ==> Qeq) (to_kelvin s).
Proof. intros x y E. destruct s; unfold to_kelvin; rewrite E; reflexivity. Qed.
Global Instance from_kelvin_proper s : Proper (Qeq ==> Qeq) (from_kelvin s).
Proof. intros x y E. destruct s; unfold from_kelvin; rewrite E; reflexivity. Qed.

(* a conversion between two scales, each alone with power one, is the composition of the defining formulas *)
Theorem temperature_cast tgt src v : exists v', factor (tc tgt) (tc src) v = Some (true, v') /\ (v' == cast tgt src v)%Q.
Proof.
  unfold factor. change (is_empty (tc tgt) || is_empty (tc src)) with false. cbv iota. rewrite temps_same_bases. cbn [negb].
  destruct (scale_in_temp src v) as (v1 & E1 & Q1). rewrite E1.
  destruct (scale_out_temp tgt v1) as (v2 & E2 & Q2). rewrite E2.
  exists v2. split; [reflexivity|]. unfold cast. rewrite Q2, Q1. reflexivity.
Qed.

Theorem c_to_k v : (cast K C v == v + (27315 # 100))%Q. Proof. unfold cast, to_kelvin, from_kelvin, kelvin_offset. ring. Qed.
Theorem k_to_c v : (cast C K v == v - (27315 # 100))%Q. Proof. unfold cast, to_kelvin, from_kelvin, kelvin_offset. ring. Qed.
Theorem f_to_c v : (cast C F v == (v - 32) * (5 # 9))%Q. Proof. unfold cast, to_kelvin, from_kelvin, kelvin_offset. ring. Qed.
Theorem c_to_f v : (cast F C v == v * (9 # 5) + 32)%Q. Proof. unfold cast, to_kelvin, from_kelvin, kelvin_offset. ring. Qed.
Theorem f_to_k v : (cast K F v == (v - 32) * (5 # 9) + (27315 # 100))%Q. Proof. unfold cast, to_kelvin, from_kelvin, kelvin_offset. ring. Qed.
Theorem k_to_f v : (cast F K v == (v - (27315 # 100)) * (9 # 5) + 32)%Q. Proof. unfold cast, to_kelvin, from_kelvin, kelvin_offset. ring. Qed.

Lemma from_to s v : (from_kelvin s (to_kelvin s v) == v)%Q.
Proof. destruct s; unfold to_kelvin, from_kelvin, kelvin_offset; ring. Qed.
Lemma to_from s v : (to_kelvin s (from_kelvin s v) == v)%Q.
Proof. destruct s; unfold to_kelvin, from_kelvin, kelvin_offset; ring. Qed.

Theorem invertible a b v : (cast a b (cast b a v) == v)%Q.
Proof. unfold cast. rewrite to_from. apply from_to. Qed.
Theorem via_direct a b c v : (cast c b (cast b a v) == cast c a v)%Q.
Proof. unfold cast. rewrite to_from. reflexivity. Qed.
Fixpoint chain (cur : tscale) (path : list tscale) (v : Q) : tscale * Q :=
  match path with [] => (cur, v) | s :: r => chain s r (cast s cur v) end.
Theorem chain_equals_direct path : forall cur v, (snd (chain cur path v) == cast (fst (chain cur path v)) cur v)%Q.
Proof.
  induction path as [|s r IH]; intros cur v; cbn [chain fst snd].
  - unfold cast. symmetry. apply from_to.
  - rewrite IH. apply via_direct.
Qed.

(* ---- an offset scale anywhere but alone with power one ---- *)
Lemma fold_none {A B} (f : option A -> B -> option A) (l : list B) : (forall b, f None b = None) -> fold_left f l None = None.
Proof. intros H. induction l as [|b r IH]; cbn; [reflexivity|]. rewrite H. exact IH. Qed.

Lemma apply_conversion_refused pow v u : has_offset u = true -> apply_conversion pow false v (conv_of u) = None.
Proof.
  unfold has_offset. destruct (conv_of u); try discriminate; intros _; cbn [apply_conversion]; rewrite orb_true_r; reflexivity.
Qed.

Lemma scale_in_fold_refused (alone : state -> bool) (l : compound) : forall acc u st,
  In (u, st) l -> has_offset u = true -> alone st = false ->
  fold_left (fun acc us => match acc with
                           | None => None
                           | Some v => let st := snd us in
                                       apply_conversion (spower st) (alone st) (v * pow10 (sprefix st * spower st))%Q (conv_of (fst us))
                           end) l acc = None.
Proof.
  induction l as [|us r IH]; intros acc u st Hin Ho Ha; [destruct Hin|].
  cbn [fold_left]. destruct Hin as [->|Hin]; [|eapply IH; eauto].
  cbn [fst snd]. destruct acc as [a|]; [|apply fold_none; reflexivity].
  cbv zeta. rewrite Ha, apply_conversion_refused by exact Ho. apply fold_none. reflexivity.
Qed.
Lemma scale_in_refused (c : compound) v u st : In (u, st) c -> has_offset u = true -> is_alone c st = false -> scale_in c v = None.
Proof. intros. unfold scale_in. eapply scale_in_fold_refused; eauto. Qed.

Lemma scale_out_fold_refused (alone : state -> bool) (l : compound) : forall acc u st,
  In (u, st) l -> has_offset u = true -> alone st = false ->
  fold_left (fun acc us => match acc with
                           | None => None
                           | Some v => let st := snd us in
                                       match apply_conversion (- spower st) (alone st) v (conv_of (fst us)) with
                                       | None => None
                                       | Some v' => Some (v' / pow10 (sprefix st * spower st))%Q
                                       end
                           end) l acc = None.
Proof.
  induction l as [|us r IH]; intros acc u st Hin Ho Ha; [destruct Hin|].
  cbn [fold_left]. destruct Hin as [->|Hin]; [|eapply IH; eauto].
  cbn [fst snd]. destruct acc as [a|]; [|apply fold_none; reflexivity].
  cbv zeta. rewrite Ha, apply_conversion_refused by exact Ho. apply fold_none. reflexivity.
Qed.
Lemma scale_out_refused (c : compound) v u st : In (u, st) c -> has_offset u = true -> is_alone c st = false -> scale_out c v = None.
Proof. intros. unfold scale_out. eapply scale_out_fold_refused; eauto. Qed.

(* Whenever an offset scale occurs in the source or in the target of a conversion between two quantities with units, but not
   alone with power one (squared, inverted, or next to other units), the conversion is refused: it never yields a value. *)
Theorem offset_only_alone (tgt src : compound) v u st : tgt <> [] -> src <> [] -> has_offset u = true ->
  (In (u, st) src /\ is_alone src st = false) \/ (In (u, st) tgt /\ is_alone tgt st = false) ->
  forall v', factor tgt src v <> Some (true, v').
Proof.
  intros Ht Hs Ho Hin v'. unfold factor. destruct tgt as [|t0 tr]; [congruence|]. destruct src as [|s0 sr]; [congruence|]. cbn [is_empty orb].
  destruct (negb _); [discriminate|].
  destruct Hin as [[Hin Ha]|[Hin Ha]].
  - rewrite (scale_in_refused _ v u st Hin Ho Ha). discriminate.
  - destruct (scale_in (s0 :: sr) v) as [v1|]; [|discriminate]. rewrite (scale_out_refused _ v1 u st Hin Ho Ha). discriminate.
Qed.

Example temperature_example :
  (exists v, factor (tc K) (tc C) (20 # 1) = Some (true, v) /\ (v == 29315 # 100)%Q) /\
  (exists v, factor (tc C) (tc F) (212 # 1) = Some (true, v) /\ (v == 100 # 1)%Q) /\
  has_offset (tunit C) = true /\ has_offset (tunit F) = true /\
  factor [(base_key 3, (-1, 0)); (base_key 5, (1, 0))] [(tunit C, (1, 0)); (base_key 3, (-1, 0))] 1 = None.
Proof.
  repeat split; try (vm_compute; reflexivity).
  - eexists. split; vm_compute; reflexivity.
  - eexists. split; vm_compute; reflexivity.
Qed.
