(* C06, full strength on the token level: for every expression built from numbers, the operators + - * / ^ ** and
   parentheses -- any number of operators, any nesting depth, any blanks between tokens and at either end -- the parser model
   (model/Grammar.v, the code of grammar.rs: operation(), value(), checkpoints, the precedence stack) builds exactly the tree
   that the documented grammar prescribes: every parenthesised group is parsed on its own, and inside a group the tree is
   [canon] over the priority levels (spec/Climb.v), rendered with the blanks and operator nodes where they stand.
   Proof: the general simulation of proofs/ParseGeneral.v, instantiated by mutual induction over expressions. *)
From Coq Require Import NArith List Arith Bool Lia Sorted.
Import ListNotations.
From AV Require Import model.Syntax model.Grammar spec.Climb proofs.ClimbProofs proofs.ParseGeneral.
Local Close Scope N_scope.

Definition blanks := list (list chr).            (* the texts of consecutive WHITESPACE tokens *)
Definition wst (w : blanks) : list tok := map (fun t => (WHITESPACE, t)) w.
Definition wsT (w : blanks) : list Grammar.tree := map toktree (wst w).

Inductive arith := APlus | ADash | AStar | ASlash | ACaret | AStarStar.
Definition akind (a : arith) : kind :=
  match a with APlus => PLUS | ADash => DASH | AStar => STAR | ASlash => SLASH | ACaret => CARET | AStarStar => STARSTAR end.
Definition aprio (a : arith) : nat := match a with APlus | ADash => 2 | AStar | ASlash => 3 | ACaret | AStarStar => 10 end.
Definition anode (a : arith) : kind :=
  match a with APlus => OP_ADD | ADash => OP_SUB | AStar => OP_MUL | ASlash => OP_DIV | ACaret | AStarStar => OP_POWER end.
Lemma op_of_arith a : op_of (akind a) = Some (aprio a, anode a, false).
Proof. destruct a; reflexivity. Qed.

(* unit expressions as unit() reads them: segments separated by single blanks; a segment is a word or a number followed, without
   blanks, by further words, numbers, * / ^ ** (and `to`, which unit() takes for a word) *)
Definition useg := (tok * list tok)%type.
Definition uast := (useg * list (list chr * useg))%type.
Definition unode (t : tok) : Grammar.tree :=
  Grammar.Node (match fst t with WORD | TO => WORD | NUMBER => NUMBER | STAR => OP_MUL | SLASH => OP_DIV | _ => OP_POWER end) [Tok (fst t) (snd t)].
Definition toks_useg (s : useg) : list tok := fst s :: snd s.
Definition toks_umore (m : list (list chr * useg)) : list tok :=
  flat_map (fun ws : list chr * useg => (WHITESPACE, fst ws) :: toks_useg (snd ws)) m.
Definition toks_uast (u : uast) : list tok := toks_useg (fst u) ++ toks_umore (snd u).
Definition trees_umore (m : list (list chr * useg)) : list Grammar.tree :=
  flat_map (fun ws : list chr * useg => Tok WHITESPACE (fst ws) :: map unode (toks_useg (snd ws))) m.
Definition trees_uast (u : uast) : list Grammar.tree := map unode (toks_useg (fst u)) ++ trees_umore (snd u).
Definition head_kind (k : kind) : Prop := k = WORD \/ k = NUMBER.
Definition trail_kind (k : kind) : Prop := match k with WORD | TO | NUMBER | STAR | SLASH | CARET | STARSTAR => True | _ => False end.
Definition wf_useg (s : useg) : Prop := head_kind (fst (fst s)) /\ Forall (fun t : tok => trail_kind (fst t)) (snd s).
Definition wf_uast (u : uast) : Prop := wf_useg (fst u) /\ Forall (fun ws : list chr * useg => wf_useg (snd ws)) (snd u).

(* expressions as token-level syntax: the text of every token is arbitrary (the parser does not look at it) *)
Inductive operand := Num (text : list chr) | Pct (text : list chr) (w : blanks) (ptxt : list chr)
  | NumU (text : list chr) (w : blanks) (u : uast)                  (* a number with a unit *)
  | Paren (po pc : list chr) (w1 : blanks) (e : expr) (w2 : blanks)
  | Call (name po pc : list chr) (a : args)                         (* f( ... ) *)
  | Fact (first : list chr) (ms : list (blanks * bool * list chr))   (* a word, or a phrase: further words and numbers *)
  | Brace (bo bc : list chr) (bw : list (blanks * list chr)) (wlast : blanks)   (* { word word } : an escaped phrase *)
with expr := Chain (x : operand) (r : tail)
with tail := TNil | TCons (wb : blanks) (a : arith) (atxt : list chr) (wa : blanks) (x : operand) (r : tail)
  | TTo (wb : blanks) (ttxt : list chr) (wa : blanks) (u : uast) (r : tail)   (* `to` and a unit expression *)
with args := ANone (w : blanks) | AOne (w1 : blanks) (e : expr) (m : more)
with more := MEnd (wlast : blanks) | MComma (wc : blanks) (ctxt : list chr) (w1 : blanks) (e : expr) (m : more).
Scheme operand_mut := Induction for operand Sort Prop
  with expr_mut := Induction for expr Sort Prop
  with tail_mut := Induction for tail Sort Prop
  with args_mut := Induction for args Sort Prop
  with more_mut := Induction for more Sort Prop.
Combined Scheme syntax_mut from operand_mut, expr_mut, tail_mut, args_mut, more_mut.

Definition more_toks (ms : list (blanks * bool * list chr)) : list tok :=
  flat_map (fun m : blanks * bool * list chr => wst (fst (fst m)) ++ [((if snd (fst m) then NUMBER else WORD), snd m)]) ms.
Definition more_trees (ms : list (blanks * bool * list chr)) : list Grammar.tree :=
  flat_map (fun m : blanks * bool * list chr => wsT (fst (fst m)) ++ [Grammar.Node WORD [Tok (if snd (fst m) then NUMBER else WORD) (snd m)]]) ms.

Definition brace_toks (bw : list (blanks * list chr)) : list tok :=
  flat_map (fun m : blanks * list chr => wst (fst m) ++ [(WORD, snd m)]) bw.
Definition brace_trees (bw : list (blanks * list chr)) : list Grammar.tree :=
  flat_map (fun m : blanks * list chr => wsT (fst m) ++ [Grammar.Node WORD [Tok WORD (snd m)]]) bw.

Fixpoint toks_operand (x : operand) : list tok :=
  match x with
  | Num t => [(NUMBER, t)]
  | Pct t w pt => (NUMBER, t) :: wst w ++ [(PERCENTAGE, pt)]
  | NumU t w u => (NUMBER, t) :: wst w ++ toks_uast u
  | Paren po pc w1 e w2 => (OPEN_PAREN, po) :: wst w1 ++ toks_expr e ++ wst w2 ++ [(CLOSE_PAREN, pc)]
  | Call name po pc a => (WORD, name) :: (OPEN_PAREN, po) :: toks_args a ++ [(CLOSE_PAREN, pc)]
  | Fact first ms => (WORD, first) :: more_toks ms
  | Brace bo bc bw wl => (OPEN_BRACE, bo) :: brace_toks bw ++ wst wl ++ [(CLOSE_BRACE, bc)]
  end
with toks_expr (e : expr) : list tok := match e with Chain x r => toks_operand x ++ toks_tail r end
with toks_tail (r : tail) : list tok :=
  match r with
  | TNil => []
  | TCons wb a txt wa x r' => wst wb ++ (akind a, txt) :: wst wa ++ toks_operand x ++ toks_tail r'
  | TTo wb txt wa u r' => wst wb ++ (TO, txt) :: wst wa ++ toks_uast u ++ toks_tail r'
  end
with toks_args (a : args) : list tok :=
  match a with ANone w => wst w | AOne w1 e m => wst w1 ++ toks_expr e ++ toks_more m end
with toks_more (m : more) : list tok :=
  match m with MEnd wl => wst wl | MComma wc ct w1 e m' => wst wc ++ (COMMA, ct) :: wst w1 ++ toks_expr e ++ toks_more m' end.
Fixpoint last_ws (m : more) : blanks := match m with MEnd wl => wl | MComma _ _ _ _ m' => last_ws m' end.

Fixpoint prios (r : tail) : list nat :=
  match r with TNil => [] | TCons _ a _ _ _ r' => aprio a :: prios r' | TTo _ _ _ _ r' => 1 :: prios r' end.
Fixpoint tglue (r : tail) (m : nat) : list Grammar.tree :=
  match r with
  | TNil => []
  | TCons wb a txt wa _ r' => match m with O => wsT wb ++ [Grammar.Node (anode a) [Tok (akind a) txt]] ++ wsT wa | S m' => tglue r' m' end
  | TTo wb txt wa _ r' => match m with O => wsT wb ++ [Grammar.Node OP_CAST [Tok TO txt]] ++ wsT wa | S m' => tglue r' m' end
  end.

(* the syntax tree the grammar prescribes: groups in parentheses on their own, inside a group the abstract tree of the
   precedence discipline over the operands 0, 1, 2, ... rendered with blanks and operator nodes where they stand *)
Fixpoint trees_operand (x : operand) : list Grammar.tree :=
  match x with
  | Num t => [Grammar.Node NUMBER [Tok NUMBER t]]
  | Pct t w pt => [Grammar.Node PERCENTAGE (Tok NUMBER t :: wsT w ++ [Tok PERCENTAGE pt])]
  | NumU t w u => [Grammar.Node WITH_UNIT (Tok NUMBER t :: wsT w ++ [Grammar.Node UNIT (trees_uast u)])]
  | Paren po pc w1 e w2 => Tok OPEN_PAREN po :: trees_expr w1 e ++ wsT w2 ++ [Tok CLOSE_PAREN pc]
  | Call name po pc a =>
      [Grammar.Node FN_CALL (Grammar.Node FN_NAME [Grammar.Node WORD [Tok WORD name]] :: Tok OPEN_PAREN po ::
         match a with
         | ANone w => Grammar.Node FN_ARGUMENTS [] :: wsT w
         | AOne w1 e m => Grammar.Node FN_ARGUMENTS (trees_expr w1 e ++ trees_more m) :: wsT (last_ws m)
         end ++ [Tok CLOSE_PAREN pc])]
  | Fact first ms =>
      match ms with
      | [] => [Grammar.Node WORD [Tok WORD first]]
      | _ => [Grammar.Node SENTENCE (Grammar.Node WORD [Tok WORD first] :: more_trees ms)]
      end
  | Brace bo bc bw wl =>
      Tok OPEN_BRACE bo :: (if 1 <? length bw then [Grammar.Node SENTENCE (brace_trees bw)] else brace_trees bw) ++ wsT wl ++ [Tok CLOSE_BRACE bc]
  end
with trees_expr (w : blanks) (e : expr) {struct e} : list Grammar.tree :=
  match e with
  | Chain x r =>
      ritems (fun n => match n with O => wsT w | S m => tglue r m end)
             (fun n => match n with O => trees_operand x | S m => tbody r m end)
             (climb (Leaf 0, mkin 0 (prios r)))
  end
with tbody (r : tail) (m : nat) {struct r} : list Grammar.tree :=
  match r with
  | TNil => []
  | TCons _ _ _ _ x r' => match m with O => trees_operand x | S m' => tbody r' m' end
  | TTo _ _ _ u r' => match m with O => [Grammar.Node UNIT (trees_uast u)] | S m' => tbody r' m' end
  end
with trees_more (m : more) {struct m} : list Grammar.tree :=
  match m with
  | MEnd _ => []
  | MComma wc ct w1 e m' => wsT wc ++ [Tok COMMA ct] ++ trees_expr w1 e ++ trees_more m'
  end.

Fixpoint need_operand (x : operand) : nat :=
  match x with Num _ | Pct _ _ _ | NumU _ _ _ | Fact _ _ | Brace _ _ _ _ => 1 | Paren _ _ _ e _ => S (need_expr e) | Call _ _ _ a => S (S (need_args a)) end
with need_expr (e : expr) : nat := match e with Chain x r => S (Nat.max (need_operand x) (need_tail r)) end
with need_tail (r : tail) : nat :=
  match r with TNil => 0 | TCons _ _ _ _ x r' => Nat.max (need_operand x) (need_tail r') | TTo _ _ _ _ r' => need_tail r' end
with need_args (a : args) : nat := match a with ANone _ => 0 | AOne _ e m => Nat.max (need_expr e) (need_more m) end
with need_more (m : more) : nat := match m with MEnd _ => 0 | MComma _ _ _ e m' => Nat.max (need_expr e) (need_more m') end.

(* ---- small facts about buffers ---- *)
Lemma wst_length w : length (wst w) = length w. Proof. apply map_length. Qed.
Lemma wsT_length w : length (wsT w) = length w. Proof. unfold wsT. now rewrite map_length, wst_length. Qed.
Lemma count_ws_wst w l : count_ws (wst w ++ l) = length w + count_ws l.
Proof. induction w as [|t w IH]; [reflexivity|]. change (count_ws (wst (t :: w) ++ l)) with (S (count_ws (wst w ++ l))). now rewrite IH. Qed.
Lemma count_ws_operand x l : count_ws (toks_operand x ++ l) = 0.
Proof. destruct x; reflexivity. Qed.
Lemma kind_at_wst w t l : kind_at (wst w ++ t :: l) (length w) = fst t.
Proof. induction w as [|a w IH]; [destruct t; reflexivity|]. exact IH. Qed.
Lemma nth_error_wst w (t : tok) l : nth_error (wst w ++ t :: l) (length w) = Some t.
Proof. induction w as [|a w IH]; [reflexivity|]. exact IH. Qed.
Lemma firstn_wst w l : firstn (length w) (wst w ++ l) = wst w.
Proof. rewrite <- (wst_length w). rewrite firstn_app, Nat.sub_diag, firstn_all. cbn. now rewrite app_nil_r. Qed.
Lemma skipn_wst w l : skipn (length w) (wst w ++ l) = l.
Proof. rewrite <- (wst_length w). rewrite skipn_app, Nat.sub_diag, skipn_all. reflexivity. Qed.
Lemma skipn_S_wst w (t : tok) l : skipn (S (length w)) (wst w ++ t :: l) = l.
Proof. pose proof (skipn_nth_error _ _ _ (nth_error_wst w t l)) as E. rewrite skipn_wst in E. inversion E as [E']. now rewrite <- E'. Qed.
Lemma firstn_S_wst w (t : tok) l : firstn (S (length w)) (wst w ++ t :: l) = wst w ++ [t].
Proof.
  rewrite <- (wst_length w). rewrite firstn_app. rewrite firstn_all2 by lia.
  replace (S (length (wst w)) - length (wst w)) with 1 by lia. reflexivity.
Qed.
Lemma count_ws_only w : count_ws (wst w) = length w.
Proof. induction w as [|t w IH]; [reflexivity|]. change (count_ws (wst (t :: w))) with (S (count_ws (wst w))). now rewrite IH. Qed.
Lemma kind_at_end w : kind_at (wst w) (length w) = EOF.
Proof. unfold kind_at. rewrite <- (wst_length w). now rewrite (proj2 (nth_error_None _ _) (le_n _)). Qed.
Lemma kind_at_operand x l : kind_at (toks_operand x ++ l) 0 = NUMBER \/ kind_at (toks_operand x ++ l) 0 = OPEN_PAREN \/ kind_at (toks_operand x ++ l) 0 = WORD \/ kind_at (toks_operand x ++ l) 0 = OPEN_BRACE.
Proof. destruct x; cbn; auto. Qed.

Definition next_kind (rest : list tok) : kind := kind_at rest (count_ws rest).
Definition follows (rest : list tok) : Prop :=
  next_kind rest <> PERCENTAGE /\ next_kind rest <> NUMBER /\ next_kind rest <> WORD /\ kind_at rest 0 <> OPEN_PAREN.

Lemma next_kind_wst w t l : fst t <> WHITESPACE -> next_kind (wst w ++ t :: l) = fst t.
Proof.
  intros H. unfold next_kind. rewrite count_ws_wst.
  assert (E : count_ws (t :: l) = 0) by (destruct t as [k x]; cbn in *; destruct k; congruence).
  rewrite E, Nat.add_0_r. apply kind_at_wst.
Qed.

Lemma follows_wst w t l : fst t <> WHITESPACE -> fst t <> PERCENTAGE -> fst t <> NUMBER -> fst t <> WORD -> fst t <> OPEN_PAREN ->
  follows (wst w ++ t :: l).
Proof.
  intros H0 H1 H2 H3 H4. unfold follows. rewrite next_kind_wst by exact H0. repeat split; try assumption.
  destruct w as [|x w]; [destruct t as [k tx]; cbn in *; exact H4|cbn; discriminate].
Qed.
Lemma follows_end w1 : follows (wst w1).
Proof.
  unfold follows, next_kind. rewrite count_ws_only, kind_at_end. repeat split; try discriminate.
  destruct w1; cbn; discriminate.
Qed.

Lemma unit_none b F sk : kind_at b sk <> NUMBER -> kind_at b sk <> WORD -> unit_ sk (mkst b F) = (None, mkst b F).
Proof.
  intros H1 H2. unfold unit_. cbn [unit_loop]. rewrite nth_kind_mk. destruct (kind_at b sk); try reflexivity; congruence.
Qed.

(* ---- operands ---- *)
Lemma number_operand fuel w t rest : 1 <= fuel -> follows rest ->
  OperandAt (value fuel) false (length w) (wst w ++ (NUMBER, t) :: rest) (wsT w) [Grammar.Node NUMBER [Tok NUMBER t]] rest.
Proof.
  intros Hf [H1 [H2 [H3 _]]] F. destruct fuel as [|fuel]; [lia|]. unfold operandf. cbn [value]. unfold value_body.
  rewrite nth_kind_mk, kind_at_wst. cbn [fst]. rewrite bumps_mk, firstn_wst, skipn_wst.
  change (bump (mkst ((NUMBER, t) :: rest) ?G)) with (mkst rest (G ++ [Tok NUMBER t])).
  change (count_skip (mkst rest ?G)) with (count_ws rest). rewrite nth_kind_mk.
  fold (wsT w). unfold next_kind in *.
  rewrite unit_none by assumption.
  unfold checkpoint, mkst at 1. cbn [forest].
  rewrite close_at_mk.
  destruct (kind_at rest (count_ws rest)); try congruence; unfold mkst; cbn [forest]; rewrite app_length, <- app_assoc; reflexivity.
Qed.

Lemma percent_operand fuel w t wp pt rest : 1 <= fuel ->
  OperandAt (value fuel) false (length w) (wst w ++ ((NUMBER, t) :: wst wp ++ [(PERCENTAGE, pt)]) ++ rest) (wsT w)
    [Grammar.Node PERCENTAGE (Tok NUMBER t :: wsT wp ++ [Tok PERCENTAGE pt])] rest.
Proof.
  intros Hf F. destruct fuel as [|fuel]; [lia|]. unfold operandf. cbn [value]. unfold value_body.
  rewrite <- app_comm_cons. rewrite nth_kind_mk, kind_at_wst. cbn [fst]. rewrite bumps_mk, firstn_wst, skipn_wst.
  change (bump (mkst ((NUMBER, t) :: ?B) ?G)) with (mkst B (G ++ [Tok NUMBER t])).
  change (count_skip (mkst ?B ?G)) with (count_ws B). fold (wsT w).
  match goal with |- context[count_ws ?B] => replace B with (wst wp ++ (PERCENTAGE, pt) :: rest) by now rewrite <- app_assoc end.
  assert (Hc : count_ws (wst wp ++ (PERCENTAGE, pt) :: rest) = length wp) by (rewrite count_ws_wst; cbn; lia).
  rewrite Hc, nth_kind_mk, kind_at_wst. cbn [fst].
  rewrite bumps_mk, firstn_wst, skipn_wst.
  change (bump (mkst ((PERCENTAGE, pt) :: rest) ?G)) with (mkst rest (G ++ [Tok PERCENTAGE pt])).
  unfold checkpoint, mkst at 1. cbn [forest]. fold (wsT wp).
  replace (((F ++ wsT w) ++ [Tok NUMBER t]) ++ wsT wp) with ((F ++ wsT w) ++ ([Tok NUMBER t] ++ wsT wp)) by now rewrite !app_assoc.
  rewrite <- (app_assoc (F ++ wsT w)). rewrite close_at_mk. rewrite app_length, <- !app_assoc. reflexivity.
Qed.

(* what may follow a unit word so that unit() ends there: not a token that unit() takes into the unit without a blank
   (a word, `to`, a number, * / ^), and after one blank neither a number nor a word *)
Definition unit_follows (rest : list tok) : Prop :=
  match kind_at rest 0 with
  | WORD | TO | NUMBER | STAR | SLASH | CARET | STARSTAR => False
  | WHITESPACE => kind_at rest 1 <> NUMBER /\ kind_at rest 1 <> WORD
  | _ => True
  end.
Definition tight_ok (r : tail) : Prop :=
  match r with
  | TNil => True
  | TCons [] a _ _ _ _ => a = APlus \/ a = ADash
  | TTo [] _ _ _ _ => False
  | _ => True
  end.
(* well-formed: a unit word is followed by a blank before * / ^ and `to` *)
Definition ends_in_unit (x : operand) : bool := match x with NumU _ _ _ => true | _ => false end.
Fixpoint wf_operand (x : operand) : Prop :=
  match x with Paren _ _ _ e _ => wf_expr e | Call _ _ _ a => wf_args a | NumU _ _ u => wf_uast u | _ => True end
with wf_expr (e : expr) : Prop := match e with Chain x r => wf_operand x /\ (ends_in_unit x = true -> tight_ok r) /\ wf_tail r end
with wf_tail (r : tail) : Prop :=
  match r with
  | TNil => True
  | TCons _ _ _ _ x r' => wf_operand x /\ (ends_in_unit x = true -> tight_ok r') /\ wf_tail r'
  | TTo _ _ _ u r' => wf_uast u /\ tight_ok r' /\ wf_tail r'
  end
with wf_args (a : args) : Prop := match a with ANone _ => True | AOne _ e m => wf_expr e /\ wf_more m end
with wf_more (m : more) : Prop := match m with MEnd _ => True | MComma _ _ _ e m' => wf_expr e /\ wf_more m' end.

(* ---- unit(): the general run over a unit expression ---- *)
Lemma bump_node_mk k (t : tok) B G : bump_node k (mkst (t :: B) G) = mkst B (G ++ [Grammar.Node k [Tok (fst t) (snd t)]]).
Proof. reflexivity. Qed.

Lemma unit_trail_run : forall tr fuel rest G, Forall (fun t : tok => trail_kind (fst t)) tr -> length tr < fuel -> ~ trail_kind (kind_at rest 0) ->
  unit_trail fuel (mkst (tr ++ rest) G)
  = ((if kind_beq (kind_at rest 0) WHITESPACE then Some 1 else None), mkst rest (G ++ map unode tr)).
Proof.
  induction tr as [|t tr IH]; intros fuel rest G Htr Hf Hr; (destruct fuel as [|fuel]; [cbn in Hf; lia|]); cbn [unit_trail app map].
  - rewrite nth_kind_mk, app_nil_r. destruct (kind_at rest 0); cbn in Hr; try tauto; reflexivity.
  - inversion Htr as [|t' tr' Ht Htr']. subst. rewrite nth_kind_mk. destruct t as [k tx]. cbn [kind_at nth_error fst] in *.
    destruct k; cbn in Ht; try contradiction; rewrite bump_node_mk; rewrite (IH fuel rest _ Htr'); try (cbn in Hf; lia); try exact Hr;
      unfold unode; cbn [fst snd]; rewrite <- app_assoc; reflexivity.
Qed.

Lemma umore_first_kind (mo : list (list chr * useg)) rest : unit_follows rest -> ~ trail_kind (kind_at (toks_umore mo ++ rest) 0).
Proof.
  intros Hu. destruct mo as [|[w sg] mo]; [|cbn; tauto]. cbn [toks_umore flat_map app]. unfold unit_follows in Hu.
  destruct (kind_at rest 0); cbn; tauto.
Qed.

Lemma unit_loop_run : forall (mo : list (list chr * useg)) fuel ws seg c G rest,
  wf_useg seg -> Forall (fun x : list chr * useg => wf_useg (snd x)) mo -> length mo < fuel -> unit_follows rest ->
  unit_loop fuel (length ws) c (mkst (wst ws ++ toks_useg seg ++ toks_umore mo ++ rest) G)
  = (Some (match c with Some c0 => c0 | None => length (G ++ wsT ws) end),
     mkst rest (G ++ wsT ws ++ map unode (toks_useg seg) ++ trees_umore mo)).
Proof.
  induction mo as [|[w1 seg1] mo IH]; intros fuel ws seg c G rest [Hh Htr] Hm Hf Hu;
    (destruct fuel as [|fuel]; [cbn in Hf; lia|]); destruct seg as [h tr]; cbn [fst snd] in Hh, Htr;
    unfold toks_useg; cbn [fst snd]; cbn [unit_loop]; rewrite nth_kind_mk; rewrite <- app_comm_cons, kind_at_wst.
  - (* the last segment *)
    cbn [toks_umore trees_umore flat_map app]. rewrite app_nil_r.
    assert (Hcase : forall k, fst h = k -> (k = WORD \/ k = NUMBER) ->
      (let s1 := bumps (length ws) (mkst (wst ws ++ h :: tr ++ rest) G) in
       let c' := match c with None => Some (checkpoint s1) | _ => c end in
       let s2 := bump_node k s1 in
       match unit_trail (S (length (buf s2))) s2 with
       | (Some skip', s3) => unit_loop fuel skip' c' s3
       | (None, s3) => (c', s3)
       end) = (Some (match c with Some c0 => c0 | None => length (G ++ wsT ws) end), mkst rest (G ++ wsT ws ++ unode h :: map unode tr))).
    { intros k Ek Hk. cbv zeta. rewrite bumps_mk, firstn_wst, skipn_wst. fold (wsT ws). rewrite bump_node_mk.
      change (buf (mkst ?B ?X)) with B. change (checkpoint (mkst ?B ?X)) with (length X).
      rewrite unit_trail_run; [|exact Htr|rewrite app_length; lia|unfold unit_follows in Hu; destruct (kind_at rest 0); cbn; tauto].
      assert (Eh : Grammar.Node k [Tok (fst h) (snd h)] = unode h) by (unfold unode; rewrite Ek; destruct Hk as [-> | ->]; reflexivity).
      rewrite Eh. unfold unit_follows in Hu.
      assert (Hres : mkst rest (((G ++ wsT ws) ++ [unode h]) ++ map unode tr) = mkst rest (G ++ wsT ws ++ unode h :: map unode tr))
        by (unfold mkst; f_equal; now rewrite <- !app_assoc).
      destruct (kind_at rest 0) eqn:K0; cbn [kind_beq]; try contradiction; rewrite Hres; try (destruct c; reflexivity).
      destruct Hu as [U1 U2]. destruct fuel as [|fuel']; [destruct c; reflexivity|]. cbn [unit_loop]. rewrite nth_kind_mk.
      destruct (kind_at rest 1); try congruence; destruct c; reflexivity. }
    destruct Hh as [E|E]; rewrite E; [exact (Hcase WORD E (or_introl eq_refl))|exact (Hcase NUMBER E (or_intror eq_refl))].
  - (* a further segment follows after one blank *)
    inversion Hm as [|x l Hseg1 Hm']. subst. cbn [snd] in Hseg1.
    assert (Hcase : forall k, fst h = k -> (k = WORD \/ k = NUMBER) ->
      (let s1 := bumps (length ws) (mkst (wst ws ++ h :: tr ++ toks_umore ((w1, seg1) :: mo) ++ rest) G) in
       let c' := match c with None => Some (checkpoint s1) | _ => c end in
       let s2 := bump_node k s1 in
       match unit_trail (S (length (buf s2))) s2 with
       | (Some skip', s3) => unit_loop fuel skip' c' s3
       | (None, s3) => (c', s3)
       end) = (Some (match c with Some c0 => c0 | None => length (G ++ wsT ws) end),
               mkst rest (G ++ wsT ws ++ map unode (h :: tr) ++ trees_umore ((w1, seg1) :: mo)))).
    { intros k Ek Hk. cbv zeta. rewrite bumps_mk, firstn_wst, skipn_wst. fold (wsT ws). rewrite bump_node_mk.
      change (buf (mkst ?B ?X)) with B. change (checkpoint (mkst ?B ?X)) with (length X).
      rewrite unit_trail_run; [|exact Htr|rewrite app_length; lia|cbn; tauto].
      assert (Eh : Grammar.Node k [Tok (fst h) (snd h)] = unode h) by (unfold unode; rewrite Ek; destruct Hk as [-> | ->]; reflexivity).
      rewrite Eh. cbn [toks_umore flat_map app kind_at nth_error fst kind_beq].
      change (flat_map (fun ws0 : list chr * useg => (WHITESPACE, fst ws0) :: toks_useg (snd ws0)) mo) with (toks_umore mo).
      cbn [fst snd]. rewrite <- app_assoc.
      pose proof (IH fuel [w1] seg1 (match c with None => Some (length (G ++ wsT ws)) | _ => c end) (((G ++ wsT ws) ++ [unode h]) ++ map unode tr) rest Hseg1 Hm'
                    ltac:(cbn in Hf; lia) Hu) as R.
      cbn [length wst map app] in R. change ((WHITESPACE, w1) :: toks_useg seg1 ++ toks_umore mo ++ rest) with ([(WHITESPACE, w1)] ++ toks_useg seg1 ++ toks_umore mo ++ rest).
      cbn [app]. cbn [app] in R.
      match goal with |- context[unit_loop fuel 1 ?cc ?st] => match type of R with _ = ?rhs => replace (unit_loop fuel 1 cc st) with rhs by (symmetry; exact R) end end.
      f_equal; [destruct c; reflexivity|]. unfold mkst. f_equal. cbn [trees_umore flat_map map fst snd]. unfold wsT. cbn [map wst toktree fst snd].
      change (flat_map (fun ws0 : list chr * useg => Tok WHITESPACE (fst ws0) :: map unode (toks_useg (snd ws0))) mo) with (trees_umore mo).
      rewrite <- !app_assoc. reflexivity. }
    destruct Hh as [E|E]; rewrite E; [exact (Hcase WORD E (or_introl eq_refl))|exact (Hcase NUMBER E (or_intror eq_refl))].
Qed.

Lemma umore_length (mo : list (list chr * useg)) : length mo <= length (toks_umore mo).
Proof.
  induction mo as [|[w sg] mo IH]; [cbn; lia|].
  change (toks_umore ((w, sg) :: mo)) with (((WHITESPACE, w) :: toks_useg sg) ++ toks_umore mo). rewrite app_length. cbn [length].
  apply le_n_S. etransitivity; [exact IH|]. apply Nat.le_add_l.
Qed.

Lemma unit_call ws (u : uast) G rest : wf_uast u -> unit_follows rest ->
  unit_ (length ws) (mkst (wst ws ++ toks_uast u ++ rest) G)
  = (Some (length (G ++ wsT ws)), mkst rest (G ++ wsT ws ++ [Grammar.Node UNIT (trees_uast u)])).
Proof.
  intros [Hs Hm] Hu. destruct u as [seg mo]. unfold unit_, toks_uast. cbn [fst snd] in *. rewrite <- app_assoc.
  rewrite (unit_loop_run mo _ ws seg None G rest Hs Hm); [|change (buf (mkst ?B ?X)) with B; rewrite !app_length; pose proof (umore_length mo); lia|exact Hu].
  replace (G ++ wsT ws ++ map unode (toks_useg seg) ++ trees_umore mo) with ((G ++ wsT ws) ++ (map unode (toks_useg seg) ++ trees_umore mo))
    by now rewrite <- !app_assoc.
  rewrite close_at_mk. rewrite <- app_assoc. reflexivity.
Qed.

Lemma count_ws_uast (u : uast) l : wf_uast u -> count_ws (toks_uast u ++ l) = 0.
Proof. intros [[Hh _] _]. destruct u as [[h tr] mo]. destruct h as [k tx]. cbn in *. destruct Hh as [-> | ->]; reflexivity. Qed.
Lemma kind_at_uast (u : uast) l : wf_uast u -> head_kind (kind_at (toks_uast u ++ l) 0).
Proof. intros [[Hh _] _]. destruct u as [[h tr] mo]. destruct h as [k tx]. cbn in *. exact Hh. Qed.

Lemma unit_operand fuel w (u : uast) rest : wf_uast u -> unit_follows rest ->
  OperandAt (value fuel) true (length w) (wst w ++ toks_uast u ++ rest) (wsT w) [Grammar.Node UNIT (trees_uast u)] rest.
Proof.
  intros Hw Hu F. unfold operandf. rewrite bumps_mk, firstn_wst, skipn_wst. fold (wsT w).
  pose proof (unit_call [] u (F ++ wsT w) rest Hw Hu) as E. cbn [length wst wsT map app] in E. rewrite E.
  rewrite !app_nil_r, app_length, <- app_assoc. reflexivity.
Qed.

Lemma numu_operand fuel w t wu (u : uast) rest : 1 <= fuel -> wf_uast u -> unit_follows rest ->
  OperandAt (value fuel) false (length w) (wst w ++ ((NUMBER, t) :: wst wu ++ toks_uast u) ++ rest) (wsT w)
    [Grammar.Node WITH_UNIT (Tok NUMBER t :: wsT wu ++ [Grammar.Node UNIT (trees_uast u)])] rest.
Proof.
  intros Hf Hw Hu F. destruct fuel as [|fuel]; [lia|]. unfold operandf. cbn [value]. unfold value_body.
  rewrite <- app_comm_cons. rewrite nth_kind_mk, kind_at_wst. cbn [fst]. rewrite bumps_mk, firstn_wst, skipn_wst. fold (wsT w).
  change (bump (mkst ((NUMBER, t) :: ?B) ?G)) with (mkst B (G ++ [Tok NUMBER t])).
  change (count_skip (mkst ?B ?G)) with (count_ws B).
  match goal with |- context[count_ws ?B] => replace B with (wst wu ++ toks_uast u ++ rest) by now rewrite <- app_assoc end.
  rewrite count_ws_wst, (count_ws_uast u rest Hw), Nat.add_0_r. rewrite nth_kind_mk.
  pose proof (kind_at_uast u rest Hw) as Hk.
  assert (Ek : kind_at (wst wu ++ toks_uast u ++ rest) (length wu) = kind_at (toks_uast u ++ rest) 0).
  { clear. induction wu as [|x wu IH]; [reflexivity|exact IH]. }
  rewrite Ek. rewrite (unit_call wu u _ rest Hw Hu).
  unfold checkpoint, mkst at 1. cbn [forest].
  replace (((F ++ wsT w) ++ [Tok NUMBER t]) ++ wsT wu ++ [Grammar.Node UNIT (trees_uast u)])
    with ((F ++ wsT w) ++ (Tok NUMBER t :: wsT wu ++ [Grammar.Node UNIT (trees_uast u)])) by now rewrite <- !app_assoc.
  rewrite close_at_mk. rewrite <- app_assoc.
  destruct Hk as [-> | ->]; unfold mkst; cbn [forest]; rewrite app_length; reflexivity.
Qed.

(* a word or a phrase: what follows must neither be a word or a number (they would join the phrase) nor, directly, an opening
   parenthesis (that would make it a function call) *)
Definition word_follows (rest : list tok) : Prop := follows rest.

Lemma words_loop_more : forall ms fuel n rest G, length (more_toks ms ++ rest) < fuel -> follows rest ->
  words_loop fuel true (count_ws (more_toks ms ++ rest)) n (mkst (more_toks ms ++ rest) G)
  = (count_ws rest, n + length ms, mkst rest (G ++ more_trees ms)).
Proof.
  induction ms as [|[[w b] t] ms IH]; intros fuel n rest G Hf [H1 [H2 [H3 H4]]].
  - cbn [more_toks more_trees flat_map app length]. rewrite app_nil_r, Nat.add_0_r. destruct fuel as [|fuel]; [cbn in Hf; lia|].
    cbn [words_loop]. rewrite nth_kind_mk. unfold next_kind in *.
    destruct (kind_at rest (count_ws rest)); try congruence; reflexivity.
  - change (more_toks ((w, b, t) :: ms)) with ((wst w ++ [((if b then NUMBER else WORD), t)]) ++ more_toks ms).
    change (more_trees ((w, b, t) :: ms)) with ((wsT w ++ [Grammar.Node WORD [Tok (if b then NUMBER else WORD) t]]) ++ more_trees ms).
    rewrite <- !app_assoc. cbn [app].
    destruct fuel as [|fuel]; [cbn in Hf; lia|]. cbn [words_loop].
    rewrite count_ws_wst.
    repeat match goal with |- context[length w + count_ws ?B] => replace (count_ws B) with 0 by (destruct b; reflexivity) end.
    rewrite Nat.add_0_r. rewrite nth_kind_mk, kind_at_wst. cbn [fst].
    replace (kind_beq (if b then NUMBER else WORD) WORD || true && kind_beq (if b then NUMBER else WORD) NUMBER) with true by (destruct b; reflexivity).
    rewrite bumps_mk, firstn_wst, skipn_wst. fold (wsT w).
    match goal with |- context[bump_node WORD (mkst (?tk :: ?B) ?G0)] =>
      change (bump_node WORD (mkst (tk :: B) G0)) with (mkst B (G0 ++ [Grammar.Node WORD [Tok (fst tk) (snd tk)]])) end.
    cbn [fst snd]. change (count_skip (mkst ?B ?G0)) with (count_ws B).
    rewrite (IH fuel (S n) rest); [|change (more_toks ((w, b, t) :: ms)) with ((wst w ++ [((if b then NUMBER else WORD), t)]) ++ more_toks ms) in Hf; rewrite !app_length in Hf; cbn [length] in Hf; rewrite app_length; lia|repeat split; assumption].
    f_equal; [f_equal; cbn [length]; lia|]. unfold mkst. f_equal. now rewrite <- !app_assoc.
Qed.

Lemma fact_operand fuel first ms w rest : 1 <= fuel -> word_follows rest ->
  OperandAt (value fuel) false (length w) (wst w ++ ((WORD, first) :: more_toks ms) ++ rest) (wsT w)
    (match ms with
     | [] => [Grammar.Node WORD [Tok WORD first]]
     | _ => [Grammar.Node SENTENCE (Grammar.Node WORD [Tok WORD first] :: more_trees ms)]
     end) rest.
Proof.
  intros Hf Hfo F. pose proof (proj2 (proj2 (proj2 Hfo))) as Hp. destruct fuel as [|fuel]; [lia|]. unfold operandf. cbn [value]. unfold value_body.
  rewrite <- app_comm_cons. rewrite nth_kind_mk, kind_at_wst. cbn [fst].
  rewrite bumps_mk, firstn_wst, skipn_wst. fold (wsT w).
  change (bump_node WORD (mkst ((WORD, first) :: ?B) ?G)) with (mkst B (G ++ [Grammar.Node WORD [Tok WORD first]])).
  rewrite nth_kind_mk.
  assert (Hk : kind_beq (kind_at (more_toks ms ++ rest) 0) OPEN_PAREN = false).
  { destruct ms as [|[[wm b] t] ms].
    - cbn [more_toks flat_map app]. destruct (kind_at rest 0); try reflexivity. congruence.
    - unfold more_toks. cbn [flat_map fst snd]. rewrite <- !app_assoc. destruct wm as [|x wm]; [destruct b|]; reflexivity. }
  match goal with |- context[kind_beq (kind_at ?B 0) OPEN_PAREN] => replace (kind_beq (kind_at B 0) OPEN_PAREN) with false by (symmetry; exact Hk) end.
  change (buf (mkst ?B ?G)) with B. change (count_skip (mkst ?B ?G)) with (count_ws B).
  match goal with |- context[words_loop ?f true ?sk 0 ?st] =>
    replace (words_loop f true sk 0 st) with (count_ws rest, 0 + length ms, mkst rest (((F ++ wsT w) ++ [Grammar.Node WORD [Tok WORD first]]) ++ more_trees ms))
      by (symmetry; exact (words_loop_more ms _ 0 rest _ (Nat.lt_succ_diag_r _) Hfo)) end.
  change (checkpoint (mkst ?B ?G)) with (length G). cbn [Nat.add].
  destruct ms as [|m ms].
  - cbn [length Nat.ltb Nat.leb more_trees flat_map]. rewrite app_nil_r, app_length, <- app_assoc. reflexivity.
  - cbn [length]. replace (0 <? S (length ms)) with true by reflexivity.
    replace (((F ++ wsT w) ++ [Grammar.Node WORD [Tok WORD first]]) ++ more_trees (m :: ms))
      with ((F ++ wsT w) ++ (Grammar.Node WORD [Tok WORD first] :: more_trees (m :: ms))) by now rewrite <- !app_assoc.
    rewrite close_at_mk. rewrite app_length, <- app_assoc. reflexivity.
Qed.

Lemma eat_brace w bc rest G : eat (length w) [CLOSE_BRACE] (mkst (wst w ++ (CLOSE_BRACE, bc) :: rest) G)
  = (true, mkst rest (G ++ wsT w ++ [Tok CLOSE_BRACE bc])).
Proof.
  unfold eat. cbn [kinds_match]. rewrite nth_kind_mk, kind_at_wst. cbn [fst kind_beq andb length].
  replace (length w + 1) with (S (length w)) by lia. rewrite bumps_mk, skipn_S_wst, firstn_S_wst.
  rewrite map_app. reflexivity.
Qed.

Lemma words_loop_brace : forall bw fuel n rest G, length (brace_toks bw ++ rest) < fuel -> next_kind rest <> WORD ->
  words_loop fuel false (count_ws (brace_toks bw ++ rest)) n (mkst (brace_toks bw ++ rest) G)
  = (count_ws rest, n + length bw, mkst rest (G ++ brace_trees bw)).
Proof.
  induction bw as [|[w t] bw IH]; intros fuel n rest G Hf H3.
  - cbn [brace_toks brace_trees flat_map app length]. rewrite app_nil_r, Nat.add_0_r. destruct fuel as [|fuel]; [cbn in Hf; lia|].
    cbn [words_loop]. rewrite nth_kind_mk. unfold next_kind in *.
    destruct (kind_at rest (count_ws rest)); try congruence; reflexivity.
  - change (brace_toks ((w, t) :: bw)) with ((wst w ++ [(WORD, t)]) ++ brace_toks bw).
    change (brace_trees ((w, t) :: bw)) with ((wsT w ++ [Grammar.Node WORD [Tok WORD t]]) ++ brace_trees bw).
    rewrite <- !app_assoc. cbn [app].
    destruct fuel as [|fuel]; [cbn in Hf; lia|]. cbn [words_loop].
    rewrite count_ws_wst.
    repeat match goal with |- context[length w + count_ws ?B] => replace (count_ws B) with 0 by reflexivity end.
    rewrite Nat.add_0_r. rewrite nth_kind_mk, kind_at_wst. cbn [fst kind_beq orb andb].
    rewrite bumps_mk, firstn_wst, skipn_wst. fold (wsT w). rewrite bump_node_mk. cbn [fst snd].
    change (count_skip (mkst ?B ?G0)) with (count_ws B).
    rewrite (IH fuel (S n) rest); [|change (brace_toks ((w, t) :: bw)) with ((wst w ++ [(WORD, t)]) ++ brace_toks bw) in Hf; rewrite !app_length in Hf; cbn [length] in Hf; rewrite app_length; lia|exact H3].
    f_equal; [f_equal; cbn [length]; lia|]. unfold mkst. f_equal. now rewrite <- !app_assoc.
Qed.

Lemma brace_operand fuel bo bc bw wl w rest : 1 <= fuel ->
  OperandAt (value fuel) false (length w) (wst w ++ ((OPEN_BRACE, bo) :: brace_toks bw ++ wst wl ++ [(CLOSE_BRACE, bc)]) ++ rest) (wsT w)
    (Tok OPEN_BRACE bo :: (if 1 <? length bw then [Grammar.Node SENTENCE (brace_trees bw)] else brace_trees bw) ++ wsT wl ++ [Tok CLOSE_BRACE bc]) rest.
Proof.
  intros Hf F. destruct fuel as [|fuel]; [lia|]. unfold operandf. cbn [value]. unfold value_body.
  rewrite <- app_comm_cons. rewrite nth_kind_mk, kind_at_wst. cbn [fst].
  rewrite bumps_mk, firstn_wst, skipn_wst. fold (wsT w).
  change (bump (mkst ((OPEN_BRACE, bo) :: ?B) ?G)) with (mkst B (G ++ [Tok OPEN_BRACE bo])).
  change (buf (mkst ?B ?G)) with B. change (count_skip (mkst ?B ?G)) with (count_ws B).
  set (rest' := wst wl ++ (CLOSE_BRACE, bc) :: rest).
  assert (Hn : next_kind rest' = CLOSE_BRACE) by (unfold rest'; now rewrite next_kind_wst).
  match goal with |- context[words_loop ?f false ?sk 0 (mkst ?B ?G)] =>
    replace (words_loop f false sk 0 (mkst B G)) with (count_ws rest', 0 + length bw, mkst rest' (G ++ brace_trees bw))
      by (symmetry; replace B with (brace_toks bw ++ rest') by (unfold rest'; now rewrite <- !app_assoc);
          apply words_loop_brace; [apply Nat.lt_succ_diag_r|rewrite Hn; discriminate]) end.
  cbn [Nat.add]. change (checkpoint (mkst ?B ?G)) with (length G).
  assert (Hc : count_ws rest' = length wl) by (unfold rest'; rewrite count_ws_wst; cbn; lia).
  rewrite Hc.
  destruct (1 <? length bw) eqn:E.
  - replace (((F ++ wsT w) ++ [Tok OPEN_BRACE bo]) ++ brace_trees bw) with (((F ++ wsT w) ++ [Tok OPEN_BRACE bo]) ++ brace_trees bw) by reflexivity.
    rewrite close_at_mk. unfold rest'. rewrite eat_brace. rewrite app_length. f_equal. f_equal. unfold mkst. f_equal. rewrite <- !app_assoc. reflexivity.
  - unfold rest'. rewrite eat_brace. rewrite app_length. f_equal. f_equal. unfold mkst. f_equal. rewrite <- !app_assoc. reflexivity.
Qed.

Definition operand_spec (fuel : nat) (x : operand) : Prop := forall w rest, follows rest -> (ends_in_unit x = true -> unit_follows rest) ->
  OperandAt (value fuel) false (length w) (wst w ++ toks_operand x ++ rest) (wsT w) (trees_operand x) rest.
Definition expr_spec (fuel : nat) (e : expr) : Prop := forall w rest F, follows rest -> unit_follows rest -> op_of (next_kind rest) = None ->
  operation fuel (length w) (mkst (wst w ++ toks_expr e ++ rest) F) = Some (Some (count_ws rest), mkst rest (F ++ trees_expr w e)).

Lemma unit_follows_close w2 pc rest : unit_follows (wst w2 ++ (CLOSE_PAREN, pc) :: rest).
Proof. unfold unit_follows. destruct w2 as [|x [|y w2]]; cbn; try exact I; split; discriminate. Qed.
Lemma unit_follows_end w1 : unit_follows (wst w1).
Proof. unfold unit_follows. destruct w1 as [|x [|y w1]]; cbn; try exact I; split; discriminate. Qed.

Lemma paren_operand fuel po pc w1 e w2 : expr_spec fuel e -> operand_spec (S fuel) (Paren po pc w1 e w2).
Proof.
  intros He w rest _ _ F. unfold operandf. cbn [value]. unfold value_body.
  cbn [toks_operand]. rewrite nth_kind_mk. rewrite <- app_comm_cons, kind_at_wst. cbn [fst].
  rewrite bumps_mk, firstn_wst, skipn_wst. fold (wsT w).
  change (bump (mkst ((OPEN_PAREN, po) :: ?B) ?G)) with (mkst B (G ++ [Tok OPEN_PAREN po])).
  set (rest' := wst w2 ++ (CLOSE_PAREN, pc) :: rest).
  change (count_skip (mkst ?B ?G)) with (count_ws B).
  match goal with |- context[count_ws ?B] => replace B with (wst w1 ++ toks_expr e ++ rest')
    by (unfold rest'; now rewrite <- !app_assoc) end.
  assert (Hc : count_ws (wst w1 ++ toks_expr e ++ rest') = length w1).
  { rewrite count_ws_wst. destruct e as [x r]. cbn [toks_expr]. rewrite <- app_assoc, count_ws_operand. lia. }
  rewrite Hc.
  assert (Hn : next_kind rest' = CLOSE_PAREN) by (unfold rest'; now rewrite next_kind_wst).
  rewrite (He w1 rest' _); [|unfold rest'; apply follows_wst; discriminate|apply unit_follows_close|now rewrite Hn].
  assert (Hc2 : count_ws rest' = length w2) by (unfold rest'; rewrite count_ws_wst; cbn; lia).
  rewrite Hc2. unfold eat. cbn [kinds_match]. rewrite nth_kind_mk. unfold rest' at 1. rewrite kind_at_wst. cbn [fst kind_beq andb].
  rewrite bumps_mk. cbn [length]. unfold rest'.
  replace (length w2 + 1) with (S (length w2)) by lia.
  rewrite skipn_S_wst, firstn_S_wst. unfold checkpoint, mkst at 1. cbn [forest].
  f_equal. f_equal; [now rewrite app_length, wsT_length|].
  unfold mkst. f_equal. cbn [trees_operand]. rewrite map_app. fold (wsT w2). cbn [map toktree fst snd].
  rewrite <- !app_assoc. reflexivity.
Qed.

(* ---- function calls ---- *)
Fixpoint more_ok (fuel : nat) (m : more) : Prop :=
  match m with MEnd _ => True | MComma _ _ _ e m' => expr_spec fuel e /\ more_ok fuel m' end.
Definition args_ok (fuel : nat) (a : args) : Prop :=
  match a with ANone _ => True | AOne _ e m => expr_spec fuel e /\ more_ok fuel m end.
Fixpoint more_size (m : more) : nat := match m with MEnd _ => 0 | MComma _ _ _ _ m' => S (more_size m') end.
Lemma more_size_le m : more_size m <= length (toks_more m).
Proof. induction m as [wl|wc ct w1 e m IH]; cbn [more_size toks_more]; [lia|]. repeat (rewrite app_length || cbn [length app]). lia. Qed.

Lemma args_step_arg operationf c lf s : nth_kind s (count_skip s) 0 <> CLOSE_PAREN ->
  args_loop operationf c (S lf) s =
    match operationf (count_skip s) s with
    | None => None
    | Some (None, s1) => Some (false, s1)
    | Some (Some skip1, s1) =>
        match eat skip1 [COMMA] s1 with
        | (true, s2) => args_loop operationf c lf s2
        | (false, s2) => Some (eat skip1 [CLOSE_PAREN] (close_at c FN_ARGUMENTS s2))
        end
    end.
Proof. intros H. cbn [args_loop]. destruct (nth_kind s (count_skip s) 0); congruence || reflexivity. Qed.

Lemma expr_first_kind e w l : kind_at (wst w ++ toks_expr e ++ l) (length w) <> CLOSE_PAREN.
Proof.
  destruct e as [x r]. cbn [toks_expr]. rewrite <- app_assoc.
  destruct x; cbn [toks_operand]; rewrite <- ?app_comm_cons; rewrite kind_at_wst; discriminate.
Qed.
Lemma count_ws_expr e w l : count_ws (wst w ++ toks_expr e ++ l) = length w.
Proof. rewrite count_ws_wst. destruct e as [x r]. cbn [toks_expr]. rewrite <- app_assoc, count_ws_operand. lia. Qed.

Lemma eat_close w pc rest G : eat (length w) [CLOSE_PAREN] (mkst (wst w ++ (CLOSE_PAREN, pc) :: rest) G)
  = (true, mkst rest (G ++ wsT w ++ [Tok CLOSE_PAREN pc])).
Proof.
  unfold eat. cbn [kinds_match]. rewrite nth_kind_mk, kind_at_wst. cbn [fst kind_beq andb length].
  replace (length w + 1) with (S (length w)) by lia. rewrite bumps_mk, skipn_S_wst, firstn_S_wst.
  rewrite map_app. reflexivity.
Qed.

Definition more_rest (m : more) (pc : list chr) (rest : list tok) : list tok := toks_more m ++ (CLOSE_PAREN, pc) :: rest.
Lemma more_rest_ok m pc rest :
  follows (more_rest m pc rest) /\ unit_follows (more_rest m pc rest) /\ op_of (next_kind (more_rest m pc rest)) = None.
Proof.
  unfold more_rest. destruct m as [wl|wc ct w1 e m]; cbn [toks_more].
  - split; [apply follows_wst; discriminate|]. split; [apply unit_follows_close|]. now rewrite next_kind_wst.
  - rewrite <- app_assoc, <- app_comm_cons. split; [apply follows_wst; discriminate|]. split; [|now rewrite next_kind_wst].
    unfold unit_follows. destruct wc as [|x [|y wc]]; cbn; try exact I; split; discriminate.
Qed.

Lemma args_from_arg fuel : forall m, more_ok fuel m -> forall lf A w e F0 pc rest, more_size m < lf -> expr_spec fuel e ->
  args_loop (operation fuel) (length F0) lf (mkst (wst w ++ toks_expr e ++ more_rest m pc rest) (F0 ++ A))
  = Some (true, mkst rest (F0 ++ [Grammar.Node FN_ARGUMENTS (A ++ trees_expr w e ++ trees_more m)] ++ wsT (last_ws m) ++ [Tok CLOSE_PAREN pc])).
Proof.
  induction m as [wl|wc ct w1 e' m IH]; intros Hm lf A w e F0 pc rest Hlf He;
    (destruct lf as [|lf]; [lia|]); rewrite args_step_arg
      by (change (count_skip (mkst ?B ?G)) with (count_ws B); rewrite count_ws_expr, nth_kind_mk; apply expr_first_kind);
    change (count_skip (mkst ?B ?G)) with (count_ws B); rewrite count_ws_expr.
  - destruct (more_rest_ok (MEnd wl) pc rest) as (R1 & R2 & R3).
    rewrite (He w _ _ R1 R2 R3); unfold more_rest; cbn [toks_more].
    rewrite count_ws_wst. cbn [count_ws]. rewrite Nat.add_0_r.
    unfold eat at 1. cbn [kinds_match]. rewrite nth_kind_mk, kind_at_wst. cbn [fst kind_beq andb].
    replace ((F0 ++ A) ++ trees_expr w e) with (F0 ++ (A ++ trees_expr w e)) by now rewrite app_assoc.
    rewrite close_at_mk, eat_close. cbn [trees_more last_ws]. rewrite app_nil_r, <- !app_assoc. reflexivity.
  - destruct (more_rest_ok (MComma wc ct w1 e' m) pc rest) as (R1 & R2 & R3).
    rewrite (He w _ _ R1 R2 R3); unfold more_rest; cbn [toks_more].
    rewrite <- app_assoc, <- app_comm_cons. rewrite count_ws_wst. cbn [count_ws]. rewrite Nat.add_0_r.
    unfold eat. cbn [kinds_match]. rewrite nth_kind_mk, kind_at_wst. cbn [fst kind_beq andb length].
    replace (length wc + 1) with (S (length wc)) by lia. rewrite bumps_mk, skipn_S_wst, firstn_S_wst.
    destruct Hm as [He' Hm].
    match goal with |- args_loop _ _ _ (mkst ?B ?G) = _ =>
      replace B with (wst w1 ++ toks_expr e' ++ more_rest m pc rest) by (unfold more_rest; now rewrite <- !app_assoc);
      replace G with (F0 ++ (A ++ trees_expr w e ++ wsT wc ++ [Tok COMMA ct]))
        by (rewrite map_app; unfold wsT; cbn [map toktree fst snd]; now rewrite !app_assoc) end.
    rewrite (IH Hm lf _ w1 e' F0 pc rest); [|cbn in Hlf; lia|exact He'].
    cbn [trees_more last_ws]. rewrite <- !app_assoc. reflexivity.
Qed.

Lemma call_operand fuel name po pc a : args_ok fuel a -> operand_spec (S (S fuel)) (Call name po pc a).
Proof.
  intros Ha w rest _ _ F. unfold operandf. cbn [value]. unfold value_body.
  cbn [toks_operand]. rewrite <- !app_comm_cons. rewrite nth_kind_mk, kind_at_wst. cbn [fst].
  rewrite bumps_mk, firstn_wst, skipn_wst. fold (wsT w).
  change (bump_node WORD (mkst ((WORD, name) :: ?B) ?G)) with (mkst B (G ++ [Grammar.Node WORD [Tok WORD name]])).
  rewrite nth_kind_mk. cbn [kind_at nth_error kind_beq].
  change (checkpoint (mkst ?B ?G)) with (length G).
  rewrite close_at_mk.
  change (bump (mkst ((OPEN_PAREN, po) :: ?B) ?G)) with (mkst B (G ++ [Tok OPEN_PAREN po])).
  cbn [call_arguments]. change (checkpoint (mkst ?B ?G)) with (length G). change (buf (mkst ?B ?G)) with B.
  set (G := ((F ++ wsT w) ++ [Grammar.Node FN_NAME [Grammar.Node WORD [Tok WORD name]]]) ++ [Tok OPEN_PAREN po]).
  destruct a as [w0|w1 e m]; cbn [toks_args].
  - rewrite <- app_assoc. cbn [app]. cbn [args_loop]. change (count_skip (mkst ?B ?X)) with (count_ws B).
    rewrite count_ws_wst. cbn [count_ws]. rewrite Nat.add_0_r. rewrite nth_kind_mk, kind_at_wst. cbn [fst].
    rewrite <- (app_nil_r G) at 2. rewrite close_at_mk, eat_close.
    replace (G ++ [Grammar.Node FN_ARGUMENTS []]) with ((F ++ wsT w) ++ ([Grammar.Node FN_NAME [Grammar.Node WORD [Tok WORD name]]; Tok OPEN_PAREN po; Grammar.Node FN_ARGUMENTS []]))
      by (unfold G; now rewrite <- !app_assoc).
    rewrite <- !app_assoc. rewrite (app_assoc F (wsT w)). rewrite close_at_mk.
    rewrite app_length, <- app_assoc. cbn [trees_operand app]. reflexivity.
  - destruct Ha as [He Hm].
    replace ((wst w1 ++ toks_expr e ++ toks_more m) ++ [(CLOSE_PAREN, pc)]) with (wst w1 ++ toks_expr e ++ toks_more m ++ [(CLOSE_PAREN, pc)])
      by now rewrite <- !app_assoc.
    rewrite <- !app_assoc. cbn [app]. fold (more_rest m pc rest).
    rewrite <- (app_nil_r G) at 2.
    rewrite (args_from_arg fuel m Hm _ [] w1 e G pc rest); [|pose proof (more_size_le m); unfold more_rest; rewrite !app_length; lia|exact He].
    cbn [app].
    replace (G ++ Grammar.Node FN_ARGUMENTS (trees_expr w1 e ++ trees_more m) :: wsT (last_ws m) ++ [Tok CLOSE_PAREN pc])
      with ((F ++ wsT w) ++ (Grammar.Node FN_NAME [Grammar.Node WORD [Tok WORD name]] :: Tok OPEN_PAREN po ::
              Grammar.Node FN_ARGUMENTS (trees_expr w1 e ++ trees_more m) :: wsT (last_ws m) ++ [Tok CLOSE_PAREN pc]))
      by (unfold G; now rewrite <- !app_assoc).
    rewrite close_at_mk. rewrite app_length, <- app_assoc. cbn [trees_operand app]. reflexivity.
Qed.

(* ---- chains ---- *)
Lemma follows_tail r rest : follows rest -> follows (toks_tail r ++ rest).
Proof.
  intros H. destruct r as [|wb a txt wa x r'|wb txt wa u r']; [exact H| |]; cbn [toks_tail]; rewrite <- app_assoc, <- app_comm_cons.
  - apply follows_wst; destruct a; discriminate.
  - apply follows_wst; discriminate.
Qed.
Lemma unit_follows_tail r rest : tight_ok r -> unit_follows rest -> unit_follows (toks_tail r ++ rest).
Proof.
  intros Ht Hr. destruct r as [|wb a txt wa x r'|wb txt wa u r']; [exact Hr| |]; cbn [toks_tail]; rewrite <- app_assoc, <- app_comm_cons;
    unfold unit_follows; destruct wb as [|b1 [|b2 wb]]; cbn in *.
  - destruct Ht as [-> | ->]; exact I.
  - destruct a; split; discriminate.
  - split; discriminate.
  - contradiction.
  - split; discriminate.
  - split; discriminate.
Qed.

Fixpoint all_operands (fuel : nat) (r : tail) : Prop :=
  match r with
  | TNil => True
  | TCons _ _ _ _ x' r' => operand_spec fuel x' /\ all_operands fuel r'
  | TTo _ _ _ _ r' => all_operands fuel r'
  end.

(* [u]: the current operand is read by unit(); [uf]: it ends in a unit, so what follows must let unit() stop *)
Lemma chain_run fuel : forall r (u uf : bool) (cur_toks : list tok) (cur_trees : list Grammar.tree),
  (forall w rest', follows rest' -> (uf = true -> unit_follows rest') ->
     OperandAt (value fuel) u (length w) (wst w ++ cur_toks ++ rest') (wsT w) cur_trees rest') ->
  (forall l, count_ws (cur_toks ++ l) = 0) ->
  (uf = true -> tight_ok r) -> wf_tail r -> all_operands fuel r ->
  forall glue body i mid0 w rest,
    glue i = mid0 ++ wsT w -> body i = cur_trees ->
    (forall m, glue (S i + m) = tglue r m) -> (forall m, body (S i + m) = tbody r m) ->
    follows rest -> unit_follows rest -> op_of (next_kind rest) = None ->
    Run glue body (value fuel) i u (length w) (wst w ++ cur_toks ++ toks_tail r ++ rest) mid0 (prios r) (count_ws rest) rest.
Proof.
  induction r as [|wb a txt wa x' r' IH|wb txt wa un r' IH]; intros u uf cur_toks cur_trees Hcur Hcw Htight Hwf Hall glue body i mid0 w rest Hg Hb Hgl Hbd Hfo Huf Hst.
  - cbn [toks_tail prios app]. eapply Run_end; [rewrite Hb; apply Hcur; [exact Hfo|intros _; exact Huf]|exact Hg|exact Hst].
  - destruct Hall as [Hx' Hall]. destruct Hwf as [Hwx [Htx Hwf]]. cbn [prios].
    set (b1 := toks_tail (TCons wb a txt wa x' r') ++ rest).
    assert (Hb1 : b1 = wst wb ++ (akind a, txt) :: wst wa ++ toks_operand x' ++ toks_tail r' ++ rest).
    { unfold b1. cbn [toks_tail]. now rewrite <- !app_assoc, <- app_comm_cons, <- !app_assoc. }
    assert (Hc1 : count_ws b1 = length wb).
    { rewrite Hb1, count_ws_wst. destruct a; cbn; lia. }
    eapply Run_op with (b1 := b1) (t := (akind a, txt)) (pre := wsT w) (b2 := wst wa ++ toks_operand x' ++ toks_tail r' ++ rest).
    + rewrite Hb. apply Hcur; [apply follows_tail; exact Hfo|intros Hu; apply unit_follows_tail; [apply Htight; exact Hu|exact Huf]].
    + exact Hg.
    + rewrite Hc1, Hb1. apply nth_error_wst.
    + cbn [fst]. apply op_of_arith.
    + rewrite Hc1, Hb1. symmetry. apply skipn_S_wst.
    + rewrite Hc1. rewrite Hb1. rewrite firstn_wst. fold (wsT wb).
      assert (Hc2 : count_ws (wst wa ++ toks_operand x' ++ toks_tail r' ++ rest) = length wa)
        by (rewrite count_ws_wst, count_ws_operand; lia).
      rewrite Hc2.
      apply (IH false (ends_in_unit x') (toks_operand x') (trees_operand x')); try assumption.
      * intros l. apply count_ws_operand.
      * specialize (Hgl 0). rewrite Nat.add_0_r in Hgl. rewrite Hgl. cbn [tglue toktree fst snd]. now rewrite <- !app_assoc.
      * specialize (Hbd 0). rewrite Nat.add_0_r in Hbd. rewrite Hbd. reflexivity.
      * intros m. specialize (Hgl (S m)). cbn [tglue] in Hgl. rewrite <- Hgl. f_equal. lia.
      * intros m. specialize (Hbd (S m)). cbn [tbody] in Hbd. rewrite <- Hbd. f_equal. lia.
  - destruct Hwf as [Hwu [Htr Hwf]]. cbn [prios]. cbn [all_operands] in Hall.
    set (b1 := toks_tail (TTo wb txt wa un r') ++ rest).
    assert (Hb1 : b1 = wst wb ++ (TO, txt) :: wst wa ++ toks_uast un ++ toks_tail r' ++ rest).
    { unfold b1. cbn [toks_tail]. now rewrite <- !app_assoc, <- app_comm_cons, <- !app_assoc. }
    assert (Hc1 : count_ws b1 = length wb) by (rewrite Hb1, count_ws_wst; cbn; lia).
    eapply Run_op with (b1 := b1) (t := (TO, txt)) (pre := wsT w) (b2 := wst wa ++ toks_uast un ++ toks_tail r' ++ rest).
    + rewrite Hb. apply Hcur; [apply follows_tail; exact Hfo|intros Hu; apply unit_follows_tail; [apply Htight; exact Hu|exact Huf]].
    + exact Hg.
    + rewrite Hc1, Hb1. apply nth_error_wst.
    + reflexivity.
    + rewrite Hc1, Hb1. symmetry. apply skipn_S_wst.
    + rewrite Hc1. rewrite Hb1. rewrite firstn_wst. fold (wsT wb).
      assert (Hc2 : count_ws (wst wa ++ toks_uast un ++ toks_tail r' ++ rest) = length wa)
        by (rewrite count_ws_wst, (count_ws_uast un _ Hwu); lia).
      rewrite Hc2.
      apply (IH true true (toks_uast un) [Grammar.Node UNIT (trees_uast un)]); try assumption.
      * intros w' rest' _ Hu'. apply unit_operand; [exact Hwu|apply Hu'; reflexivity].
      * intros l. apply count_ws_uast. exact Hwu.
      * intros _. exact Htr.
      * specialize (Hgl 0). rewrite Nat.add_0_r in Hgl. rewrite Hgl. cbn [tglue toktree fst snd]. now rewrite <- !app_assoc.
      * specialize (Hbd 0). rewrite Nat.add_0_r in Hbd. rewrite Hbd. reflexivity.
      * intros m. specialize (Hgl (S m)). cbn [tglue] in Hgl. rewrite <- Hgl. f_equal. lia.
      * intros m. specialize (Hbd (S m)). cbn [tbody] in Hbd. rewrite <- Hbd. f_equal. lia.
Qed.

Lemma prios_length r : length (prios r) <= length (toks_tail r).
Proof. induction r as [|wb a txt wa x r IH|wb txt wa u r IH]; [cbn; lia| |]; cbn [prios toks_tail length]; repeat (rewrite app_length || cbn [length app]); lia. Qed.

Lemma chain_expr fuel x r : operand_spec fuel x -> (ends_in_unit x = true -> tight_ok r) -> wf_tail r -> all_operands fuel r ->
  expr_spec (S fuel) (Chain x r).
Proof.
  intros Hx Htx Hwf Hall w rest F Hfo Huf Hst. cbn [operation toks_expr trees_expr].
  change (checkpoint (mkst ?B F)) with (length F). rewrite <- app_assoc.
  apply op_loop_climb.
  - apply (chain_run fuel r false (ends_in_unit x) (toks_operand x) (trees_operand x)); try reflexivity; try assumption.
    + intros l. apply count_ws_operand.
  - change (buf (mkst ?B F)) with B. rewrite !app_length. pose proof (prios_length r). lia.
Qed.

(* every expression, every operand, at any fuel that covers the nesting *)
Lemma all_specs :
  (forall x, forall fuel, need_operand x <= fuel -> wf_operand x -> operand_spec fuel x) /\
  (forall e, forall fuel, need_expr e <= fuel -> wf_expr e -> expr_spec fuel e) /\
  (forall r, forall fuel, need_tail r <= fuel -> wf_tail r -> all_operands fuel r) /\
  (forall a, forall fuel, need_args a <= fuel -> wf_args a -> args_ok fuel a) /\
  (forall m, forall fuel, need_more m <= fuel -> wf_more m -> more_ok fuel m).
Proof.
  apply syntax_mut.
  - intros t fuel Hf _ w rest Hfo _. cbn [toks_operand trees_operand app]. apply number_operand; [exact Hf|exact Hfo].
  - intros t wp pt fuel Hf _ w rest _ _. cbn [toks_operand trees_operand]. apply percent_operand. exact Hf.
  - intros t wu u fuel Hf Hw w rest _ Hu. cbn [toks_operand trees_operand]. apply numu_operand; [exact Hf|exact Hw|apply Hu; reflexivity].
  - intros po pc w1 e IHe w2 fuel Hf Hw. cbn [need_operand] in Hf. destruct fuel as [|fuel]; [lia|].
    apply paren_operand. apply IHe; [lia|exact Hw].
  - intros name po pc a IHa fuel Hf Hw. cbn [need_operand] in Hf. destruct fuel as [|[|fuel]]; [lia|lia|].
    apply call_operand. apply IHa; [lia|exact Hw].
  - intros first ms fuel Hf _ w rest Hfo _. cbn [toks_operand trees_operand]. apply fact_operand; [exact Hf|exact Hfo].
  - intros bo bc bw wl fuel Hf _ w rest _ _. cbn [toks_operand trees_operand]. apply brace_operand. exact Hf.
  - intros x IHx r IHr fuel Hf [Hwx [Htx Hwr]]. cbn [need_expr] in Hf. destruct fuel as [|fuel]; [lia|].
    apply chain_expr; [apply IHx; [lia|exact Hwx]|exact Htx|exact Hwr|apply IHr; [lia|exact Hwr]].
  - intros fuel _ _. exact I.
  - intros wb a txt wa x IHx r IHr fuel Hf [Hwx [_ Hwr]]. cbn [need_tail] in Hf. split; [apply IHx|apply IHr]; try assumption; lia.
  - intros wb txt wa u r IHr fuel Hf [_ [_ Hwr]]. cbn [need_tail] in Hf. cbn [all_operands]. apply IHr; assumption.
  - intros w fuel _ _. exact I.
  - intros w1 e IHe m IHm fuel Hf [Hwe Hwm]. cbn [need_args] in Hf. split; [apply IHe|apply IHm]; try assumption; lia.
  - intros wl fuel _ _. exact I.
  - intros wc ct w1 e IHe m IHm fuel Hf [Hwe Hwm]. cbn [need_more] in Hf. split; [apply IHe|apply IHm]; try assumption; lia.
Qed.

Lemma need_bound :
  (forall x, need_operand x <= length (toks_operand x)) /\
  (forall e, need_expr e <= S (length (toks_expr e))) /\
  (forall r, need_tail r <= length (toks_tail r)) /\
  (forall a, need_args a <= S (length (toks_args a))) /\
  (forall m, need_more m <= S (length (toks_more m))).
Proof.
  apply syntax_mut.
  - intros t. cbn. lia.
  - intros t wp pt. cbn. lia.
  - intros t wu u. cbn. lia.
  - intros po pc w1 e IHe w2. cbn [need_operand toks_operand length]. rewrite !app_length. cbn [length]. lia.
  - intros name po pc a IHa. cbn [need_operand toks_operand length]. rewrite !app_length. cbn [length]. lia.
  - intros first ms. cbn. lia.
  - intros bo bc bw wl. cbn. lia.
  - intros x IHx r IHr. cbn [need_expr toks_expr]. rewrite app_length. lia.
  - cbn. lia.
  - intros wb a txt wa x IHx r IHr. cbn [need_tail toks_tail]. rewrite !app_length. cbn [length]. rewrite !app_length. lia.
  - intros wb txt wa u r IHr. cbn [need_tail toks_tail]. repeat (rewrite app_length || cbn [length app]). lia.
  - intros w. cbn. lia.
  - intros w1 e IHe m IHm. cbn [need_args toks_args]. rewrite !app_length. lia.
  - intros wl. cbn. lia.
  - intros wc ct w1 e IHe m IHm. cbn [need_more toks_more]. repeat (rewrite app_length || cbn [length app]). lia.
Qed.

(* ---- the whole parser ---- *)
Lemma root_step f c skip error s : root_loop (S f) c skip error s =
  match nth_kind s skip 0 with
  | EOF => Some (error, bumps skip s)
  | OPEN_BRACE | OPEN_PAREN | WORD | NUMBER =>
      match operation (2 * length (buf s) + 2) skip s with
      | None => None
      | Some (Some skip', s1) => root_loop f c skip' error s1
      | Some (None, s1) => let s2 := close_at c ERROR s1 in root_loop f c (count_skip s2) error s2
      end
  | _ => let s1 := bump (bumps skip s) in root_loop f c (count_skip s1) true s1
  end.
Proof. reflexivity. Qed.

Theorem parse_expression : forall (w0 : blanks) (e : expr) (w1 : blanks), wf_expr e ->
  parse_root (wst w0 ++ toks_expr e ++ wst w1) = Some (trees_expr w0 e ++ wsT w1).
Proof.
  intros w0 e w1 Hwf. unfold parse_root.
  set (toks := wst w0 ++ toks_expr e ++ wst w1).
  change {| buf := toks; forest := [] |} with (mkst toks []).
  change (count_skip (mkst toks [])) with (count_ws toks). change (checkpoint (mkst toks [])) with 0.
  assert (Hc : count_ws toks = length w0).
  { unfold toks. rewrite count_ws_wst. destruct e as [x r]. cbn [toks_expr]. rewrite <- app_assoc, count_ws_operand. lia. }
  rewrite Hc. rewrite root_step. rewrite nth_kind_mk.
  assert (Hk : kind_at toks (length w0) = NUMBER \/ kind_at toks (length w0) = OPEN_PAREN \/ kind_at toks (length w0) = WORD \/ kind_at toks (length w0) = OPEN_BRACE).
  { unfold toks. destruct e as [x r]. cbn [toks_expr]. rewrite <- app_assoc.
    destruct x as [t|t wp pt|t wu u|po pc wa e' wb|name po pc a|first ms|bo bc bw wl]; cbn [toks_operand]; rewrite <- ?app_comm_cons; rewrite kind_at_wst; cbn; auto. }
  assert (Hend : next_kind (wst w1) = EOF) by (unfold next_kind; rewrite count_ws_only; apply kind_at_end).
  assert (Hop : operation (2 * length (buf (mkst toks [])) + 2) (length w0) (mkst toks [])
                = Some (Some (count_ws (wst w1)), mkst (wst w1) ([] ++ trees_expr w0 e))).
  { apply (proj1 (proj2 all_specs) e).
    - pose proof (proj1 (proj2 need_bound) e). change (buf (mkst toks [])) with toks. unfold toks. rewrite !app_length. lia.
    - exact Hwf.
    - apply follows_end.
    - apply unit_follows_end.
    - now rewrite Hend. }
  rewrite count_ws_only in Hop. cbn [app] in Hop.
  assert (Hlast : root_loop (S (length toks)) 0 (length w1) false (mkst (wst w1) (trees_expr w0 e)) =
                  Some (false, mkst [] (trees_expr w0 e ++ wsT w1))).
  { rewrite root_step. rewrite nth_kind_mk, kind_at_end. rewrite bumps_mk. rewrite <- (wst_length w1), firstn_all, skipn_all. reflexivity. }
  change (buf (mkst toks [])) with toks in Hop.
  destruct Hk as [Hk|[Hk|[Hk|Hk]]]; rewrite Hk; change (buf (mkst toks [])) with toks; rewrite Hop, Hlast; reflexivity.
Qed.

(* ... and the tree is the documented grammar's: inside every group, [canon] over the three priority levels *)
Definition levels4 : list nat := [1; 2; 3; 10].
Lemma mkin_atoms i qs : atoms (mkin i qs).
Proof. revert i. induction qs as [|q qs IH]; intros i o x H; cbn in H; [tauto|]. destruct H as [H|H]; [inversion H; eauto|eapply IH; eauto]. Qed.
Lemma prios_levels r i : forall o y, In (o, y) (mkin i (prios r)) -> In (prio o) levels4.
Proof.
  revert i. induction r as [|wb a txt wa x r IH|wb txt wa u r IH]; intros i o y H; cbn [prios mkin] in H; [destruct H| |].
  - destruct H as [H|H]; [inversion H; subst; destruct a; cbn; tauto|eapply IH; exact H].
  - destruct H as [H|H]; [inversion H; subst; cbn; tauto|eapply IH; exact H].
Qed.
Theorem group_is_canon : forall (w : blanks) (x : operand) (r : tail),
  trees_expr w (Chain x r) =
    ritems (fun n => match n with O => wsT w | S m => tglue r m end)
           (fun n => match n with O => trees_operand x | S m => tbody r m end)
           (canon levels4 (Leaf 0, mkin 0 (prios r))).
Proof.
  intros w x r. cbn [trees_expr]. f_equal. apply climb_eq_canon; [repeat constructor|apply mkin_atoms|apply prios_levels].
Qed.

(* ---- the priorities of the model are the ones written in grammar.rs ---- *)
From AV Require gen.Tables.
Definition op_row (k : kind) : option (N * nat * N * bool) :=
  match op_of k with Some (p, node, u) => Some (kind_code k, p, kind_code node, u) | None => None end.
Definition table_row (k : kind) : option (N * nat * N * bool) :=
  find (fun r => N.eqb (fst (fst (fst r))) (kind_code k)) gen.Tables.op_table.
Theorem priorities_are_translated : forall k : kind, op_row k = table_row k.
Proof. destruct k; vm_compute; reflexivity. Qed.

(* `to` binds loosest, for every arithmetic operator next to it: "x op y to u" is (x op y) to u, and "x to u op y" is x to (u op y) *)
Theorem cast_binds_loosest : forall w a t w' y wb tt wa u,
  canon levels4 (Leaf 0, mkin 0 (prios (TCons w a t w' y (TTo wb tt wa u TNil))))
    = Climb.Node (Climb.Node (Leaf 0) [((aprio a, 1), Leaf 1)]) [((1, 2), Leaf 2)] /\
  canon levels4 (Leaf 0, mkin 0 (prios (TTo wb tt wa u (TCons w a t w' y TNil))))
    = Climb.Node (Leaf 0) [((1, 1), Climb.Node (Leaf 1) [((aprio a, 2), Leaf 2)])].
Proof. intros. destruct a; split; reflexivity. Qed.
