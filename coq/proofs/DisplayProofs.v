(* C08: the formatter is faithful on all three paths, by the long-division invariant of `emit`. *)
From Coq Require Import ZArith List Lia Bool.
Import ListNotations.
From AV Require Import model.Display spec.DecimalSpec.
Open Scope Z_scope.

(* ---- proofs ---- *)
Lemma pow10_pos n : 0 < 10 ^ Z.of_nat n. Proof. apply Z.pow_pos_nonneg; lia. Qed.
Lemma pow10_S n : 10 ^ Z.of_nat (S n) = 10 * 10 ^ Z.of_nat n.
Proof. rewrite Nat2Z.inj_succ, Z.pow_succ_r by lia. reflexivity. Qed.

Lemma val_shift ds : forall acc, val acc ds = acc * 10 ^ Z.of_nat (length ds) + val 0 ds.
Proof.
  induction ds as [|x r IH]; intros acc; cbn [val length]; [cbn; lia|].
  rewrite IH. rewrite (IH (0 * 10 + x)). rewrite pow10_S. lia.
Qed.

Lemma emit_spec k : forall rem den ds r', 0 < den -> 0 <= rem < den -> emit k rem den = (ds, r') ->
  0 <= r' < den /\ rem * 10 ^ Z.of_nat (length ds) = den * val 0 ds + r' /\ (length ds <= k)%nat /\ ((length ds < k)%nat -> r' = 0).
Proof.
  induction k as [|k IH]; intros rem den ds r' Hd Hr He; cbn [emit] in He.
  - inversion He; subst. cbn. repeat split; lia.
  - destruct (rem =? 0) eqn:E.
    + inversion He; subst. apply Z.eqb_eq in E. cbn. repeat split; lia.
    + destruct (emit k (rem * 10 - den * (rem * 10 / den)) den) as [ds1 r1] eqn:E1. inversion He; subst. clear He.
      assert (Hdiv : 0 <= rem * 10 - den * (rem * 10 / den) < den).
      { pose proof (Z.mod_pos_bound (rem * 10) den Hd). rewrite Z.mod_eq in H by lia. lia. }
      destruct (IH _ _ _ _ Hd Hdiv E1) as (H1 & H2 & H3 & H4).
      cbn [length val]. rewrite pow10_S. rewrite (val_shift ds1 (0 * 10 + rem * 10 / den)).
      repeat split; try lia; nia.
Qed.

Lemma whole_like a d dv rem k ds r' p z e : 0 < d -> 0 <= a -> dv = a / d -> rem = a - d * dv -> emit k rem d = (ds, r') ->
  faithful a d {| mant := val dv ds; up := O; down := length ds; mark := negb (r' =? 0); tpath := p; zeros := z; edig := e |}.
Proof.
  intros Hd Ha -> -> He.
  assert (Hr : 0 <= a - d * (a / d) < d) by (pose proof (Z.mod_pos_bound a d Hd); rewrite Z.mod_eq in H by lia; lia).
  destruct (emit_spec _ _ _ _ _ Hd Hr He) as (H1 & H2 & _ & _).
  unfold faithful. cbn [mant up down mark]. rewrite val_shift. change (10 ^ Z.of_nat 0) with 1.
  pose proof (pow10_pos (length ds)). split; [nia|].
  rewrite negb_true_iff, Z.eqb_neq. split; intros H0; nia.
Qed.

Lemma skip0_spec f : forall rem den z r0, 0 < den -> 0 < rem < den -> skip0 f rem den = (z, r0) ->
  r0 = rem * 10 ^ Z.of_nat z /\ 0 < r0 < den.
Proof.
  induction f as [|f IH]; intros rem den z r0 Hd Hr Hs; cbn [skip0] in Hs.
  - inversion Hs; subst. cbn. lia.
  - destruct (rem * 10 / den =? 0) eqn:E.
    + destruct (skip0 f (rem * 10) den) as [z1 r1] eqn:E1. inversion Hs; subst. apply Z.eqb_eq in E.
      assert (rem * 10 < den) by (apply Z.div_small_iff in E; lia).
      destruct (IH (rem * 10) den z1 r0 Hd ltac:(lia) E1) as [H1 H2]. rewrite pow10_S. split; [rewrite H1; ring|lia].
    + inversion Hs; subst. cbn. lia.
Qed.

Theorem display_faithful : forall a d limit el, 0 < d -> 0 <= a -> faithful a d (fmt a d limit el).
Proof.
  intros a d limit el Hd Ha. unfold fmt.
  assert (Hr : 0 <= a - d * (a / d) < d) by (pose proof (Z.mod_pos_bound a d Hd); rewrite Z.mod_eq in H by lia; lia).
  assert (Hdv : 0 <= a / d) by (apply Z.div_pos; lia).
  destruct (el <=? digits (a / d))%nat.
  - destruct (Nat.min limit (digits (a / d)) <? digits (a / d))%nat.
    + (* integer digits are cut *)
      set (c := (digits (a / d) - Nat.min limit (digits (a / d)))%nat). pose proof (pow10_pos c) as Hp.
      unfold faithful. cbn [mant up down mark]. change (10 ^ Z.of_nat 0) with 1.
      pose proof (Z.div_mod (a / d) (10 ^ Z.of_nat c) ltac:(lia)) as Hdm. pose proof (Z.mod_pos_bound (a / d) (10 ^ Z.of_nat c) Hp) as Hmb.
      split; [nia|]. rewrite orb_true_iff, !negb_true_iff, !Z.eqb_neq. split.
      * intros [H0|H0]; nia.
      * intros H0. destruct (Z.eq_dec ((a / d) mod 10 ^ Z.of_nat c) 0); [right|left; assumption]. nia.
    + destruct (emit _ _ d) as [ds r'] eqn:He. eapply whole_like; eauto.
  - destruct (negb (a / d =? 0) || (a - d * (a / d) =? 0)) eqn:Ew.
    + destruct (emit limit _ d) as [ds r'] eqn:He. eapply whole_like; eauto.
    + apply orb_false_iff in Ew as [E1 E2]. apply negb_false_iff, Z.eqb_eq in E1. apply Z.eqb_neq in E2.
      assert (Hlt : a < d) by (apply Z.div_small_iff in E1; lia).
      rewrite E1 in *. replace (a - d * 0) with a in * by lia.
      destruct (skip0 _ a d) as [z r0] eqn:Es. destruct (skip0_spec _ a d z r0 Hd ltac:(lia) Es) as [Hr0 Hb].
      destruct (emit limit r0 d) as [ds r'] eqn:He. destruct (emit_spec limit r0 d ds r' Hd ltac:(lia) He) as (H1 & H2 & _ & _).
      unfold faithful. cbn [mant up down mark]. change (10 ^ Z.of_nat 0) with 1.
      rewrite Nat2Z.inj_add, Z.pow_add_r by lia. rewrite Z.mul_assoc, <- Hr0, H2.
      split; [lia|]. rewrite negb_true_iff, Z.eqb_neq. split; intros H0; lia.
Qed.


Corollary no_mark_reads_back : forall (a d : Z) (limit el : nat), 0 < d -> 0 <= a ->
  mark (fmt a d limit el) = false ->
  mant (fmt a d limit el) * 10 ^ Z.of_nat (up (fmt a d limit el)) * d = a * 10 ^ Z.of_nat (down (fmt a d limit el)).
Proof.
  intros a d limit el Hd Ha Hm. destruct (display_faithful a d limit el Hd Ha) as [_ [H1 H2]].
  destruct (Z.eq_dec (mant (fmt a d limit el) * 10 ^ Z.of_nat (up (fmt a d limit el)) * d) (a * 10 ^ Z.of_nat (down (fmt a d limit el)))) as [E|E]; [exact E|].
  specialize (H2 E). congruence.
Qed.

Example example_display : let t := fmt 12345675 10 6 6 in mant t = 1234567 /\ up t = 0%nat /\ down t = 0%nat /\ mark t = true /\ edig t = 6%nat.
Proof. vm_compute. repeat split. Qed.
