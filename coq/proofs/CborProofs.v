(* C17, wire level: decoding an encoded value gives the value back, whatever follows it. *)
From Coq Require Import NArith List Lia Bool Arith.
Import ListNotations.
From AV Require Import model.Cbor.
Open Scope N_scope.

(* ---- round trip ---- *)
Definition u64 (a : N) := a < 18446744073709551616.
Fixpoint size (v : cbor) : nat :=
  match v with
  | CArr l => S ((fix go (l : list cbor) := match l with [] => O | x :: r => (size x + go r)%nat end) l)
  | CMap l | CMapIndef l => S ((fix go (l : list (cbor * cbor)) := match l with [] => O | (k, x) :: r => (size k + size x + go r)%nat end) l)
  | _ => 1%nat
  end.
Fixpoint wf (v : cbor) : Prop :=
  match v with
  | CUInt n | CNInt n => u64 n
  | CText s => u64 (N.of_nat (length s))
  | CArr l => u64 (N.of_nat (length l)) /\ (fix go (l : list cbor) := match l with [] => True | x :: r => wf x /\ go r end) l
  | CMap l => u64 (N.of_nat (length l)) /\ (fix go (l : list (cbor * cbor)) := match l with [] => True | (k, x) :: r => wf k /\ wf x /\ go r end) l
  | CMapIndef l => (fix go (l : list (cbor * cbor)) := match l with [] => True | (k, x) :: r => wf k /\ wf x /\ go r end) l
  | CNull => True
  end.

Lemma pow256_pos k : 0 < 256 ^ N.of_nat k.
Proof. induction k as [|k IH]; [cbn; lia|]. rewrite Nat2N.inj_succ, N.pow_succ_r'. lia. Qed.

Lemma of_be_to_be_gen k : forall a acc, of_be acc (to_be k a) = acc * 256 ^ N.of_nat k + a mod 256 ^ N.of_nat k.
Proof.
  induction k as [|k IH]; intros a acc; cbn [to_be of_be].
  - cbn. rewrite N.mod_1_r. lia.
  - rewrite IH. rewrite Nat2N.inj_succ, N.pow_succ_r'. pose proof (pow256_pos k) as Hp.
    rewrite (N.mul_comm 256 (256 ^ N.of_nat k)). rewrite N.mod_mul_r by lia. lia.
Qed.
Lemma of_be_to_be k a : a < 256 ^ N.of_nat k -> of_be 0 (to_be k a) = a.
Proof. intros H. rewrite of_be_to_be_gen. rewrite N.mod_small by exact H. lia. Qed.
Lemma to_be_length k a : length (to_be k a) = k.
Proof. induction k as [|k IH]; cbn; [reflexivity|]. now rewrite IH. Qed.

Lemma take_app (l r : list byte) : take (length l) (l ++ r) = Some (l, r).
Proof.
  unfold take. rewrite app_length. assert ((length l <=? length l + length r)%nat = true) as -> by (apply Nat.leb_le; lia).
  rewrite firstn_app, skipn_app, Nat.sub_diag, firstn_all, skipn_all. cbn. now rewrite app_nil_r.
Qed.

Lemma dec_head_head m a rest : m < 7 -> u64 a -> dec_head (head m a ++ rest) = Some (HArg m a, rest).
Proof.
  intros Hm Ha. unfold head, u64 in *.
  assert (Hdiv : forall ai, ai < 32 -> (m * 32 + ai) / 32 = m /\ (m * 32 + ai) mod 32 = ai).
  { intros ai H. split; [rewrite N.div_add_l by lia; rewrite N.div_small by lia; lia|rewrite N.add_comm, N.mod_add by lia; apply N.mod_small; lia]. }
  assert (Hm7 : (m =? 7) = false) by (apply N.eqb_neq; lia).
  destruct (a <? 24) eqn:E1; [apply N.ltb_lt in E1|apply N.ltb_ge in E1].
  { cbn [app dec_head]. destruct (Hdiv a ltac:(lia)) as [-> ->]. rewrite Hm7. assert (a <? 24 = true) as -> by (apply N.ltb_lt; lia). reflexivity. }
  assert (Hk : forall k code, (code = 24 /\ k = 1%nat \/ code = 25 /\ k = 2%nat \/ code = 26 /\ k = 4%nat \/ code = 27 /\ k = 8%nat) -> a < 256 ^ N.of_nat k ->
     dec_head (((m * 32 + code) :: to_be k a) ++ rest) = Some (HArg m a, rest)).
  { intros k code Hc Hlt. cbn [app dec_head]. destruct (Hdiv code ltac:(lia)) as [-> ->]. rewrite Hm7.
    assert (code <? 24 = false) as -> by (apply N.ltb_ge; lia). assert (code =? 31 = false) as -> by (apply N.eqb_neq; lia).
    assert ((if code =? 24 then Some 1%nat else if code =? 25 then Some 2%nat else if code =? 26 then Some 4%nat else if code =? 27 then Some 8%nat else None) = Some k) as ->.
    { destruct Hc as [[-> ->]|[[-> ->]|[[-> ->]|[-> ->]]]]; reflexivity. }
    rewrite <- (to_be_length k a) at 1. rewrite take_app. rewrite of_be_to_be by exact Hlt. reflexivity. }
  destruct (a <? 256) eqn:E2; [apply N.ltb_lt in E2; apply (Hk 1%nat 24); [tauto|cbn; lia]|apply N.ltb_ge in E2].
  destruct (a <? 65536) eqn:E3; [apply N.ltb_lt in E3; apply (Hk 2%nat 25); [tauto|cbn; lia]|apply N.ltb_ge in E3].
  destruct (a <? 4294967296) eqn:E4; [apply N.ltb_lt in E4; apply (Hk 4%nat 26); [tauto|cbn; lia]|apply N.ltb_ge in E4].
  apply (Hk 8%nat 27); [tauto|cbn; lia].
Qed.

Section cbor_ind2.
  Variable P : cbor -> Prop.
  Hypothesis H1 : forall n, P (CUInt n). Hypothesis H2 : forall n, P (CNInt n). Hypothesis H3 : forall s, P (CText s).
  Hypothesis H4 : forall l, Forall P l -> P (CArr l).
  Hypothesis H5 : forall l, Forall (fun kx => P (fst kx) /\ P (snd kx)) l -> P (CMap l).
  Hypothesis H6 : forall l, Forall (fun kx => P (fst kx) /\ P (snd kx)) l -> P (CMapIndef l).
  Hypothesis H7 : P CNull.
  Fixpoint cbor_ind2 (v : cbor) : P v :=
    match v with
    | CUInt n => H1 n | CNInt n => H2 n | CText s => H3 s
    | CArr l => H4 l ((fix go (l : list cbor) : Forall P l := match l with [] => Forall_nil _ | x :: r => Forall_cons x (cbor_ind2 x) (go r) end) l)
    | CMap l => H5 l ((fix go (l : list (cbor * cbor)) : Forall (fun kx => P (fst kx) /\ P (snd kx)) l :=
                         match l with [] => Forall_nil _ | (k, x) :: r => Forall_cons (k, x) (conj (cbor_ind2 k) (cbor_ind2 x)) (go r) end) l)
    | CMapIndef l => H6 l ((fix go (l : list (cbor * cbor)) : Forall (fun kx => P (fst kx) /\ P (snd kx)) l :=
                         match l with [] => Forall_nil _ | (k, x) :: r => Forall_cons (k, x) (conj (cbor_ind2 k) (cbor_ind2 x)) (go r) end) l)
    | CNull => H7
    end.
End cbor_ind2.

Fixpoint sizes (l : list cbor) : nat := match l with [] => O | x :: r => (size x + sizes r)%nat end.
Fixpoint sizep (l : list (cbor * cbor)) : nat := match l with [] => O | (k, x) :: r => (size k + size x + sizep r)%nat end.
Fixpoint wfs (l : list cbor) : Prop := match l with [] => True | x :: r => wf x /\ wfs r end.
Fixpoint wfp (l : list (cbor * cbor)) : Prop := match l with [] => True | (k, x) :: r => wf k /\ wf x /\ wfp r end.

Definition RT (v : cbor) : Prop := wf v -> forall fuel rest, (size v <= fuel)%nat -> decode fuel (encode v ++ rest) = Some (v, rest).

Lemma items_rt f l : Forall RT l -> wfs l -> (sizes l <= f)%nat -> forall rest, items (decode f) (length l) (enc_list l ++ rest) = Some (l, rest).
Proof.
  induction 1 as [|x r Hx Hr IH]; intros Hw Hs rest; cbn [length items enc_list]; [reflexivity|].
  destruct Hw as [Hwx Hwr]. cbn [sizes] in Hs. rewrite <- app_assoc. rewrite (Hx Hwx f _ ltac:(lia)). rewrite IH by (auto; lia). reflexivity.
Qed.
Lemma pairs_rt f l : Forall (fun kx => RT (fst kx) /\ RT (snd kx)) l -> wfp l -> (sizep l <= f)%nat -> forall rest,
  pairs (decode f) (length l) (enc_pairs l ++ rest) = Some (l, rest).
Proof.
  induction 1 as [|[k x] r [Hk Hx] Hr IH]; intros Hw Hs rest; cbn [length pairs enc_pairs]; [reflexivity|].
  destruct Hw as (Hwk & Hwx & Hwr). cbn [sizep fst snd] in *. rewrite <- !app_assoc.
  rewrite (Hk Hwk f _ ltac:(lia)). rewrite (Hx Hwx f _ ltac:(lia)). rewrite IH by (auto; lia). reflexivity.
Qed.

Lemma head_first m a : m < 7 -> exists b t, head m a = b :: t /\ b <> 255.
Proof.
  intros Hm. unfold head. destruct (a <? 24) eqn:E; [apply N.ltb_lt in E; eexists; eexists; split; [reflexivity|lia]|].
  destruct (a <? 256); [eexists; eexists; split; [reflexivity|lia]|].
  destruct (a <? 65536); [eexists; eexists; split; [reflexivity|lia]|].
  destruct (a <? 4294967296); eexists; eexists; split; try reflexivity; lia.
Qed.
Lemma encode_first v : exists b t, encode v = b :: t /\ b <> 255.
Proof.
  destruct v; cbn [encode]; try (destruct (head_first 0 n ltac:(lia)) as (b & t & -> & H); eauto);
    try (destruct (head_first 1 n ltac:(lia)) as (b & t & -> & H); eauto).
  - destruct (head_first 3 (N.of_nat (length s)) ltac:(lia)) as (b & t & -> & H). eexists; eexists; split; [reflexivity|exact H].
  - destruct (head_first 4 (N.of_nat (length l)) ltac:(lia)) as (b & t & -> & H). eexists; eexists; split; [reflexivity|exact H].
  - destruct (head_first 5 (N.of_nat (length l)) ltac:(lia)) as (b & t & -> & H). eexists; eexists; split; [reflexivity|exact H].
  - eexists; eexists; split; [reflexivity|lia].
  - eexists; eexists; split; [reflexivity|lia].
Qed.
Lemma encode_len v : (1 <= length (encode v))%nat.
Proof. destruct (encode_first v) as (b & t & -> & _). cbn. lia. Qed.

Lemma pairs_indef_rt f l : Forall (fun kx => RT (fst kx) /\ RT (snd kx)) l -> wfp l -> (sizep l <= f)%nat -> forall n rest,
  (length l < n)%nat -> pairs_indef (decode f) n (enc_pairs l ++ 255 :: rest) = Some (l, rest).
Proof.
  induction 1 as [|[k x] r [Hk Hx] Hr IH]; intros Hw Hs n rest Hn.
  - destruct n; [cbn in Hn; lia|]. reflexivity.
  - destruct n as [|n]; [cbn in Hn; lia|]. destruct Hw as (Hwk & Hwx & Hwr). cbn [sizep fst snd length] in *.
    cbn [enc_pairs pairs_indef]. rewrite <- !app_assoc.
    destruct (encode_first k) as (b & t & Ek & Hb). rewrite Ek. cbn [app].
    assert (Hmatch : forall (A : Type) (u w : A), match b :: t ++ encode x ++ enc_pairs r ++ 255 :: rest with 255 :: r' => u | _ => w end = w).
    { intros A u w. destruct b as [|p]; [reflexivity|]. do 8 (destruct p as [p|p|]; try reflexivity). exfalso. apply Hb. reflexivity. }
    rewrite Hmatch. change (b :: t ++ encode x ++ enc_pairs r ++ 255 :: rest) with ((b :: t) ++ encode x ++ enc_pairs r ++ 255 :: rest). rewrite <- Ek.
    rewrite (Hk Hwk f _ ltac:(lia)). rewrite (Hx Hwx f _ ltac:(lia)). rewrite IH by (auto; lia). reflexivity.
Qed.

Lemma enc_pairs_len l : (length l <= length (enc_pairs l))%nat.
Proof. induction l as [|[k x] r IH]; cbn [enc_pairs length]; [lia|]. rewrite !app_length. pose proof (encode_len k). pose proof (encode_len x). lia. Qed.

Lemma dec_head_191 r : dec_head (191 :: r) = Some (HIndef 5, r).
Proof. reflexivity. Qed.

Theorem cbor_roundtrip : forall v, RT v.
Proof.
  induction v as [n|n|s|l IH|l IH|l IH|] using cbor_ind2; intros Hw fuel rest Hs; (destruct fuel as [|f]; [cbn in Hs; lia|]); cbn [decode].
  - cbn [encode]. rewrite dec_head_head by (cbn in Hw; auto; lia). reflexivity.
  - cbn [encode]. rewrite dec_head_head by (cbn in Hw; auto; lia). reflexivity.
  - cbn [encode]. rewrite <- app_assoc. rewrite dec_head_head by (cbn in Hw; auto; lia). cbn. rewrite Nat2N.id. rewrite take_app. reflexivity.
  - rewrite encode_arr, <- app_assoc. destruct Hw as [Hlen Hw]. rewrite dec_head_head by (auto; lia). cbn. rewrite Nat2N.id.
    change (size (CArr l)) with (S (sizes l)) in Hs. rewrite items_rt; [reflexivity|exact IH|exact Hw|lia].
  - rewrite encode_map, <- app_assoc. destruct Hw as [Hlen Hw]. rewrite dec_head_head by (auto; lia). cbn. rewrite Nat2N.id.
    change (size (CMap l)) with (S (sizep l)) in Hs. rewrite pairs_rt; [reflexivity|exact IH|exact Hw|lia].
  - rewrite encode_mapi. cbn [app]. rewrite dec_head_191. change (5 =? 5) with true. cbv iota.
    change (size (CMapIndef l)) with (S (sizep l)) in Hs. rewrite <- app_assoc. cbn [app]. rewrite pairs_indef_rt; [reflexivity|exact IH|exact Hw|lia|].
    rewrite app_length. pose proof (enc_pairs_len l). cbn [length]. lia.
  - reflexivity.
Qed.


(* ---- whole byte strings: the decoder's fuel, one more than the number of bytes, always suffices ---- *)
Lemma head_len m a : (1 <= length (head m a))%nat.
Proof. unfold head. destruct (a <? 24); [cbn; lia|]. destruct (a <? 256); [cbn; lia|]. destruct (a <? 65536); [cbn; lia|]. destruct (a <? 4294967296); cbn; lia. Qed.

Lemma size_le_encode : forall v, (size v <= length (encode v))%nat.
Proof.
  induction v as [n|n|s|l IH|l IH|l IH|] using cbor_ind2.
  - cbn [size encode]. apply head_len.
  - cbn [size encode]. apply head_len.
  - cbn [size encode]. rewrite app_length. pose proof (head_len 3 (N.of_nat (length s))). lia.
  - assert (Hs : (sizes l <= length (enc_list l))%nat).
    { induction IH as [|x r Hx _ IHr]; cbn [sizes enc_list length]; [lia|]. rewrite app_length. lia. }
    rewrite encode_arr, app_length. change (size (CArr l)) with (S (sizes l)). pose proof (head_len 4 (N.of_nat (length l))). lia.
  - assert (Hs : (sizep l <= length (enc_pairs l))%nat).
    { induction IH as [|[k x] r [Hk Hx] _ IHr]; cbn [sizep enc_pairs fst snd length] in *; [lia|]. rewrite !app_length. lia. }
    rewrite encode_map, app_length. change (size (CMap l)) with (S (sizep l)). pose proof (head_len 5 (N.of_nat (length l))). lia.
  - assert (Hs : (sizep l <= length (enc_pairs l))%nat).
    { induction IH as [|[k x] r [Hk Hx] _ IHr]; cbn [sizep enc_pairs fst snd length] in *; [lia|]. rewrite !app_length. lia. }
    rewrite encode_mapi. change (size (CMapIndef l)) with (S (sizep l)). cbn [length]. rewrite app_length. lia.
  - cbn. lia.
Qed.

Theorem bytes_roundtrip v : wf v -> decode (S (length (encode v))) (encode v) = Some (v, []).
Proof.
  intros W. pose proof (cbor_roundtrip v W (S (length (encode v))) [] ltac:(pose proof (size_le_encode v); lia)) as H.
  rewrite app_nil_r in H. exact H.
Qed.
