(* C11: the debug build of the model never panics at all -- every value the evaluator handles carries a unit without zero powers
   made of units of the tables, so the assertion of Compound::new (the one panic left by NoPanicProofs) cannot fire. *)
From Coq Require Import ZArith NArith QArith List Bool Lia.
Import ListNotations.
From AV Require Import model.Syntax model.Grammar model.Rat model.UnitTypes model.Map model.Units model.Compound model.UnitWord model.Eval
  proofs.MapProofs proofs.FactorProofs proofs.MulProofs proofs.BuiltinProofs proofs.NoPanicProofs proofs.NonZeroPowers gen.UnitDefs gen.UnitWords.
Open Scope Z_scope.

Definition dimu (u : unit) : Prop := is_base u = true \/ exists b, cdim u b <> 0.
Definition wfu (c : compound) : Prop := NZ c /\ dimensional c.
Lemma wfu_nil : wfu []. Proof. split; constructor. Qed.

(* ---- products keep the units dimensional ---- *)
Lemma sub_step_dim m nm us : is_base (fst us) = true -> dimensional nm -> dimensional (sub_step m nm us).
Proof.
  intros Hb H. unfold sub_step. destruct (get nm (fst us)) as [[p e]|]; [|exact H]. cbv zeta.
  destruct (p - snd us * m =? 0); [apply del_Forall; exact H|apply put_Forall; [exact H|left; exact Hb]].
Qed.
Lemma sub_bases_dim m pw : all_base pw -> forall nm, dimensional nm -> dimensional (fold_left (sub_step m) pw nm).
Proof.
  induction 1 as [|us r Hb _ IH]; intros nm H; cbn [fold_left]; [exact H|]. apply IH, sub_step_dim; assumption.
Qed.
Lemma reconstruct_step_dim names out u power n names' out' : dimu u -> dimensional names ->
  reconstruct_step (Some (names, out)) (u, power, n) = Some (names', out') -> dimensional names'.
Proof.
  intros Hu H. unfold reconstruct_step. destruct (has_offset u); [intros E; inversion E; subst; exact H|].
  destruct (bases_match (power * n) (add_closure [] u 1) names) as [m|]; [|intros E; inversion E; subst; exact H].
  destruct (closure_powers u) as (_ & Hab & _). rewrite sub_bases_fold.
  pose proof (sub_bases_dim m _ Hab names H) as H1.
  set (names1 := fold_left (sub_step m) (add_closure [] u 1) names) in *.
  destruct (get names1 u) as [[p e]|]; destruct (apply_conversion (- m) false out (conv_of u)); intros E; inversion E; subst;
    apply put_Forall; try exact H1; exact Hu.
Qed.
Lemma reconstruct_fold_dim der : Forall (fun d : unit * Z * Z => dimu (fst (fst d))) der ->
  forall names out names' out', dimensional names -> fold_left reconstruct_step der (Some (names, out)) = Some (names', out') -> dimensional names'.
Proof.
  induction 1 as [|[[u power] n] r Hu _ IH]; intros names out names' out' H E; cbn [fold_left] in E; [inversion E; subst; exact H|].
  destruct (reconstruct_step (Some (names, out)) (u, power, n)) as [[names1 out1]|] eqn:E1; [|rewrite reconstruct_none in E; discriminate].
  exact (IH names1 out1 names' out' (reconstruct_step_dim _ _ _ _ _ _ _ Hu H E1) E).
Qed.

Lemma mul_dimensional (self other : compound) n lhs rhs c l r : dimensional self -> dimensional other ->
  mul self other n lhs rhs = Some (c, l, r) -> dimensional c.
Proof.
  intros Ds Do. unfold mul.
  destruct self as [|s0 sr].
  { cbn [is_empty orb]. intros H. inversion H; subst. unfold dimensional in *. apply Forall_map. eapply Forall_impl; [|exact Do]. intros us Hus. exact Hus. }
  destruct other as [|o0 or]. { cbn [is_empty orb]. intros H. inversion H; subst. exact Ds. }
  cbn [is_empty orb]. set (self := s0 :: sr) in *. set (other := o0 :: or) in *.
  destruct (base_units_spec self) as [[Wl Zl] _]. destruct (base_units_spec other) as [[Wr Zr] _].
  pose proof (base_units_all_base self) as Al. pose proof (base_units_all_base other) as Ar.
  pose proof (base_units_der_in self) as Dl. pose proof (base_units_der_in other) as Dr.
  destruct (base_units self) as [lder lb]. destruct (base_units other) as [rder rb]. cbn [fst snd] in *.
  change (fold_left _ rb (List.map (fun bp : unit * Z => (fst bp, (snd bp, 0))) lb)) with (fold_left (merge_step n) rb (lift lb)).
  destruct (scale_in self lhs) as [l1|]; [|discriminate]. destruct (scale_in other rhs) as [r1|]; [|discriminate].
  destruct (fold_left reconstruct_step _ _) as [[names l2]|] eqn:Ef; [|discriminate].
  intros H. inversion H; subst c l r. clear H.
  destruct (merge_fold n rb Ar Wr (lift lb) 0%N (lift_wfm lb Wl) (lift_basic lb Al)) as (_ & B1 & _).
  assert (D1 : dimensional (fold_left (merge_step n) rb (lift lb))).
  { unfold dimensional. eapply Forall_impl; [|exact B1]. intros us [Hb _]. left. exact Hb. }
  assert (Hder : Forall (fun d : unit * Z * Z => dimu (fst (fst d)))
                   (List.map (fun up : unit * Z => (fst up, snd up, 1)) lder ++ List.map (fun up : unit * Z => (fst up, snd up, n)) rder)).
  { assert (G : forall (cc : compound) dd k, dimensional cc ->
              Forall (fun d : unit * Z => is_base (fst d) = false /\ exists st, In (fst d, st) cc /\ snd d = spower st) dd ->
              Forall (fun d : unit * Z * Z => dimu (fst (fst d))) (List.map (fun up : unit * Z => (fst up, snd up, k)) dd)).
    { intros cc dd k Dcc F. apply Forall_map. eapply Forall_impl; [|exact F]. intros [u p] (Hu & st & Hin & Hp). cbn [fst snd] in *.
      unfold dimensional in Dcc. rewrite Forall_forall in Dcc. exact (Dcc _ Hin). }
    apply Forall_app. split; [apply (G self); auto|apply (G other); auto]. }
  exact (reconstruct_fold_dim _ Hder _ l1 names l2 D1 Ef).
Qed.

Lemma mul_wfu (self other : compound) n lhs rhs c l r : n <> 0 -> wfu self -> wfu other -> mul self other n lhs rhs = Some (c, l, r) -> wfu c.
Proof.
  intros Hn [N1 D1] [N2 D2] E. split; [exact (mul_NZ self other n lhs rhs c l r Hn N1 N2 D1 D2 E)|exact (mul_dimensional self other n lhs rhs c l r D1 D2 E)].
Qed.

(* ---- the operators ---- *)
Definition good (r : res numeric) : Prop := (forall w, r <> Panic w) /\ forall v u, r = Ok (v, u) -> wfu u.

Lemma adopt_wfu a b : wfu a -> wfu b -> wfu (adopt a b).
Proof. intros Ha Hb. unfold adopt. destruct (is_empty a); assumption. Qed.

Lemma op_add_good span a b : wfu (snd a) -> wfu (snd b) -> good (op_add span a b).
Proof.
  intros Ha Hb. unfold op_add. destruct (factor _ _ _) as [[[] v]|]; split; try discriminate.
  intros v0 u E. inversion E; subst. apply adopt_wfu; assumption.
Qed.
Lemma op_sub_good span a b : wfu (snd a) -> wfu (snd b) -> good (op_sub span a b).
Proof.
  intros Ha Hb. unfold op_sub. destruct (factor _ _ _) as [[[] v]|]; split; try discriminate.
  intros v0 u E. inversion E; subst. apply adopt_wfu; assumption.
Qed.
Lemma checked_new_good debug u : NZ u -> checked_new debug u = Ok u.
Proof. intros H. unfold checked_new. apply nonzero_powers_NZ in H. rewrite H. destruct debug; reflexivity. Qed.
Lemma op_mul_good debug span a b : wfu (snd a) -> wfu (snd b) -> good (op_mul debug span a b).
Proof.
  intros Ha Hb. unfold op_mul. destruct (mul (snd a) (snd b) 1 (fst a) (fst b)) as [[[u av] bv]|] eqn:E; [|split; discriminate].
  assert (Hu : wfu u) by (apply (mul_wfu _ _ 1 _ _ _ _ _ ltac:(lia) Ha Hb E)).
  destruct (is_empty (snd a) || is_empty (snd b)); cbn [bind]; [|rewrite (checked_new_good debug u (proj1 Hu)); cbn [bind]];
    (split; [discriminate|intros v0 u0 E0; inversion E0; subst; exact Hu]).
Qed.
Lemma op_div_good debug span a b : wfu (snd a) -> wfu (snd b) -> good (op_div debug span a b).
Proof.
  intros Ha Hb. unfold op_div. destruct (mul (snd a) (snd b) (-1) (fst a) (fst b)) as [[[u av] bv]|] eqn:E; [|split; discriminate].
  assert (Hu : wfu u) by (apply (mul_wfu _ _ (-1) _ _ _ _ _ ltac:(lia) Ha Hb E)).
  destruct (is_empty (snd a) || is_empty (snd b)); cbn [bind]; [|rewrite (checked_new_good debug u (proj1 Hu)); cbn [bind]];
    (destruct (is_zero bv); split; try discriminate; intros v0 u0 E0; inversion E0; subst; exact Hu).
Qed.
Lemma cpow_wfu c n c' : wfu c -> cpow c n = Some c' -> wfu c'.
Proof.
  intros [Hn Hd]. unfold cpow. destruct (n =? 0) eqn:E0; [intros E; inversion E; apply wfu_nil|]. apply Z.eqb_neq in E0.
  destruct (forallb _ c); [|discriminate]. intros E. inversion E; subst. split.
  - unfold NZ in *. apply Forall_map. eapply Forall_impl; [|exact Hn]. intros us Hus. cbn [spower fst snd] in *. apply Z.neq_mul_0. split; assumption.
  - unfold dimensional in *. apply Forall_map. eapply Forall_impl; [|exact Hd]. intros us Hus. exact Hus.
Qed.
Lemma op_pow_good span a b : wfu (snd a) -> good (op_pow span a b).
Proof.
  intros Ha. unfold op_pow. destruct (negb _); [split; discriminate|]. destruct (negb _); [split; discriminate|].
  destruct (is_empty (snd a)); cbn [bind].
  - destruct (_ =? 0); [split; [discriminate|intros v u E; inversion E; subst; exact Ha]|].
    destruct (is_zero _); [destruct (_ <? 0)|]; split; try discriminate; intros v u E; inversion E; subst; exact Ha.
  - destruct (if in_i32 _ then _ else _) as [u1|] eqn:Ec; cbn [bind]; [|split; discriminate].
    assert (Hu1 : wfu u1) by (destruct (in_i32 _); [eapply cpow_wfu; eauto|discriminate]).
    destruct (_ =? 0); [split; [discriminate|intros v u E; inversion E; subst; exact Hu1]|].
    destruct (is_zero _); [destruct (_ <? 0)|]; split; try discriminate; intros v u E; inversion E; subst; exact Hu1.
Qed.
Lemma binop_good debug k fn span a b : wfu (snd a) -> wfu (snd b) -> binop_of debug k = Some fn -> good (fn span a b).
Proof.
  intros Ha Hb. destruct k; cbn [binop_of]; intros H; inversion H; subst;
    first [apply op_add_good|apply op_sub_good|apply op_mul_good|apply op_div_good|apply op_pow_good]; assumption.
Qed.

Lemma builtin_good debug name fn span args : Forall (fun a : numeric => wfu (snd a)) args -> builtin debug name = Some fn -> good (fn span args).
Proof.
  intros Hall. unfold builtin. intros H.
  repeat match type of H with (if ?c then _ else _) = _ => destruct c end; inversion H; subst; clear H.
  - unfold fn_trig, fn_one, bind. destruct args as [|a [|? ?]]; split; discriminate.
  - unfold fn_trig, fn_one, bind. destruct args as [|a [|? ?]]; split; discriminate.
  - split; [intros w Hp; destruct debug; [exact (fn_round_no_panic span args w Hp)|]|].
    + unfold fn_round in Hp. destruct args as [|a [|b [|c r]]]; cbn [bind andb] in Hp; try discriminate.
      destruct (to_i32 (fst b)); cbn [bind andb] in Hp; discriminate.
    + intros v u E. unfold fn_round in E. destruct args as [|a [|b [|c r]]]; cbn [bind] in E; try discriminate.
      * destruct (debug && _); [discriminate|]. inversion E; subst. inversion Hall; subst. assumption.
      * destruct (to_i32 (fst b)); cbn [bind] in E; [|discriminate]. destruct (debug && _); [discriminate|]. inversion E; subst. inversion Hall; subst. assumption.
  - unfold fn_floor, fn_one, bind. destruct args as [|a [|? ?]]; split; try discriminate. intros v u E. inversion E; subst. inversion Hall; subst. assumption.
  - unfold fn_ceil, fn_one, bind. destruct args as [|a [|? ?]]; split; try discriminate. intros v u E. inversion E; subst. inversion Hall; subst. assumption.
Qed.

(* ---- the units a word can be read as are units of the tables ---- *)
Definition dimu_b (u : unit) : bool := is_base u || existsb (fun i => negb (cdim u (base_key i) =? 0)) [0; 1; 2; 3; 4; 5; 6; 7]%N.
Lemma dimu_b_ok u : dimu_b u = true -> dimu u.
Proof.
  unfold dimu_b, dimu. intros H. apply orb_prop in H as [H|H]; [left; exact H|right].
  apply existsb_exists in H as (i & _ & Hi). exists (base_key i). apply negb_true_iff, Z.eqb_neq in Hi. exact Hi.
Qed.
Definition outcome_ok (o : outcome) : bool :=
  match o with
  | OTok (WUnit u _) _ => dimu_b u
  | OTok (WPrefix _ (Some (_, u, _))) _ => dimu_b u
  | _ => true
  end.
Definition trie_ok (t : list node) : bool := forallb (fun nd => outcome_ok (at_end nd) && outcome_ok (at_other nd)) t.
Lemma tries_ok : trie_ok combined_trie = true /\ trie_ok units_trie = true.
Proof. split; vm_compute; reflexivity. Qed.

Lemma walk_ok trie : trie_ok trie = true -> forall s n, outcome_ok (walk trie n s) = true.
Proof.
  intros Ht. induction s as [|b r IH]; intros n; cbn [walk]; destruct (nth_error trie n) as [nd|] eqn:E; try reflexivity.
  - apply nth_error_In in E. unfold trie_ok in Ht. rewrite forallb_forall in Ht. specialize (Ht _ E). apply andb_prop in Ht. tauto.
  - destruct (edge (edges nd) b); [apply IH|]. apply nth_error_In in E. unfold trie_ok in Ht. rewrite forallb_forall in Ht. specialize (Ht _ E). apply andb_prop in Ht. tauto.
Qed.

Lemma units_loop_known fuel : forall s e rest e' u, units_loop fuel s e = Some (rest, e', u) -> dimu u.
Proof.
  induction fuel as [|f IH]; intros s e rest e' u H; cbn [units_loop] in H; [discriminate|].
  pose proof (walk_ok units_trie (proj2 tries_ok) s 0) as Hw. destruct (walk units_trie 0 s) as [| |[u0 bias|e0 alone|] len]; try discriminate.
  - inversion H; subst. apply dimu_b_ok. exact Hw.
  - eapply IH; eauto.
Qed.
Lemma combined_loop_known fuel : forall s rest e' u, combined_loop fuel s = Some (rest, e', u) -> dimu u.
Proof.
  induction fuel as [|f IH]; intros s rest e' u H; cbn [combined_loop] in H; [discriminate|].
  pose proof (walk_ok combined_trie (proj1 tries_ok) s 0) as Hw. destruct (walk combined_trie 0 s) as [| |[u0 bias|e0 alone|] len]; try discriminate.
  - inversion H; subst. apply dimu_b_ok. exact Hw.
  - destruct alone as [[[slice u1] bias1]|].
    + destruct (_ && _); [inversion H; subst; apply dimu_b_ok; exact Hw|eapply units_loop_known; eauto].
    + eapply units_loop_known; eauto.
  - eapply IH; eauto.
Qed.
Lemma parse_units_known fuel : forall s l bad, parse_units fuel s = (l, bad) -> Forall (fun eu : Z * unit => dimu (snd eu)) l.
Proof.
  induction fuel as [|f IH]; intros s l bad H; cbn [parse_units] in H; [inversion H; constructor|].
  destruct s as [|c s']; [inversion H; constructor|]. destruct (parse_word (c :: s')) as [[[rest e] u]|] eqn:Ew; [|inversion H; constructor].
  destruct (parse_units f rest) as [l1 bad1] eqn:Ep. inversion H; subst. constructor; [|eapply IH; eauto].
  cbn [snd]. unfold parse_word in Ew. eapply combined_loop_known; eauto.
Qed.

(* ---- eval::unit builds well-formed units ---- *)
Lemma update_wfu c u power prefix c' : wfu c -> dimu u -> power <> 0 -> update c u power prefix = inl c' -> wfu c'.
Proof.
  intros [Hn Hd] Hu Hp. unfold update. destruct (get c u) as [[p0 e0]|].
  - destruct (negb _); [discriminate|]. destruct (p0 + power =? 0) eqn:E0; intros E; inversion E; subst.
    + split; apply del_Forall; assumption.
    + split; apply put_Forall; try assumption. cbn. apply Z.eqb_neq. exact E0.
  - intros E. inversion E; subst. split; apply put_Forall; try assumption.
Qed.
Lemma update_all_wfu span cur : cur <> 0 -> forall l c last c' last', wfu c -> Forall (fun eu : Z * unit => dimu (snd eu)) l ->
  (match last with Some (_, u) => dimu u | None => True end) ->
  update_all span c cur l last = Ok (c', last') -> wfu c' /\ (match last' with Some (_, u) => dimu u | None => True end).
Proof.
  intros Hc. induction l as [|[e u] r IH]; intros c last c' last' Hw Hl Hlast H; cbn [update_all] in H.
  - inversion H; subst. split; assumption.
  - inversion Hl as [|? ? Hu Hr]; subst. cbn [snd] in Hu. destruct (update c u cur e) as [c1|] eqn:Eu; [|discriminate].
    exact (IH c1 (Some (e, u)) c' last' (update_wfu c u cur e c1 Hw Hu Hc Eu) Hr Hu H).
Qed.

Lemma unit_loop_wfu fuel : forall nodes cur c last c', (cur = 1 \/ cur = -1) -> wfu c -> (match last with Some (_, u) => dimu u | None => True end) ->
  unit_loop fuel nodes cur c last = Ok c' -> wfu c'.
Proof.
  induction fuel as [|f IH]; intros nodes cur c last c' Hcur Hw Hlast H; cbn [unit_loop] in H; [discriminate|].
  destruct (next_node nodes) as [[node rest]|]; [|inversion H; subst; exact Hw].
  destruct (akind node); try discriminate; try (eapply IH; eauto; fail).
  - (* WORD *)
    destruct (parse_units _ _) as [l bad] eqn:Ep. unfold bind in H.
    destruct (update_all (aspan node) c cur l last) as [[c1 last1]| | |] eqn:Eu; try discriminate.
    destruct bad; [discriminate|].
    destruct (update_all_wfu (aspan node) cur ltac:(lia) l c last c1 last1 Hw (parse_units_known _ _ _ _ Ep) Hlast Eu) as [W1 L1].
    eapply IH; [exact Hcur|exact W1|exact L1|exact H].
  - (* NUMBER *)
    destruct (parse_i32 (atext node)); [|discriminate]. destruct (negb _); [discriminate|]. eapply IH; eauto.
  - (* OP_DIV *) eapply IH; [|exact Hw|exact Hlast|exact H]. lia.
  - (* OP_POWER *)
    destruct last as [[e u]|]; destruct (next_node rest) as [[n rest']|]; try discriminate.
    destruct (kind_beq (akind n) NUMBER); [|discriminate]. destruct (parse_i32 (atext n)) as [p|]; [|discriminate].
    cbv zeta in H.
    assert (Hc1 : wfu (if p * cur - cur =? 0 then c else match update c u (p * cur - cur) e with inl c'0 => c'0 | inr _ => c end)).
    { destruct (p * cur - cur =? 0) eqn:E0; [exact Hw|]. apply Z.eqb_neq in E0.
      destruct (update c u (p * cur - cur) e) as [c1|] eqn:Eu; [|exact Hw]. exact (update_wfu c u _ e c1 Hw Hlast E0 Eu). }
    exact (IH rest' cur _ None c' Hcur Hc1 I H).
Qed.
Theorem eval_unit_wfu children c : eval_unit children = Ok c -> wfu c.
Proof. unfold eval_unit. intros H. exact (unit_loop_wfu _ children 1 [] None c (or_introl eq_refl) wfu_nil I H). Qed.

(* ---- the evaluator ---- *)
Section NoPanicAtAll.
Variable debug : bool.
Variable facts : db.
Variable describe : bool.
Hypothesis Hfacts : forall s id v u, db_lookup facts s = Found id v u -> wfu u.

Definition okres2 (r : res numeric * st) : Prop := good (fst r).
Definition dgood (bound : nat) (b : delayed) : Prop := match b with DNode n => (asize n <= bound)%nat | DNum x => wfu (snd x) end.

Section Loops.
Variable ev : atree -> st -> res numeric * st.
Variable bound : nat.
Hypothesis Hev : forall t d, (asize t <= bound)%nat -> okres2 (ev t d).

Lemma force_ok2 b d : dgood bound b -> okres2 (force ev b d).
Proof.
  destruct b as [n|x]; cbn [force dgood]; [apply Hev|]. intros Hx. split; [discriminate|]. cbn [fst]. intros v u E. inversion E; subst. exact Hx.
Qed.

Lemma op_loop_ok2 span : forall rest b d, Forall (fun x => (asize x <= bound)%nat) rest -> dgood bound b -> okres2 (op_loop debug ev span rest b d).
Proof.
  fix IH 1. intros rest b d Hall Hb. destruct rest as [|op [|rhs rest']]; cbn [op_loop]; try (apply force_ok2; exact Hb).
  inversion Hall as [|? ? _ Hall1]; subst. inversion Hall1 as [|? ? Hrhs Hall2]; subst.
  assert (Hstep : forall fn, binop_of debug (akind op) = Some fn ->
     okres2 (match ev rhs d with
            | (Ok r, d1) => match force ev b d1 with
                            | (Ok bv, d2) => match fn span bv r with
                                             | Ok x => op_loop debug ev span rest' (DNum x) d2
                                             | Error s k => (Error s k, d2) | Panic w => (Panic w, d2) | Opaque => (Opaque, d2) end
                            | (r', d2) => (r', d2) end
            | (r', d1) => (r', d1) end)).
  { intros fn Hfn. pose proof (Hev rhs d Hrhs) as H1. destruct (ev rhs d) as [r1 d1]. destruct r1 as [rv| | |]; try exact H1; try (split; discriminate).
    pose proof (force_ok2 b d1 Hb) as H2. destruct (force ev b d1) as [b1 d2]. destruct b1 as [bv| | |]; try exact H2; try (split; discriminate).
    assert (Wr : wfu (snd rv)) by (destruct rv as [v u]; exact (proj2 H1 v u eq_refl)).
    assert (Wb : wfu (snd bv)) by (destruct bv as [v u]; exact (proj2 H2 v u eq_refl)).
    pose proof (binop_good debug _ fn span bv rv Wb Wr Hfn) as H3. destruct (fn span bv rv) as [x| | |] eqn:Ef; try (split; [exact (proj1 H3)|discriminate]); try (split; discriminate).
    apply IH; [exact Hall2|]. cbn [dgood]. destruct x as [v u]. exact (proj2 H3 v u eq_refl). }
  destruct (akind op) eqn:Ek; cbn [binop_of] in *; try (split; discriminate); try (apply Hstep; reflexivity).
  (* OP_CAST *)
  pose proof (eval_unit_no_panic (achildren rhs)) as Hu. destruct (eval_unit (achildren rhs)) as [target| | |] eqn:Eu; try (split; discriminate).
  - pose proof (force_ok2 b d Hb) as H2. destruct (force ev b d) as [b1 d2]. destruct b1 as [lhs| | |]; try exact H2; try (split; discriminate).
    destruct (factor target (snd lhs) (fst lhs)) as [[[] v]|]; try (split; discriminate). apply IH; [exact Hall2|]. cbn [dgood snd]. exact (eval_unit_wfu _ _ Eu).
  - exfalso. exact (Hu _ eq_refl).
Qed.

Lemma args_loop_ok2 : forall l acc d, Forall (fun x => (asize x <= bound)%nat) l -> Forall (fun a : numeric => wfu (snd a)) acc ->
  (forall w, fst (args_loop ev l acc d) <> Panic w) /\ forall argv, fst (args_loop ev l acc d) = Ok argv -> Forall (fun a : numeric => wfu (snd a)) argv.
Proof.
  induction l as [|a r IH]; intros acc d Hall Hacc; cbn [args_loop].
  - split; [discriminate|]. cbn [fst]. intros argv E. inversion E; subst. exact Hacc.
  - inversion Hall as [|? ? Ha Hr]; subst. pose proof (Hev a d Ha) as H1. destruct (ev a d) as [r1 d1]. destruct r1 as [v| | |]; cbn [fst] in *.
    + apply IH; [exact Hr|]. apply Forall_app. split; [exact Hacc|]. constructor; [|constructor]. destruct v as [q u]. exact (proj2 H1 q u eq_refl).
    + split; discriminate.
    + exfalso. exact (proj1 H1 _ eq_refl).
    + split; discriminate.
Qed.
End Loops.

Theorem eval_never_panics : forall fuel t d, (asize t <= fuel)%nat -> okres2 (eval debug facts describe fuel t d).
Proof.
  induction fuel as [|f IH]; intros t d Hs.
  { destruct t; cbn in Hs; lia. }
  assert (Hch : forall x, In x (achildren t) -> (asize x <= f)%nat).
  { intros x Hx. destruct t as [k tx s e|k ch s e]; [destruct Hx|]. cbn [achildren] in Hx. pose proof (asize_child_le k ch s e x Hx). lia. }
  assert (Hsk : forall l, incl l (achildren t) -> Forall (fun x => (asize x <= f)%nat) l).
  { intros l Hi. apply Forall_forall. intros x Hx. apply Hch, Hi, Hx. }
  assert (Hskip : forall l, incl (skip_tokens l) l) by (intros l x Hx; unfold skip_tokens in Hx; apply filter_In in Hx; tauto).
  assert (Gnil : forall v, good (Ok (v, ([] : compound)))) by (intros v; split; [discriminate|intros v0 u E; inversion E; subst; apply wfu_nil]).
  unfold okres2. cbn [eval]. destruct (akind t); try (split; discriminate).
  - (* WORD *) destruct (db_lookup facts (atext t)) as [id v u| |] eqn:El; cbn [fst]; try (split; discriminate).
    split; [discriminate|]. intros v0 u0 E. inversion E; subst. exact (Hfacts _ _ _ _ El).
  - (* SENTENCE *) destruct (db_lookup facts (atext t)) as [id v u| |] eqn:El; cbn [fst]; try (split; discriminate).
    split; [discriminate|]. intros v0 u0 E. inversion E; subst. exact (Hfacts _ _ _ _ El).
  - (* NUMBER *) unfold parse_number. destruct (Literal.from_str _); cbn [fst]; [apply Gnil|split; discriminate].
  - (* WITH_UNIT *)
    destruct (achildren t) as [|value_node rest] eqn:Ec; [split; discriminate|].
    destruct (next_node rest) as [[unit_node r']|]; [|split; discriminate]. destruct (negb _); [split; discriminate|].
    pose proof (IH value_node d (Hch value_node (or_introl eq_refl))) as H1. destruct (eval debug facts describe f value_node d) as [r1 d1].
    destruct r1 as [v| | |]; try exact H1; try (split; discriminate).
    pose proof (eval_unit_no_panic (achildren unit_node)) as Hu. destruct (eval_unit (achildren unit_node)) as [u| | |] eqn:Eu; cbn [fst]; try (split; discriminate).
    + split; [discriminate|]. intros v0 u0 E. inversion E; subst. exact (eval_unit_wfu _ _ Eu).
    + exfalso. exact (Hu _ eq_refl).
  - (* FN_CALL *)
    destruct (skip_tokens (achildren t)) as [|name more] eqn:Es; [split; discriminate|]. destruct (negb _); [split; discriminate|].
    destruct more as [|arguments m2]; [split; discriminate|]. destruct (negb _); [split; discriminate|].
    assert (Harg : (asize arguments <= f)%nat).
    { apply Hch. apply (Hskip (achildren t)). rewrite Es. right. left. reflexivity. }
    assert (Hargs : Forall (fun x => (asize x <= f)%nat) (skip_tokens (achildren arguments))).
    { apply Forall_forall. intros x Hx. apply Hskip in Hx. destruct arguments as [k tx s e|k ch s e]; [destruct Hx|].
      cbn [achildren] in Hx. pose proof (asize_child_le k ch s e x Hx). lia. }
    destruct (args_loop_ok2 (eval debug facts describe f) f IH (skip_tokens (achildren arguments)) [] d Hargs (Forall_nil _)) as [Ha1 Ha2].
    destruct (args_loop (eval debug facts describe f) (skip_tokens (achildren arguments)) [] d) as [ra d1]. cbn [fst] in Ha1, Ha2.
    destruct ra as [argv| | |]; cbn [fst]; try (split; discriminate).
    + destruct (builtin debug (atext name)) as [fn|] eqn:Eb; [|split; discriminate].
      exact (builtin_good debug _ fn (aspan t) argv (Ha2 argv eq_refl) Eb).
    + exfalso. exact (Ha1 _ eq_refl).
  - (* PERCENTAGE *)
    destruct (achildren t) as [|number r]; [split; discriminate|]. destruct (kind_beq _ _); [|split; discriminate].
    unfold parse_number. destruct (Literal.from_str _); cbn [fst]; [apply Gnil|split; discriminate].
  - (* OPERATION *)
    destruct (skip_tokens (achildren t)) as [|base rest] eqn:Es; [split; discriminate|].
    assert (Hall : Forall (fun x => (asize x <= f)%nat) (base :: rest)) by (apply Hsk; rewrite <- Es; apply Hskip).
    inversion Hall as [|? ? Hb Hr]; subst.
    apply (op_loop_ok2 (eval debug facts describe f) f IH (aspan t) rest (DNode base) d Hr Hb).
Qed.

Corollary eval_roots_never_panic roots d r w : In r (fst (eval_roots debug facts describe roots d)) -> r <> Panic w.
Proof.
  revert d. induction roots as [|t rs IH]; intros d; cbn [eval_roots]; [intros []|].
  pose proof (eval_never_panics (S (asize t)) t d ltac:(lia)) as H1.
  destruct (eval debug facts describe (S (asize t)) t d) as [x d1]. destruct (eval_roots debug facts describe rs d1) as [xs d2] eqn:E.
  cbn [fst]. intros [<-|Hin]; [exact (proj1 H1 w)|]. apply (IH d1). rewrite E. exact Hin.
Qed.
End NoPanicAtAll.

(* ---- the shipped data, and whole queries ---- *)
From AV Require Import model.Lexer model.Run proofs.GrammarTotal gen.Shipped.

(* a decidable form of well-formedness, and the shipped data *)
Definition wfu_b (c : compound) : bool := forallb (fun us : unit * state => negb (spower (snd us) =? 0) && dimu_b (fst us)) c.
Lemma wfu_b_ok c : wfu_b c = true -> wfu c.
Proof.
  unfold wfu_b. rewrite forallb_forall. intros H. split; apply Forall_forall; intros us Hin; specialize (H us Hin); apply andb_prop in H as [H1 H2].
  - apply negb_true_iff, Z.eqb_neq in H1. exact H1.
  - apply dimu_b_ok. exact H2.
Qed.
Theorem shipped_units_wfu : forallb (fun k : list (list N) * (Z * Z) * compound * Z => let '(_, _, u, _) := k in wfu_b u) shipped = true.
Proof. vm_compute. reflexivity. Qed.

(* whole queries: with parse totality, no result of any query is a panic, in either build mode *)
Theorem query_never_panics debug describe facts (s : list chr) r w :
  (forall p id v u, db_lookup facts p = Found id v u -> wfu u) ->
  In r (fst (query debug describe facts s)) -> r <> Panic w.
Proof.
  intros Hf. unfold query. destruct (parse_root (tokens s)) as [f|] eqn:E; [|exfalso; exact (parse_total _ E)].
  apply (eval_roots_never_panic debug facts describe Hf).
Qed.
