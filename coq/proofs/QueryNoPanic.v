(* C11: with parse totality, a query as a whole: a release build of the model never panics, a debug build only through the
   assertion of Compound::new. *)
From Coq Require Import ZArith NArith List Bool.
Import ListNotations.
From AV Require Import model.Syntax model.Lexer model.Grammar model.Eval model.Run proofs.NoPanicProofs proofs.GrammarTotal.


Theorem query_only_assertion debug describe facts s r w :
  In r (fst (query debug describe facts s)) -> r = Panic w -> debug = true /\ w = 1%N.
Proof.
  unfold query. destruct (parse_root (tokens s)) as [f|] eqn:E; [|exfalso; exact (parse_total _ E)].
  intros Hin Er. exact (eval_roots_only_assertion debug facts describe _ [] r Hin w Er).
Qed.

Corollary release_query_never_panics describe facts s r w : In r (fst (query false describe facts s)) -> r <> Panic w.
Proof. intros Hin E. destruct (query_only_assertion false describe facts s r w Hin E) as [H _]. discriminate. Qed.
