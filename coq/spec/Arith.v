(* Specification side of C01: numeric expressions and the rational number exact arithmetic assigns to them.
   [denote] is None exactly where arithmetic is undefined: division by zero, zero raised to a negative power
   (and a non-integer exponent, which the language does not have). *)
From Coq Require Import ZArith QArith Qpower.
From AV Require Import model.Rat.
Open Scope Z_scope.

Inductive binop := Add | Sub | Mul | Div | Pow.
Inductive expr := Lit (q : Q) | Bin (o : binop) (a b : expr).

Definition apply_op (o : binop) (x y : Q) : option Q :=
  match o with
  | Add => Some (x + y)%Q
  | Sub => Some (x - y)%Q
  | Mul => Some (x * y)%Q
  | Div => if is_zero y then None else Some (x / y)%Q
  | Pow => if negb (is_integer y) then None
           else let n := to_integer y in
                if n =? 0 then Some 1%Q
                else if is_zero x then (if n <? 0 then None else Some x)
                else Some (x ^ n)%Q
  end.

Fixpoint denote (e : expr) : option Q :=
  match e with
  | Lit q => Some q
  | Bin o a b => match denote a, denote b with Some x, Some y => apply_op o x y | _, _ => None end
  end.
