(* The precedence discipline of `operation()` (src/syntax/grammar.rs) abstracted from the tree builder into a stack of frames
   (priority, head, (operator, operand) list, dangling operator), and the documented grammar as a level-splitting
   specification [canon]. Definitions only; proofs/ClimbProofs.v shows climb = canon for any number of operators and
   proofs/ParseBounded.v ties the frames to the concrete parser model. *)
From Coq Require Import List Arith Lia Bool.
Import ListNotations.

Definition op := (nat * nat)%type.       (* an operator: its priority and a tag telling operators of one priority apart *)
Definition prio (o : op) : nat := fst o.

Inductive tree := Leaf (n : nat) | Node (hd : tree) (tl : list (op * tree)).
Definition seg := (tree * list (op * tree))%type.

Record frame := { fp : nat; fhd : tree; ftl : list (op * tree); fd : op }.
Definition close (f : frame) (x : tree) : tree := Node (fhd f) (ftl f ++ [(fd f, x)]).
Definition fresh q x o := {| fp := q; fhd := x; ftl := []; fd := o |}.

(* repaired algorithm: on Less, close; pop when the frame below has priority >= q, else re-use the checkpoint *)
Fixpoint reduce (q : nat) (o : op) (S : list frame) (x : tree) : list frame :=
  match S with
  | [] => [fresh q x o]
  | f :: rest =>
     if q <? fp f then
        let t := close f x in
        match rest with
        | g :: _ => if q <=? fp g then reduce q o rest t else fresh q t o :: rest
        | [] => [fresh q t o]
        end
     else if fp f <? q then fresh q x o :: S
     else {| fp := fp f; fhd := fhd f; ftl := ftl f ++ [(fd f, x)]; fd := o |} :: rest
  end.

Fixpoint run (red : nat -> op -> list frame -> tree -> list frame) (S : list frame) (x : tree) (rest : list (op * tree)) : tree :=
  match rest with
  | [] => fold_left (fun x f => close f x) S x
  | (o, y) :: rest' => run red (red (prio o) o S x) y rest'
  end.
Definition climb (s : seg) := run reduce [] (fst s) (snd s).

(* specification: split at the operators of the lowest level, recursively by levels *)
Fixpoint split (l : nat) (rest : list (op * tree)) : list (op * tree) * list (op * seg) :=
  match rest with
  | [] => ([], [])
  | (o, y) :: rest' =>
      let (cont, segs) := split l rest' in
      if prio o =? l then ([], (o, (y, cont)) :: segs) else ((o, y) :: cont, segs)
  end.
Fixpoint canon (ls : list nat) (s : seg) : tree :=
  match ls with
  | [] => fst s
  | l :: ls' =>
     let (cont, segs) := split l (snd s) in
     match segs with
     | [] => canon ls' (fst s, cont)
     | _ => Node (canon ls' (fst s, cont)) (map (fun os => (fst os, canon ls' (snd os))) segs)
     end
  end.

