(* Specification side of C05 for unit words: what a word may legitimately be read as -- an SI prefix spelling followed by a unit
   name, or a unit name alone -- and when a trie node of the learned lexer tables agrees with maximal munch ("clean"). *)
From Coq Require Import ZArith NArith List Bool.
Import ListNotations.
From AV Require Import model.Syntax model.UnitTypes model.UnitWord gen.UnitWords.
Open Scope Z_scope.

Fixpoint is_prefix_of (p s : list N) : bool :=
  match p, s with [], _ => true | x :: p', y :: s' => (x =? y)%N && is_prefix_of p' s' | _, [] => false end.

(* prefix spellings (from the `Combined` table) and unit names (from the `Units` table) *)
Definition prefix_spellings : list (list N * Z) :=
  flat_map (fun t => match snd t with WPrefix e _ => [(fst t, e)] | _ => [] end) combined_tokens.
Definition unit_names : list (list N * (unit * Z)) :=
  flat_map (fun t => match snd t with WUnit u b => [(fst t, (u, b))] | _ => [] end) units_tokens.

(* every (exponent, unit) the word w can be split into: [prefix] name, with the unit's own bias added *)
Definition valid_splits (w : list N) : list (Z * unit) :=
  flat_map (fun pe => if is_prefix_of (fst pe) w then
                        let rest := skipn (length (fst pe)) w in
                        flat_map (fun nu => if bytes_eqb (fst nu) rest then [(snd pe + snd (snd nu), fst (snd nu))] else []) unit_names
                      else [])
           (([], 0) :: prefix_spellings).
Definition is_valid_reading (w : list N) (e : Z) (u : unit) : bool :=
  existsb (fun eu => (fst eu =? e) && (snd eu =? u)%N) (valid_splits w).

(* maximal munch at a trie node: the longest token that is a prefix of the node's path *)
Definition longest_token (tokens : list (list N * wtok)) (path : list N) : option (wtok * nat) :=
  fold_left (fun best t => if is_prefix_of (fst t) path then
                             match best with
                             | Some (_, l) => if (l <? length (fst t))%nat then Some (snd t, length (fst t)) else best
                             | None => Some (snd t, length (fst t))
                             end
                           else best) tokens None.
Definition wtok_eqb (a b : wtok) : bool :=
  match a, b with
  | WSep, WSep => true
  | WUnit u1 b1, WUnit u2 b2 => (u1 =? u2)%N && (b1 =? b2)
  | WPrefix e1 _, WPrefix e2 _ => e1 =? e2
  | _, _ => false
  end.
Definition outcome_is (o : outcome) (ideal : option (wtok * nat)) (at_end_of_input : bool) (path : list N) : bool :=
  match o, ideal with
  | OTok t l, Some (t', l') => wtok_eqb t t' && (l =? l')%nat
  | OErr, None => negb (at_end_of_input && match path with [] => true | _ => false end)
  | OEnd, None => at_end_of_input && match path with [] => true | _ => false end
  | _, _ => false
  end.
Definition node_clean (tokens : list (list N * wtok)) (nd : node) : bool :=
  let ideal := longest_token tokens (npath nd) in
  outcome_is (at_end nd) ideal true (npath nd) && outcome_is (at_other nd) ideal false (npath nd).

(* the node a lexer step stops at *)
Fixpoint walk_node (trie : list node) (n : nat) (s : list N) : nat :=
  match nth_error trie n with
  | None => n
  | Some nd => match s with
               | [] => n
               | b :: r => match edge (edges nd) b with Some c => walk_node trie c r | None => n end
               end
  end.
