(* Specification side of C07: the grammar of decimal literals as a record, how a literal is written ([render]) and the
   number it spells ([spelled_num] * 10^[spelled_scale]). *)
From Coq Require Import ZArith List Lia Bool.
Import ListNotations.
From AV Require Import model.Literal.
Open Scope Z_scope.

(* ---------- specification: what a literal spells ---------- *)
Definition digit := Z.                       (* 0..9 *)
Definition dbyte (d : digit) : byte := 48 + d.
Definition digits_ok (ds : list digit) := Forall (fun d => 0 <= d <= 9) ds.
Fixpoint val (acc : Z) (ds : list digit) : Z := match ds with [] => acc | d :: r => val (acc * 10 + d) r end.

Record literal := { lneg : option bool; lint : list digit; lfrac : option (list digit);
                    lexp : option (bool (* capital E *) * option bool * list digit) }.
Definition sign_bytes (s : option bool) : list byte := match s with None => [] | Some true => [45] | Some false => [43] end.
(* tail after the mantissa: nothing or an exponent *)
Definition exp_bytes (x : option (bool * option bool * list digit)) : list byte :=
  match x with None => [] | Some (cap, s, e) => (if cap then 69 else 101) :: sign_bytes s ++ map dbyte e end.
Definition render (l : literal) : list byte :=
  sign_bytes (lneg l) ++ map dbyte (lint l) ++
  (match lfrac l with None => [] | Some f => 46 :: map dbyte f end) ++ exp_bytes (lexp l).
Definition fracd (l : literal) := match lfrac l with None => [] | Some f => f end.
Definition expv (l : literal) : Z :=
  match lexp l with None => 0 | Some (_, s, e) => match s with Some true => - val 0 e | _ => val 0 e end end.
Definition well_formed (l : literal) : Prop :=
  digits_ok (lint l) /\ digits_ok (fracd l) /\ (lint l ++ fracd l <> []) /\
  match lexp l with None => True | Some (_, _, e) => digits_ok e /\ e <> [] /\ val 0 e <= u32_max end /\
  Z.of_nat (length (fracd l)) <= u32_max.
(* the number spelled: (+-) int.frac * 10^exp  =  (+-) val(int ++ frac) * 10^(exp - |frac|) *)
Definition spelled_num (l : literal) : Z := let v := val 0 (lint l ++ fracd l) in match lneg l with Some true => - v | _ => v end.
Definition spelled_scale (l : literal) : Z := expv l - Z.of_nat (length (fracd l)).

