(* Specification side of C08: what it means for a printed decimal to be faithful. The printed text denotes
   mant * 10^up / 10^down; it must be the value a/d cut off toward zero at the last printed digit, and the
   continuation mark must be present exactly when something non-zero was cut off. *)
From Coq Require Import ZArith List Lia Bool.
From AV Require Import model.Display.
Open Scope Z_scope.

(* ---- specification: truncation toward zero at the last printed digit, mark iff something was cut ---- *)
Definition faithful (a d : Z) (t : text) : Prop :=
  let lo := mant t * 10 ^ Z.of_nat (up t) * d in
  let x := a * 10 ^ Z.of_nat (down t) in
  lo <= x < lo + 10 ^ Z.of_nat (up t) * d /\ (mark t = true <-> lo <> x).

