(* C03 — Unit conversion preserves the physical quantity.  Statements only. *)
From Coq Require Import ZArith NArith QArith Qpower List.
Import ListNotations.
From AV Require Import model.UnitTypes model.Units model.Rat model.Compound proofs.FactorProofs proofs.UnitLaws gen.Prefixes.
Open Scope Z_scope.

(* [scale c] is the SI scale of a compound: the product over its units of (10^prefix * factor)^power, with the factors as
   translated from src/units (all positive, checked by computation in FactorProofs). One law, from which the rest follows:
   a successful conversion preserves value * scale. *)
Theorem C03_factor_si : forall (target src : compound) v v', target <> [] -> src <> [] -> proportional target -> proportional src ->
  factor target src v = Some (true, v') -> (v' * scale target == v * scale src)%Q.
Proof. exact factor_si. Qed.

(* there and back returns the original number exactly *)
Theorem C03_round_trip : forall (a b : compound) v v1 v2, a <> [] -> b <> [] -> proportional a -> proportional b ->
  factor a b v = Some (true, v1) -> factor b a v1 = Some (true, v2) -> (v2 == v)%Q.
Proof. exact round_trip. Qed.

(* converting via an intermediate unit equals converting directly *)
Theorem C03_via_equals_direct : forall (a b c : compound) v vd v1 v2, a <> [] -> b <> [] -> c <> [] ->
  proportional a -> proportional b -> proportional c ->
  factor c a v = Some (true, vd) -> factor b a v = Some (true, v1) -> factor c b v1 = Some (true, v2) -> (v2 == vd)%Q.
Proof. exact via_equals_direct. Qed.

(* scaling the input scales the output *)
Theorem C03_linear : forall (a b : compound) k v v1 vk, a <> [] -> b <> [] -> proportional a -> proportional b ->
  factor a b v = Some (true, v1) -> factor a b (k * v) = Some (true, vk) -> (vk == k * v1)%Q.
Proof. exact conversion_linear. Qed.

(* an SI prefix is exactly its power of ten, and the translated prefix exponents are the SI ones *)
Theorem C03_prefix_exact : forall (u : unit) (p e : Z), (scale [(u, (p, e))] == pow10 (e * p)%Z * scale [(u, (p, 0%Z))])%Q.
Proof. exact prefix_exact. Qed.
Theorem C03_prefix_table_is_SI :
  List.map fst prefix_table = [-24; -21; -18; -15; -12; -9; -6; -3; -2; -1; 0; 1; 2; 3; 6; 9; 12; 15; 18; 21; 24].
Proof. exact prefix_table_is_SI. Qed.

(* a power or product of units converts by the same power or product of the individual factors *)
Theorem C03_scale_power : forall (u : unit) (p e k : Z), (scale [(u, ((p * k)%Z, e))] == scale [(u, (p, e))] ^ k)%Q.
Proof. exact scale_power. Qed.
Theorem C03_scale_product : forall c1 c2 : compound, (scale (c1 ++ c2) == scale c1 * scale c2)%Q.
Proof. exact scale_product. Qed.

(* conversions between proportional units never fail, and every scale is positive (hence invertible) *)
Theorem C03_factor_total : forall (target src : compound) v, proportional target -> proportional src -> factor target src v <> None.
Proof. exact factor_total. Qed.
Theorem C03_scale_pos : forall c : compound, (0 < scale c)%Q.
Proof. exact scale_pos. Qed.

Example C03_example : exists v, factor [(u_m, (1, 0))] [(u_m, (1, 3))] (5 # 2) = Some (true, v) /\ (v == 2500 # 1)%Q.
Proof. exact (proj1 (proj2 (proj2 (proj2 unit_examples)))). Qed.
