(* C10 — Rounding functions return the mathematically defined integer or decimal.  Statements only; proofs by [exact]. *)
From Coq Require Import ZArith NArith QArith Qabs List.
Import ListNotations.
From AV Require Import model.Rat model.Compound model.Eval proofs.BuiltinProofs.
Open Scope Z_scope.

(* floor(x) is the greatest integer not above x; the unit u of the argument is returned unchanged *)
Theorem C10_floor : forall span (x : Q) (u : compound), exists z : Z,
  fn_floor span [(x, u)] = Ok (floor_q x, u) /\ (floor_q x == inject_Z z)%Q /\ (inject_Z z <= x)%Q /\ (x < inject_Z z + 1)%Q.
Proof. exact fn_floor_ok. Qed.

(* ceil(x) is the least integer not below x *)
Theorem C10_ceil : forall span (x : Q) (u : compound), exists z : Z,
  fn_ceil span [(x, u)] = Ok (ceil_q x, u) /\ (ceil_q x == inject_Z z)%Q /\ (x <= inject_Z z)%Q /\ (inject_Z z - 1 < x)%Q.
Proof. exact fn_ceil_ok. Qed.

(* round(x) is the nearest integer, halves away from zero:
   nearest_away x z  :=  |2x - 2z| <= 1  /\  (|2x - 2z| == 1 -> |x| < |z|) *)
Theorem C10_round : forall span (x : Q) (u : compound), exists (v : Q) (z : Z),
  fn_round false span [(x, u)] = Ok (v, u) /\ (v == inject_Z z)%Q /\ nearest_away x z.
Proof. exact fn_round1_ok. Qed.

(* round(x, n) is the nearest multiple of 10^-n, for positive and negative n: v * 10^n is the integer nearest to x * 10^n *)
Theorem C10_round_digits : forall span (x : Q) (u : compound) (n : Z), in_i32 n = true -> exists (v : Q) (z : Z),
  fn_round false span [(x, u); (inject_Z n, [])] = Ok (v, u) /\ (v * pow10 n == inject_Z z)%Q /\ nearest_away (x * pow10 n) z.
Proof. exact fn_round2_ok. Qed.

(* a wrong number of arguments is an error *)
Theorem C10_arity : forall debug span (args : list numeric),
  (length args <> 1%nat -> fn_floor span args = Error span (ArgumentMismatch 1 (length args)) /\
                           fn_ceil span args = Error span (ArgumentMismatch 1 (length args))) /\
  (length args <> 1%nat -> length args <> 2%nat -> exists e, fn_round debug span args = Error span (ArgumentMismatch e (length args))).
Proof. exact arity_errors. Qed.

(* with debug assertions enabled round never panics (the assertion that used to fire on round(1.26, 1)) *)
Theorem C10_round_no_panic : forall span args w, fn_round true span args <> Panic w.
Proof. exact fn_round_no_panic. Qed.

(* non-vacuity: floor(-3/2) = -2, ceil(-3/2) = -1, round(-5/2) = -3, round(126/100, 1) = 13/10, round(1250, -2) = 1300 *)
Example C10_examples :
  (floor_q (-3 # 2) == -2 # 1)%Q /\ (ceil_q (-3 # 2) == -1 # 1)%Q /\ (round_q (-5 # 2) == -3 # 1)%Q /\
  (exists u, fn_round true (0%N, 0%N) [((126 # 100)%Q, []); (inject_Z 1, [])] = Ok u /\ (fst u == 13 # 10)%Q) /\
  (exists u, fn_round true (0%N, 0%N) [((1250 # 1)%Q, []); (inject_Z (-2), [])] = Ok u /\ (fst u == 1300 # 1)%Q).
Proof. exact rounding_examples. Qed.
