(* C18 — Describing a query does not change its answer and reports exactly the facts used.  Statements only. *)
From Coq Require Import ZArith NArith List.
Import ListNotations.
From AV Require Import model.Syntax model.Eval proofs.DescribeProofs.

(* For every syntax tree, every fact database (an arbitrary function from phrases to lookup answers), every fuel and both
   settings of the debug switch: *)

(* the value (or error) is the same with and without descriptions, whatever was described before *)
Theorem C18_describe_same_values : forall debug facts fuel t d d',
  fst (eval debug facts true fuel t d) = fst (eval debug facts false fuel t d').
Proof. exact describe_same_values. Qed.

(* without the switch nothing is recorded *)
Theorem C18_no_descriptions_when_off : forall debug facts fuel t d, snd (eval debug facts false fuel t d) = d.
Proof. exact no_descriptions_when_off. Qed.

(* with the switch, evaluation only appends to the list, in the order of evaluation, and every appended entry is a phrase for
   which the database returned a constant (that constant's value is the one that entered the computation, see [eval]) *)
Theorem C18_descriptions_are_lookups : forall debug facts fuel t d,
  exists l, snd (eval debug facts true fuel t d) = d ++ l /\ Forall (found facts) l.
Proof. exact descriptions_are_lookups. Qed.

(* several queries (root nodes) against one database: each gets the value it has in isolation *)
Theorem C18_queries_independent : forall debug facts describe roots d,
  fst (eval_roots debug facts describe roots d) = List.map (fun t => fst (eval debug facts describe (S (asize t)) t [])) roots.
Proof. exact queries_independent. Qed.

(* non-vacuity: "c / pi" against a two-entry database: same value either way; described: pi (right operand, evaluated first), then c *)
From Coq Require Import QArith.
From AV Require Import model.Run.
Example C18_example :
  let facts := [([99%N], Found 0 (3 # 1)%Q []); ([112%N; 105%N], Found 1 (2 # 1)%Q [])] in
  query true true facts [99; 32; 47; 32; 112; 105]%N = ([Ok ((3 # 1) / (2 # 1), [])%Q], [[112%N; 105%N]; [99%N]]) /\
  fst (query true false facts [99; 32; 47; 32; 112; 105]%N) = [Ok ((3 # 1) / (2 # 1), [])%Q] /\
  snd (query true false facts [99; 32; 47; 32; 112; 105]%N) = [].
Proof. exact describe_example. Qed.
