(* C05 — Every unit word denotes the standard definition of a unit and prefix.  Statements only. *)
From Coq Require Import ZArith NArith List Bool.
Import ListNotations.
From AV Require Import model.UnitTypes model.Units model.UnitWord spec.UnitWordSpec spec.RefUnits proofs.UnitWordProofs gen.UnitWords gen.UnitDefs gen.Tables.
Open Scope Z_scope.

(* The two logos lexers are modelled by their byte tries with the outcome observed on the real generated lexer at every node
   (translated on every run); the recorded paths really form tries: *)
Theorem C05_tries_consistent : trie_consistent combined_trie = true /\ trie_consistent units_trie = true.
Proof. exact tries_consistent. Qed.

(* The full vocabulary: every unit name and alias alone and crossed with every prefix spelling. Whenever the parser accepts such a
   word as a whole and no lexer step of it stops at a node where the generated lexer deviates from maximal munch ([clean_word]),
   the reading (exponent, unit) is one of the valid readings of the word as [prefix spelling ++] unit name, the exponent being the
   prefix's power of ten plus the unit's own bias. The deviating nodes are the recorded logos finding. *)
Theorem C05_cross_product_sound : forallb word_ok cross_words = true.
Proof. exact cross_product_sound. Qed.
Example C05_logos_refuted : exists w e u, parse_word w = Some ([], e, u) /\ is_valid_reading w e u = false /\ clean_word w = false.
Proof. exact logos_refuted. Qed.

(* Every documented unit name (tools/gen/data.toml) is accepted on its own with exactly the documented unit and exponent 0
   (-3 for gram). *)
Theorem C05_documented_names_complete : forallb documented_ok documented_names = true.
Proof. exact documented_names_complete. Qed.

(* Definitions: every unit word of the hand-written reference (spec/RefUnits.v: SI Brochure, 1959 yard-pound agreement, NIST HB 44)
   denotes a unit with the reference's base dimensions and one of its accepted exact values -- except the three recorded findings
   (Dalton, pint, fathom), which provably match none; and the reference covers every derived unit the code defines. *)
Theorem C05_definitions_match_reference : forallb (fun r => is_known_bad (fst (fst r)) || ref_ok r) ref_units = true.
Proof. exact definitions_match_reference. Qed.
Theorem C05_known_bad_refuted : forallb (fun r => negb (is_known_bad (fst (fst r))) || negb (ref_ok r)) ref_units = true.
Proof. exact known_bad_refuted. Qed.
Theorem C05_reference_covers_all_units :
  forallb (fun r : drow => match r with (id, _, _, _, _) => ref_covered id end) derived_table = true.
Proof. exact reference_covers_all_units. Qed.
Theorem C05_scales_are_kelvin :
  forallb (fun r : list N * list Z => match parse_word (fst r) with Some ([], 0, u) => zlist_eqb (dims_of u) (snd r) | _ => false end) ref_scales = true.
Proof. exact scales_are_kelvin. Qed.
