(* C04 — Products, quotients and integer powers of quantities are dimensionally exact.  Statements only. *)
From Coq Require Import ZArith NArith QArith Qpower List.
Import ListNotations.
From AV Require Import model.UnitTypes model.Units model.Rat model.Compound model.Eval proofs.MapProofs proofs.FactorProofs proofs.MulProofs proofs.NonZeroPowers proofs.NeverPanics.
Open Scope Z_scope.

(* [si x] = value * scale unit is the quantity expressed in base SI units, [dim] its base dimensions (FactorProofs). *)

(* `Compound::mul` (n = 1 for *, n = -1 for /): whatever `reconstruct`, `bases_match` and `inner_match` decide to re-introduce as
   derived units, the left value times the scale of the resulting unit is the left operand in SI, the right value is the right
   operand in SI, and the dimensions are added; the resulting map stays sorted. *)
Theorem C04_mul_si : forall (self other : compound) n lhs rhs c l r, self <> [] -> other <> [] -> proportional self -> proportional other ->
  mul self other n lhs rhs = Some (c, l, r) ->
  (l * scale c == lhs * scale self)%Q /\ (r == rhs * scale other)%Q /\
  (forall b, dim c b = dim self b + n * dim other b) /\ wfm c.
Proof. exact mul_si. Qed.

(* the evaluator's * : the SI value is the product, the dimensions the sum *)
Theorem C04_op_mul_si : forall span (a b r : numeric), proportional (snd a) -> proportional (snd b) ->
  op_mul false span a b = Ok r -> (si r == si a * si b)%Q /\ forall x, dim (snd r) x = dim (snd a) x + dim (snd b) x.
Proof. exact op_mul_si. Qed.

(* the evaluator's / : the SI value is the quotient, the dimensions the difference (and the divisor was not zero) *)
Theorem C04_op_div_si : forall span (a b r : numeric), proportional (snd a) -> proportional (snd b) ->
  op_div false span a b = Ok r ->
  (si r == si a / si b)%Q /\ (forall x, dim (snd r) x = dim (snd a) x - dim (snd b) x) /\ ~ (si b == 0)%Q.
Proof. exact op_div_si. Qed.

(* integer powers: the SI value is the power of the SI value -- hence equal to repeated multiplication -- and the dimensions the
   multiple; in particular a zero power is the dimensionless one *)
Theorem C04_op_pow_si : forall span (x : Q) (u : compound) (p : Q) (r : numeric), proportional u ->
  op_pow span (x, u) (p, []) = Ok r ->
  is_integer p = true /\ (si r == si (x, u) ^ to_integer p)%Q /\ forall b, dim (snd r) b = to_integer p * dim u b.
Proof. exact op_pow_si. Qed.

(* products of proportional quantities never fail, and their unit is again proportional *)
Theorem C04_mul_total : forall (self other : compound) n lhs rhs, proportional self -> proportional other -> mul self other n lhs rhs <> None.
Proof. exact mul_total. Qed.

(* the result of a product or quotient never carries a unit with power zero (the assertion of Compound::new): [NZ] = no zero
   power, [dimensional] = made of units of the tables *)
Theorem C04_mul_no_zero_powers : forall (self other : compound) n lhs rhs c l r, n <> 0 ->
  NZ self -> NZ other -> dimensional self -> dimensional other -> mul self other n lhs rhs = Some (c, l, r) -> NZ c.
Proof. exact mul_NZ. Qed.
Theorem C04_op_mul_never_panics : forall debug span (a b : numeric) w,
  NZ (snd a) -> NZ (snd b) -> dimensional (snd a) -> dimensional (snd b) -> op_mul debug span a b <> Panic w.
Proof. exact op_mul_no_panic. Qed.
Theorem C04_op_div_never_panics : forall debug span (a b : numeric) w,
  NZ (snd a) -> NZ (snd b) -> dimensional (snd a) -> dimensional (snd b) -> op_div debug span a b <> Panic w.
Proof. exact op_div_no_panic. Qed.

Example C04_example :
  (exists r, op_mul true (0%N, 0%N) ((3 # 1)%Q, [(353022001%N, (1, 0))]) ((2 # 1)%Q, [(base_key 2, (1, 0))]) = Ok r /\ (si r == 6 # 1)%Q) /\
  (exists r, op_div true (0%N, 0%N) ((6 # 1)%Q, [(base_key 2, (1, 0))]) ((2 # 1)%Q, [(base_key 3, (1, 0))]) = Ok r /\
             (fst r == 3 # 1)%Q /\ snd r = [(base_key 2, (1, 0)); (base_key 3, (-1, 0))]) /\
  (exists r, op_pow (0%N, 0%N) ((2 # 1)%Q, [(base_key 2, (1, 3))]) ((2 # 1)%Q, []) = Ok r /\ (si r == 4000000 # 1)%Q /\ snd r = [(base_key 2, (2, 3))]).
Proof. exact mul_examples. Qed.
