(* C02 — Addition, subtraction and casts are allowed exactly between commensurable units.  Statements only. *)
From Coq Require Import ZArith NArith QArith List.
Import ListNotations.
From AV Require Import model.UnitTypes model.Units model.Compound model.Eval proofs.FactorProofs proofs.UnitLaws.
Open Scope Z_scope.

(* [dim c b] (proofs/FactorProofs.v) is the power of base dimension b in compound c: the sum over its units of power times the
   unit's base-power closure as translated from src/units; [samedim a b] says all base powers agree; [proportional c] says no unit
   of c is an offset scale. The quantification is over ALL compounds: any map from the translated unit set to powers and
   prefixes, so every spelling of a dimension (derived, prefixed, products, quotients, cancelling factors) is covered. *)

(* what `Compound::base_units` computes is the dimension vector, with no zero entries *)
Theorem C02_base_units_spec : forall c : compound,
  wfp (snd (base_units c)) /\ forall b, getz (snd (base_units c)) b = dim c b.
Proof. exact base_units_spec. Qed.

(* + succeeds iff the dimensions agree, and is the IllegalOperation error otherwise *)
Theorem C02_add_ok_iff : forall span (a b : numeric), snd a <> [] -> snd b <> [] -> proportional (snd a) -> proportional (snd b) ->
  ((exists r, op_add span a b = Ok r) <-> samedim (snd a) (snd b)) /\
  (~ samedim (snd a) (snd b) -> op_add span a b = Error span IllegalOperation).
Proof. exact add_ok_iff. Qed.

Theorem C02_sub_ok_iff : forall span (a b : numeric), snd a <> [] -> snd b <> [] -> proportional (snd a) -> proportional (snd b) ->
  ((exists r, op_sub span a b = Ok r) <-> samedim (snd a) (snd b)) /\
  (~ samedim (snd a) (snd b) -> op_sub span a b = Error span IllegalOperation).
Proof. exact sub_ok_iff. Qed.

(* `to`: the evaluator asks `target.factor(source, value)`; it converts iff the dimensions agree and answers false otherwise *)
Theorem C02_cast_ok_iff : forall (target src : compound) v, target <> [] -> src <> [] -> proportional target -> proportional src ->
  ((exists v', factor target src v = Some (true, v')) <-> samedim target src) /\
  (~ samedim target src -> factor target src v = Some (false, v)).
Proof. exact cast_ok_iff. Qed.

(* a plain number combined with a quantity adopts that quantity's unit regardless of operand order *)
Theorem C02_plain_adopts_unit : forall span x y (u : compound), u <> [] ->
  op_add span (x, []) (y, u) = Ok ((x + y)%Q, u) /\ op_add span (y, u) (x, []) = Ok ((y + x)%Q, u) /\
  op_sub span (x, []) (y, u) = Ok ((x - y)%Q, u) /\ op_sub span (y, u) (x, []) = Ok ((y - x)%Q, u).
Proof. exact plain_adopts_unit. Qed.

(* non-vacuity: J/N is commensurable with m (kg and s cancel to zero), km with m, and m is not with s *)
Example C02_example :
  proportional [(u_N, (-1, 0)); (u_J, (1, 0))] /\ samedim [(u_m, (1, 0))] [(u_N, (-1, 0)); (u_J, (1, 0))] /\
  factor [(u_m, (1, 0))] [(u_N, (-1, 0)); (u_J, (1, 0))] (3 # 1) = Some (true, (3 # 1)%Q) /\
  (exists v, factor [(u_m, (1, 0))] [(u_m, (1, 3))] (5 # 2) = Some (true, v) /\ (v == 2500 # 1)%Q) /\
  factor [(u_m, (1, 0))] [(u_s, (1, 0))] 1 = Some (false, 1%Q).
Proof. exact unit_examples. Qed.
