(* C16 — Every shipped fact can be found by its own words.  Statements only.
   The ranking of the full-text index (tantivy) has no model here; what is stated below is the part of the property that lives in the
   query language and in the stored payloads. That the index returns, for the words of every such constant in every order tried,
   a constant carrying all of them is decided by an exhaustive run of the real index over this finite domain, whose observations
   are evaluated by [Find.observe_find] inside Coq and whose coverage is compared with [Find.typeable_positions]. *)
From Coq Require Import ZArith NArith List Bool QArith.
Import ListNotations.
From AV Require Import model.Syntax model.Lexer model.UnitTypes model.Eval model.Find model.Run proofs.FindProofs gen.Shipped.

(* words the query language reads as one phrase are handed to the database exactly as typed, and the database's answer for them is
   the result and the only description: for every text and every database *)
Theorem C16_phrase_query_looks_up : forall (dbg describe : bool) (facts : db) (s : list chr), is_phrase_query s = true ->
  query dbg describe facts s =
    match db_lookup facts s with
    | Found _ v u => ([Ok (v, u)], if describe then [s] else [])
    | NotFound => ([Error (0%N, utf8_size s) Missing], [])
    | LookupFailed => ([Error (0%N, utf8_size s) LookupError], [])
    end.
Proof. exact phrase_query_looks_up. Qed.

(* every shipped constant made of plain lower-case words can be typed, in every order of its words that is tried *)
Theorem C16_plain_words_are_phrases :
  forallb (fun c : constant => implb (forallb plain_word (cwords c)) (forallb (fun o => is_phrase_query (join_words o)) (orders (cwords c)))) shipped = true.
Proof. exact plain_words_are_phrases. Qed.

Theorem C16_plain_words_exist : (length shipped <=? 2 * length (filter (fun c : constant => forallb plain_word (cwords c)) shipped))%nat = true /\
  (length (filter (fun c : constant => forallb plain_word (cwords c)) shipped) <=? length typeable_positions)%nat = true.
Proof. exact plain_words_exist. Qed.

(* every stored payload decodes to the value and unit that were encoded and names a listed source *)
Theorem C16_shipped_decode_completely : forallb (fun c => const_decodes c && source_listed c) shipped = true.
Proof. exact shipped_decode_completely. Qed.
