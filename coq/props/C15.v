(* C15 — The on-disk index always recovers to the shipped data.  Statements only. *)
From Coq Require Import List Bool.
Import ListNotations.
From AV Require Import model.DbTypes model.DbProto proofs.DbProtoProofs gen.DbSteps.

(* A disk state is any combination of meta.json (absent, unreadable, or JSON with or without a version / hash key, each either the
   current one or another) and the index directory (missing, unopenable, or openable holding nothing, the shipped data, or other
   data). [good] excludes only states in which metadata that declares the index current sits next to an openable index with other
   content -- states the tool itself must never produce. One start of the tool performs the persistent effects of src/db.rs in the
   order translated from the source; [crash_run cp] kills it at crash point cp (an unreachable or unknown crash point means the
   start completes). The theorems hold for every [good] starting state and every history of kills, of any length. *)

Theorem C15_recovers : forall (ks : list nat) (d : disk), good d = true ->
  let d' := complete (fold_left (fun d cp => crash_run cp d) ks d) in
  answers d' = Shipped /\ meta_current d' = true.
Proof. exact recovers. Qed.

Theorem C15_meta_never_early : forall (ks : list nat) (d : disk), good d = true ->
  let d' := fold_left (fun d cp => crash_run cp d) ks d in
  meta_current d' = true -> dindex d' = IOpen Shipped \/ dindex d' = IMissing \/ dindex d' = IBroken.
Proof. exact meta_never_early. Qed.

(* The same with starts that keep their index in memory (Db::in_memory) anywhere in the history: whether such a start may write
   meta.json is translated from the guard in the source (gen/DbSteps.v, meta_written_when). *)
Theorem C15_recovers_with_memory_starts : forall (es : list event) (d : disk), good d = true ->
  let d' := complete (fold_left step_event es d) in
  answers d' = Shipped /\ meta_current d' = true.
Proof. exact recovers_events. Qed.

Theorem C15_meta_never_early_with_memory_starts : forall (es : list event) (d : disk), good d = true ->
  let d' := fold_left step_event es d in
  meta_current d' = true -> dindex d' = IOpen Shipped \/ dindex d' = IMissing \/ dindex d' = IBroken.
Proof. exact meta_never_early_events. Qed.

Theorem C15_memory_start_leaves_disk : forall d : disk, mem_start d = d.
Proof. exact memory_start_leaves_disk. Qed.

Theorem C15_commit_before_meta : before Commit WriteMeta rebuild_steps = true /\ before RemoveMeta RemoveDir open_index_steps = true /\
  before RemoveMeta CreateIndex open_index_steps = true.
Proof. exact commit_before_meta. Qed.

Example C15_example :
  let d := {| dmeta := MJson (Some VThis) (Some HCur); dindex := IMissing |} in
  good d = true /\ crash_run 5 d = {| dmeta := MAbsent; dindex := IOpen Empty |} /\ answers (complete (crash_run 5 d)) = Shipped.
Proof. exact recovery_example. Qed.
