(* C19 — The command line prints exactly what the library computed.  Statements only. *)
From Coq Require Import ZArith NArith QArith List.
Import ListNotations.
From AV Require Import model.Syntax model.UnitTypes model.Rat model.Display model.Compound model.Eval model.Cli proofs.CliProofs.
Open Scope Z_scope.

(* one item per result, in order; an error becomes a diagnostic in its place and the results after it are still printed *)
Theorem C19_one_item_per_result : forall exact (rs : list (res numeric)), length (render exact rs) = length rs /\
  forall i r, nth_error rs i = Some r -> nth_error (render exact rs) i = Some (render_one exact r).
Proof. exact render_one_per_result. Qed.

(* exact mode prints the fraction in lowest terms with a positive denominator, equal to the value ... *)
Theorem C19_reduced : forall v : Q, let '(n, d) := reduced v in 0 < d /\ Z.gcd n d = 1 /\ (v == n # Z.to_pos d)%Q.
Proof. exact reduced_spec. Qed.
(* ... with a slash and the denominator only when the denominator is not one *)
Theorem C19_exact_form : forall v : Q,
  render_value true v = (let '(n, d) := reduced v in if d =? 1 then zdec n else zdec n ++ 47%N :: dec d).
Proof. exact exact_slash_iff_denominator. Qed.

(* then a space exactly when the unit has a numerator part, and the unit, pluralised only when the value is not one
   (and, inside compound_display, only when the numerator part is a single unit) *)
Theorem C19_line_form : forall exact (x : numeric),
  render_line exact x = render_value exact (fst x) ++ (if has_numerator (snd x) then [32%N] else []) ++ compound_display (snd x) (negb (is_one (fst x))).
Proof. exact space_iff_numerator. Qed.

Example C19_example :
  render_line true ((10 # 4)%Q, [(base_key 2, (-1, 0))]) = [53; 47; 50; 47; 109]%N /\
  render_line false ((2 # 1)%Q, [(1021976576%N, (1, 0))]) = [50; 32; 100; 101; 99; 97; 100; 101; 115]%N /\
  render_line false ((1 # 1)%Q, [(1021976576%N, (1, 0))]) = [49; 32; 100; 101; 99; 97; 100; 101]%N /\
  render_line false ((1 # 3)%Q, []) = [48; 46; 51; 51; 51; 51; 51; 51; 51; 51; 51; 51; 51; 51; 8230]%N.
Proof. exact cli_examples. Qed.
