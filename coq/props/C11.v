(* C11 — Any input yields values or located errors, never a crash (the part the model can carry).  Statements only. *)
From Coq Require Import ZArith NArith List.
Import ListNotations.
From AV Require Import model.Syntax model.Lexer model.Grammar model.Eval model.Run proofs.LexerProofs proofs.BuiltinProofs proofs.NoPanicProofs proofs.SpanProofs proofs.GrammarTotal proofs.QueryNoPanic proofs.NonZeroPowers proofs.NeverPanics model.Compound model.UnitTypes gen.Shipped.

(* Every panic site of the Rust code that the model can express is an explicit [Panic] outcome: the debug assertion of
   Compound::new (1), builder misuse or running out of fuel (3), the debug assertion of round (4). *)

(* lexing is total, terminates, and covers the input (C12) *)
Theorem C11_lexer_total : forall s : list chr,
  concat (map snd (tokens s)) = s /\ Forall (fun t : token => snd t <> []) (tokens s).
Proof. exact tokens_lossless. Qed.

(* on every syntax tree, with every database and both switches: evaluation stays within its fuel; the only panic it can produce
   is the debug assertion of Compound::new -- so a release build of the model never panics at all *)
Theorem C11_eval_only_assertion : forall debug facts describe fuel t d, (asize t <= fuel)%nat ->
  forall w, fst (eval debug facts describe fuel t d) = Panic w -> debug = true /\ w = 1%N.
Proof. exact eval_only_assertion. Qed.
Theorem C11_release_never_panics : forall facts describe roots d r w,
  In r (fst (eval_roots false facts describe roots d)) -> r <> Panic w.
Proof. exact release_never_panics. Qed.
Theorem C11_round_no_panic : forall span args w, fn_round true span args <> Panic w.
Proof. exact fn_round_no_panic. Qed.
Theorem C11_unit_no_panic : forall children w, eval_unit children <> Panic w.
Proof. exact eval_unit_no_panic. Qed.

(* parsing never runs out of fuel, for any token list; so for a whole query, from any text: a release build of the model never
   panics, and a debug build only through the assertion of Compound::new *)
Theorem C11_parse_total : forall toks : list token, parse_root toks <> None.
Proof. exact parse_total. Qed.
Theorem C11_query_only_assertion : forall debug describe facts (s : list chr) r w,
  In r (fst (query debug describe facts s)) -> r = Panic w -> debug = true /\ w = 1%N.
Proof. exact query_only_assertion. Qed.
Theorem C11_release_query_never_panics : forall describe facts (s : list chr) r w,
  In r (fst (query false describe facts s)) -> r <> Panic w.
Proof. exact release_query_never_panics. Qed.

(* The debug assertion itself cannot fire. A unit is well formed when it has no zero power and consists of units of the tables
   ([wfu]); Compound::mul of well-formed units is well formed -- the delicate step is reconstruct putting back a derived unit that is
   already there: the two contributions cannot cancel because the base entries a derived unit is matched against never change
   sign -- every unit the unit parser builds is well formed, and so is the unit of every shipped constant. Hence: for every text,
   both build modes and every database whose constants carry well-formed units, NO result of a query is a panic. *)
Theorem C11_mul_no_zero_powers : forall (self other : compound) n lhs rhs c l r, n <> 0%Z ->
  NZ self -> NZ other -> dimensional self -> dimensional other -> mul self other n lhs rhs = Some (c, l, r) -> NZ c.
Proof. exact mul_NZ. Qed.
Theorem C11_unit_parser_well_formed : forall children c, eval_unit children = Ok c -> wfu c.
Proof. exact eval_unit_wfu. Qed.
Theorem C11_shipped_units_well_formed :
  forallb (fun k : list (list N) * (Z * Z) * compound * Z => let '(_, _, u, _) := k in wfu_b u) shipped = true.
Proof. exact shipped_units_wfu. Qed.
Theorem C11_query_never_panics : forall debug describe facts (s : list chr) r w,
  (forall p id v u, db_lookup facts p = Found id v u -> wfu u) ->
  In r (fst (query debug describe facts s)) -> r <> Panic w.
Proof. exact query_never_panics. Qed.

(* every error a query reports is located inside the input: its range runs from the start of a syntax node to the end of one,
   0 <= start <= end <= byte length of the text (node boundaries are sums of the byte lengths of whole tokens, which are
   sequences of whole characters) *)
Theorem C11_query_error_spans : forall debug describe facts (s : list chr) sp k,
  In (Error sp k) (fst (query debug describe facts s)) -> inside 0 (utf8_size s) sp.
Proof. exact query_error_spans. Qed.

(* non-vacuity: "1 m + 1 s" (with a multi-byte blank at the end) yields one error spanning the operation *)
Example C11_example :
  fst (query true false [] [49; 32; 109; 32; 43; 32; 49; 32; 115; 8195]%N) = [Error (0%N, 9%N) IllegalOperation].
Proof. exact span_example. Qed.
