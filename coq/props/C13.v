(* C13 — Quantity arithmetic obeys the field laws, including looked-up facts.  Statements only. *)
From Coq Require Import ZArith NArith QArith List.
Import ListNotations.
From AV Require Import model.UnitTypes model.Units model.Rat model.Compound model.Eval proofs.FactorProofs proofs.UnitLaws proofs.MulProofs
  proofs.FieldLaws.
Open Scope Z_scope.

(* A quantity is any pair (value, compound unit): a literal with a unit or a fact from the database -- the theorems quantify over
   all of them. [same_quantity r r'] := same base-SI value and same base dimensions. Scope: proportional units (offset scales: C09);
   for sums, both operands carry a unit or both are plain numbers (a plain number next to a quantity adopts its unit: C02). *)

Theorem C13_add_comm : forall span (a b : numeric), snd a <> [] -> snd b <> [] -> proportional (snd a) -> proportional (snd b) ->
  ((exists r, op_add span a b = Ok r) <-> (exists r, op_add span b a = Ok r)) /\
  (forall r r', op_add span a b = Ok r -> op_add span b a = Ok r' -> (UnitLaws.si r == UnitLaws.si r')%Q /\ samedim (snd r) (snd r')).
Proof. exact add_comm. Qed.

Theorem C13_add_assoc : forall span (a b c ab bc l r : numeric), snd a <> [] -> snd b <> [] -> snd c <> [] ->
  proportional (snd a) -> proportional (snd b) -> proportional (snd c) ->
  op_add span a b = Ok ab -> op_add span ab c = Ok l -> op_add span b c = Ok bc -> op_add span a bc = Ok r ->
  (UnitLaws.si l == UnitLaws.si r)%Q /\ snd l = snd r.
Proof. exact add_assoc. Qed.

Theorem C13_sub_self : forall span (a : numeric), snd a <> [] -> proportional (snd a) ->
  exists r, op_sub span a a = Ok r /\ (UnitLaws.si r == 0)%Q /\ snd r = snd a.
Proof. exact sub_self. Qed.

Theorem C13_mul_always : forall span (a b : numeric), proportional (snd a) -> proportional (snd b) ->
  exists r, op_mul false span a b = Ok r /\ proportional (snd r).
Proof. exact mul_always. Qed.

Theorem C13_mul_comm : forall span (a b r r' : numeric), proportional (snd a) -> proportional (snd b) ->
  op_mul false span a b = Ok r -> op_mul false span b a = Ok r' -> same_quantity r r'.
Proof. exact mul_comm. Qed.

Theorem C13_mul_assoc : forall span (a b c ab bc l r : numeric), proportional (snd a) -> proportional (snd b) -> proportional (snd c) ->
  op_mul false span a b = Ok ab -> op_mul false span ab c = Ok l -> op_mul false span b c = Ok bc -> op_mul false span a bc = Ok r ->
  same_quantity l r.
Proof. exact mul_assoc. Qed.

Theorem C13_distrib : forall span (a b c bc l ab ac r : numeric), proportional (snd a) -> proportional (snd b) -> proportional (snd c) ->
  (snd b = [] <-> snd c = []) ->
  op_add span b c = Ok bc -> op_mul false span a bc = Ok l ->
  op_mul false span a b = Ok ab -> op_mul false span a c = Ok ac -> op_add span ab ac = Ok r ->
  ((snd ab = [] <-> snd ac = []) -> same_quantity l r).
Proof. exact distrib. Qed.

Theorem C13_div_self : forall span (a r : numeric), proportional (snd a) -> op_div false span a a = Ok r ->
  (MulProofs.si r == 1)%Q /\ forall x, dim (snd r) x = 0.
Proof. exact div_self. Qed.
Theorem C13_div_self_ok : forall span (a : numeric), proportional (snd a) -> is_zero (fst a) = false -> exists r, op_div false span a a = Ok r.
Proof. exact div_self_ok. Qed.

Example C13_example :
  (exists r, op_mul true (0%N, 0%N) ((3 # 1)%Q, [(353022001%N, (1, 0))]) ((2 # 1)%Q, [(base_key 2, (1, 0))]) = Ok r /\ (MulProofs.si r == 6 # 1)%Q) /\
  (exists r, op_div true (0%N, 0%N) ((6 # 1)%Q, [(base_key 2, (1, 0))]) ((2 # 1)%Q, [(base_key 3, (1, 0))]) = Ok r /\
             (fst r == 3 # 1)%Q /\ snd r = [(base_key 2, (1, 0)); (base_key 3, (-1, 0))]) /\
  (exists r, op_pow (0%N, 0%N) ((2 # 1)%Q, [(base_key 2, (1, 3))]) ((2 # 1)%Q, []) = Ok r /\ (MulProofs.si r == 4000000 # 1)%Q /\ snd r = [(base_key 2, (2, 3))]).
Proof. exact mul_examples. Qed.
