(* C12 — Lexing and parsing are lossless over the input text.  Statements only; proofs by [exact]. *)
From Coq Require Import NArith List.
Import ListNotations.
From AV Require Import model.Syntax model.Lexer model.Grammar proofs.LexerProofs proofs.GrammarLossless proofs.GrammarTotal.

(* The lexer terminates on every string (it is a total function whose fuel, the length of the input, never runs
   out: the tokens it returns already cover the whole input), every token is non-empty, and the tokens in order
   concatenate to the input. Tokens are lists of whole characters, so every token boundary is a character boundary. *)
Theorem C12_lex_lossless : forall s : list chr,
  concat (map snd (tokens s)) = s /\ Forall (fun t : token => snd t <> []) (tokens s).
Proof. exact tokens_lossless. Qed.

(* Whenever parsing a token list finishes, the leaves of the forest are exactly the tokens, in order. *)
Theorem C12_parse_leaves : forall (toks : list token) (f : list tree),
  Forall (fun t => fst t <> EOF) toks -> parse_root toks = Some f -> leavesf f = toks.
Proof. exact parse_leaves. Qed.

(* ... in particular for the tokens of any source text. *)
Theorem C12_source_leaves : forall (s : list chr) (f : list tree),
  parse_root (tokens s) = Some f -> concat (map snd (leavesf f)) = s.
Proof. exact source_leaves. Qed.

(* Parsing always finishes: the fuel of every loop of the parser suffices for every token list (each iteration consumes a token). *)
Theorem C12_parse_total : forall toks : list token, parse_root toks <> None.
Proof. exact parse_total. Qed.

(* Hence, for EVERY source text: there is a parse, and the texts of its leaves, in order, spell the source. *)
Theorem C12_source_always : forall s : list chr, exists f, parse_root (tokens s) = Some f /\ concat (map snd (leavesf f)) = s.
Proof. exact source_always. Qed.

(* non-vacuity: a concrete text with units, a parenthesis and a function call parses, and its leaves spell it *)
Example C12_example :
  let s := [114; 111; 117; 110; 100; 40; 49; 46; 53; 32; 107; 109; 32; 42; 32; 40; 50; 32; 43; 32; 51; 41; 44; 32; 49; 41]%N in
  exists f, parse_root (tokens s) = Some f /\ concat (map snd (leavesf f)) = s.
Proof. exact example_parses. Qed.
