(* C17 — Stored facts and units survive serialisation unchanged.  Statements only. *)
From Coq Require Import ZArith NArith List.
Import ListNotations.
From AV Require Import model.UnitTypes model.Map model.Units model.Compound model.Cbor model.Codec proofs.MapProofs proofs.CborProofs proofs.CodecProofs
  gen.UnitDefs gen.Shipped spec.RefIds.
Open Scope N_scope.

(* wire level: every value of the CBOR subset serde_cbor uses for the stored types decodes back to itself, whatever follows it,
   and the fuel of the decoder (one more than the number of bytes) always suffices *)
Theorem C17_cbor_roundtrip : forall v, wf v -> forall fuel rest, (size v <= fuel)%nat -> decode fuel (encode v ++ rest) = Some (v, rest).
Proof. exact cbor_roundtrip. Qed.
Theorem C17_bytes_roundtrip : forall v, wf v -> decode (S (length (encode v))) (encode v) = Some (v, []).
Proof. exact bytes_roundtrip. Qed.

(* rationals: arbitrary-size numerator and denominator as sign + little-endian u32 digits *)
Theorem C17_digits_roundtrip : forall z, of_digits (digits_of z) = z /\ Forall (fun d => d < B32) (digits_of z).
Proof. exact digits_roundtrip. Qed.
Theorem C17_rational_roundtrip : forall n d, d <> 0%Z -> dec_rational (enc_rational n d) = Some (n, d).
Proof. exact rational_roundtrip. Qed.

(* the identifiers are stable across builds: every identifier of the reference table pinned in spec/RefIds.v still denotes a derived
   unit printing the same symbol -- none has been renumbered or reused (new units may be added) *)
Theorem C17_ids_stable : forallb ref_id_kept ref_ids = true.
Proof. exact ids_stable. Qed.

(* every derived unit has a unique stable numeric identifier that decodes to the same unit (tables of src/generated/ids.rs as
   translated on this run): identifiers pairwise distinct, id_to_derived defined exactly on them and returning the same unit *)
Theorem C17_ids_unique : nodupb derived_ids = true /\ nodupb id_consts = true /\
  forallb (fun i => existsb (N.eqb i) derived_ids) (List.map fst id_to_derived_table) = true /\
  forallb (fun i => existsb (N.eqb i) (List.map fst id_to_derived_table)) derived_ids = true.
Proof. exact ids_unique. Qed.
Theorem C17_unit_roundtrip : forall u, known_unit u = true -> exists c, enc_unit u = Some c /\ dec_unit c = Some u.
Proof. exact unit_roundtrip. Qed.

(* unit expressions and constants *)
Theorem C17_compound_roundtrip : forall c : compound, wfm c -> Forall (fun us => known_unit (fst us) = true) c ->
  exists v, enc_compound c = Some v /\ dec_compound v = Some c.
Proof. exact compound_roundtrip. Qed.
Theorem C17_constant_roundtrip : forall k : constant, wfm (k_unit k) -> Forall (fun us => known_unit (fst us) = true) (k_unit k) ->
  snd (k_value k) <> 0%Z -> exists v, enc_constant k = Some v /\ dec_constant v = Some k.
Proof. exact constant_roundtrip. Qed.

(* every constant of the shipped data files: value and unit encode to bytes and decode back to the same value and unit,
   and every unit in them is a known unit *)
Theorem C17_shipped_roundtrip : forallb shipped_ok shipped = true.
Proof. exact shipped_roundtrip. Qed.
Theorem C17_shipped_units_known :
  forallb (fun k : list (list N) * (Z * Z) * compound * Z => let '(_, _, u, _) := k in forallb (fun us => known_unit (fst us)) u) shipped = true.
Proof. exact shipped_units_known. Qed.

Example C17_example :
  rational_bytes 1 100 = [130; 130; 1; 129; 1; 130; 1; 129; 24; 100] /\
  rational_of_bytes [130; 130; 32; 130; 26; 42; 5; 242; 0; 1; 130; 1; 129; 3] = Some ((-5000000000)%Z, 3%Z) /\
  (exists bs, compound_bytes [(353022001, (1%Z, 3%Z)); (base_key 3, ((-2)%Z, 0%Z))] = Some bs /\
              compound_of_bytes bs = Some [(353022001, (1%Z, 3%Z)); (base_key 3, ((-2)%Z, 0%Z))]).
Proof. exact codec_examples. Qed.
