(* C07 — Decimal literals are read exactly.  Statements only; proofs by [exact]. *)
From Coq Require Import ZArith NArith QArith List.
Import ListNotations.
From AV Require Import model.Syntax model.Lexer model.Literal spec.LiteralSpec model.Eval model.Run
  proofs.LiteralProofs proofs.LiteralQuery proofs.LexLiteral proofs.LiteralFull.
Open Scope Z_scope.

(* The library's number parser (`impl FromStr for Rational`) reads every well-formed literal -- optional sign, digits with
   leading zeros, optional fraction with or without digits on either side of the point (at least one mantissa digit),
   optional exponent with optional sign -- as exactly sign * val(int ++ frac) * 10^(exp - |frac|), whatever its length.
   (well_formed bounds only the exponent value and the number of fraction digits by u32::MAX, as the code does.) *)
Theorem C07_from_str_exact : forall l : literal, well_formed l ->
  from_str (render l) = Literal.Ok (spelled_num l) (spelled_scale l).
Proof. exact from_str_exact. Qed.

(* Written as a query, a text that the lexer takes as one NUMBER token denotes what the number parser reads from it ... *)
Theorem C07_query_number : forall debug describe facts (s : list chr),
  tokens s = [(NUMBER, s)] -> query debug describe facts s = ([literal_result s], []).
Proof. exact query_number. Qed.

(* ... and followed by a percent sign, one hundredth of it. *)
Theorem C07_query_percent : forall debug describe facts (text p : list chr),
  tokens (text ++ p) = [(NUMBER, text); (PERCENTAGE, p)] ->
  query debug describe facts (text ++ p) = ([percent_result text p], []).
Proof. exact query_percent. Qed.

(* The lexer takes every well-formed literal as one NUMBER token, also in front of any character that cannot continue a number
   (an operator, a blank, a parenthesis, a percent sign, a letter other than e/E ...). *)
Theorem C07_literal_first_token : forall (l : literal) (rest : list chr), well_formed l -> stops rest ->
  next false (chars_of (render l) ++ rest) = ((NUMBER, chars_of (render l)), rest, false).
Proof. exact literal_first_token. Qed.

(* Full strength: lexer, parser, evaluator and number parser composed. Every well-formed literal typed as a query evaluates to
   exactly the number it spells, and followed by a percent sign to one hundredth of it. *)
Theorem C07_literal_query : forall debug describe facts (l : literal), well_formed l ->
  query debug describe facts (chars_of (render l)) = ([Ok (to_Q (spelled_num l) (spelled_scale l), [])], []).
Proof. exact literal_query. Qed.

Theorem C07_literal_percent_query : forall debug describe facts (l : literal), well_formed l ->
  query debug describe facts (chars_of (render l) ++ [37%N]) = ([Ok ((to_Q (spelled_num l) (spelled_scale l) / (100 # 1))%Q, [])], []).
Proof. exact literal_percent_query. Qed.

(* non-vacuity: "-012.50e-3" is well formed and spells -1250 * 10^-5 *)
Example C07_example :
  let l := {| lneg := Some true; lint := [0; 1; 2]; lfrac := Some [5; 0]; lexp := Some (false, Some true, [3]) |} in
  well_formed l /\ from_str (render l) = Literal.Ok (-1250) (-5).
Proof. exact example_literal. Qed.
