(* C07 — Decimal literals are read exactly.  Statements only; proofs by [exact]. *)
From Coq Require Import ZArith NArith QArith List.
Import ListNotations.
From AV Require Import model.Syntax model.Lexer model.Literal spec.LiteralSpec model.Eval model.Run
  proofs.LiteralProofs proofs.LiteralQuery.
Open Scope Z_scope.

(* The library's number parser (`impl FromStr for Rational`) reads every well-formed literal -- optional sign, digits with
   leading zeros, optional fraction with or without digits on either side of the point (at least one mantissa digit),
   optional exponent with optional sign -- as exactly sign * val(int ++ frac) * 10^(exp - |frac|), whatever its length.
   (well_formed bounds only the exponent value and the number of fraction digits by u32::MAX, as the code does.) *)
Theorem C07_from_str_exact : forall l : literal, well_formed l ->
  from_str (render l) = Literal.Ok (spelled_num l) (spelled_scale l).
Proof. exact from_str_exact. Qed.

(* Written as a query, a text that the lexer takes as one NUMBER token denotes what the number parser reads from it ... *)
Theorem C07_query_number : forall debug describe facts (s : list chr),
  tokens s = [(NUMBER, s)] -> query debug describe facts s = ([literal_result s], []).
Proof. exact query_number. Qed.

(* ... and followed by a percent sign, one hundredth of it. *)
Theorem C07_query_percent : forall debug describe facts (text p : list chr),
  tokens (text ++ p) = [(NUMBER, text); (PERCENTAGE, p)] ->
  query debug describe facts (text ++ p) = ([percent_result text p], []).
Proof. exact query_percent. Qed.

(* non-vacuity: "-012.50e-3" is well formed and spells -1250 * 10^-5 *)
Example C07_example :
  let l := {| lneg := Some true; lint := [0; 1; 2]; lfrac := Some [5; 0]; lexp := Some (false, Some true, [3]) |} in
  well_formed l /\ from_str (render l) = Literal.Ok (-1250) (-5).
Proof. exact example_literal. Qed.
