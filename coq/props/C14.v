(* C14 — Fact lookups do not depend on how the index was built.  Statements only. *)
From Coq Require Import ZArith List Bool Permutation.
Import ListNotations.
From AV Require Import gen.DbSteps model.Index proofs.IndexProofs.
Open Scope Z_scope.

(* [docs] are the documents of the shipped data in insertion order; a query is represented by the score it gives every document
   (tantivy's ranking is a parameter: the theorems hold for every ranking). [runs threads docs p h os p'] relates a history [h] of
   in-memory / on-disk / rebuilding sessions, starting from the persistent index [p], to the orders [os] in which the sessions'
   indexes store the documents; [writer_threads] is translated from the writer constructor in src/db.rs on every run.
   A lookup answers with the first best-scored document in stored order (TopDocs::with_limit(1)). *)

(* with the writer the code creates, every session of every history answers every query from the insertion order: the answer
   is one function of the shipped data and the query, ties included *)
Theorem C14_answers_function_of_data : forall (doc : Type) (docs : list doc) (score : doc -> Z) p h os p' p2 h2 os2 p2' o o2,
  runs writer_threads docs p h os p' -> persistent_ok writer_threads docs p ->
  runs writer_threads docs p2 h2 os2 p2' -> persistent_ok writer_threads docs p2 ->
  In o os -> In o2 os2 -> top1 score o = top1 score o2 /\ top1 score o = top1 score docs.
Proof. exact @answers_function_of_data. Qed.

(* for any number of threads the answers agree on every query whose best-scored documents carry one payload *)
Theorem C14_untied_queries_any_threads : forall (doc payload : Type) (pay : doc -> payload) n (docs : list doc) (score : doc -> Z) p h os p' o,
  runs n docs p h os p' -> persistent_ok n docs p -> In o os ->
  (forall d d', is_top score docs d -> is_top score docs d' -> pay d = pay d') ->
  option_map pay (top1 score o) = option_map pay (top1 score docs).
Proof. exact @untied_queries_any_threads. Qed.

(* and with more than one indexing thread a tie between different facts makes two builds answer differently; the shipped data
   does contain different facts filed under identical words *)
Theorem C14_multi_thread_breaks : forall (doc payload : Type) (pay : doc -> payload) n (docs : list doc) (score : doc -> Z) d d',
  n <> 1%nat -> is_top score docs d -> is_top score docs d' -> pay d <> pay d' ->
  exists o1 o2, runs n docs None [InMemory] [o1] None /\ runs n docs None [InMemory] [o2] None /\
                option_map pay (top1 score o1) <> option_map pay (top1 score o2).
Proof. exact @multi_thread_breaks. Qed.

Theorem C14_shipped_has_ties : same_words_other_fact <> [].
Proof. exact shipped_has_ties. Qed.

(* the executable tie-break used by the correspondence picks a best-scored candidate *)
Theorem C14_winner_is_top : forall cands w, winner cands = Some w -> exists s, In (w, s) cands /\ forall x, In x cands -> snd x <= s.
Proof. exact winner_is_top. Qed.

Example C14_example :
  runs writer_threads [1; 2; 3] None [InMemory; OnDisk; OnDisk; Rebuild] [[1; 2; 3]; [1; 2; 3]; [1; 2; 3]; [1; 2; 3]] (Some [1; 2; 3]) /\
  top1 (fun d => if d =? 1 then 5 else if d =? 3 then 5 else 0) [1; 2; 3] = Some 1.
Proof. exact history_example. Qed.
