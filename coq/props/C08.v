(* C08 — Printed decimals are faithful and never silently truncated.  Statements only; proofs by [exact]. *)
From Coq Require Import ZArith List.
From AV Require Import model.Display spec.DecimalSpec proofs.DisplayProofs.
Open Scope Z_scope.

(* For every value a/d >= 0 (the formatter prints |numerator| and prepends the sign), every digit limit and every exponent
   threshold, what is printed -- mant * 10^up / 10^down -- is a/d cut off toward zero at the last printed digit, and the
   continuation mark is set exactly when that differs from a/d. [faithful] is defined in spec/DecimalSpec.v:
     mant*10^up*d <= a*10^down < mant*10^up*d + 10^up*d   /\   (mark = true <-> mant*10^up*d <> a*10^down). *)
Theorem C08_display_faithful : forall (a d : Z) (limit el : nat), 0 < d -> 0 <= a -> faithful a d (fmt a d limit el).
Proof. exact display_faithful. Qed.

(* Consequently text without the mark reads back to exactly the value. *)
Theorem C08_no_mark_reads_back : forall (a d : Z) (limit el : nat), 0 < d -> 0 <= a ->
  mark (fmt a d limit el) = false ->
  mant (fmt a d limit el) * 10 ^ Z.of_nat (up (fmt a d limit el)) * d = a * 10 ^ Z.of_nat (down (fmt a d limit el)).
Proof. exact no_mark_reads_back. Qed.

(* non-vacuity: 1234567.5 with six digits and threshold six prints 1.234567 (mark) e6 *)
Example C08_example : let t := fmt 12345675 10 6 6 in mant t = 1234567 /\ up t = 0%nat /\ down t = 0%nat /\ mark t = true /\ edig t = 6%nat.
Proof. exact example_display. Qed.
