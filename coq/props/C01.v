(* C01 — Numeric expressions evaluate to the exact rational value.  Statements only; proofs by [exact]. *)
From Coq Require Import ZArith NArith QArith List.
Import ListNotations.
From AV Require Import model.Syntax model.Eval spec.Arith proofs.EvalExact.
From AV Require model.Run proofs.ParseChains proofs.ExprEval proofs.LexExpr proofs.QueryExpr.
Open Scope Z_scope.

(* [shape t e] (proofs/EvalExact.v) reads a syntax tree as a numeric expression: number leaves denote what the number
   parser reads (C07), a PERCENTAGE node one hundredth of it, and an OPERATION node -- an operand followed by
   (operator, operand) pairs -- the left fold of its operators. [denote] (spec/Arith.v) is exact rational arithmetic,
   None exactly on division by zero and on zero raised to a negative power.
   For every such tree, every fact database and both settings of the debug and describe switches, the evaluator returns
   a plain number equal to the denoted one -- no rounding anywhere, the model computes in Q -- and an error, never a
   number, where arithmetic is undefined; the description list is left as it was. *)
Theorem C01_eval_exact : forall debug facts describe (fuel : nat) (t : atree) (e : expr) (d : st),
  shape t e -> (asize t <= fuel)%nat ->
  agrees (fst (eval debug facts describe fuel t d)) (denote e) /\ snd (eval debug facts describe fuel t d) = d.
Proof. exact eval_exact. Qed.

(* in particular: division by zero, and zero to a negative power, are errors *)
Theorem C01_undefined_is_error : forall debug facts describe fuel t e d,
  shape t e -> (asize t <= fuel)%nat -> denote e = None ->
  exists s k, fst (eval debug facts describe fuel t d) = Error s k.
Proof. exact undefined_is_error. Qed.

(* The same at full strength on query strings, with lexer and parser in front of the evaluator (proofs/LexExpr.v, ParseChains.v,
   ExprEval.v, QueryExpr.v): take ANY expression built from well-formed decimal literals, percentages, parentheses and the
   operators + - * / ^ ** ([numeric_expr]: the numeric fragment of the expression syntax of proofs/ParseChains.v) -- any number of
   operators, any nesting, blanks wherever the lexer lets a token end ([lexable]: each
   token spelled as the lexer spells it and followed by a character at which it can end) -- and type its text as a query. The
   answer is one result: exactly the rational number that exact arithmetic assigns to the expression grouped as the documented
   grammar prescribes ([sem_expr]: `^` over `* /` over `+ -`, left to right, parenthesised groups on their own), or an error,
   never a number, where that is undefined. *)
Theorem C01_query_expression : forall debug describe facts (w0 : ParseChains.blanks) (e : ParseChains.expr) (w1 : ParseChains.blanks),
  QueryExpr.numeric_expr e -> LexExpr.lexable (ParseChains.wst w0 ++ ParseChains.toks_expr e ++ ParseChains.wst w1) ->
  exists r, Run.query debug describe facts (LexExpr.text_of (ParseChains.wst w0 ++ ParseChains.toks_expr e ++ ParseChains.wst w1)) = ([r], []) /\
            agrees r (denote (ExprEval.sem_expr e)).
Proof. exact QueryExpr.query_expression. Qed.

(* non-vacuity of it: the query " 1 - (2+3)*4.5%" is such a text and answers 31/40 *)
Example C01_query_example : forall debug describe facts,
  LexExpr.text_of (ParseChains.wst [[32%N]] ++ ParseChains.toks_expr QueryExpr.example_expr ++ ParseChains.wst []) = QueryExpr.example_text /\
  exists v, Run.query debug describe facts QueryExpr.example_text = ([Ok (v, [])], []) /\ (v == 31 # 40)%Q.
Proof. exact QueryExpr.example_query. Qed.

(* non-vacuity: the tree the parser builds for "1 - 2 * 3 - 4.5%" has a shape and denotes -5.045 *)
Example C01_example : exists e, shape example_tree e /\ (match denote e with Some q => (q == (-5045) # 1000)%Q | None => False end).
Proof. exact example_shape. Qed.
