(* C01 — Numeric expressions evaluate to the exact rational value.  Statements only; proofs by [exact]. *)
From Coq Require Import ZArith NArith QArith List.
Import ListNotations.
From AV Require Import model.Syntax model.Eval spec.Arith proofs.EvalExact.
Open Scope Z_scope.

(* [shape t e] (proofs/EvalExact.v) reads a syntax tree as a numeric expression: number leaves denote what the number
   parser reads (C07), a PERCENTAGE node one hundredth of it, and an OPERATION node -- an operand followed by
   (operator, operand) pairs -- the left fold of its operators. [denote] (spec/Arith.v) is exact rational arithmetic,
   None exactly on division by zero and on zero raised to a negative power.
   For every such tree, every fact database and both settings of the debug and describe switches, the evaluator returns
   a plain number equal to the denoted one -- no rounding anywhere, the model computes in Q -- and an error, never a
   number, where arithmetic is undefined; the description list is left as it was. *)
Theorem C01_eval_exact : forall debug facts describe (fuel : nat) (t : atree) (e : expr) (d : st),
  shape t e -> (asize t <= fuel)%nat ->
  agrees (fst (eval debug facts describe fuel t d)) (denote e) /\ snd (eval debug facts describe fuel t d) = d.
Proof. exact eval_exact. Qed.

(* in particular: division by zero, and zero to a negative power, are errors *)
Theorem C01_undefined_is_error : forall debug facts describe fuel t e d,
  shape t e -> (asize t <= fuel)%nat -> denote e = None ->
  exists s k, fst (eval debug facts describe fuel t d) = Error s k.
Proof. exact undefined_is_error. Qed.

(* non-vacuity: the tree the parser builds for "1 - 2 * 3 - 4.5%" has a shape and denotes -5.045 *)
Example C01_example : exists e, shape example_tree e /\ (match denote e with Some q => (q == (-5045) # 1000)%Q | None => False end).
Proof. exact example_shape. Qed.
