(* C09 — Temperature scales convert by their defining affine formulas.  Statements only. *)
From Coq Require Import ZArith NArith QArith List.
Import ListNotations.
From AV Require Import model.UnitTypes model.Units model.Compound proofs.FactorProofs proofs.TemperatureProofs.
Open Scope Z_scope.

(* [tc s] is the compound consisting of the scale s (kelvin, degree Celsius, degree Fahrenheit as found in the translated unit table)
   alone with power one; [cast tgt src v] is the composition of the defining formulas K = C + 273.15 and C = (F - 32) * 5/9.
   A conversion between two scales is exactly that, for every magnitude: *)
Theorem C09_temperature_cast : forall (tgt src : tscale) (v : Q),
  exists v', factor (tc tgt) (tc src) v = Some (true, v') /\ (v' == cast tgt src v)%Q.
Proof. exact temperature_cast. Qed.

Theorem C09_c_to_k : forall v, (cast K C v == v + (27315 # 100))%Q. Proof. exact c_to_k. Qed.
Theorem C09_k_to_c : forall v, (cast C K v == v - (27315 # 100))%Q. Proof. exact k_to_c. Qed.
Theorem C09_f_to_c : forall v, (cast C F v == (v - 32) * (5 # 9))%Q. Proof. exact f_to_c. Qed.
Theorem C09_c_to_f : forall v, (cast F C v == v * (9 # 5) + 32)%Q. Proof. exact c_to_f. Qed.
Theorem C09_f_to_k : forall v, (cast K F v == (v - 32) * (5 # 9) + (27315 # 100))%Q. Proof. exact f_to_k. Qed.
Theorem C09_k_to_f : forall v, (cast F K v == (v - (27315 # 100)) * (9 # 5) + 32)%Q. Proof. exact k_to_f. Qed.

(* conversions are exactly invertible and compose: any chain ends where the direct conversion does *)
Theorem C09_invertible : forall a b v, (cast a b (cast b a v) == v)%Q. Proof. exact invertible. Qed.
Theorem C09_chain_equals_direct : forall (path : list tscale) cur v,
  (snd (chain cur path v) == cast (fst (chain cur path v)) cur v)%Q.
Proof. exact chain_equals_direct. Qed.

(* an offset scale (any unit whose conversion is an Offset or a Methods pair) anywhere but alone with power one -- squared,
   inverted, multiplied with other units, on either side -- is refused: the conversion never yields a value, so the zero
   point is never added to such a quantity *)
Theorem C09_offset_only_alone : forall (tgt src : compound) v u st, tgt <> [] -> src <> [] -> has_offset u = true ->
  (In (u, st) src /\ is_alone src st = false) \/ (In (u, st) tgt /\ is_alone tgt st = false) ->
  forall v', factor tgt src v <> Some (true, v').
Proof. exact offset_only_alone. Qed.

(* non-vacuity: 20 degrees C = 293.15 K, 212 degrees F = 100 degrees C, both scales are offset scales, and degrees C per second
   does not convert to K/s *)
Example C09_example :
  (exists v, factor (tc K) (tc C) (20 # 1) = Some (true, v) /\ (v == 29315 # 100)%Q) /\
  (exists v, factor (tc C) (tc F) (212 # 1) = Some (true, v) /\ (v == 100 # 1)%Q) /\
  has_offset (tunit C) = true /\ has_offset (tunit F) = true /\
  factor [(base_key 3, (-1, 0)); (base_key 5, (1, 0))] [(tunit C, (1, 0)); (base_key 3, (-1, 0))] 1 = None.
Proof. exact temperature_example. Qed.
