(* C06 — Operator precedence, associativity and grouping are respected.  Statements only; proofs by [exact]. *)
From Coq Require Import NArith List Arith Sorted.
Import ListNotations.
From AV Require Import model.Syntax model.Eval spec.Arith proofs.EvalExact model.Grammar spec.Climb proofs.ClimbProofs proofs.ParseBounded proofs.ParseGeneral proofs.ParseChains proofs.ExprEval.
From AV Require model.Run proofs.LexExpr proofs.QueryExpr.
Local Close Scope N_scope.
Ltac wf_side := cbn; repeat split; intros; try discriminate; try exact I; try tauto; try (repeat constructor; cbn; tauto).

(* The precedence discipline of `operation()` -- a stack of open operations, closed and popped while the operation below binds
   at least as tightly as the new operator -- abstracted from the tree builder (spec/Climb.v). For ANY number of operators and any
   priorities it builds a parse that is valid for the documented grammar (every node is an n-ary, left-to-right chain of
   operators of one priority whose operands are atoms or nodes of strictly higher priority) and whose yield is the input: *)
Theorem C06_climb_parses : forall (n : nat) (rest : list (op * Climb.tree)), atoms rest ->
  Valid (climb (Leaf n, rest)) /\ yield (climb (Leaf n, rest)) = (Leaf n, rest).
Proof. exact climb_parses. Qed.

(* that grammar is unambiguous, ... *)
Theorem C06_grammar_unambiguous : forall (ls : list nat) (t t' : Climb.tree), StronglySorted lt ls -> Valid t -> Valid t' ->
  (forall o y, In (o, y) (snd (yield t)) -> In (prio o) ls) -> yield t = yield t' -> t = t'.
Proof. exact grammar_unambiguous. Qed.

(* ... so the discipline computes exactly the level-splitting specification: split at the operators of the lowest priority, left
   to right, recursively (`^` tighter than `* /` tighter than `+ -` tighter than `to`; equal priorities group left to right). *)
Theorem C06_climb_eq_canon : forall (ls : list nat) (n : nat) (rest : list (op * Climb.tree)), StronglySorted lt ls -> atoms rest ->
  (forall o y, In (o, y) rest -> In (prio o) ls) -> climb (Leaf n, rest) = canon ls (Leaf n, rest).
Proof. exact climb_eq_canon. Qed.

(* The concrete front end (lexer and parser model, from characters to syntax tree): for every sequence of at most five
   operators out of + - * / ^ between plain numbers the tree is that specification, i.e. what the discipline above computes. *)
Theorem C06_parse_is_canon_upto5 : forall ops : list (chr * op), length ops <= 5 -> (forall o, In o ops -> In o opchars) ->
  front (text ops (canonical_gaps ops)) = Some (canon levels (input ops)) /\
  canon levels (input ops) = climb (input ops).
Proof. exact parse_is_canon_upto5. Qed.

(* Blanks do not matter: replacing the blank in any one gap (before the first number, around any operator, after the last number)
   by nothing (where the language allows it: not around binary + and -), one or two spaces or a tab leaves the tree unchanged. *)
Theorem C06_layout_irrelevant_upto5 : forall (ops : list (chr * op)) (gaps : list (list chr)),
  length ops <= 5 -> (forall o, In o ops -> In o opchars) -> In gaps (variants ops) ->
  front (text ops gaps) = Some (canon levels (input ops)).
Proof. exact layout_irrelevant_upto5. Qed.

(* Full strength, with no bound: the parser model itself -- `operation()`, `value()`, the forest with its checkpoints, the stack
   of open operations, `settle` and `close_at`, as transcribed from grammar.rs -- simulates the discipline above step by step.
   Whatever the operand parser appends for operand 0, 1, 2, ... and whatever blanks and operator nodes stand between them
   (the hypothesis [Run] describes the token buffer), the loop of `operation()` leaves exactly the rendering of
   [climb (Leaf 0, ...)] behind, for ANY number of operators: *)
Theorem C06_operation_refines_climb : forall glue body valuef (qs : list nat) (lf skip : nat) (b : list tok) (F : list Grammar.tree) skip_end b_end,
  Run glue body valuef 0 false skip b [] qs skip_end b_end -> length qs < lf ->
  op_loop valuef (length F) lf skip true [] (mkst b F)
  = Some (Some skip_end, mkst b_end (F ++ ritems glue body (climb (Leaf 0, mkin 0 qs)))).
Proof. exact op_loop_climb. Qed.

(* Instantiated for every expression over numbers, percentages, + - * / ^ **, casts `to <unit expression>`, numbers with units, parentheses and function
   calls f(e1, ..., en) whose arguments are again such expressions, facts named by one or several words and phrases escaped in braces -- that is, every kind of operand value() in grammar.rs
   accepts -- any
   number of operators, any depth of nesting, any (or no) blanks between any two tokens and at either end of the query
   ([wf_expr]: only a unit expression must be set off by a blank from a following * / ^ or `to`, which would otherwise be read
   into the unit): the parser returns, for every token list of that shape, the tree in which each parenthesised group stands on its
   own between its parentheses ([trees_operand]) ... *)
Theorem C06_parse_expression : forall (w0 : blanks) (e : expr) (w1 : blanks), wf_expr e ->
  parse_root (wst w0 ++ toks_expr e ++ wst w1) = Some (trees_expr w0 e ++ wsT w1).
Proof. exact parse_expression. Qed.

(* ... and, inside each group, is the documented grammar's tree: split at the operators of the lowest priority, left to right,
   recursively over the levels `to` < `+ -` < `* /` < `^`, the blanks and operator nodes staying where they were written. *)
Theorem C06_group_is_canon : forall (w : blanks) (x : operand) (r : tail),
  trees_expr w (Chain x r) =
    ritems (fun n => match n with O => wsT w | S m => tglue r m end)
           (fun n => match n with O => trees_operand x | S m => tbody r m end)
           (canon levels4 (Leaf 0, mkin 0 (prios r))).
Proof. exact group_is_canon. Qed.

(* End to end, parser and evaluator together: for EVERY such expression whose number literals are readable -- any number of
   operators, any nesting, any blanks -- the parser returns a tree and the evaluator returns for it exactly one result, which is
   the rational number that exact arithmetic (spec/Arith.v: [denote], C01) assigns to the expression grouped as the documented
   grammar prescribes ([sem_expr]: inside every parenthesised group the [canon] tree over the levels `+ -` < `* /` < `^`, folded
   left to right), or an error, never a number, where that is undefined; whatever the fact database and the two switches. *)
Theorem C06_expression_value : forall debug facts describe (w0 : blanks) (e : ParseChains.expr) (w1 : blanks), readable_expr e ->
  exists f r, parse_root (wst w0 ++ toks_expr e ++ wst w1) = Some f /\
    eval_roots debug facts describe (skip_tokens (annotate_forest 0 f)) [] = ([r], []) /\
    agrees r (denote (sem_expr e)).
Proof. exact expression_value. Qed.

(* Spelled out for two and for three operators between arbitrary operands: the second operator takes the middle operand exactly when
   it binds tighter, otherwise the chain groups left to right; and "a - b * c - d" is ((a - (b * c)) - d). *)
Theorem C06_two_operators : forall x w1 a1 t1 w1' y w2 a2 t2 w2' z,
  sem_expr (Chain x (TCons w1 a1 t1 w1' y (TCons w2 a2 t2 w2' z TNil))) =
    if aprio a1 <? aprio a2
    then Bin (abinop a1) (sem_operand x) (Bin (abinop a2) (sem_operand y) (sem_operand z))
    else Bin (abinop a2) (Bin (abinop a1) (sem_operand x) (sem_operand y)) (sem_operand z).
Proof. exact two_operators. Qed.
Theorem C06_sum_of_product : forall x w1 t1 w1' y w2 a2 t2 w2' z w3 t3 w3' v (s1 s3 : arith),
  aprio s1 = 2 -> aprio s3 = 2 -> 2 < aprio a2 ->
  sem_expr (Chain x (TCons w1 s1 t1 w1' y (TCons w2 a2 t2 w2' z (TCons w3 s3 t3 w3' v TNil)))) =
    Bin (abinop s3) (Bin (abinop s1) (sem_operand x) (Bin (abinop a2) (sem_operand y) (sem_operand z))) (sem_operand v).
Proof. exact sum_of_product. Qed.

(* `to` binds loosest, next to every arithmetic operator: "x op y to u" is (x op y) to u and "x to u op y" is x to (u op y)
   (operands 0, 1, 2 of the chain; the trees are those [C06_group_is_canon] renders). *)
Theorem C06_cast_binds_loosest : forall w a t w' y wb tt wa u,
  canon levels4 (Leaf 0, mkin 0 (prios (TCons w a t w' y (TTo wb tt wa u TNil))))
    = Climb.Node (Climb.Node (Leaf 0) [((aprio a, 1), Leaf 1)]) [((1, 2), Leaf 2)] /\
  canon levels4 (Leaf 0, mkin 0 (prios (TTo wb tt wa u (TCons w a t w' y TNil))))
    = Climb.Node (Leaf 0) [((1, 1), Climb.Node (Leaf 1) [((aprio a, 2), Leaf 2)])].
Proof. exact cast_binds_loosest. Qed.

(* Blanks do not matter, with no bound: two query texts of numeric expressions that differ only in their blanks -- how many, of
   which kind, none at all where the lexer lets the token end, also at either end of the query ([skel_expr] forgets them) -- get
   answers that agree with the same exact value (or are both errors where it is undefined). *)
Theorem C06_blanks_do_not_matter : forall debug describe facts (w0 w1 w0' w1' : blanks) (e e' : ParseChains.expr),
  QueryExpr.numeric_expr e -> QueryExpr.numeric_expr e' -> QueryExpr.skel_expr e = QueryExpr.skel_expr e' ->
  LexExpr.lexable (wst w0 ++ toks_expr e ++ wst w1) -> LexExpr.lexable (wst w0' ++ toks_expr e' ++ wst w1') ->
  exists r r', Run.query debug describe facts (LexExpr.text_of (wst w0 ++ toks_expr e ++ wst w1)) = ([r], []) /\
               Run.query debug describe facts (LexExpr.text_of (wst w0' ++ toks_expr e' ++ wst w1')) = ([r'], []) /\
               agrees r (denote (sem_expr e)) /\ agrees r' (denote (sem_expr e)).
Proof. exact QueryExpr.blanks_do_not_matter. Qed.

(* The priorities, operator node kinds and the unit-operand flag of the model's `op()` are the ones the translator reads from
   grammar.rs on every run (gen/Tables.v). *)
Theorem C06_priorities_are_translated : forall k : kind, op_row k = table_row k.
Proof. exact priorities_are_translated. Qed.

(* non-vacuity of the unbounded statements: " 1 - (2+3)*4" with its blanks *)
Example C06_expression_example :
  let e := Chain (Num [49%N]) (TCons [[32%N]] ADash [45%N] [[32%N]]
             (Paren [40%N] [41%N] [] (Chain (Num [50%N]) (TCons [] APlus [43%N] [] (Num [51%N]) TNil)) [])
             (TCons [] AStar [42%N] [] (Num [52%N]) TNil)) in
  parse_root (wst [[32%N]] ++ toks_expr e ++ wst []) = Some (trees_expr [[32%N]] e ++ wsT []) /\
  length (toks_expr e) = 11.
Proof. split; [apply parse_expression; wf_side|reflexivity]. Qed.

(* a parenthesised group and a function argument are parsed on their own: "2*f(1+2 , 3)" with its blanks *)
Example C06_call_example :
  let arg1 := Chain (Num [49%N]) (TCons [] APlus [43%N] [] (Num [50%N]) TNil) in
  let e := Chain (Num [50%N]) (TCons [] AStar [42%N] []
             (Call [102%N] [40%N] [41%N] (AOne [] arg1 (MComma [[32%N]] [44%N] [[32%N]] (Chain (Num [51%N]) TNil) (MEnd [])))) TNil) in
  parse_root (wst [] ++ toks_expr e ++ wst []) = Some (trees_expr [] e ++ wsT []) /\ length (toks_expr e) = 12.
Proof. split; [apply parse_expression; wf_side|reflexivity]. Qed.

(* a fact named by several words takes its place as one operand, and the cast applies to it: "mass of earth to g" *)
Example C06_fact_example :
  let e := Chain (Fact [109%N; 97%N; 115%N; 115%N] [([[32%N]], false, [111%N; 102%N]); ([[32%N]], false, [101%N; 97%N; 114%N; 116%N; 104%N])])
             (TTo [[32%N]] [116%N; 111%N] [[32%N]] (((WORD, [103%N]), []), []) TNil) in
  parse_root (wst [] ++ toks_expr e ++ wst []) = Some (trees_expr [] e ++ wsT []) /\
  trees_expr [] e = [Grammar.Node OPERATION
     [Grammar.Node SENTENCE [Grammar.Node WORD [Tok WORD [109%N; 97%N; 115%N; 115%N]]; Tok WHITESPACE [32%N]; Grammar.Node WORD [Tok WORD [111%N; 102%N]];
                             Tok WHITESPACE [32%N]; Grammar.Node WORD [Tok WORD [101%N; 97%N; 114%N; 116%N; 104%N]]];
      Tok WHITESPACE [32%N]; Grammar.Node OP_CAST [Tok TO [116%N; 111%N]]; Tok WHITESPACE [32%N];
      Grammar.Node UNIT [Grammar.Node WORD [Tok WORD [103%N]]]]].
Proof. split; [apply parse_expression; wf_side|reflexivity]. Qed.

(* quantities with compound units: "3 km/hr*2 to m/s" -- the tight *2 belongs to the unit, as unit() reads it; written with a
   blank before the operator it is a product *)
Example C06_unit_example :
  let kmhr : uast := (((WORD, [107%N; 109%N]), [(SLASH, [47%N]); (WORD, [104%N; 114%N])]), []) in
  let ms : uast := (((WORD, [109%N]), [(SLASH, [47%N]); (WORD, [115%N])]), []) in
  let e := Chain (NumU [51%N] [[32%N]] kmhr) (TCons [[32%N]] AStar [42%N] [[32%N]] (Num [50%N]) (TTo [[32%N]] [116%N; 111%N] [[32%N]] ms TNil)) in
  parse_root (wst [] ++ toks_expr e ++ wst []) = Some (trees_expr [] e ++ wsT []) /\ length (toks_expr e) = 15.
Proof. split; [apply parse_expression; wf_side|reflexivity]. Qed.

(* an escaped phrase in braces is one operand: "{a b} * 2" *)
Example C06_brace_example :
  let e := Chain (Brace [123%N] [125%N] [([], [97%N]); ([[32%N]], [98%N])] []) (TCons [[32%N]] AStar [42%N] [[32%N]] (Num [50%N]) TNil) in
  parse_root (wst [] ++ toks_expr e ++ wst []) = Some (trees_expr [] e ++ wsT []) /\ length (toks_expr e) = 9.
Proof. split; [apply parse_expression; wf_side|reflexivity]. Qed.

(* `to` binds loosest: "1 to m + 2" is read as 1 to (m + 2), one cast whose right side is the sum *)
Example C06_cast_example :
  canon levels4 (Leaf 0, mkin 0 (prios (TTo [[32%N]] [116%N; 111%N] [[32%N]] (((WORD, [109%N]), []), []) (TCons [[32%N]] APlus [43%N] [[32%N]] (Num [50%N]) TNil))))
  = Climb.Node (Leaf 0) [((1, 1), Climb.Node (Leaf 1) [((2, 2), Leaf 2)])].
Proof. reflexivity. Qed.

(* non-vacuity: "1 - 2 * 3 - 4" is read as (1 - (2 * 3)) - 4, one chain of two `-` whose middle operand is the product *)
Example C06_example :
  front [49; 32; 45; 32; 50; 32; 42; 32; 51; 32; 45; 32; 52]%N =
    Some (Climb.Node (Leaf 1) [((2, 24), Climb.Node (Leaf 2) [((3, 26), Leaf 3)]); ((2, 24), Leaf 4)]).
Proof. exact bounded_example. Qed.
