(* C06 — Operator precedence, associativity and grouping are respected.  Statements only; proofs by [exact]. *)
From Coq Require Import NArith List Arith Sorted.
Import ListNotations.
From AV Require Import model.Syntax spec.Climb proofs.ClimbProofs proofs.ParseBounded.
Local Close Scope N_scope.

(* The precedence discipline of `operation()` -- a stack of open operations, closed and popped while the operation below binds
   at least as tightly as the new operator -- abstracted from the tree builder (spec/Climb.v). For ANY number of operators and any
   priorities it builds a parse that is valid for the documented grammar (every node is an n-ary, left-to-right chain of
   operators of one priority whose operands are atoms or nodes of strictly higher priority) and whose yield is the input: *)
Theorem C06_climb_parses : forall (n : nat) (rest : list (op * Climb.tree)), atoms rest ->
  Valid (climb (Leaf n, rest)) /\ yield (climb (Leaf n, rest)) = (Leaf n, rest).
Proof. exact climb_parses. Qed.

(* that grammar is unambiguous, ... *)
Theorem C06_grammar_unambiguous : forall (ls : list nat) (t t' : Climb.tree), StronglySorted lt ls -> Valid t -> Valid t' ->
  (forall o y, In (o, y) (snd (yield t)) -> In (prio o) ls) -> yield t = yield t' -> t = t'.
Proof. exact grammar_unambiguous. Qed.

(* ... so the discipline computes exactly the level-splitting specification: split at the operators of the lowest priority, left
   to right, recursively (`^` tighter than `* /` tighter than `+ -` tighter than `to`; equal priorities group left to right). *)
Theorem C06_climb_eq_canon : forall (ls : list nat) (n : nat) (rest : list (op * Climb.tree)), StronglySorted lt ls -> atoms rest ->
  (forall o y, In (o, y) rest -> In (prio o) ls) -> climb (Leaf n, rest) = canon ls (Leaf n, rest).
Proof. exact climb_eq_canon. Qed.

(* The concrete front end (lexer and parser model, from characters to syntax tree): for every sequence of at most five
   operators out of + - * / ^ between plain numbers the tree is that specification, i.e. what the discipline above computes. *)
Theorem C06_parse_is_canon_upto5 : forall ops : list (chr * op), length ops <= 5 -> (forall o, In o ops -> In o opchars) ->
  front (text ops (canonical_gaps ops)) = Some (canon levels (input ops)) /\
  canon levels (input ops) = climb (input ops).
Proof. exact parse_is_canon_upto5. Qed.

(* Blanks do not matter: replacing the blank in any one gap (before the first number, around any operator, after the last number)
   by nothing (where the language allows it: not around binary + and -), one or two spaces or a tab leaves the tree unchanged. *)
Theorem C06_layout_irrelevant_upto5 : forall (ops : list (chr * op)) (gaps : list (list chr)),
  length ops <= 5 -> (forall o, In o ops -> In o opchars) -> In gaps (variants ops) ->
  front (text ops gaps) = Some (canon levels (input ops)).
Proof. exact layout_irrelevant_upto5. Qed.

(* non-vacuity: "1 - 2 * 3 - 4" is read as (1 - (2 * 3)) - 4, one chain of two `-` whose middle operand is the product *)
Example C06_example :
  front [49; 32; 45; 32; 50; 32; 42; 32; 51; 32; 45; 32; 52]%N =
    Some (Climb.Node (Leaf 1) [((2, 24), Climb.Node (Leaf 2) [((3, 26), Leaf 3)]); ((2, 24), Leaf 4)]).
Proof. exact bounded_example. Qed.
