(* C16: asking for a shipped fact by its own words. What the query language makes of the words (a phrase handed to the database
   as it stands), the orders in which the words are tried, what it means for an answer to carry the words and to decode.
   Definitions only; the ranking of the index is not modelled. *)
From Coq Require Import ZArith NArith List Bool.
Import ListNotations.
From AV Require Import model.Syntax model.Lexer model.Grammar model.UnitTypes model.Eval model.Cbor model.Codec gen.Shipped.

Definition constant := (list (list N) * (Z * Z) * list (N * (Z * Z)) * Z)%type.
Definition cwords (c : constant) : list (list chr) := fst (fst (fst c)).

Definition join_words (ws : list (list chr)) : list chr :=
  match ws with [] => [] | w :: r => w ++ flat_map (fun x => 32%N :: x) r end.

(* the text is read as one phrase: a single WORD or SENTENCE root covering all of it, from byte 0 to the last byte *)
Definition is_phrase_query (s : list chr) : bool :=
  match parse_root (tokens s) with
  | Some f => match skip_tokens (annotate_forest 0 f) with
              | [t] => (kind_beq (akind t) WORD || kind_beq (akind t) SENTENCE) && chars_eqb (atext t) s &&
                       (fst (aspan t) =? 0)%N && (snd (aspan t) =? utf8_size s)%N
              | _ => false
              end
  | None => false
  end.

(* orders of the words that are tried: all of them up to four words, rotations and the reverse beyond *)
Fixpoint inserts {A} (x : A) (l : list A) : list (list A) :=
  match l with [] => [[x]] | y :: r => (x :: l) :: map (cons y) (inserts x r) end.
Fixpoint perms {A} (l : list A) : list (list A) :=
  match l with [] => [[]] | x :: r => flat_map (inserts x) (perms r) end.
Fixpoint rotations_from {A} (n : nat) (l : list A) : list (list A) :=
  match n with O => [] | S k => l :: rotations_from k (match l with [] => [] | x :: r => r ++ [x] end) end.
Definition orders {A} (l : list A) : list (list A) :=
  if (length l <=? 4)%nat then perms l else rotations_from (length l) l ++ [rev l].

Definition plain_word (w : list chr) : bool :=
  match w with [] => false | _ => forallb (fun c => (97 <=? c)%N && (c <=? 122)%N) w end.

Definition carries (answer asked : list (list chr)) : bool :=
  forallb (fun w => existsb (chars_eqb w) answer) asked.

(* the stored payload of a constant decodes to what was encoded, and its source is listed *)
Definition const_decodes (k : constant) : bool :=
  let '(_, (n, d), u, _) := k in
  (match rational_of_bytes (rational_bytes n d) with Some (n', d') => (n' =? n)%Z && (d' =? d)%Z | None => false end) &&
  (match compound_bytes u with
   | Some bs => match compound_of_bytes bs with
                | Some u' => (length u' =? length u)%nat && forallb (fun p => (fst (fst p) =? fst (snd p))%N && (fst (snd (fst p)) =? fst (snd (snd p)))%Z && (snd (snd (fst p)) =? snd (snd (snd p)))%Z) (combine u' u)
                | None => false
                end
   | None => false
   end).
Definition source_listed (k : constant) : bool :=
  let s := snd k in (s =? -1)%Z || existsb (Z.eqb s) source_ids.

Definition typeable_positions : list N :=
  flat_map (fun pc => if is_phrase_query (join_words (cwords (snd pc))) then [N.of_nat (fst pc)] else [])
           (combine (seq 0 (length shipped)) shipped).

(* one observation of the exhaustive run: constant at position p asked with its words in the order [idxs], answered by the constant
   at position w. Result: is the order of words a phrase of the query language; are [idxs] a rearrangement of all the words;
   does the answer carry all the words; does it decode; is its source listed *)
Definition nodup_idx (l : list nat) : bool :=
  (fix go (l : list nat) := match l with [] => true | x :: r => negb (existsb (Nat.eqb x) r) && go r end) l.
Definition observe_find (p : nat) (idxs : list nat) (w : option nat) : list Z :=
  match nth_error shipped p with
  | None => [-1]%Z
  | Some c =>
      let ws := cwords c in
      let asked := map (fun i => nth i ws []) idxs in
      let b (x : bool) := if x then 1%Z else 0%Z in
      let perm_ok := (length idxs =? length ws)%nat && nodup_idx idxs && forallb (fun i => (i <? length ws)%nat) idxs in
      [b (is_phrase_query (join_words asked)); b perm_ok] ++
      match w with
      | None => []
      | Some wi => match nth_error shipped wi with
                   | None => [-2]%Z
                   | Some a => [b (carries (cwords a) asked); b (const_decodes a); b (source_listed a)]
                   end
      end
  end.
