(* Types shared by the generated protocol steps (coq/gen/DbSteps.v) and the recovery model. *)
Inductive effect := RemoveMeta | RemoveDir | CreateDir | CreateIndex | DeleteAll | AddDocs | Commit | WriteMeta.
Inductive step := Eff (e : effect) | CP (n : nat).
