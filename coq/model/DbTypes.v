(* Types shared by the generated protocol steps (coq/gen/DbSteps.v) and the recovery model. *)
Inductive effect := RemoveMeta | RemoveDir | CreateDir | CreateIndex | DeleteAll | AddDocs | Commit | WriteMeta.
Inductive step := Eff (e : effect) | CP (n : nat).
(* when the start writes meta.json after a rebuild (the guard around config.write_meta() in open_inner, translated from the source) *)
Inductive meta_guard := OnDiskOnly (* if !in_memory *) | Always (* no guard *) | IfIndexDir (* if config.index_path.is_dir() *).
