(* Rationals as the code sees them. `Rational` wraps num::BigRational (always reduced, positive denominator); the
   model computes on Coq's [Q] *without* reducing and answers the questions the code asks of the reduced form
   (`is_integer`, `denom().is_one()`, `numer()`) through division, so every function here respects [Qeq].
   floor/ceil/round transcribe num-rational 0.4.2 (truncating BigInt division = [Z.quot]/[Z.rem]). Definitions only. *)
From Coq Require Import ZArith QArith Qpower List Bool.
Open Scope Z_scope.

Definition qnum (q : Q) : Z := Qnum q.
Definition qden (q : Q) : Z := Zpos (Qden q).

Definition is_zero (q : Q) : bool := qnum q =? 0.
Definition is_integer (q : Q) : bool := Z.rem (qnum q) (qden q) =? 0.      (* reduced denominator is one *)
Definition is_one (q : Q) : bool := qnum q =? qden q.
Definition to_integer (q : Q) : Z := Z.quot (qnum q) (qden q).            (* Ratio::to_integer = trunc *)
Definition is_negative (q : Q) : bool := qnum q <? 0.

(* num-rational: Ratio::floor / ceil / round on n/d, d > 0 *)
Definition floor_num (n d : Z) : Z := if n <? 0 then Z.quot (n - d + 1) d else Z.quot n d.
Definition ceil_num (n d : Z) : Z := if n <? 0 then Z.quot n d else Z.quot (n + d - 1) d.
Definition trunc (n d : Z) : Z := Z.quot n d.
Definition round_num (n d : Z) : Z :=
  let r := Z.abs (Z.rem n d) in
  let half_or_larger := if Z.even d then r >=? Z.quot d 2 else r >=? Z.quot d 2 + 1 in
  if half_or_larger then (if n >=? 0 then trunc n d + 1 else trunc n d - 1) else trunc n d.

(* Rational::floor / ceil (src/rational/mod.rs): integers are returned as they are *)
Definition floor_q (q : Q) : Q := if is_integer q then q else inject_Z (floor_num (qnum q) (qden q)).
Definition ceil_q (q : Q) : Q := if is_integer q then q else inject_Z (ceil_num (qnum q) (qden q)).
Definition round_q (q : Q) : Q := inject_Z (round_num (qnum q) (qden q)).

(* 10^e as a rational, e any integer (Rational::new(10, 1).pow(e)) *)
Definition pow10 (e : Z) : Q := (10 # 1) ^ e.

(* i32 range, for `to_i32` *)
Definition in_i32 (z : Z) : bool := (-2147483648 <=? z) && (z <=? 2147483647).
Definition to_i32 (q : Q) : option Z := let z := to_integer q in if in_i32 z then Some z else None.

(* canonical form for printing and for comparing with the implementation's reduced pair *)
Definition reduced (q : Q) : Z * Z := let r := Qred q in (Qnum r, Zpos (Qden r)).
