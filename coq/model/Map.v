(* Finite maps with keys in N as strictly sorted association lists: the model of Rust's BTreeMap<Unit, _>, whose iteration
   order is the order of the keys. Definitions only; lemmas in proofs/MapProofs.v. *)
From Coq Require Import NArith List Bool.
Import ListNotations.
Open Scope N_scope.

Section Map.
Context {V : Type}.
Definition nmap := list (N * V).

Fixpoint get (m : nmap) (k : N) : option V :=
  match m with
  | [] => None
  | (k', v) :: r => if k' =? k then Some v else get r k
  end.

(* insert or replace, keeping the keys sorted *)
Fixpoint put (m : nmap) (k : N) (v : V) : nmap :=
  match m with
  | [] => [(k, v)]
  | (k', v') :: r => if k' =? k then (k, v) :: r else if k <? k' then (k, v) :: m else (k', v') :: put r k v
  end.

Fixpoint del (m : nmap) (k : N) : nmap :=
  match m with
  | [] => []
  | (k', v') :: r => if k' =? k then r else (k', v') :: del r k
  end.

Definition keys (m : nmap) : list N := List.map fst m.
End Map.
Arguments nmap : clear implicits.
