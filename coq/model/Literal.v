(* Model of `impl FromStr for Rational` (src/rational/mod.rs): a byte state machine with the flags `dot`, `init`,
   the checked u32 counters `dots` and `exp`, leading-zero skipping and the exponent sub-loop.
   The result is kept as (num, scale) meaning num * 10^scale; [to_Q] makes the rational. Definitions only. *)
From Coq Require Import ZArith QArith List Lia Bool.
Import ListNotations.
Open Scope Z_scope.

Definition byte := Z.
Definition is_digit (b : byte) := (48 <=? b) && (b <=? 57).
Definition u32_max := 4294967295.

Inductive res := Ok (num : Z) (scale : Z) (* value = num * 10^scale, scale may be negative *) | Err.

(* exponent sub-loop: leading zeros skipped, checked u32 arithmetic, any other byte is an error *)
Fixpoint exp_loop (s : list byte) (init : bool) (exp : Z) : option Z :=
  match s with
  | [] => Some exp
  | b :: r =>
      if (b =? 48) && negb init then exp_loop r init exp
      else if is_digit b then
        let e := exp * 10 + (b - 48) in
        if e <=? u32_max then exp_loop r true e else None
      else None
  end.

Definition strip_sign (s : list byte) : bool * list byte :=
  match s with
  | 45 :: r => (true, r)      (* '-' *)
  | 43 :: r => (false, r)     (* '+' *)
  | _ => (false, s)
  end.

(* main loop; acc is the integer read so far, dots the number of digits after the point *)
Fixpoint main_loop (s : list byte) (dot init : bool) (dots acc : Z) : res :=
  match s with
  | [] => Ok acc (- dots)
  | b :: r =>
      if (b =? 48) && negb init then main_loop r dot init dots acc
      else if is_digit b then
        let acc' := acc * 10 + (b - 48) in
        if dot then (if dots + 1 <=? u32_max then main_loop r dot true (dots + 1) acc' else Err)
        else main_loop r dot true dots acc'
      else if (b =? 46) && negb dot then main_loop r true true dots acc
      else if (b =? 101) || (b =? 69) then
        let (eneg, r') := strip_sign r in
        match exp_loop r' false 0 with
        | Some e => Ok acc ((if eneg then - e else e) - dots)
        | None => Err
        end
      else Err
  end.

Definition from_str (s : list byte) : res :=
  let (neg, r) := strip_sign s in
  match main_loop r false false 0 0 with
  | Ok n sc => Ok (if neg then - n else n) sc
  | Err => Err
  end.


(* the rational denoted by a result *)
Definition pow10Q (e : Z) : Q := if 0 <=? e then inject_Z (10 ^ e) else 1 # Z.to_pos (10 ^ (- e)).
Definition to_Q (num scale : Z) : Q := (inject_Z num * pow10Q scale)%Q.
