(* How the stored types are written as CBOR by serde (src/rational/mod.rs via num's serde impls, src/unit.rs, src/compound.rs,
   src/db.rs) and read back. Definitions only. *)
From Coq Require Import ZArith NArith List Bool.
Import ListNotations.
From AV Require Import model.Syntax model.UnitTypes model.Map model.Units model.Compound model.Cbor gen.UnitDefs.
Open Scope N_scope.

(* ---- big integers: sign and little-endian u32 digits (num-bigint's serde format) ---- *)
Definition B32 : N := 4294967296.
Fixpoint to_digits (fuel : nat) (z : N) : list N :=
  match fuel with
  | O => []
  | S f => if z =? 0 then [] else z mod B32 :: to_digits f (z / B32)
  end.
Definition digits_of (z : N) : list N := to_digits (S (N.to_nat (N.log2 z))) z.
Fixpoint of_digits (l : list N) : N := match l with [] => 0 | d :: r => d + B32 * of_digits r end.

Definition enc_bigint (z : Z) : cbor :=
  match z with
  | Z0 => CArr [CUInt 0; CArr []]
  | Zpos p => CArr [CUInt 1; CArr (List.map CUInt (digits_of (Npos p)))]
  | Zneg p => CArr [CNInt 0; CArr (List.map CUInt (digits_of (Npos p)))]
  end.
Fixpoint uints (l : list cbor) : option (list N) :=
  match l with
  | [] => Some []
  | CUInt d :: r => if d <? B32 then match uints r with Some ds => Some (d :: ds) | None => None end else None
  | _ => None
  end.
Definition dec_bigint (c : cbor) : option Z :=
  match c with
  | CArr [s; CArr ds] =>
      match uints ds with
      | None => None
      | Some l =>
          let m := of_digits l in
          match s with
          | CUInt 0 => Some 0%Z             (* serde: NoSign yields zero whatever the digits *)
          | CUInt 1 => Some (Z.of_N m)
          | CNInt 0 => Some (- Z.of_N m)%Z
          | _ => None
          end
      end
  | _ => None
  end.

(* Ratio<BigInt> is the pair (numer, denom); a zero denominator is rejected *)
Definition enc_rational (n d : Z) : cbor := CArr [enc_bigint n; enc_bigint d].
Definition dec_rational (c : cbor) : option (Z * Z) :=
  match c with
  | CArr [a; b] => match dec_bigint a, dec_bigint b with
                   | Some n, Some d => if (d =? 0)%Z then None else Some (n, d)
                   | _, _ => None
                   end
  | _ => None
  end.

(* ---- i32 ---- *)
Definition enc_int (z : Z) : cbor := if (0 <=? z)%Z then CUInt (Z.to_N z) else CNInt (Z.to_N (- 1 - z)).
Definition dec_int (c : cbor) : option Z :=
  match c with CUInt n => Some (Z.of_N n) | CNInt n => Some (- 1 - Z.of_N n)%Z | _ => None end.

(* ---- Unit: base variants by name, Derived(id) as {"Derived": id} checked against id_to_derived ---- *)
Definition T_Derived : list N := [68; 101; 114; 105; 118; 101; 100].
Definition T_names : list N := [110; 97; 109; 101; 115].
Definition T_power : list N := [112; 111; 119; 101; 114].
Definition T_prefix : list N := [112; 114; 101; 102; 105; 120].

Fixpoint bytes_eqb (a b : list N) : bool :=
  match a, b with [], [] => true | x :: a', y :: b' => (x =? y) && bytes_eqb a' b' | _, _ => false end.
Definition base_name (i : N) : option (list N) :=
  match find (fun r => fst r =? i) base_names with Some (_, n) => Some n | None => None end.
Definition base_of_name (n : list N) : option N :=
  match find (fun r => bytes_eqb (snd r) n) base_names with Some (i, _) => Some i | None => None end.
Definition id_to_derived (id : N) : option N :=
  match find (fun r => fst r =? id) id_to_derived_table with Some (_, u) => Some u | None => None end.

Definition enc_unit (u : unit) : option cbor :=
  if is_base u then match base_name (u - BASE_CODE) with Some n => Some (CText n) | None => None end
  else Some (CMap [(CText T_Derived, CUInt u)]).
Definition dec_unit (c : cbor) : option unit :=
  match c with
  | CText n => match base_of_name n with Some i => Some (base_key i) | None => None end
  | CMap [(CText k, CUInt id)] => if bytes_eqb k T_Derived && (id <? B32) then id_to_derived id else None
  | _ => None
  end.

Definition enc_state (s : state) : cbor := CMap [(CText T_power, enc_int (fst s)); (CText T_prefix, enc_int (snd s))].
Definition dec_state (c : cbor) : option state :=
  match c with
  | CMap [(CText a, p); (CText b, e)] =>
      if bytes_eqb a T_power && bytes_eqb b T_prefix then
        match dec_int p, dec_int e with Some p', Some e' => Some (p', e') | _, _ => None end
      else None
  | _ => None
  end.

Fixpoint enc_entries (c : compound) : option (list (cbor * cbor)) :=
  match c with
  | [] => Some []
  | (u, s) :: r => match enc_unit u, enc_entries r with Some cu, Some cr => Some ((cu, enc_state s) :: cr) | _, _ => None end
  end.
Definition enc_compound (c : compound) : option cbor :=
  match enc_entries c with Some l => Some (CMap [(CText T_names, CMap l)]) | None => None end.
(* deserialising a BTreeMap inserts entry by entry: later duplicates replace earlier ones and the result is sorted *)
Fixpoint dec_entries (l : list (cbor * cbor)) (acc : compound) : option compound :=
  match l with
  | [] => Some acc
  | (k, v) :: r => match dec_unit k, dec_state v with Some u, Some s => dec_entries r (put acc u s) | _, _ => None end
  end.
Definition dec_compound (c : cbor) : option compound :=
  match c with
  | CMap [(CText k, CMap l)] => if bytes_eqb k T_names then dec_entries l [] else None
  | _ => None
  end.

(* the bytes *)
Definition compound_bytes (c : compound) : option (list N) := match enc_compound c with Some v => Some (encode v) | None => None end.
Definition rational_bytes (n d : Z) : list N := encode (enc_rational n d).
Definition compound_of_bytes (bs : list N) : option compound :=
  match decode (S (length bs)) bs with Some (v, []) => dec_compound v | _ => None end.
Definition rational_of_bytes (bs : list N) : option (Z * Z) :=
  match decode (S (length bs)) bs with Some (v, []) => dec_rational v | _ => None end.

(* ---- Constant (src/db.rs): {source, tokens, description, value, unit}, in declaration order ---- *)
Record constant := { k_source : option N; k_tokens : list (list N); k_description : list N; k_value : Z * Z; k_unit : compound }.
Definition T_source : list N := [115; 111; 117; 114; 99; 101].
Definition T_tokens : list N := [116; 111; 107; 101; 110; 115].
Definition T_description : list N := [100; 101; 115; 99; 114; 105; 112; 116; 105; 111; 110].
Definition T_value : list N := [118; 97; 108; 117; 101].
Definition T_unit : list N := [117; 110; 105; 116].

Definition enc_constant (k : constant) : option cbor :=
  match enc_compound (k_unit k) with
  | None => None
  | Some cu =>
      Some (CMap [(CText T_source, match k_source k with Some s => CUInt s | None => CNull end);
                  (CText T_tokens, CArr (List.map CText (k_tokens k)));
                  (CText T_description, CText (k_description k));
                  (CText T_value, enc_rational (fst (k_value k)) (snd (k_value k)));
                  (CText T_unit, cu)])
  end.
Fixpoint texts (l : list cbor) : option (list (list N)) :=
  match l with
  | [] => Some []
  | CText s :: r => match texts r with Some ss => Some (s :: ss) | None => None end
  | _ => None
  end.
Definition dec_constant (c : cbor) : option constant :=
  match c with
  | CMap [(CText a, s); (CText b, CArr ts); (CText d, CText desc); (CText e, v); (CText f, u)] =>
      if bytes_eqb a T_source && bytes_eqb b T_tokens && bytes_eqb d T_description && bytes_eqb e T_value && bytes_eqb f T_unit then
        match (match s with CNull => Some None | CUInt x => Some (Some x) | _ => None end), texts ts, dec_rational v, dec_compound u with
        | Some src, Some tk, Some val, Some un => Some {| k_source := src; k_tokens := tk; k_description := desc; k_value := val; k_unit := un |}
        | _, _, _, _ => None
        end
      else None
  | _ => None
  end.
Definition constant_bytes (k : constant) : option (list N) := match enc_constant k with Some v => Some (encode v) | None => None end.

(* ---- JSON text of a rational, as serde_json prints the same structure: [[sign,[digits]],[sign,[digits]]] ---- *)
Fixpoint dec_digits_aux (fuel : nat) (z : N) (acc : list N) : list N :=
  match fuel with O => acc | S f => let acc' := (48 + z mod 10) :: acc in if z / 10 =? 0 then acc' else dec_digits_aux f (z / 10) acc' end.
Definition dec_text (z : N) : list N := dec_digits_aux (S (N.to_nat (N.log2 z))) z [].
Fixpoint join_commas (l : list (list N)) : list N :=
  match l with [] => [] | [x] => x | x :: r => x ++ 44 :: join_commas r end.
Definition json_bigint (z : Z) : list N :=
  let '(sg, m) := match z with Z0 => ([48], 0) | Zpos p => ([49], Npos p) | Zneg p => ([45; 49], Npos p) end in
  [91] ++ sg ++ [44; 91] ++ join_commas (List.map dec_text (digits_of m)) ++ [93; 93].
Definition json_rational (n d : Z) : list N := [91] ++ json_bigint n ++ [44] ++ json_bigint d ++ [93].
