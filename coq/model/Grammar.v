(* Forest/checkpoint model of src/syntax/parser.rs and src/syntax/grammar.rs.
   The syntree builder is modelled as a forest of finished top-level trees; a checkpoint is an index into it and
   `close_at c k` wraps everything from index c on into a node of kind k (syntree re-points the shared checkpoint
   cell at the wrapper, which is what an index does by construction). Tokens carry the text they cover.
   Loops are standalone fuelled fixpoints; running out of fuel yields None, excluded by proofs/GrammarTotal.v.
   Definitions only. *)
From Coq Require Import NArith List Arith Bool Lia.
Import ListNotations.
From AV Require Import model.Syntax.
Local Close Scope N_scope.

Inductive tree := Tok (k : kind) (text : list chr) | Node (k : kind) (ch : list tree).
Definition tok := token.
Record st := { buf : list tok; forest : list tree }.

Definition nth_kind (s : st) (skip n : nat) : kind := match nth_error (buf s) (skip + n) with Some (k, _) => k | None => EOF end.
Definition bump (s : st) : st :=
  match buf s with t :: r => {| buf := r; forest := forest s ++ [Tok (fst t) (snd t)] |} | [] => s end.
Fixpoint bumps (n : nat) (s : st) : st := match n with O => s | S k => bumps k (bump s) end.
Definition bump_node (k : kind) (s : st) : st :=
  match buf s with
  | t :: r => {| buf := r; forest := forest s ++ [Node k [Tok (fst t) (snd t)]] |}
  | [] => {| buf := []; forest := forest s ++ [Node k []] |}
  end.
Definition checkpoint (s : st) : nat := length (forest s).
Definition close_at (c : nat) (k : kind) (s : st) : st :=
  {| buf := buf s; forest := firstn c (forest s) ++ [Node k (skipn c (forest s))] |}.
Fixpoint count_ws (b : list tok) : nat := match b with (WHITESPACE, _) :: r => S (count_ws r) | _ => O end.
Definition count_skip (s : st) : nat := count_ws (buf s).
Fixpoint kinds_match (s : st) (skip : nat) (n : nat) (ks : list kind) : bool :=
  match ks with [] => true | k :: r => kind_beq (nth_kind s skip n) k && kinds_match s skip (S n) r end.
Definition eat (skip : nat) (ks : list kind) (s : st) : bool * st :=
  if kinds_match s skip 0 ks then (true, bumps (skip + length ks) s) else (false, s).
Fixpoint bump_until (fuel : nat) (k : kind) (s : st) : st :=
  match fuel with O => s | S f =>
    match buf s with [] => s | t :: _ => let s' := bump s in if kind_beq (fst t) k then s' else bump_until f k s' end end.

(* unit(): inner "trailing no-skip symbols" loop; returns (Some skip' to continue the outer loop | None to leave it) *)
Fixpoint unit_trail (fuel : nat) (s : st) : option nat * st :=
  match fuel with O => (None, s) | S f =>
    match nth_kind s 0 0 with
    | WORD | TO => unit_trail f (bump_node WORD s)
    | NUMBER => unit_trail f (bump_node NUMBER s)
    | STAR => unit_trail f (bump_node OP_MUL s)
    | SLASH => unit_trail f (bump_node OP_DIV s)
    | CARET | STARSTAR => unit_trail f (bump_node OP_POWER s)
    | WHITESPACE => (Some 1, s)
    | _ => (None, s)
    end end.
Fixpoint unit_loop (fuel : nat) (skip : nat) (c : option nat) (s : st) : option nat * st :=
  match fuel with O => (c, s) | S f =>
    match nth_kind s skip 0 with
    | NUMBER | WORD =>
        let k := nth_kind s skip 0 in
        let s1 := bumps skip s in
        let c' := match c with None => Some (checkpoint s1) | _ => c end in
        let s2 := bump_node k s1 in
        match unit_trail (S (length (buf s2))) s2 with
        | (Some skip', s3) => unit_loop f skip' c' s3
        | (None, s3) => (c', s3)
        end
    | _ => (c, s)
    end end.
Definition unit_ (skip : nat) (s : st) : option nat * st :=
  let (c, s') := unit_loop (S (length (buf s))) skip None s in
  match c with Some cc => (c, close_at cc UNIT s') | None => (None, s') end.

Definition op_of (k : kind) : option (nat * kind * bool) :=
  match k with
  | TO => Some (1, OP_CAST, true) | PLUS => Some (2, OP_ADD, false) | DASH => Some (2, OP_SUB, false)
  | STAR => Some (3, OP_MUL, false) | SLASH => Some (3, OP_DIV, false) | CARET | STARSTAR => Some (10, OP_POWER, false)
  | _ => None end.

(* words loops of value() *)
Fixpoint words_loop (fuel : nat) (accept_number : bool) (skip : nat) (n : nat) (s : st) : nat * nat * st :=
  match fuel with O => (skip, n, s) | S f =>
    let k := nth_kind s skip 0 in
    if kind_beq k WORD || (accept_number && kind_beq k NUMBER) then
      let s1 := bump_node WORD (bumps skip s) in words_loop f accept_number (count_skip s1) (S n) s1
    else (skip, n, s) end.

(* the precedence stack of operation(): entries (checkpoint, priority, is_unit), top first *)
Definition entry := (nat * nat * bool)%type.
Fixpoint settle (fuel : nat) (prio : nat) (extra : bool) (cur : nat) (stack : list entry) (s : st) : list entry * st :=
  match fuel with O => (stack, s) | S f =>
    match stack with
    | [] => (stack, s)
    | (c, p, e) :: rest =>
        if prio <? p then
          let s' := close_at c OPERATION s in
          match rest with
          | (_, pb, _) :: _ => if prio <=? pb then settle f prio extra cur rest s' else settle f prio extra cur ((c, prio, extra) :: rest) s'
          | [] => settle f prio extra cur ((c, prio, extra) :: rest) s'
          end
        else if p <? prio then ((cur, prio, extra) :: stack, s)
        else (stack, s)
    end end.

(* loops of operation() and call_arguments(), parametrised by the mutually recursive callees *)
Definition res (A : Type) := option (A * st).
Fixpoint op_loop (valuef : nat -> st -> res (option nat)) (open : nat) (lf : nat) (skip : nat) (first : bool) (stack : list entry) (s : st)
  {struct lf} : res (option nat) :=
  match lf with O => None | S lf' =>
    let is_unit := match stack with (_, _, e) :: _ => e | [] => false end in
    let operand := if is_unit then (let (c, s') := unit_ 0 (bumps skip s) in Some (c, s')) else valuef skip s in
    match operand with
    | None => None
    | Some (None, s1) => Some (None, s1)
    | Some (Some cur, s1) =>
        let cs := count_skip s1 in
        match op_of (nth_kind s1 cs 0) with
        | None =>
            let s2 := fold_left (fun s (e : entry) => close_at (fst (fst e)) OPERATION s) stack s1 in
            Some (Some (count_skip s1), s2)
        | Some (prio, operator, extra) =>
            let stack1 := if first then [(open, prio, extra)] else stack in
            let (stack2, s2) := settle (S (S (length stack1))) prio extra cur stack1 s1 in
            let s3 := bump_node operator (bumps cs s2) in
            op_loop valuef open lf' (count_skip s3) false stack2 s3
        end
    end
  end.
Fixpoint args_loop (operationf : nat -> st -> res (option nat)) (c : nat) (lf : nat) (s : st) {struct lf} : res bool :=
  match lf with O => None | S lf' =>
    let skip := count_skip s in
    let finish (skip : nat) (s : st) := Some (eat skip [CLOSE_PAREN] (close_at c FN_ARGUMENTS s)) in
    match nth_kind s skip 0 with
    | CLOSE_PAREN => finish skip s
    | _ => match operationf skip s with
           | None => None
           | Some (None, s1) => Some (false, s1)
           | Some (Some skip1, s1) =>
               match eat skip1 [COMMA] s1 with (true, s2) => args_loop operationf c lf' s2 | (false, s2) => finish skip1 s2 end
           end
    end
  end.

Definition value_body (operationf : nat -> st -> res (option nat)) (call_argumentsf : st -> res bool) (skip : nat) (s : st) : res (option nat) :=
    match nth_kind s skip 0 with
    | OPEN_BRACE =>
        let s1 := bumps skip s in let start := checkpoint s1 in
        let s2 := bump s1 in let c := checkpoint s2 in
        let '(skip', words, s3) := words_loop (S (length (buf s2))) false (count_skip s2) 0 s2 in
        let s4 := if 1 <? words then close_at c SENTENCE s3 else s3 in
        match eat skip' [CLOSE_BRACE] s4 with
        | (true, s5) => Some (Some start, s5)
        | (false, s5) => Some (None, bump_until (S (length (buf s5))) CLOSE_BRACE s5)
        end
    | WORD =>
        let s1 := bumps skip s in let start := checkpoint s1 in
        let s2 := bump_node WORD s1 in
        if kind_beq (nth_kind s2 0 0) OPEN_PAREN then
          let s3 := bump (close_at start FN_NAME s2) in
          match call_argumentsf s3 with
          | None => None
          | Some (false, s4) => Some (None, s4)
          | Some (true, s4) => Some (Some start, close_at start FN_CALL s4)
          end
        else
          let '(_, words, s3) := words_loop (S (length (buf s2))) true (count_skip s2) 0 s2 in
          Some (Some start, if 0 <? words then close_at start SENTENCE s3 else s3)
    | NUMBER =>
        let s1 := bumps skip s in let c := checkpoint s1 in
        let s2 := bump s1 in let skip' := count_skip s2 in
        match nth_kind s2 skip' 0 with
        | PERCENTAGE => Some (Some c, close_at c PERCENTAGE (bump (bumps skip' s2)))
        | _ => let (u, s3) := unit_ skip' s2 in
               Some (Some c, close_at c (match u with Some _ => WITH_UNIT | None => NUMBER end) s3)
        end
    | OPEN_PAREN =>
        let s1 := bumps skip s in let c := checkpoint s1 in
        let s2 := bump s1 in
        match operationf (count_skip s2) s2 with
        | None => None
        | Some (None, s3) => Some (None, s3)
        | Some (Some skip', s3) =>
            match eat skip' [CLOSE_PAREN] s3 with (true, s4) => Some (Some c, s4) | (false, s4) => Some (None, s4) end
        end
    | _ => Some (None, s)
    end.

Fixpoint operation (fuel : nat) (skip : nat) (s : st) {struct fuel} : res (option nat) :=
  match fuel with O => None | S f => op_loop (value f) (checkpoint s) (S (length (buf s))) skip true [] s end
with value (fuel : nat) (skip : nat) (s : st) {struct fuel} : res (option nat) :=
  match fuel with O => None | S f => value_body (operation f) (call_arguments f) skip s end
with call_arguments (fuel : nat) (s : st) {struct fuel} : res bool :=
  match fuel with O => None | S f => args_loop (operation f) (checkpoint s) (S (length (buf s))) s end.

Fixpoint root_loop (fuel : nat) (c : nat) (skip : nat) (error : bool) (s : st) : option (bool * st) :=
  match fuel with O => None | S f =>
    match nth_kind s skip 0 with
    | EOF => Some (error, bumps skip s)
    | OPEN_BRACE | OPEN_PAREN | WORD | NUMBER =>
        match operation (2 * length (buf s) + 2) skip s with
        | None => None
        | Some (Some skip', s1) => root_loop f c skip' error s1
        | Some (None, s1) => let s2 := close_at c ERROR s1 in root_loop f c (count_skip s2) error s2
        end
    | _ => let s1 := bump (bumps skip s) in root_loop f c (count_skip s1) true s1
    end end.

Definition parse_root (toks : list tok) : option (list tree) :=
  let s := {| buf := toks; forest := [] |} in
  match root_loop (S (S (length toks))) (checkpoint s) (count_skip s) false s with
  | None => None
  | Some (error, s') => Some (forest (if error then close_at 0 ERROR s' else s'))
  end.
