(* Model of what src/bin/any.rs prints for the results of a query: one line per value -- exact numerator[/denominator] or the
   decimal rendering with the program's display spec, then the unit -- and one diagnostic per error, in order.
   The display spec literals are translated from the source (gen/Tables.v). Definitions only. *)
From Coq Require Import ZArith NArith QArith List Bool.
Import ListNotations.
From AV Require Import model.Syntax model.Rat model.Display model.UnitTypes model.Map model.Units model.Compound model.Eval gen.Tables.
Open Scope Z_scope.

Definition zdec (z : Z) : list chr := if z <? 0 then 45%N :: dec (- z) else dec z.

Definition render_value (exact : bool) (v : Q) : list chr :=
  if exact then
    let '(n, d) := reduced v in
    if d =? 1 then zdec n else zdec n ++ 47%N :: dec d
  else display v cli_limit cli_exponent_limit.

Definition render_line (exact : bool) (x : numeric) : list chr :=
  render_value exact (fst x) ++ (if has_numerator (snd x) then [32%N] else []) ++ compound_display (snd x) (negb (is_one (fst x))).

Inductive out_item := Line (text : list chr) | Diagnostic (span : N * N) (k : ekind) | Crash.
Definition render_one (exact : bool) (r : res numeric) : out_item :=
  match r with
  | Ok x => Line (render_line exact x)
  | Error s k => Diagnostic s k
  | _ => Crash
  end.
(* errors are shown where they occur and do not abort the remaining results *)
Definition render (exact : bool) (rs : list (res numeric)) : list out_item := List.map (render_one exact) rs.
