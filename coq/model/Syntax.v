(* Syntax kinds of src/syntax/parser.rs (`enum Syntax`) and characters.
   Characters are Unicode scalar values as [N]; a source text is a [list chr]. *)
From Coq Require Import NArith List Bool.
Import ListNotations.
Open Scope N_scope.

Definition chr := N.

Inductive kind := WHITESPACE | STAR | STARSTAR | SLASH | PLUS | DASH | CARET | COMMA | OPEN_PAREN | CLOSE_PAREN
  | OPEN_BRACE | CLOSE_BRACE | TO | WORD | SENTENCE | NUMBER | WITH_UNIT | UNIT | FN_NAME | FN_ARGUMENTS | FN_CALL
  | PERCENTAGE | OP_CAST | OP_ADD | OP_SUB | OP_IMPLICIT_MUL | OP_MUL | OP_DIV | OP_POWER | OPERATOR | OPERATION | ERROR | EOF.
Scheme Equality for kind.

(* numbering used when results are printed for the correspondence check (order of the enum) *)
Definition kind_code (k : kind) : N :=
  match k with
  | WHITESPACE => 0 | STAR => 1 | STARSTAR => 2 | SLASH => 3 | PLUS => 4 | DASH => 5 | CARET => 6 | COMMA => 7
  | OPEN_PAREN => 8 | CLOSE_PAREN => 9 | OPEN_BRACE => 10 | CLOSE_BRACE => 11 | TO => 12 | WORD => 13 | SENTENCE => 14
  | NUMBER => 15 | WITH_UNIT => 16 | UNIT => 17 | FN_NAME => 18 | FN_ARGUMENTS => 19 | FN_CALL => 20 | PERCENTAGE => 21
  | OP_CAST => 22 | OP_ADD => 23 | OP_SUB => 24 | OP_IMPLICIT_MUL => 25 | OP_MUL => 26 | OP_DIV => 27 | OP_POWER => 28
  | OPERATOR => 29 | OPERATION => 30 | ERROR => 31 | EOF => 32
  end.

(* a lexed token: kind and the characters it covers *)
Definition token := (kind * list chr)%type.

(* char::len_utf8 *)
Definition utf8_len (c : chr) : N := if c <? 128 then 1 else if c <? 2048 then 2 else if c <? 65536 then 3 else 4.
Fixpoint utf8_size (s : list chr) : N := match s with [] => 0 | c :: r => utf8_len c + utf8_size r end.

(* UTF-8 encoding of one scalar value, as bytes *)
Definition utf8_bytes (c : chr) : list N :=
  if c <? 128 then [c]
  else if c <? 2048 then [192 + c / 64; 128 + c mod 64]
  else if c <? 65536 then [224 + c / 4096; 128 + (c / 64) mod 64; 128 + c mod 64]
  else [240 + c / 262144; 128 + (c / 4096) mod 64; 128 + (c / 64) mod 64; 128 + c mod 64].
Definition utf8 (s : list chr) : list N := flat_map utf8_bytes s.
