(* The CBOR subset serde_cbor emits and reads for the stored types (Rational, Unit, Compound, Constant): unsigned and negative
   integers with minimal-length heads, text, definite arrays and maps, indefinite maps (as produced for `#[serde(flatten)]`),
   null. Encoder and fuelled decoder. Definitions only. *)
From Coq Require Import NArith List Lia Bool Arith.
Import ListNotations.
Open Scope N_scope.

Definition byte := N.
Inductive cbor :=
  | CUInt (n : N) | CNInt (n : N)            (* CNInt n stands for -1-n *)
  | CText (s : list byte)
  | CArr (l : list cbor)
  | CMap (l : list (cbor * cbor))
  | CMapIndef (l : list (cbor * cbor))
  | CNull.

(* big-endian bytes *)
Fixpoint to_be (k : nat) (a : N) : list byte :=
  match k with O => [] | S k' => (a / 256 ^ N.of_nat k') mod 256 :: to_be k' a end.
Fixpoint of_be (acc : N) (bs : list byte) : N := match bs with [] => acc | b :: r => of_be (acc * 256 + b) r end.

Definition head (major arg : N) : list byte :=
  if arg <? 24 then [major * 32 + arg]
  else if arg <? 256 then (major * 32 + 24) :: to_be 1 arg
  else if arg <? 65536 then (major * 32 + 25) :: to_be 2 arg
  else if arg <? 4294967296 then (major * 32 + 26) :: to_be 4 arg
  else (major * 32 + 27) :: to_be 8 arg.

Fixpoint encode (v : cbor) : list byte :=
  match v with
  | CUInt n => head 0 n
  | CNInt n => head 1 n
  | CText s => head 3 (N.of_nat (length s)) ++ s
  | CArr l => head 4 (N.of_nat (length l)) ++ (fix go (l : list cbor) := match l with [] => [] | x :: r => encode x ++ go r end) l
  | CMap l => head 5 (N.of_nat (length l)) ++ (fix go (l : list (cbor * cbor)) := match l with [] => [] | (k, x) :: r => encode k ++ encode x ++ go r end) l
  | CMapIndef l => 191 :: (fix go (l : list (cbor * cbor)) := match l with [] => [] | (k, x) :: r => encode k ++ encode x ++ go r end) l ++ [255]
  | CNull => [246]
  end.
Fixpoint enc_list (l : list cbor) : list byte := match l with [] => [] | x :: r => encode x ++ enc_list r end.
Fixpoint enc_pairs (l : list (cbor * cbor)) : list byte := match l with [] => [] | (k, x) :: r => encode k ++ encode x ++ enc_pairs r end.
Lemma encode_arr l : encode (CArr l) = head 4 (N.of_nat (length l)) ++ enc_list l.
Proof. reflexivity. Qed.
Lemma encode_map l : encode (CMap l) = head 5 (N.of_nat (length l)) ++ enc_pairs l.
Proof. reflexivity. Qed.
Lemma encode_mapi l : encode (CMapIndef l) = 191 :: enc_pairs l ++ [255].
Proof. reflexivity. Qed.

(* ---- decoder ---- *)
Definition take (n : nat) (bs : list byte) : option (list byte * list byte) :=
  if (n <=? length bs)%nat then Some (firstn n bs, skipn n bs) else None.
Inductive hd := HArg (major arg : N) | HIndef (major : N) | HSimple (v : N).
Definition dec_head (bs : list byte) : option (hd * list byte) :=
  match bs with
  | [] => None
  | ib :: r =>
      let major := ib / 32 in let ai := ib mod 32 in
      if major =? 7 then Some (HSimple ai, r)
      else if ai <? 24 then Some (HArg major ai, r)
      else if ai =? 31 then Some (HIndef major, r)
      else match (if ai =? 24 then Some 1%nat else if ai =? 25 then Some 2%nat else if ai =? 26 then Some 4%nat else if ai =? 27 then Some 8%nat else None) with
           | Some k => match take k r with Some (b, r') => Some (HArg major (of_be 0 b), r') | None => None end
           | None => None
           end
  end.

Section loops.
Variable dec : list byte -> option (cbor * list byte).
Fixpoint items (n : nat) (bs : list byte) : option (list cbor * list byte) :=
  match n with O => Some ([], bs) | S n' =>
    match dec bs with None => None | Some (x, bs') =>
      match items n' bs' with None => None | Some (l, bs'') => Some (x :: l, bs'') end end end.
Fixpoint pairs (n : nat) (bs : list byte) : option (list (cbor * cbor) * list byte) :=
  match n with O => Some ([], bs) | S n' =>
    match dec bs with None => None | Some (k, bs1) =>
      match dec bs1 with None => None | Some (x, bs2) =>
        match pairs n' bs2 with None => None | Some (l, bs3) => Some ((k, x) :: l, bs3) end end end end.
Fixpoint pairs_indef (n : nat) (bs : list byte) : option (list (cbor * cbor) * list byte) :=
  match n with O => None | S n' =>
    match bs with
    | 255 :: r' => Some ([], r')
    | _ => match dec bs with None => None | Some (k, bs1) =>
             match dec bs1 with None => None | Some (x, bs2) =>
               match pairs_indef n' bs2 with None => None | Some (l, bs3) => Some ((k, x) :: l, bs3) end end end
    end end.
End loops.

Fixpoint decode (fuel : nat) (bs : list byte) : option (cbor * list byte) :=
  match fuel with O => None | S f =>
    match dec_head bs with
    | None => None
    | Some (HSimple v, r) => if v =? 22 then Some (CNull, r) else None
    | Some (HArg m a, r) =>
        if m =? 0 then Some (CUInt a, r)
        else if m =? 1 then Some (CNInt a, r)
        else if m =? 3 then match take (N.to_nat a) r with Some (s, r') => Some (CText s, r') | None => None end
        else if m =? 4 then match items (decode f) (N.to_nat a) r with Some (l, r') => Some (CArr l, r') | None => None end
        else if m =? 5 then match pairs (decode f) (N.to_nat a) r with Some (l, r') => Some (CMap l, r') | None => None end
        else None
    | Some (HIndef m, r) =>
        if m =? 5 then match pairs_indef (decode f) (S (length r)) r with Some (l, r') => Some (CMapIndef l, r') | None => None end else None
    end
  end.

