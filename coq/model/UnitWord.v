(* Model of src/generated/unit.rs::parse and src/unit_parser.rs. The two logos lexers are modelled by their byte tries with,
   at every node, the outcome *observed on the real generated lexer* (coq/gen/UnitWords.v): logos 0.13 is not maximal munch.
   Definitions only. *)
From Coq Require Import ZArith NArith List Bool.
Import ListNotations.
From AV Require Import model.Syntax model.UnitTypes gen.UnitWords.
Open Scope Z_scope.

Fixpoint edge (es : list (N * nat)) (b : N) : option nat :=
  match es with [] => None | (b', c) :: r => if (b' =? b)%N then Some c else edge r b end.

(* one raw lexer step from trie node n over the bytes s *)
Fixpoint walk (trie : list node) (n : nat) (s : list N) : outcome :=
  match nth_error trie n with
  | None => OErr
  | Some nd =>
      match s with
      | [] => at_end nd
      | b :: r => match edge (edges nd) b with Some c => walk trie c r | None => at_other nd end
      end
  end.

Fixpoint bytes_eqb (a b : list N) : bool :=
  match a, b with [], [] => true | x :: a', y :: b' => (x =? y)%N && bytes_eqb a' b' | _, _ => false end.

(* second loop of parse(): the `Units` lexer after a prefix *)
Fixpoint units_loop (fuel : nat) (s : list N) (prefix : Z) : option (list N * Z * unit) :=
  match fuel with
  | O => None
  | S f =>
      match walk units_trie 0 s with
      | OTok WSep len => units_loop f (skipn len s) prefix
      | OTok (WUnit u bias) len => Some (skipn len s, prefix + bias, u)
      | _ => None
      end
  end.

(* first loop of parse(): the `Combined` lexer *)
Fixpoint combined_loop (fuel : nat) (s : list N) : option (list N * Z * unit) :=
  match fuel with
  | O => None
  | S f =>
      match walk combined_trie 0 s with
      | OTok WSep len => combined_loop f (skipn len s)
      | OTok (WUnit u bias) len => Some (skipn len s, bias, u)
      | OTok (WPrefix e alone) len =>
          let rest := skipn len s in
          match alone with
          | Some (slice, u, bias) =>
              if (match rest with [] => true | _ => false end) && bytes_eqb (firstn len s) slice then Some ([], bias, u)
              else units_loop (S (length rest)) rest e
          | None => units_loop (S (length rest)) rest e
          end
      | _ => None
      end
  end.

(* generated::unit::parse on the UTF-8 bytes of a word: remainder, prefix exponent, unit *)
Definition parse_word (s : list N) : option (list N * Z * unit) := combined_loop (S (length s)) s.

(* UnitParser: all (prefix, unit) pairs of a word, or the remainder that could not be read *)
Fixpoint parse_units (fuel : nat) (s : list N) : list (Z * unit) * option (list N) :=
  match fuel with
  | O => ([], Some s)
  | S f =>
      match s with
      | [] => ([], None)
      | _ => match parse_word s with
             | None => ([], Some s)
             | Some (rest, e, u) => let (l, bad) := parse_units f rest in ((e, u) :: l, bad)
             end
      end
  end.
