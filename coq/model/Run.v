(* Entry points of the executable model as used by the correspondence check.
   Every observation is serialised to a [list Z]; inputs arrive as [list Z] too, so a case file is uniform:
   (tag, input, expected). The encodings are mirrored in /verif/tools/vlib.py. *)
From Coq Require Import ZArith NArith List Bool.
Import ListNotations.
From AV Require Import model.Syntax model.Lexer model.Grammar.
Open Scope Z_scope.

Definition zs_of_chars (s : list chr) : list Z := map Z.of_N s.
Definition chars_of_zs (l : list Z) : list chr := map Z.to_N l.

(* tokens: kind code, byte length *)
Definition dump_tokens (ts : list token) : list Z :=
  flat_map (fun t => [Z.of_N (kind_code (fst t)); Z.of_N (utf8_size (snd t))]) ts.

(* trees in preorder: leaf = 0, kind, byte length; node = 1, kind, number of children, children *)
Fixpoint dump_tree (t : tree) : list Z :=
  match t with
  | Tok k text => [0; Z.of_N (kind_code k); Z.of_N (utf8_size text)]
  | Node k ch => [1; Z.of_N (kind_code k); Z.of_nat (length ch)] ++
                 (fix go (l : list tree) := match l with [] => [] | x :: r => dump_tree x ++ go r end) ch
  end.
Definition dump_forest (f : list tree) : list Z := Z.of_nat (length f) :: flat_map dump_tree f.

(* tag 1: lex and parse; output = #tokens, tokens, then (1, forest) or (0) when the model ran out of fuel *)
Definition obs_lex_parse (s : list chr) : list Z :=
  let ts := tokens s in
  Z.of_nat (length ts) :: dump_tokens ts ++
  match parse_root ts with Some f => 1 :: dump_forest f | None => [0] end.

Definition run_case (tag : Z) (input : list Z) : list Z :=
  match tag with
  | 1 => obs_lex_parse (chars_of_zs input)
  | _ => [-1]
  end.

Fixpoint zs_eqb (a b : list Z) : bool :=
  match a, b with
  | [], [] => true
  | x :: a', y :: b' => (x =? y) && zs_eqb a' b'
  | _, _ => false
  end.

Definition case := (Z * Z * list Z * list Z)%type.     (* index, tag, input, expected *)
Definition failing (cs : list case) : list (Z * list Z) :=
  flat_map (fun c => let '(i, tag, inp, ex) := c in
                     let got := run_case tag inp in
                     if zs_eqb got ex then [] else [(i, got)]) cs.
