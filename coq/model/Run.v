(* Entry points of the executable model as used by the correspondence check.
   Every observation is serialised to a [list Z]; inputs arrive as [list Z] too, so a case file is uniform:
   (tag, input, expected). The encodings are mirrored in /verif/tools/vlib.py. *)
From Coq Require Import ZArith NArith List Bool.
Import ListNotations.
From Coq Require Import QArith.
From AV Require Import model.Syntax model.Lexer model.Grammar model.Literal model.Display model.Rat model.UnitTypes model.Map
  model.Units model.Compound model.UnitWord model.Eval model.Cbor model.Codec model.Cli model.DbProto model.Index model.Find gen.Shipped.
Open Scope Z_scope.

Definition zs_of_chars (s : list chr) : list Z := map Z.of_N s.
Definition chars_of_zs (l : list Z) : list chr := map Z.to_N l.

(* tokens: kind code, byte length *)
Definition dump_tokens (ts : list token) : list Z :=
  flat_map (fun t => [Z.of_N (kind_code (fst t)); Z.of_N (utf8_size (snd t))]) ts.

(* trees in preorder: leaf = 0, kind, byte length; node = 1, kind, number of children, children *)
Fixpoint dump_tree (t : tree) : list Z :=
  match t with
  | Tok k text => [0; Z.of_N (kind_code k); Z.of_N (utf8_size text)]
  | Node k [] => [0; Z.of_N (kind_code k); 0]      (* syntree shows a node without children like a token without text *)
  | Node k ch => [1; Z.of_N (kind_code k); Z.of_nat (length ch)] ++
                 (fix go (l : list tree) := match l with [] => [] | x :: r => dump_tree x ++ go r end) ch
  end.
Definition dump_forest (f : list tree) : list Z := Z.of_nat (length f) :: flat_map dump_tree f.

(* tag 1: lex and parse; output = #tokens, tokens, then (1, forest) or (0) when the model ran out of fuel *)
Definition obs_lex_parse (s : list chr) : list Z :=
  let ts := tokens s in
  Z.of_nat (length ts) :: dump_tokens ts ++
  match parse_root ts with Some f => 1 :: dump_forest f | None => [0] end.


(* tag 2: Rational::display; input = n, d, limit, exponent limit; output = the characters *)
Definition obs_display (input : list Z) : list Z :=
  match input with
  | [n; d; limit; el] => zs_of_chars (display (Qmake n (Z.to_pos d)) (Z.to_nat limit) (Z.to_nat el))
  | _ => [-1]
  end.

(* tag 3: str::parse::<Rational>; input = bytes; output = 1, reduced numerator, denominator | 0 *)
Definition obs_from_str (input : list Z) : list Z :=
  match from_str input with
  | Literal.Ok num scale => let '(n, d) := reduced (to_Q num scale) in [1; n; d]
  | Literal.Err => [0]
  end.

(* ---- tag 4: the whole pipeline ---- *)
Definition dump_compound (c : compound) : list Z :=
  Z.of_nat (length c) :: flat_map (fun us => [Z.of_N (fst us); fst (snd us); snd (snd us)]) c.
Definition ekind_code (k : ekind) : list Z :=
  match k with
  | SyntaxError => [0] | DivideByZero => [1] | LookupError => [2] | IllegalOperation => [3] | ConversionNotPossible => [4]
  | IllegalCast => [5] | ParseRationalError => [6] | BadNumber => [7] | Unexpected k => [8; Z.of_N (kind_code k)]
  | Expected a e => [9; Z.of_N (kind_code a); Z.of_N (kind_code e)] | Missing => [10] | IllegalUnit => [11]
  | MissingFunction => [12] | ArgumentMismatch e a => [13; Z.of_nat e; Z.of_nat a] | BadArgument => [14] | NonFinite => [15]
  | MissingNode => [16] | PrefixMismatch => [17] | IllegalUnitNumber => [18] | IllegalPowerUnit => [19]
  | IllegalPowerNonInteger => [20] | IllegalPowerTooLarge => [21]
  end.
Definition dump_result (r : res numeric) : list Z :=
  match r with
  | Ok (v, u) => let '(n, d) := reduced v in 0 :: n :: d :: dump_compound u
  | Error (s, e) k => 1 :: Z.of_N s :: Z.of_N e :: ekind_code k
  | Panic w => [2; Z.of_N w]
  | Opaque => [3]
  end.

(* decoding of the fact oracle: count, then per phrase: length, characters, outcome (0 | 1 | 2 n d k (key power prefix)*k) *)
Fixpoint take_units (k : nat) (l : list Z) : compound * list Z :=
  match k with
  | O => ([], l)
  | S k' => match l with
            | key :: p :: e :: r => let '(c, r') := take_units k' r in ((Z.to_N key, (p, e)) :: c, r')
            | _ => ([], l)
            end
  end.
Fixpoint take_facts (fuel : nat) (idx : Z) (l : list Z) : db * list Z :=
  match fuel with
  | O => ([], l)
  | S f =>
      match l with
      | len :: r =>
          let phrase := chars_of_zs (firstn (Z.to_nat len) r) in
          let r1 := skipn (Z.to_nat len) r in
          match r1 with
          | 0 :: r2 => let '(d, r3) := take_facts f (idx + 1) r2 in ((phrase, NotFound) :: d, r3)
          | 1 :: r2 => let '(d, r3) := take_facts f (idx + 1) r2 in ((phrase, LookupFailed) :: d, r3)
          | 2 :: n :: dn :: k :: r2 =>
              let '(c, r3) := take_units (Z.to_nat k) r2 in
              let '(d, r4) := take_facts f (idx + 1) r3 in ((phrase, Found idx (Qmake n (Z.to_pos dn)) c) :: d, r4)
          | _ => ([], l)
          end
      | [] => ([], l)
      end
  end.

Definition query (debug describe : bool) (facts : db) (s : list chr) : list (res numeric) * list (list chr) :=
  match parse_root (tokens s) with
  | None => ([Panic 3], [])
  | Some f => eval_roots debug facts describe (skip_tokens (annotate_forest 0 f)) []
  end.

Fixpoint phrase_index (d : db) (s : list chr) (i : Z) : Z :=
  match d with [] => -1 | (p, _) :: r => if chars_eqb p s then i else phrase_index r s (i + 1) end.

Definition obs_query (input : list Z) : list Z :=
  match input with
  | dbg :: desc :: nfacts :: rest =>
      let '(facts, src) := take_facts (Z.to_nat nfacts) 0 rest in
      let '(rs, ds) := query (negb (dbg =? 0)) (negb (desc =? 0)) facts (chars_of_zs src) in
      Z.of_nat (length rs) :: flat_map dump_result rs ++ Z.of_nat (length ds) :: List.map (fun p => phrase_index facts p 0) ds
  | _ => [-1]
  end.

(* tag 5: CBOR bytes of a rational (n, d) | tag 6: CBOR bytes of a unit expression | tag 7: unit expression decoded from bytes
   | tag 8: JSON text of a rational *)
Definition obs_rational_bytes (input : list Z) : list Z :=
  match input with [n; d] => List.map Z.of_N (rational_bytes n d) | _ => [-1] end.
Definition obs_compound_bytes (input : list Z) : list Z :=
  match input with
  | k :: rest => let '(c, _) := take_units (Z.to_nat k) rest in
                 match compound_bytes c with Some bs => List.map Z.of_N bs | None => [-1] end
  | _ => [-1]
  end.
Definition obs_compound_decode (input : list Z) : list Z :=
  match compound_of_bytes (List.map Z.to_N input) with Some c => 1 :: dump_compound c | None => [0] end.
Definition obs_rational_json (input : list Z) : list Z :=
  match input with [n; d] => List.map Z.of_N (json_rational n d) | _ => [-1] end.

(* tag 9: the command line: input = exact, then as tag 4 (debug, describe, facts, source); output = per result: 0, length, characters
   of the printed line | 1, start, end, error code *)
Definition dump_item (i : out_item) : list Z :=
  match i with
  | Line t => 0 :: Z.of_nat (length t) :: zs_of_chars t
  | Diagnostic (s, e) k => 1 :: Z.of_N s :: Z.of_N e :: ekind_code k
  | Crash => [2]
  end.
Definition obs_cli (input : list Z) : list Z :=
  match input with
  | ex :: dbg :: desc :: nfacts :: rest =>
      let '(facts, src) := take_facts (Z.to_nat nfacts) 0 rest in
      let '(rs, _) := query (negb (dbg =? 0)) (negb (desc =? 0)) facts (chars_of_zs src) in
      Z.of_nat (length rs) :: flat_map dump_item (render (negb (ex =? 0)) rs)
  | _ => [-1]
  end.

(* tag 10: generated::unit::parse on UTF-8 bytes; output = 1, bytes consumed, prefix exponent, unit key | 0 *)
Definition obs_parse_word (input : list Z) : list Z :=
  let bs := List.map Z.to_N input in
  match parse_word bs with
  | Some (rest, e, u) => [1; Z.of_nat (length bs - length rest); e; Z.of_N u]
  | None => [0]
  end.

(* tag 11: the recovery protocol: input = meta code, index code, then the crash points of the killed starts (-1: a completed start
   that keeps its index in memory);
   output = metadata current after the kills, index directory present after the kills, then after one completed start:
   answers from the shipped data, metadata current *)
Definition meta_of_code (c : Z) : meta :=
  match c with
  | 0 => MAbsent | 1 => MGarbage
  | _ => let k := Z.to_nat (c - 2) in
         MJson (match Nat.div k 3 with O => None | 1%nat => Some VThis | _ => Some VOther end)
               (match Nat.modulo k 3 with O => None | 1%nat => Some HCur | _ => Some HOther end)
  end.
Definition index_of_code (c : Z) : index :=
  match c with 0 => IMissing | 1 => IBroken | 2 => IOpen Empty | 3 => IOpen Shipped | _ => IOpen Other end.
Definition obs_dbproto (input : list Z) : list Z :=
  match input with
  | m :: i :: cps =>
      let d0 := {| dmeta := meta_of_code m; dindex := index_of_code i |} in
      let d1 := fold_left (fun d cp => if Z.eqb cp (-1) then mem_start d (* a start that keeps its index in memory *) else crash_run (Z.to_nat cp) d) cps d0 in
      let d2 := complete d1 in
      [if meta_current d1 then 1 else 0; match dindex d1 with IMissing => 0 | _ => 1 end;
       match answers d2 with Shipped => 1 | _ => 0 end; if meta_current d2 then 1 else 0]
  | _ => [-1]
  end.

(* tag 12: which document answers a lookup: input = the best-scored candidates of a query as position (in the translated shipped
   data, insertion order) and score bits, in any order; output = the position of the document a build by the translated writer
   answers with, and what the translated shipped data holds there: numerator, denominator, the search words *)
Fixpoint pairs_of (l : list Z) : list (N * Z) :=
  match l with p :: s :: r => (Z.to_N p, s) :: pairs_of r | _ => [] end.
Definition obs_winner (input : list Z) : list Z :=
  match winner (pairs_of input) with
  | None => [-1]
  | Some p =>
      match nth_error shipped (N.to_nat p) with
      | None => [-2]
      | Some (ws, (n, d), _, _) => [Z.of_N p; n; d; Z.of_nat (length ws)] ++ flat_map (fun w => Z.of_nat (length w) :: map Z.of_N w) ws
      end
  end.

Fixpoint zs_eqb0 (a b : list Z) : bool :=
  match a, b with
  | [], [] => true
  | x :: a', y :: b' => (x =? y) && zs_eqb0 a' b'
  | _, _ => false
  end.
(* tag 13: one observation of the search for a fact by its own words: input = position, answering position or -1, then the order
   of the word indices | tag 14: the positions of the constants whose words are a phrase of the query language, given = computed *)
Definition obs_find (input : list Z) : list Z :=
  match input with
  | p :: w :: idxs => observe_find (Z.to_nat p) (List.map Z.to_nat idxs) (if w <? 0 then None else Some (Z.to_nat w))
  | _ => [-1]
  end.
Definition obs_typeable (input : list Z) : list Z :=
  if zs_eqb0 input (List.map Z.of_N typeable_positions) then [1] else [0; Z.of_nat (length typeable_positions)].

Definition run_case (tag : Z) (input : list Z) : list Z :=
  match tag with
  | 1 => obs_lex_parse (chars_of_zs input)
  | 2 => obs_display input
  | 3 => obs_from_str input
  | 4 => obs_query input
  | 5 => obs_rational_bytes input
  | 6 => obs_compound_bytes input
  | 7 => obs_compound_decode input
  | 8 => obs_rational_json input
  | 9 => obs_cli input
  | 10 => obs_parse_word input
  | 11 => obs_dbproto input
  | 12 => obs_winner input
  | 13 => obs_find input
  | 14 => obs_typeable input
  | _ => [-1]
  end.

Fixpoint zs_eqb (a b : list Z) : bool :=
  match a, b with
  | [], [] => true
  | x :: a', y :: b' => (x =? y) && zs_eqb a' b'
  | _, _ => false
  end.

Definition case := (Z * Z * list Z * list Z)%type.     (* index, tag, input, expected *)
Definition failing (cs : list case) : list (Z * list Z) :=
  flat_map (fun c => let '(i, tag, inp, ex) := c in
                     let got := run_case tag inp in
                     if zs_eqb got ex then [] else [(i, got)]) cs.
