(* Model of `impl Display for rational::Display` (src/rational/display.rs): the three paths format_big, format_whole and
   the small-fraction loop, with `emit` (long division) and `digits`. [fmt] computes what is printed as
   (mantissa, power of ten up, power of ten down, mark) plus the layout facts [display] needs to place the point;
   [display] renders the characters. Definitions only. *)
From Coq Require Import ZArith QArith List Lia Bool.
Import ListNotations.
From AV Require Import model.Syntax.
Open Scope Z_scope.

Fixpoint val (acc : Z) (ds : list Z) : Z := match ds with [] => acc | d :: r => val (acc * 10 + d) r end.

(* `emit`: long division, at most k digits, stops when the remainder is exhausted *)
Fixpoint emit (k : nat) (rem den : Z) : list Z * Z :=
  match k with
  | O => ([], rem)
  | S k' => if rem =? 0 then ([], rem)
            else let dg := (rem * 10) / den in
                 let (ds, r') := emit k' (rem * 10 - den * dg) den in (dg :: ds, r')
  end.

(* `digits`: decimal length minus one, by repeated division (fuel = bit size is enough) *)
Fixpoint ndig (fuel : nat) (z : Z) : nat :=
  match fuel with O => O | S f => if z / 10 =? 0 then O else S (ndig f (z / 10)) end.
Definition digits (z : Z) : nat := ndig (S (Z.to_nat (Z.log2 z))) z.

(* skip leading zero digits of a proper fraction rem/den (0 < rem < den): count and the remainder before the first non-zero digit *)
Fixpoint skip0 (fuel : nat) (rem den : Z) : nat * Z :=
  match fuel with
  | O => (O, rem)
  | S f => if (rem * 10) / den =? 0 then let (z, r) := skip0 f (rem * 10) den in (S z, r) else (O, rem)
  end.

Inductive path := Big | Whole | Small.
Record text := { mant : Z; up : nat; down : nat; mark : bool; tpath : path; zeros : nat; edig : nat }.

(* a >= 0 is the absolute value of the numerator, d > 0 the denominator *)
Definition fmt (a d : Z) (limit el : nat) : text :=
  let dv := a / d in
  let rem := a - d * dv in
  let e := digits dv in
  if (el <=? e)%nat then
    (* format_big *)
    let used := Nat.min limit e in
    if (used <? e)%nat then
      let cut := (e - used)%nat in
      {| mant := dv / 10 ^ Z.of_nat cut; up := cut; down := O;
         mark := negb (dv mod 10 ^ Z.of_nat cut =? 0) || negb (rem =? 0); tpath := Big; zeros := O; edig := e |}
    else
      let remaining := (limit - used)%nat in
      let (ds, r') := emit remaining rem d in
      {| mant := val dv ds; up := O; down := length ds; mark := negb (r' =? 0); tpath := Big; zeros := O; edig := e |}
  else if negb (dv =? 0) || (rem =? 0) then
    (* format_whole *)
    let (ds, r') := emit limit rem d in
    {| mant := val dv ds; up := O; down := length ds; mark := negb (r' =? 0); tpath := Whole; zeros := O; edig := e |}
  else
    (* small fraction: leading zeros do not count against the digit budget *)
    let (z, r0) := skip0 (S (Z.to_nat (Z.log2 d))) rem d in
    let (ds, r') := emit limit r0 d in
    {| mant := val 0 ds; up := O; down := (z + length ds)%nat; mark := negb (r' =? 0); tpath := Small; zeros := z; edig := length ds |}.

(* ---- rendering ---- *)
Definition digit_chr (d : Z) : chr := Z.to_N (48 + d).
Fixpoint dec_aux (fuel : nat) (z : Z) (acc : list chr) : list chr :=
  match fuel with
  | O => acc
  | S f => let acc' := digit_chr (z mod 10) :: acc in if z / 10 =? 0 then acc' else dec_aux f (z / 10) acc'
  end.
Definition dec (z : Z) : list chr := dec_aux (S (Z.to_nat (Z.log2 z))) z [].     (* decimal digits of z >= 0 *)

Definition MARK : chr := 8230%N.    (* the continuation mark, U+2026 *)

Definition display_abs (neg : bool) (a d : Z) (limit el : nat) : list chr :=
  let t := fmt a d limit el in
  let sign := if neg then [45%N] else [] in
  let markc := if mark t then [MARK] else [] in
  let ds := dec (mant t) in
  match tpath t with
  | Big =>
      sign ++ firstn 1 ds ++ (if (0 <? edig t)%nat then [46%N] else []) ++ skipn 1 ds ++ markc ++
      (if (0 <? edig t)%nat then 101%N :: dec (Z.of_nat (edig t)) else [])
  | Whole =>
      let k := (length ds - down t)%nat in
      sign ++ firstn k ds ++ (if (0 <? down t)%nat then 46%N :: skipn k ds else []) ++ markc
  | Small =>
      match edig t with
      | O => markc ++ [101%N; 45%N; 49%N]                        (* limit = 0: nothing but the mark and e-1 *)
      | _ =>
        if (el <=? S (zeros t))%nat then
          sign ++ firstn 1 ds ++ (if (1 <? edig t)%nat then 46%N :: skipn 1 ds else []) ++ markc ++
          101%N :: 45%N :: dec (Z.of_nat (S (zeros t)))
        else
          sign ++ [48%N; 46%N] ++ repeat 48%N (zeros t) ++ ds ++ markc
      end
  end.

(* Rational::display on an unreduced rational: the result does not depend on the representative *)
Definition display (q : Q) (limit el : nat) : list chr :=
  display_abs (Qnum q <? 0) (Z.abs (Qnum q)) (Zpos (Qden q)) limit el.
