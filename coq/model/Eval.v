(* Model of src/eval.rs, src/eval/builtin.rs and src/query.rs over the syntax forest of model/Grammar.v.
   Nodes are annotated with their byte spans first; evaluation threads the descriptions collected so far and returns
   a value, a located error, or a distinguished Panic (a debug assertion or a panicking library call of the Rust code).
   The fact database is a parameter: an association list from phrases to what `Db::lookup` answered. Definitions only. *)
From Coq Require Import ZArith NArith QArith Qpower List Bool.
Import ListNotations.
From AV Require Import model.Syntax model.Grammar model.Literal model.Rat model.UnitTypes model.Map model.Units
  model.Compound model.UnitWord.
Open Scope Z_scope.

(* ---- annotated trees: every node with its byte span ---- *)
Inductive atree := ATok (k : kind) (text : list chr) (s e : N) | ANode (k : kind) (ch : list atree) (s e : N).
Definition akind (t : atree) : kind := match t with ATok k _ _ _ | ANode k _ _ _ => k end.
Definition aspan (t : atree) : N * N := match t with ATok _ _ s e | ANode _ _ s e => (s, e) end.
Definition achildren (t : atree) : list atree := match t with ATok _ _ _ _ => [] | ANode _ ch _ _ => ch end.
Definition has_children (t : atree) : bool := match achildren t with [] => false | _ => true end.
Definition skip_tokens (l : list atree) : list atree := filter has_children l.

Fixpoint annotate (pos : N) (t : tree) : atree * N :=
  match t with
  | Tok k text => let e := (pos + utf8_size text)%N in (ATok k text pos e, e)
  | Node k ch =>
      let '(ach, e) := (fix go (p : N) (l : list tree) : list atree * N :=
                          match l with
                          | [] => ([], p)
                          | x :: r => let '(ax, p1) := annotate p x in let '(ar, p2) := go p1 r in (ax :: ar, p2)
                          end) pos ch in
      (ANode k ach pos e, e)
  end.
Fixpoint annotate_forest (pos : N) (f : list tree) : list atree :=
  match f with [] => [] | x :: r => let '(ax, p) := annotate pos x in ax :: annotate_forest p r end.

(* the source text a node covers *)
Fixpoint atext (t : atree) : list chr :=
  match t with
  | ATok _ text _ _ => text
  | ANode _ ch _ _ => (fix go (l : list atree) := match l with [] => [] | x :: r => atext x ++ go r end) ch
  end.

(* ---- results ---- *)
Inductive ekind :=
  | SyntaxError | DivideByZero | LookupError | IllegalOperation | ConversionNotPossible | IllegalCast | ParseRationalError
  | BadNumber | Unexpected (k : kind) | Expected (actual expected : kind) | Missing | IllegalUnit | MissingFunction
  | ArgumentMismatch (expected actual : nat) | BadArgument | NonFinite | MissingNode | PrefixMismatch | IllegalUnitNumber
  | IllegalPowerUnit | IllegalPowerNonInteger | IllegalPowerTooLarge.

Definition numeric := (Q * compound)%type.
Inductive res (A : Type) :=
  | Ok (a : A)
  | Error (span : N * N) (k : ekind)
  | Panic (why : N)          (* 1 = Compound::new debug assertion, 2 = recip of zero, 3 = builder misuse / out of fuel *)
  | Opaque.                  (* sin / cos: computed in f64, outside the model *)
Arguments Ok {A}. Arguments Error {A}. Arguments Panic {A}. Arguments Opaque {A}.

Definition bind {A B} (r : res A) (f : A -> res B) : res B :=
  match r with Ok a => f a | Error s k => Error s k | Panic w => Panic w | Opaque => Opaque end.
Notation "'do' x <- r ; f" := (bind r (fun x => f)) (at level 200, x pattern, r at level 100, f at level 200).

(* what Db::lookup answered for a phrase *)
Inductive lookup := Found (id : Z) (v : Q) (u : compound) | NotFound | LookupFailed.
Definition db := list (list chr * lookup).
Fixpoint chars_eqb (a b : list chr) : bool :=
  match a, b with [], [] => true | x :: a', y :: b' => (x =? y)%N && chars_eqb a' b' | _, _ => false end.
Fixpoint db_lookup (d : db) (s : list chr) : lookup :=
  match d with [] => NotFound | (p, l) :: r => if chars_eqb p s then l else db_lookup r s end.

(* ---- the binary operators (eval.rs add / sub / mul / div / pow) ---- *)
Section Ops.
Variable debug : bool.       (* debug assertions enabled *)

Definition adopt (a b : compound) : compound := if is_empty a then b else a.

Definition op_add (span : N * N) (a b : numeric) : res numeric :=
  match factor (snd a) (snd b) (fst b) with
  | Some (true, bv) => Ok ((fst a + bv)%Q, adopt (snd a) (snd b))
  | Some (false, _) => Error span IllegalOperation
  | None => Error span ConversionNotPossible
  end.
Definition op_sub (span : N * N) (a b : numeric) : res numeric :=
  match factor (snd a) (snd b) (fst b) with
  | Some (true, bv) => Ok ((fst a - bv)%Q, adopt (snd a) (snd b))
  | Some (false, _) => Error span IllegalOperation
  | None => Error span ConversionNotPossible
  end.
Definition checked_new (c : compound) : res compound :=
  if debug && negb (nonzero_powers c) then Panic 1 else Ok c.
Definition op_mul (span : N * N) (a b : numeric) : res numeric :=
  match mul (snd a) (snd b) 1 (fst a) (fst b) with
  | None => Error span ConversionNotPossible
  | Some (u, av, bv) =>
      do u' <- (if is_empty (snd a) || is_empty (snd b) then Ok u else checked_new u);
      Ok ((av * bv)%Q, u')
  end.
Definition op_div (span : N * N) (a b : numeric) : res numeric :=
  match mul (snd a) (snd b) (-1) (fst a) (fst b) with
  | None => Error span ConversionNotPossible
  | Some (u, av, bv) =>
      do u' <- (if is_empty (snd a) || is_empty (snd b) then Ok u else checked_new u);
      if is_zero bv then Error span DivideByZero else Ok ((av / bv)%Q, u')
  end.
(* the multiplication loop of pow: |n| factors *)
Fixpoint pow_loop (fuel : nat) (b acc : Q) : Q := match fuel with O => acc | S f => pow_loop f b (acc * b)%Q end.
Definition op_pow (span : N * N) (base p : numeric) : res numeric :=
  if negb (is_empty (snd p)) then Error span IllegalPowerUnit
  else if negb (is_integer (fst p)) then Error span IllegalPowerNonInteger
  else
    let n := to_integer (fst p) in
    do unit <- (if is_empty (snd base) then Ok (snd base)
                else match (if in_i32 n then cpow (snd base) n else None) with
                     | Some u => Ok u
                     | None => Error span IllegalPowerTooLarge
                     end);
    if n =? 0 then Ok (1%Q, unit)
    else if is_zero (fst base) then (if n <? 0 then Error span DivideByZero else Ok (fst base, unit))
    else
      let b := if n <? 0 then Qinv (fst base) else fst base in
      Ok (pow_loop (Z.to_nat (Z.abs n)) b 1%Q, unit).

(* ---- builtins (eval/builtin.rs) ---- *)
Definition fn_one (span : N * N) (args : list numeric) : res numeric :=
  match args with [a] => Ok a | _ => Error span (ArgumentMismatch 1 (length args)) end.
Definition fn_round (span : N * N) (args : list numeric) : res numeric :=
  do fs <- (match args with
            | [a] => Ok (a, 0)
            | [a; b] => match to_i32 (fst b) with Some s => Ok (a, s) | None => Error span BadArgument end
            | _ => Error span (ArgumentMismatch (match args with [] => 1 | _ => 2 end) (length args))
            end);
  let '(first, second) := fs in
  let v := if (0 <=? second) && is_integer (fst first) then fst first
           else if second =? 0 then round_q (fst first)
           else let ten := pow10 second in (round_q (fst first * ten) / ten)%Q in
  if debug && negb ((0 <? second) || is_integer v) then Panic 4 else Ok (v, snd first).
Definition fn_floor (span : N * N) (args : list numeric) : res numeric :=
  do a <- fn_one span args; Ok (floor_q (fst a), snd a).
Definition fn_ceil (span : N * N) (args : list numeric) : res numeric :=
  do a <- fn_one span args; Ok (ceil_q (fst a), snd a).
Definition fn_trig (span : N * N) (args : list numeric) : res numeric :=
  do a <- fn_one span args; Opaque.

Definition builtin (name : list chr) : option (N * N -> list numeric -> res numeric) :=
  if chars_eqb name [115; 105; 110]%N then Some fn_trig                     (* sin *)
  else if chars_eqb name [99; 111; 115]%N then Some fn_trig                 (* cos *)
  else if chars_eqb name [114; 111; 117; 110; 100]%N then Some fn_round     (* round *)
  else if chars_eqb name [102; 108; 111; 111; 114]%N then Some fn_floor     (* floor *)
  else if chars_eqb name [99; 101; 105; 108]%N then Some fn_ceil            (* ceil *)
  else None.

(* ---- units (eval::unit) ---- *)
(* str::parse::<i32>: optional sign, at least one digit, nothing else, in range *)
Fixpoint digits_val (s : list chr) (acc : Z) : option Z :=
  match s with
  | [] => Some acc
  | c :: r => if ((48 <=? c) && (c <=? 57))%N then digits_val r (acc * 10 + (Z.of_N c - 48)) else None
  end.
Definition parse_i32 (s : list chr) : option Z :=
  let '(neg, ds) := match s with 45%N :: r => (true, r) | 43%N :: r => (false, r) | _ => (false, s) end in
  match ds with
  | [] => None
  | _ => match digits_val ds 0 with
         | Some v => let z := if neg then - v else v in if in_i32 z then Some z else None
         | None => None
         end
  end.

(* the UnitParser loop over one word *)
Fixpoint update_all (span : N * N) (c : compound) (current : Z) (l : list (Z * unit)) (last : option (Z * unit))
  : res (compound * option (Z * unit)) :=
  match l with
  | [] => Ok (c, last)
  | (e, u) :: r => match update c u current e with
                   | inl c' => update_all span c' current r (Some (e, u))
                   | inr _ => Error span PrefixMismatch
                   end
  end.

(* first node (with children) of a list, and what follows it *)
Fixpoint next_node (l : list atree) : option (atree * list atree) :=
  match l with [] => None | x :: r => if has_children x then Some (x, r) else next_node r end.

Fixpoint unit_loop (fuel : nat) (nodes : list atree) (current : Z) (c : compound) (last : option (Z * unit)) : res compound :=
  match fuel with
  | O => Panic 3
  | S f =>
      match next_node nodes with
      | None => Ok c
      | Some (node, rest) =>
          match akind node with
          | NUMBER =>
              match parse_i32 (atext node) with
              | None => Error (aspan node) BadNumber
              | Some p => if negb (p =? 1) then Error (aspan node) IllegalUnitNumber else unit_loop f rest current c last
              end
          | WORD =>
              let '(l, bad) := parse_units (S (length (utf8 (atext node)))) (utf8 (atext node)) in
              do cl <- update_all (aspan node) c current l last;
              match bad with
              | Some _ => Error (aspan node) IllegalUnit
              | None => unit_loop f rest current (fst cl) (snd cl)
              end
          | OP_POWER =>
              match last, next_node rest with
              | Some (e, u), Some (n, rest') =>
                  if kind_beq (akind n) NUMBER then
                    match parse_i32 (atext n) with
                    | None => Error (aspan n) BadNumber
                    | Some p =>
                        let r := p * current - current in
                        let c' := if r =? 0 then c else match update c u r e with inl c' => c' | inr _ => c end in
                        unit_loop f rest' current c' None
                    end
                  else Error (aspan n) (Unexpected (akind n))
              | None, Some (n, _) => Error (aspan n) (Unexpected (akind n))
              | _, None => Error (aspan node) (Unexpected (akind node))
              end
          | OP_DIV => unit_loop f rest (- current) c last
          | WHITESPACE | OP_MUL => unit_loop f rest current c last
          | k => Error (aspan node) (Unexpected k)
          end
      end
  end.
Definition eval_unit (children : list atree) : res compound := unit_loop (S (length children)) children 1 [] None.

(* ---- eval ---- *)
Variable facts : db.

Definition st := list (list chr).                    (* phrases described so far, in order *)
Variable describe : bool.

Inductive delayed := DNode (t : atree) | DNum (n : numeric).

Definition parse_number (span : N * N) (text : list chr) : res numeric :=
  match from_str (List.map Z.of_N (utf8 text)) with
  | Literal.Ok num scale => Ok (to_Q num scale, [])
  | Literal.Err => Error span ParseRationalError
  end.

(* the loop of an OPERATION node over its (operator, operand) pairs; [ev] evaluates a sub-node *)
Definition force (ev : atree -> st -> res numeric * st) (b : delayed) (d : st) : res numeric * st :=
  match b with DNode n => ev n d | DNum x => (Ok x, d) end.
Definition binop_of (k : kind) : option (N * N -> numeric -> numeric -> res numeric) :=
  match k with
  | OP_ADD => Some op_add | OP_SUB => Some op_sub | OP_DIV => Some op_div
  | OP_MUL | OP_IMPLICIT_MUL => Some op_mul | OP_POWER => Some op_pow
  | _ => None
  end.
Fixpoint op_loop (ev : atree -> st -> res numeric * st) (span : N * N) (rest : list atree) (base : delayed) (d : st)
  {struct rest} : res numeric * st :=
  match rest with
  | op :: rhs :: rest' =>
      match akind op with
      | OP_CAST =>
          match eval_unit (achildren rhs) with
          | Ok target =>
              match force ev base d with
              | (Ok lhs, d1) =>
                  match factor target (snd lhs) (fst lhs) with
                  | Some (true, v) => op_loop ev span rest' (DNum (v, target)) d1
                  | Some (false, _) => (Error span IllegalCast, d1)
                  | None => (Error span ConversionNotPossible, d1)
                  end
              | (r, d1) => (r, d1)
              end
          | Error s k => (Error s k, d)
          | Panic w => (Panic w, d)
          | Opaque => (Opaque, d)
          end
      | ERROR => (Error (aspan op) SyntaxError, d)
      | k =>
          match binop_of k with
          | None => (Error (aspan op) (Unexpected k), d)
          | Some fn =>
              match ev rhs d with
              | (Ok r, d1) =>
                  match force ev base d1 with
                  | (Ok b, d2) =>
                      match fn span b r with
                      | Ok x => op_loop ev span rest' (DNum x) d2
                      | Error s k => (Error s k, d2)
                      | Panic w => (Panic w, d2)
                      | Opaque => (Opaque, d2)
                      end
                  | (r', d2) => (r', d2)
                  end
              | (r', d1) => (r', d1)
              end
          end
      end
  | _ => force ev base d
  end.

(* the arguments of a call, left to right *)
Fixpoint args_loop (ev : atree -> st -> res numeric * st) (l : list atree) (acc : list numeric) (d : st) : res (list numeric) * st :=
  match l with
  | [] => (Ok acc, d)
  | a :: r => match ev a d with
              | (Ok v, d1) => args_loop ev r (acc ++ [v]) d1
              | (Error s k, d1) => (Error s k, d1)
              | (Panic w, d1) => (Panic w, d1)
              | (Opaque, d1) => (Opaque, d1)
              end
  end.

Fixpoint eval (fuel : nat) (t : atree) (d : st) {struct fuel} : res numeric * st :=
  match fuel with
  | O => (Panic 3, d)
  | S f =>
    let span := aspan t in
    match akind t with
    | OPERATION =>
        match skip_tokens (achildren t) with
        | [] => (Error span MissingNode, d)
        | base :: rest => op_loop (eval f) span rest (DNode base) d
        end
    | NUMBER => (parse_number span (atext t), d)
    | WITH_UNIT =>
        match achildren t with
        | [] => (Error span MissingNode, d)
        | value_node :: rest =>
            match next_node rest with
            | None => (Error span MissingNode, d)
            | Some (unit_node, _) =>
                if negb (kind_beq (akind unit_node) UNIT) then (Error (aspan unit_node) (Expected (akind unit_node) UNIT), d)
                else
                  match eval f value_node d with
                  | (Ok v, d1) =>
                      match eval_unit (achildren unit_node) with
                      | Ok u => (Ok (fst v, u), d1)
                      | Error s k => (Error s k, d1)
                      | Panic w => (Panic w, d1)
                      | Opaque => (Opaque, d1)
                      end
                  | (r, d1) => (r, d1)
                  end
            end
        end
    | SENTENCE | WORD =>
        let s := atext t in
        match db_lookup facts s with
        | LookupFailed => (Error span LookupError, d)
        | NotFound => (Error span Missing, d)
        | Found _ v u => (Ok (v, u), if describe then d ++ [s] else d)
        end
    | PERCENTAGE =>
        match achildren t with
        | number :: _ =>
            if kind_beq (akind number) NUMBER then
              match parse_number span (atext number) with
              | Ok v => (Ok ((fst v / (100 # 1))%Q, []), d)
              | r => (r, d)
              end
            else (Error (aspan number) (Unexpected NUMBER), d)
        | [] => (Error span (Unexpected NUMBER), d)
        end
    | FN_CALL =>
        match skip_tokens (achildren t) with
        | name :: more =>
            if negb (kind_beq (akind name) FN_NAME) then (Error span (Unexpected FN_NAME), d)
            else match more with
                 | arguments :: _ =>
                     if negb (kind_beq (akind arguments) FN_ARGUMENTS) then (Error span (Unexpected FN_ARGUMENTS), d)
                     else
                       let '(rargs, d1) := args_loop (eval f) (skip_tokens (achildren arguments)) [] d in
                       match rargs with
                       | Ok argv => match builtin (atext name) with
                                    | Some fn => (fn span argv, d1)
                                    | None => (Error span MissingFunction, d1)
                                    end
                       | Error s k => (Error s k, d1)
                       | Panic w => (Panic w, d1)
                       | Opaque => (Opaque, d1)
                       end
                 | [] => (Error span (Unexpected FN_ARGUMENTS), d)
                 end
        | [] => (Error span (Unexpected FN_NAME), d)
        end
    | ERROR => (Error span SyntaxError, d)
    | k => (Error span (Unexpected k), d)
    end
  end.

Fixpoint asize (t : atree) : nat :=
  match t with
  | ATok _ _ _ _ => 1
  | ANode _ ch _ _ => S ((fix go (l : list atree) := match l with [] => O | x :: r => (asize x + go r)%nat end) ch)
  end.

(* Query: one result per root node that has children, sharing the description list *)
Fixpoint eval_roots (roots : list atree) (d : st) : list (res numeric) * st :=
  match roots with
  | [] => ([], d)
  | t :: r => let '(x, d1) := eval (S (asize t)) t d in let '(xs, d2) := eval_roots r d1 in (x :: xs, d2)
  end.
End Ops.
