(* Types shared by the generated tables (coq/gen) and the unit model. *)
From Coq Require Import ZArith NArith List.
Import ListNotations.

(* A unit key: a derived unit is its u32 identifier, a base unit is 2^32 + its index in the variant order of `enum Unit`.
   The order of keys as numbers is the derived `Ord` of `Unit` (Derived first, by id; then the bases in declaration order),
   i.e. the iteration order of the BTreeMap inside `Compound`. *)
Definition unit := N.
Definition BASE_CODE : N := 4294967296%N.
Definition base_key (i : N) : unit := (BASE_CODE + i)%N.
Definition is_base (u : unit) : bool := (BASE_CODE <=? u)%N.

(* steps of a `Conversion::Methods` closure: `*num op= Rational::new(n, d)` *)
Inductive mop := MSub (n d : Z) | MMul (n d : Z) | MAdd (n d : Z).
Inductive conv := CNone | CFactor (n d : Z) | COffset (n d : Z) | CMethods (to from : list mop).

(* what parse() does with a token of the generated unit-word lexers *)
Inductive wtok :=
  | WUnit (u : unit) (bias : Z)                                         (* a unit name; gram carries -3 *)
  | WPrefix (e : Z) (alone : option (list N * unit * Z))                 (* a prefix; when nothing follows and the token was spelled
                                                                           `slice` it is that unit instead *)
  | WSep.                                                               (* "-" *)

(* outcome of one raw lexer step that stopped at a trie node *)
Inductive outcome := OEnd | OErr | OTok (t : wtok) (len : nat).
(* a trie node: the bytes leading to it, its outgoing edges, and the two observed outcomes *)
Record node := { npath : list N; edges : list (N * nat); at_end : outcome; at_other : outcome }.
