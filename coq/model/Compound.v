(* Model of src/compound.rs: `Compound` (a BTreeMap from unit to {power, prefix}), update, factor, mul with
   reconstruct / bases_match / inner_match, apply_conversion, pow, and the Display impls. Definitions only. *)
From Coq Require Import ZArith NArith QArith Qpower List Bool.
Import ListNotations.
From AV Require Import model.Syntax model.UnitTypes model.Map model.Units model.Rat model.Display gen.UnitDefs.
Open Scope Z_scope.

Definition state := (Z * Z)%type.                 (* power, prefix *)
Definition compound := nmap state.
Definition spower (s : state) := fst s.
Definition sprefix (s : state) := snd s.

(* Compound::update: Err(expected prefix) on a prefix mismatch *)
Definition update (c : compound) (u : unit) (power prefix : Z) : compound + Z :=
  match get c u with
  | None => inl (put c u (power, prefix))
  | Some (p0, e0) =>
      if negb (e0 =? prefix) then inr e0
      else if p0 + power =? 0 then inl (del c u) else inl (put c u (p0 + power, e0))
  end.

Definition has_numerator (c : compound) : bool := existsb (fun us => 0 <? spower (snd us)) c.
Definition is_empty (c : compound) : bool := match c with [] => true | _ => false end.
Definition is_alone (c : compound) (s : state) : bool := (length c =? 1)%nat && (spower s =? 1).

(* Compound::base_units: the derived units met (with their powers) and the accumulated base powers *)
Definition bu_step (acc : list (unit * Z) * powers) (us : unit * state) : list (unit * Z) * powers :=
  let u := fst us in let p := spower (snd us) in
  if is_base u then (fst acc, pinsert (snd acc) u p) else (fst acc ++ [(u, p)], add_closure (snd acc) u p).
Definition base_units (c : compound) : list (unit * Z) * powers := fold_left bu_step c ([], []).

Definition run_mops (ops : list mop) (v : Q) : Q :=
  fold_left (fun v op => match op with
                         | MSub n d => v - Qmake n (Z.to_pos d)
                         | MMul n d => v * Qmake n (Z.to_pos d)
                         | MAdd n d => v + Qmake n (Z.to_pos d)
                         end)%Q ops v.

(* apply_conversion: None = CompoundError *)
Definition apply_conversion (pow : Z) (alone : bool) (v : Q) (c : conv) : option Q :=
  match c with
  | CNone => Some v
  | CMethods to from =>
      if negb (Z.abs pow =? 1) || negb alone then None
      else Some (if pow <? 0 then run_mops from v else run_mops to v)
  | CFactor n d => Some (if pow =? 0 then v else v * (Qmake n (Z.to_pos d)) ^ pow)%Q
  | COffset n d =>
      if negb (Z.abs pow =? 1) || negb alone then None
      else Some (v + Qmake n (Z.to_pos d) * inject_Z pow)%Q
  end.

(* the two conversion loops shared by factor and mul *)
Definition scale_in (c : compound) (v : Q) : option Q :=
  fold_left (fun acc us => match acc with
                           | None => None
                           | Some v => let st := snd us in
                                       apply_conversion (spower st) (is_alone c st) (v * pow10 (sprefix st * spower st))%Q (conv_of (fst us))
                           end) c (Some v).
Definition scale_out (c : compound) (v : Q) : option Q :=
  fold_left (fun acc us => match acc with
                           | None => None
                           | Some v => let st := snd us in
                                       match apply_conversion (- spower st) (is_alone c st) v (conv_of (fst us)) with
                                       | None => None
                                       | Some v' => Some (v' / pow10 (sprefix st * spower st))%Q
                                       end
                           end) c (Some v).

Definition same_bases (l r : powers) : bool :=
  (length l =? length r)%nat &&
  forallb (fun bv => match get l (fst bv) with Some v => v =? snd bv | None => false end) r.

(* Compound::factor: `self` is the target. None = CompoundError; Some (ok, value) *)
Definition factor (self other : compound) (v : Q) : option (bool * Q) :=
  if is_empty self || is_empty other then Some (true, v)
  else if negb (same_bases (snd (base_units self)) (snd (base_units other))) then Some (false, v)
  else match scale_in other v with
       | None => None
       | Some v1 => match scale_out self v1 with None => None | Some v2 => Some (true, v2) end
       end.

(* ---- mul ---- *)
Definition sgn (z : Z) : Z := Z.sgn z.

(* inner_match: search downwards from cur for the largest multiple that still fits into what `names` holds *)
Fixpoint inner_loop (fuel : nat) (base s cur dec : Z) : bool * Z :=
  match fuel with
  | O => (false, cur)
  | S f =>
      if cur =? 0 then (false, cur)
      else let p := base * cur in
           if (sgn p =? sgn s) && (p * sgn p <=? s * sgn s) then (true, cur)
           else inner_loop f base s (cur - dec) dec
  end.
Definition inner_match (names : compound) (u : unit) (base cur dec : Z) : bool * Z :=
  match get names u with
  | None => (false, cur)
  | Some st => inner_loop (S (Z.to_nat (Z.abs cur))) base (spower st) cur dec
  end.
(* bases_match: `powers.iter().all(..)` with the shared, shrinking `power` *)
Fixpoint all_match (names : compound) (pw : list (unit * Z)) (cur dec : Z) : option Z :=
  match pw with
  | [] => Some cur
  | (u, p) :: r => let (ok, cur') := inner_match names u p cur dec in if ok then all_match names r cur' dec else None
  end.
Definition bases_match (power : Z) (pw : powers) (names : compound) : option Z := all_match names pw power (sgn power).

(* one step of reconstruct for the derived unit `u` that occurred with `power` on a side multiplied by n *)
Definition sub_bases (names : compound) (pw : powers) (m : Z) : compound :=
  fold_left (fun nm us => match get nm (fst us) with
                          | Some (p, e) => let p' := p - snd us * m in if p' =? 0 then del nm (fst us) else put nm (fst us) (p', e)
                          | None => nm
                          end) pw names.
Definition reconstruct_step (acc : option (compound * Q)) (d : unit * Z * Z) : option (compound * Q) :=
  match acc with
  | None => None
  | Some (names, out) =>
      let '(u, power, n) := d in
      if has_offset u then Some (names, out)
      else
        let pw := add_closure [] u 1 in
        match bases_match (power * n) pw names with
        | None => Some (names, out)
        | Some m =>
            let names1 := sub_bases names pw m in
            let names2 := match get names1 u with
                          | None => put names1 u (m, 0)
                          | Some (p, e) => put names1 u (p + m, e)
                          end in
            match apply_conversion (- m) false out (conv_of u) with
            | None => None
            | Some out' => Some (names2, out')
            end
        end
  end.

(* Compound::mul: None = CompoundError; Some (unit, lhs', rhs') *)
Definition mul (self other : compound) (n : Z) (lhs rhs : Q) : option (compound * Q * Q) :=
  if is_empty self || is_empty other then
    Some (if is_empty self then List.map (fun us => (fst us, (spower (snd us) * n, sprefix (snd us)))) other else self, lhs, rhs)
  else
    let '(lder, lb) := base_units self in
    let '(rder, rb) := base_units other in
    let names0 : compound := List.map (fun bp => (fst bp, (snd bp, 0))) lb in
    let names1 := fold_left (fun nm bp => match get nm (fst bp) with
                                          | None => put nm (fst bp) (snd bp * n, 0)
                                          | Some (p, e) => let p' := p + snd bp * n in if p' =? 0 then del nm (fst bp) else put nm (fst bp) (p', e)
                                          end) rb names0 in
    match scale_in self lhs with
    | None => None
    | Some lhs1 =>
        match scale_in other rhs with
        | None => None
        | Some rhs1 =>
            let der := List.map (fun up => (fst up, snd up, 1)) lder ++ List.map (fun up => (fst up, snd up, n)) rder in
            match fold_left reconstruct_step der (Some (names1, lhs1)) with
            | None => None
            | Some (names, lhs2) => Some (names, lhs2, rhs1)
            end
        end
    end.

(* the debug assertion of Compound::new *)
Definition nonzero_powers (c : compound) : bool := forallb (fun us => negb (spower (snd us) =? 0)) c.

(* Compound::pow (None when an i32 power overflows) *)
Definition cpow (c : compound) (n : Z) : option compound :=
  if n =? 0 then Some []
  else if forallb (fun us => in_i32 (spower (snd us) * n)) c
       then Some (List.map (fun us => (fst us, (spower (snd us) * n, sprefix (snd us)))) c)
       else None.

(* ---- Display ---- *)
Definition superscript (d : Z) : N := nth (Z.to_nat d) superscripts 8313%N.
Fixpoint super_digits (fuel : nat) (z : Z) (acc : list N) : list N :=
  match fuel with O => acc | S f => if z =? 0 then acc else super_digits f (z / 10) (superscript (z mod 10) :: acc) end.
(* Unit::display: prefix letters (or e<extra>), suffix, superscript power; `n` is 1 for the numerator, -1 below the bar.
   The power is cast to u32, which for the values printed here (n * power > 0) is the identity. *)
Definition unit_display (u : unit) (st : state) (pluralize : bool) (n : Z) : list N :=
  let '(letters, extra) := find_prefix (sprefix st + prefix_bias u) in
  let pre := if extra =? 0 then letters else (101%N :: (if extra <? 0 then 45%N :: dec (- extra) else dec extra)) ++ letters in
  let power := spower st * n in
  pre ++ unit_suffix u pluralize ++
  (if power =? 1 then [] else if power <? 10 then [superscript power] else super_digits 12 power []).

Fixpoint join_dot (l : list (list N)) : list N :=
  match l with [] => [] | [x] => x | x :: r => x ++ 8901%N :: join_dot r end.       (* U+22C5 *)
Definition compound_display (c : compound) (pluralize : bool) : list N :=
  let num := filter (fun us => 0 <=? spower (snd us)) c in
  let den := filter (fun us => spower (snd us) <? 0) c in
  let pl := if (length num =? 1)%nat then pluralize else false in
  join_dot (List.map (fun i_us => unit_display (fst (snd i_us)) (snd (snd i_us)) (pl && (fst i_us =? 0)%nat) 1)
                     (combine (seq 0 (length num)) num)) ++
  match den with
  | [] => []
  | _ => 47%N :: join_dot (List.map (fun us => unit_display (fst us) (snd us) false (-1)) den)
  end.
