(* The unit vocabulary as the evaluator sees it: closures, conversions and display names looked up in the translated
   tables (coq/gen/UnitDefs.v, Prefixes.v), `Powers` (src/powers.rs) and `Prefix::find`. Definitions only. *)
From Coq Require Import ZArith NArith QArith List Bool.
Import ListNotations.
From AV Require Import model.UnitTypes model.Map gen.UnitDefs gen.Prefixes.
Open Scope Z_scope.

Definition drow := (N * list (N * Z) * conv * list N * list N)%type.
Fixpoint find_derived (t : list drow) (id : N) : option drow :=
  match t with
  | [] => None
  | ((i, _, _, _, _) as r) :: rest => if (i =? id)%N then Some r else find_derived rest id
  end.
Definition derived (u : unit) : option drow := if is_base u then None else find_derived derived_table u.

(* `Unit::powers(self, powers, 1)` as a list: a base unit is itself, a derived unit its closure *)
Definition closure_of (u : unit) : list (unit * Z) :=
  if is_base u then [(u, 1)]
  else match derived u with Some (_, cl, _, _, _) => List.map (fun bk => (base_key (fst bk), snd bk)) cl | None => [] end.
Definition conv_of (u : unit) : conv := match derived u with Some (_, _, c, _, _) => c | None => CNone end.
Definition has_offset (u : unit) : bool := match conv_of u with COffset _ _ | CMethods _ _ => true | _ => false end.

(* ---- Powers (src/powers.rs): accumulate, drop entries that reach zero ---- *)
Definition powers := nmap Z.
Definition pinsert (m : powers) (u : unit) (p : Z) : powers :=
  match get m u with
  | None => if p =? 0 then m else put m u p
  | Some v => if v + p =? 0 then del m u else put m u (v + p)
  end.
(* the closure of `u` called with power p: powers.insert(base, p * k) for every entry *)
Definition add_closure (m : powers) (u : unit) (p : Z) : powers :=
  fold_left (fun m bk => pinsert m (fst bk) (p * snd bk)) (closure_of u) m.

(* ---- prefixes ---- *)
(* Prefix::find: binary search in PREFIXES for the largest entry not above pow (the first entry when pow is below all) *)
Fixpoint find_prefix_aux (t : list (Z * list N)) (pow : Z) (best : Z * list N) : Z * list N :=
  match t with
  | [] => best
  | (e, l) :: r => if e <=? pow then find_prefix_aux r pow (e, l) else best
  end.
Definition find_prefix (pow : Z) : list N * Z :=
  match prefix_table with
  | [] => ([], - pow)
  | first :: _ => let '(e, l) := find_prefix_aux prefix_table pow first in (l, e - pow)
  end.

Definition base_bias (u : unit) : Z :=
  match find (fun r => (fst (fst r) =? u - BASE_CODE)%N) base_table with Some (_, b, _) => b | None => 0 end.
Definition base_suffix (u : unit) : list N :=
  match find (fun r => (fst (fst r) =? u - BASE_CODE)%N) base_table with Some (_, _, s) => s | None => [] end.
Definition prefix_bias (u : unit) : Z := if is_base u then base_bias u else 0.
Definition unit_suffix (u : unit) (pluralize : bool) : list N :=
  if is_base u then base_suffix u
  else match derived u with Some (_, _, _, sg, pl) => if pluralize then pl else sg | None => [] end.
