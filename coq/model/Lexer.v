(* Model of src/syntax/lexer.rs over Unicode scalar values: both lexer modes, `consume_number` with its
   two-character look-ahead, words, the `to` keyword. Definitions only; proofs are in proofs/LexerProofs.v. *)
From Coq Require Import NArith List Lia Bool Arith.
Import ListNotations.
From AV Require Import model.Syntax.
Open Scope N_scope.

(* char::is_whitespace = Unicode White_Space *)
Definition is_ws (c : chr) : bool :=
  ((9 <=? c) && (c <=? 13)) || (c =? 32) || (c =? 133) || (c =? 160) || (c =? 5760) ||
  ((8192 <=? c) && (c <=? 8202)) || (c =? 8232) || (c =? 8233) || (c =? 8239) || (c =? 8287) || (c =? 12288).
Definition is_digit (c : chr) := (48 <=? c) && (c <=? 57).
Definition is_sign (c : chr) := (c =? 43) || (c =? 45).
Definition is_e (c : chr) := (c =? 101) || (c =? 69).
Definition is_wordc (c : chr) := ((97 <=? c) && (c <=? 122)) || ((65 <=? c) && (c <=? 90)) || is_digit c || (c =? 176) || (c =? 39).

Fixpoint span (p : chr -> bool) (s : list chr) : list chr * list chr :=
  match s with
  | c :: r => if p c then let (t, r') := span p r in (c :: t, r') else ([], s)
  | [] => ([], [])
  end.

(* consume_number(dot): returns (consumed, rest) *)
Fixpoint cnum (fuel : nat) (dot : bool) (s : list chr) : list chr * list chr :=
  match fuel with
  | O => ([], s)
  | S f =>
    match s with
    | [] => ([], s)
    | a :: r =>
      if is_digit a then let (t, r') := cnum f dot r in (a :: t, r')
      else if (a =? 46) && negb dot then let (t, r') := cnum f true r in (a :: t, r')
      else if is_e a && (match r with b :: _ => is_sign b || is_digit b | [] => false end) then
        let (sg, r1) := match r with b :: r1' => if is_sign b then ([b], r1') else ([], r) | [] => ([], r) end in
        let (ds, r2) := span is_digit r1 in
        let (t, r') := cnum f dot r2 in (a :: sg ++ ds ++ t, r')
      else ([], s)
    end
  end.

Definition word_kind (w : list chr) : kind :=   (* "to" *)
  match w with [a; b] => if (a =? 116) && (b =? 111) then TO else WORD | _ => WORD end.

(* one token; precondition: s non-empty *)
Definition next (esc : bool) (s : list chr) : token * list chr * bool :=
  match s with
  | [] => ((ERROR, []), [], esc)
  | c :: r =>
    if esc then
      if is_ws c then let (t, r') := span is_ws s in ((WHITESPACE, t), r', true)
      else if c =? 125 then ((CLOSE_BRACE, [c]), r, false)
      else ((ERROR, [c]), r, true)          (* consume_escaped_word matches only blanks and '}' : always 0 here *)
    else
      if is_ws c then let (t, r') := span is_ws s in ((WHITESPACE, t), r', false)
      else if c =? 123 then ((OPEN_BRACE, [c]), r, true)
      else if c =? 46 then let (t, r') := cnum (length r) true r in
                           match t with [] => ((ERROR, [c]), r', false) | _ => ((NUMBER, c :: t), r', false) end
      else if c =? 44 then ((COMMA, [c]), r, false)
      else if is_digit c then let (t, r') := cnum (length s) false s in ((NUMBER, t), r', false)
      else if c =? 42 then match r with 42 :: r' => ((STARSTAR, [c; 42]), r', false) | _ => ((STAR, [c]), r, false) end
      else if c =? 47 then ((SLASH, [c]), r, false)
      else if is_sign c then let (t, r') := cnum (length r) false r in
                             match t with [] => ((if c =? 43 then PLUS else DASH, [c]), r', false) | _ => ((NUMBER, c :: t), r', false) end
      else if c =? 94 then ((CARET, [c]), r, false)
      else if c =? 37 then ((PERCENTAGE, [c]), r, false)
      else if c =? 40 then ((OPEN_PAREN, [c]), r, false)
      else if c =? 41 then ((CLOSE_PAREN, [c]), r, false)
      else let (w, r') := span is_wordc s in
           match w with [] => ((ERROR, [c]), r, false) | _ => ((word_kind w, w), r', false) end
  end.

Fixpoint lex (fuel : nat) (esc : bool) (s : list chr) : list token :=
  match fuel with
  | O => []
  | S f => match s with [] => [] | _ => let '(t, r, e) := next esc s in t :: lex f e r end
  end.
Definition tokens (s : list chr) := lex (length s) false s.
