(* Model of the on-disk protocol of `Db::open` (src/db.rs open_inner / open_index, src/config.rs): what one start of the tool
   reads, which persistent effects it performs in which order -- the order is translated from the source (gen/DbSteps.v) -- and
   what is left on disk when the process is killed at one of the crash points between them. Definitions only. *)
From Coq Require Import List Bool Arith.
Import ListNotations.
From AV Require Import model.DbTypes gen.DbSteps.

Inductive ver := VThis | VOther.                       (* the version stored in meta.json *)
Inductive hsh := HCur | HOther.                        (* the asset hash stored in meta.json *)
Inductive meta := MAbsent | MGarbage | MJson (v : option ver) (h : option hsh).      (* missing keys are None *)
Inductive content := Empty | Shipped | Other.
Inductive index := IMissing (* no directory *) | IBroken (* a directory tantivy cannot open *) | IOpen (c : content).
Record disk := { dmeta : meta; dindex : index }.

Definition read_meta (m : meta) : option ver * option hsh := match m with MJson v h => (v, h) | _ => (None, None) end.

(* one persistent effect; write_meta is File::create (truncates) followed by the JSON, modelled as two effects below.
   The index writer buffers: delete_all_documents and the added documents become visible at the commit; what a commit leaves
   depends on whether the old documents were deleted first. A kill loses whatever is pending. *)
Inductive atom := AEff (e : effect) | ATrunc | AFinish.
Record pend := { cleared : bool; added : bool }.
Definition nothing_pending : pend := {| cleared := false; added := false |}.
Definition commit_content (c : content) (p : pend) : content :=
  if cleared p then (if added p then Shipped else Empty)
  else if added p then match c with Empty => Shipped | Shipped => Shipped (* every fact twice: same answers *) | Other => Other end
  else c.
Definition apply (a : atom) (dp : disk * pend) : disk * pend :=
  let (d, p) := dp in
  match a with
  | AEff RemoveMeta => ({| dmeta := MAbsent; dindex := dindex d |}, p)
  | AEff RemoveDir => ({| dmeta := dmeta d; dindex := IMissing |}, p)
  | AEff CreateDir => ({| dmeta := dmeta d; dindex := match dindex d with IMissing => IBroken | i => i end |}, p)
  | AEff CreateIndex => ({| dmeta := dmeta d; dindex := IOpen Empty |}, nothing_pending)
  | AEff DeleteAll => (d, {| cleared := true; added := false |})
  | AEff AddDocs => (d, {| cleared := cleared p; added := true |})
  | AEff Commit => ({| dmeta := dmeta d; dindex := match dindex d with IOpen c => IOpen (commit_content c p) | i => i end |}, nothing_pending)
  | AEff WriteMeta => (d, p)
  | ATrunc => ({| dmeta := MGarbage; dindex := dindex d |}, p)
  | AFinish => ({| dmeta := MJson (Some VThis) (Some HCur); dindex := dindex d |}, p)
  end.

(* the steps of one start, as decided from what it reads *)
Definition expand (s : step) : list (atom + nat) :=
  match s with
  | CP n => [inr n]
  | Eff WriteMeta => [inl ATrunc; inl AFinish]
  | Eff e => [inl (AEff e)]
  end.
Definition plan (d : disk) : list (atom + nat) :=
  let (v, h) := read_meta (dmeta d) in
  let rebuild0 := match h with Some HCur => false | _ => true end in
  let force := match v with Some VThis => false | _ => true end in
  let reopen := match dindex d with IOpen _ => negb force | _ => false end in
  let dir_exists := match dindex d with IMissing => false | _ => true end in
  let idx := if reopen then []
             else flat_map expand (filter (fun s => match s with Eff RemoveDir => dir_exists | _ => true end) open_index_steps) in
  let rebuild := rebuild0 || negb reopen in
  idx ++ flat_map expand after_open_steps ++ (if rebuild then flat_map expand rebuild_steps else []).

(* run until crash point [cp] is reached (a crash point that is never reached means the start completes) *)
Fixpoint run_p (cp : nat) (l : list (atom + nat)) (dp : disk * pend) : disk * pend :=
  match l with
  | [] => dp
  | inl a :: r => run_p cp r (apply a dp)
  | inr n :: r => if Nat.eqb n cp then dp else run_p cp r dp
  end.
Definition run (cp : nat) (l : list (atom + nat)) (d : disk) : disk := fst (run_p cp l (d, nothing_pending)).
Definition crash_run (cp : nat) (d : disk) : disk := run cp (plan d) d.
Definition complete (d : disk) : disk := run 0 (plan d) d.                    (* crash point 0 does not exist *)
(* what the tool answers from after a completed start *)
Definition answers (d : disk) : content := match dindex d with IOpen c => c | _ => Empty end.

Definition meta_current (d : disk) : bool := match dmeta d with MJson (Some VThis) (Some HCur) => true | _ => false end.
(* the invariant: metadata that declares the index current is only ever found next to the completely committed index, or next to
   no usable index at all (which the next start notices) *)
Definition good (d : disk) : bool :=
  negb (meta_current d) || match dindex d with IOpen Shipped | IMissing | IBroken => true | _ => false end.

(* A start that keeps its index in memory (Db::in_memory): it always rebuilds, into an index in RAM; of the persistent effects only
   the write of meta.json can reach the data directory, and only if the translated guard lets it. *)
Definition mem_start (d : disk) : disk :=
  let writes := match meta_written_when with
                | OnDiskOnly => false
                | Always => true
                | IfIndexDir => match dindex d with IMissing => false | _ => true end
                end in
  if writes then {| dmeta := MJson (Some VThis) (Some HCur); dindex := dindex d |} else d.
Inductive event := Kill (cp : nat) | Memory.
Definition step_event (d : disk) (e : event) : disk := match e with Kill cp => crash_run cp d | Memory => mem_start d end.
