(* Model of what decides a fact lookup (src/db.rs `lookup`, `load_bytes`, the index writer): the documents of the shipped data
   in the order they are inserted, the order in which a finished index stores them (a function of the number of indexing
   threads, translated from the source), the top-1 collector, and sessions that build, rebuild or reopen an index.
   tantivy's scoring (BM25 over n-grams) is NOT modelled: [score] is a parameter of every definition. Definitions only. *)
From Coq Require Import ZArith NArith List Bool Permutation.
Import ListNotations.
From AV Require Import gen.DbSteps.
Open Scope Z_scope.

Section Idx.
Context {doc : Type}.
Variable score : doc -> Z.        (* score of a document for the query at hand; oracle *)

(* TopDocs::with_limit(1): the best score; among equal scores the smallest document address, i.e. the earliest stored *)
Fixpoint top1_from (best : doc) (l : list doc) : doc :=
  match l with [] => best | d :: r => if score best <? score d then top1_from d r else top1_from best r end.
Definition top1 (l : list doc) : option doc := match l with [] => None | d :: r => Some (top1_from d r) end.

Definition is_top (l : list doc) (d : doc) : Prop := In d l /\ forall x, In x l -> score x <= score d.
End Idx.

(* The orders in which an index built from [docs] (in insertion order) by a writer with [threads] indexing threads may store
   them: one thread keeps the insertion order; several threads fill segments concurrently, so any permutation may result. *)
Definition stored {doc : Type} (threads : nat) (docs sigma : list doc) : Prop :=
  match threads with 1%nat => sigma = docs | _ => Permutation docs sigma end.

(* Sessions. The persistent state is the stored order of the on-disk index, if there is a usable current one (C15 is about
   when that is the case). An in-memory session builds a fresh index; an on-disk session reopens the existing one or builds it;
   a rebuilding session (other version, other data, damaged directory) builds it again. Each session searches some order. *)
Inductive session := InMemory | OnDisk | Rebuild.
Inductive runs {doc : Type} (threads : nat) (docs : list doc) : option (list doc) -> list session -> list (list doc) -> option (list doc) -> Prop :=
| runs_nil p : runs threads docs p [] [] p
| runs_mem p h os p' o : stored threads docs o -> runs threads docs p h os p' -> runs threads docs p (InMemory :: h) (o :: os) p'
| runs_reopen o h os p' : runs threads docs (Some o) h os p' -> runs threads docs (Some o) (OnDisk :: h) (o :: os) p'
| runs_first o h os p' : stored threads docs o -> runs threads docs (Some o) h os p' -> runs threads docs None (OnDisk :: h) (o :: os) p'
| runs_rebuild p o h os p' : stored threads docs o -> runs threads docs (Some o) h os p' -> runs threads docs p (Rebuild :: h) (o :: os) p'.
Definition persistent_ok {doc : Type} (threads : nat) (docs : list doc) (p : option (list doc)) : Prop :=
  match p with Some o => stored threads docs o | None => True end.

(* Executable piece used by the correspondence: given the best-scored candidates of a query as (position in insertion order,
   score) pairs in any order, the position of the document a single-threaded build answers with. *)
Fixpoint insert_pos (c : N * Z) (l : list (N * Z)) : list (N * Z) :=
  match l with [] => [c] | d :: r => if (fst c <=? fst d)%N then c :: l else d :: insert_pos c r end.
Definition sort_pos (l : list (N * Z)) : list (N * Z) := fold_right insert_pos [] l.
Definition winner (cands : list (N * Z)) : option N := option_map fst (top1 snd (sort_pos cands)).
