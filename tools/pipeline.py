"""Shared runner for the properties decided on whole queries: run the implementation, check each answer with the
property's oracle, and run the correspondence with the Coq model (Run.obs_query) on the same strings."""
import vlib
import qcorr


def run_queries(items, label, rng, tier, model_ok, budget_quick=2500, budget_thorough=40000, describe=False, shard_size=200):
    """items: list of (query, oracle) where oracle(reply) returns None or a dict describing the failure.
    Returns (replies, failures, mismatches, ncases_in_coq)."""
    queries = [q for q, _ in items]
    replies, trees, cases = qcorr.build_cases(queries, describe=describe)
    failures = []
    for (q, oracle), r in zip(items, replies):
        if "panic" in r or "crash" in r:
            failures.append({"input": q, "why": "the library panicked: %s" % str(r)[:200], "kind": "panic"})
            continue
        if "timeout" in r:
            failures.append({"input": q, "why": "the library does not answer within %s s" % r["timeout"], "kind": "timeout"})
            continue
        if oracle is None:
            continue
        f = oracle(r)
        if f:
            f = dict(f)
            f.setdefault("input", q)
            f.setdefault("got", [qcorr.describe_result(x) for x in r.get("results", [])])
            failures.append(f)
    mismatches = []
    n = 0
    if model_ok:
        # very large numbers are compared against the oracle only: reducing them inside Coq (Qred) is quadratic
        idx = [i for i in range(len(cases)) if all(abs(x) < 10 ** 120 for x in cases[i][2])]
        budget = budget_quick if tier == "quick" else budget_thorough
        if len(idx) > budget:
            idx = sorted(rng.sample(idx, budget))
        sub = [cases[i] for i in idx]
        n = len(sub)
        bad = vlib.coq_eval_cases(sub, label, shard_size=shard_size)
        for j, got in sorted(bad.items()):
            i = idx[j]
            mismatches.append({"input": queries[i], "model": got[:40], "impl": cases[i][2][:40]})
    return replies, failures, mismatches, n


def single_value(reply):
    """(Fraction numerator, denominator, unit names) of a reply with exactly one successful result, else None."""
    res = reply.get("results")
    if res is None or len(res) != 1 or "ok" not in res[0]:
        return None
    n, d, names = res[0]["ok"]
    return int(n), int(d), names


def is_error(reply):
    res = reply.get("results")
    return res is not None and len(res) >= 1 and all("err" in r for r in res)
