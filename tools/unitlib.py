"""Unit vocabulary helpers for the checks on quantities: SI normalisation (dimension vector and scale, computed from the
translated tables, independently of Compound::factor / mul / reconstruct), typeable unit words, generators of unit
expressions with equal dimensions spelled differently."""
import re
from fractions import Fraction
import qcorr
import vlib

WORDCHARS = re.compile(r"^[a-zA-Z0-9°']+$")


class Vocab:
    def __init__(self):
        t = qcorr.tables()
        self.bases = t["bases"]
        self.units = t["units"]                     # path -> {id, powers, conv, singular, plural}
        self.by_id = {u["id"]: (k, u) for k, u in self.units.items()}
        self.prefixes = [(e, l) for e, l, _ in t["prefixes"] if l and WORDCHARS.match(l)]
        # names a user can type, per unit variant of the generated parser
        names = {}
        for tok, variant in t["units_tokens"]:
            if variant == "Separator" or not WORDCHARS.match(tok) or tok == "to":
                continue
            names.setdefault(variant, []).append(tok)
        self.names = names
        self.arms2 = t["arms2"]
        # variant -> unit key as the harness prints it
        self.variant_unit = {}
        for v, arm in self.arms2.items():
            if arm[0] != "unit":
                continue
            kind, ref = arm[1]
            self.variant_unit[v] = ("D%d" % self.units[ref]["id"]) if kind == "D" else ref
        self.offset_units = {"D%d" % u["id"] for u in self.units.values() if u["conv"][0] in ("Offset", "Methods")}

    # ---- SI normalisation of a harness `names` list [[unit, power, prefix], ...]
    def closure(self, uname):
        if uname.startswith("D"):
            _, u = self.by_id[int(uname[1:])]
            return {b: k for b, k in u["powers"]}
        return {uname: 1}

    def fac(self, uname):
        if uname.startswith("D"):
            _, u = self.by_id[int(uname[1:])]
            if u["conv"][0] == "Factor":
                return Fraction(u["conv"][1], u["conv"][2])
        return Fraction(1)

    def dims(self, names):
        d = {}
        for u, p, e in names:
            for b, k in self.closure(u).items():
                d[b] = d.get(b, 0) + k * p
        return {b: k for b, k in d.items() if k != 0}

    def scale(self, names):
        s = Fraction(1)
        for u, p, e in names:
            s *= (Fraction(10) ** e * self.fac(u)) ** p
        return s

    def has_offset(self, names):
        return any(u in self.offset_units for u, _, _ in names)

    def si(self, n, d, names):
        return Fraction(int(n), int(d)) * self.scale(names)

    # ---- generators
    def word(self, rng, variant=None, prefix_prob=0.35, long_names=0.3):
        variant = variant or rng.choice(sorted(self.names))
        cands = self.names[variant]
        short = [n for n in cands if len(n) <= 3] or cands
        name = rng.choice(cands if rng.random() < long_names else short)
        if rng.random() < prefix_prob:
            return rng.choice(self.prefixes)[1] + name
        return name

    def unit_expr(self, rng, nfactors=None, variants=None, offset_ok=False):
        """A unit expression as text without blanks: w[^p] (*|/) w[^p] ..."""
        n = nfactors or rng.choice([1, 1, 2, 2, 3, 4])
        out = ""
        for i in range(n):
            v = rng.choice(variants) if variants else rng.choice(sorted(self.names))
            if not offset_ok and self.variant_unit.get(v) in self.offset_units:
                v = "Meter"
            w = self.word(rng, v)
            if i:
                out += rng.choice(["*", "/", "/", "*"])
            out += w
            if rng.random() < 0.3:
                out += "^" + str(rng.choice([2, 3, -1, -2, 2, -3]))
        return out


_v = None


def vocab():
    global _v
    if _v is None:
        _v = Vocab()
    return _v


def impl_units(texts):
    """What the implementation reads a unit expression as (str::parse::<Compound>), per text: names list or None."""
    rep = vlib.run_impl(["U " + vlib.hx(t) for t in texts])
    return [r.get("ok") if isinstance(r, dict) else None for r in rep]


def expand_text(rng, V, names):
    """Another spelling of the same dimensions: every derived unit replaced by base units (prefix and factor ignored)."""
    d = V.dims(names)
    base_word = {"KiloGram": "kg", "Candela": "cd", "Meter": "m", "Second": "s", "Ampere": "A", "Kelvin": "K", "Mole": "mol", "Byte": "B"}
    if not d:
        return None
    parts = []
    items = sorted(d.items(), key=lambda x: rng.random())
    for b, k in items:
        w = base_word[b]
        if rng.random() < 0.3 and b != "KiloGram":
            w = rng.choice(V.prefixes)[1] + w
        parts.append((w, k))
    out = ""
    for i, (w, k) in enumerate(parts):
        if i:
            out += "*"
        out += w if k == 1 else "%s^%d" % (w, k)
    return out


TOKEN = re.compile(r"\*|/|\^-?\d+|\s+|[^\s*/^]+")


def struct_names(V, text, single):
    """The unit a unit expression denotes according to its documented structure -- juxtaposition, `*` and blanks multiply, `/` inverts
    everything after it, `^n` applies to the unit it follows -- given what each single word means (`single`: word -> names as the
    implementation reads that word alone). Returns a merged names list, "clash" when one unit occurs under two prefixes, or None when
    a word is unreadable."""
    sign = 1
    acc = {}
    last = None
    for tok in TOKEN.findall(text):
        if tok == "*" or tok.isspace():
            continue
        if tok == "/":
            sign = -sign
            continue
        if tok.startswith("^"):
            if last is None:
                return None
            k = int(tok[1:])
            if len(last) != 1:
                return None               # a word that concatenates several units: the power applies to the last of them, which the
                                          # reading of the word (a set of units) does not tell -- left to C05
            for u, p, e in last:
                acc[u] = (acc[u][0] + p * sign * (k - 1), acc[u][1])
            last = None
            continue
        names = single.get(tok)
        if not names:
            return None
        for u, p, e in names:
            if u in acc and acc[u][1] != e and acc[u][0] != 0:
                return "clash"
            acc[u] = (acc.get(u, (0, e))[0] + p * sign, e)
        last = names
    return sorted([[u, p, e] for u, (p, e) in acc.items() if p != 0])


def words_of(text):
    return [t for t in TOKEN.findall(text) if t not in ("*", "/") and not t.isspace() and not t.startswith("^")]


def cast_targets(V):
    """[(text, names)]: one representative unit of every dimension of the vocabulary plus compound targets (accelerations, densities ...)."""
    return _cast_words_targets(V)[2]


def _cast_words_targets(V):
    words = []
    for v in sorted(V.names):
        if V.variant_unit.get(v) in V.offset_units:
            continue
        names = sorted(V.names[v], key=lambda n: (len(n), n))
        words.append(names[0])
        words += [n for n in names[1:] if len(n) <= 2]
    words = sorted(set(words))
    read = dict(zip(words, impl_units(words)))
    reps = {}
    for w in words:
        na = read.get(w)
        if not na:
            continue
        key = tuple(sorted(V.dims(na).items()))
        if key not in reps or (len(w), w) < (len(reps[key]), reps[key]):
            reps[key] = w
    extra = CAST_EXTRA
    eread = dict(zip(extra, impl_units(extra)))
    targets = [(t, read[t]) for t in sorted(reps.values())] + [(t, eread[t]) for t in extra if eread.get(t)]
    return words, read, targets


CAST_EXTRA = ["m/s^2", "N/kg", "km/hr^2", "ft/s^2", "gforce", "m/s", "kg*m/s^2", "m^2", "m^3", "1/s", "kg/m^3", "J/kg", "W/m^2"]


def cast_matrix(V, rng, tier):
    """Every unit (its shortest name, and every name of at most two letters) cast to one representative target of every dimension
    that occurs in the vocabulary. Returns [(query, source names, target names)] with the names as the words read alone: what a word
    means must not depend on what it is cast to."""
    words, read, targets = _cast_words_targets(V)
    extra = CAST_EXTRA
    out = []
    for w in words:
        na = read.get(w)
        if not na:
            continue
        for t, nt in targets:
            if tier == "quick" and t not in extra and V.dims(na) != V.dims(nt) and rng.random() < 0.8:
                continue
            out.append(("%d %s to %s" % (rng.randint(1, 9), w, t), na, nt))
    return out
