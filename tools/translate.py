#!/usr/bin/env python3
"""Translator: regenerates the table part of the Coq model (coq/gen/*.v) from /repo's current sources.

Reads (line/regex level, fails closed on anything it cannot read):
  src/unit.rs               variant order of `Unit`, prefix_bias, base suffixes
  src/units/*.rs            every derived unit: id constant, base-power closure, conversion, display names
  src/generated/ids.rs      id constants and the id_to_derived table
  src/prefix.rs             prefix exponents, the PREFIXES search table, display letters
  src/generated/unit.rs     token tables of the two logos lexers and the arms of parse(); the lexers' behaviour at every
                            trie node is *learned from the real lexer* through the harness hook (logos is not maximal munch)
  src/syntax/grammar.rs     operator table of op()
  src/eval.rs               builtin() names
  src/bin/any.rs            display spec literals of the CLI
  db/*.bin.gz               the shipped constants (gunzip + CBOR decoded here)
  tools/gen/data.toml       documented unit names (only for C05's completeness half)
Writes coq/gen/*.v (only when the content changes) and coq/gen/tables.json (side file for the Python generators).
"""
import gzip
import hashlib
import json
import os
import re
import struct
import sys

sys.path.insert(0, os.path.dirname(os.path.abspath(__file__)))
REPO = "/repo"
VERIF = os.path.dirname(os.path.dirname(os.path.abspath(__file__)))
GEN = os.path.join(VERIF, "coq", "gen")
R = os.path.join(REPO, "src") + "/"


class Fail(Exception):
    pass


def strip_comments(text):
    """Rust source without // and /* */ comments (string and char literals are respected)."""
    out, i, n = [], 0, len(text)
    while i < n:
        c = text[i]
        if c == '"':
            j = i + 1
            while j < n and text[j] != '"':
                j += 2 if text[j] == "\\" else 1
            out.append(text[i:j + 1])
            i = j + 1
        elif c == "'" and i + 2 < n and (text[i + 2] == "'" or (text[i + 1] == "\\" and text[i + 3:i + 4] == "'")):
            k = i + (3 if text[i + 2] == "'" else 4)
            out.append(text[i:k])
            i = k
        elif text.startswith("//", i):
            while i < n and text[i] != "\n":
                i += 1
        elif text.startswith("/*", i):
            j = text.find("*/", i + 2)
            i = n if j < 0 else j + 2
        else:
            out.append(c)
            i += 1
    return "".join(out)


def read(p):
    try:
        text = open(R + p, encoding="utf-8").read()
    except OSError as e:
        raise Fail("cannot read %s: %s" % (p, e))
    return strip_comments(text) if p.endswith(".rs") else text


def need(cond, msg):
    if not cond:
        raise Fail(msg)


def zs(s):
    """Coq list of scalar values of a Python string."""
    return "[" + ";".join(str(ord(c)) for c in s) + "]%N"


def bs(b):
    return "[" + ";".join(str(x) for x in b) + "]%N"


# --------------------------------------------------------------------------------------------------- unit.rs
def parse_unit_rs():
    s = read("unit.rs")
    m = re.search(r"pub enum Unit \{(.*?)\n\}", s, re.S)
    need(m, "unit.rs: enum Unit not found")
    variants = re.findall(r"^\s*(\w+)(?:\((\w+)\))?,\s*$", m.group(1), re.M)
    names = [v[0] for v in variants]
    need(names and names[0] == "Derived", "unit.rs: Derived is expected to be the first variant of Unit (ordering), got %s" % names)
    bases = names[1:]
    need("#[derive(Debug, Clone, Copy, PartialEq, Eq, PartialOrd, Ord" in s.split("pub enum Unit")[0][-200:],
         "unit.rs: Unit no longer derives Ord")
    # Derived orders by id
    need(re.search(r"impl cmp::Ord for Derived \{\s*fn cmp\(&self, other: &Self\) -> cmp::Ordering \{\s*self\.id\.cmp\(&other\.id\)", s),
         "unit.rs: Derived no longer orders by id")
    m = re.search(r"fn prefix_bias\(&self\) -> i32 \{\s*match self \{(.*?)\}\s*\}", s, re.S)
    need(m, "unit.rs: prefix_bias not found")
    bias = {}
    for mm in re.finditer(r"Unit::(\w+) => (-?\d+),", m.group(1)):
        bias[mm.group(1)] = int(mm.group(2))
    need(re.search(r"_ => 0,", m.group(1)), "unit.rs: prefix_bias default arm changed")
    m = re.search(r"fn format_suffix.*?match self \{(.*?)\n        \}", s, re.S)
    need(m, "unit.rs: format_suffix not found")
    suffix = {}
    for mm in re.finditer(r"Unit::(\w+) => (?:'(.*?)'|\"(.*?)\")\.fmt\(f\),", m.group(1)):
        suffix[mm.group(1)] = mm.group(2) if mm.group(2) is not None else mm.group(3)
    for b in bases:
        need(b in suffix, "unit.rs: no suffix for base %s" % b)
    pows = re.search(r"fn pow_into_char\(pow: u32\) -> char \{\s*match pow \{(.*?)\}", s, re.S)
    need(pows, "unit.rs: pow_into_char not found")
    supers = re.findall(r"(\d+|_) => '(.)',", pows.group(1))
    need(len(supers) == 10, "unit.rs: pow_into_char table changed")
    return bases, bias, suffix, [c for _, c in supers]


# --------------------------------------------------------------------------------------------------- units/*.rs
def num(t):
    """a Rust integer literal, digit separators allowed"""
    return int(t.replace("_", ""))


def matching(s, i):
    """index just after the bracket that closes the one at s[i] (strings and chars are skipped)"""
    openers, closers = "([{", ")]}"
    depth, j = 0, i
    while j < len(s):
        c = s[j]
        if c == '"':
            j += 1
            while j < len(s) and s[j] != '"':
                j += 2 if s[j] == "\\" else 1
        elif c == "'" and j + 2 < len(s) and (s[j + 2] == "'" or (s[j + 1] == "\\" and s[j + 3:j + 4] == "'")):
            j += 3 if s[j + 2] == "'" else 4
            continue
        elif c in openers:
            depth += 1
        elif c in closers:
            depth -= 1
            if depth == 0:
                return j + 1
        j += 1
    raise Fail("unbalanced brackets near `%s`" % s[i:i + 60])


def fields(body):
    """`name: value, name: value, ...` of a struct literal body, in any order and layout -> {name: value text}"""
    out, i, n = {}, 0, len(body)
    while i < n:
        m = re.compile(r"\s*(\w+)\s*:\s*").match(body, i)
        if not m:
            need(body[i:].strip() in ("", ","), "cannot read struct literal near `%s`" % body[i:i + 60])
            break
        j = m.end()
        k = j
        if k < n and body[k] == "|":                       # a closure: its parameter list may contain commas
            k = body.index("|", k + 1) + 1
        while k < n and body[k] != ",":
            if body[k] in "([{":
                k = matching(body, k)
            elif body[k] == '"':
                k += 1
                while k < n and body[k] != '"':
                    k += 2 if body[k] == "\\" else 1
                k += 1
            else:
                k += 1
        out[m.group(1)] = body[j:k].strip()
        i = k + 1
    return out


def parse_closure(body):
    body = body.strip()
    m = re.match(r"\|(\w+), (\w+)\| \{(.*)\}\s*$", body, re.S)
    if m:
        pv = m.group(2)
        out = []
        inner = m.group(3)
        stmts = [x.strip() for x in inner.split(";") if x.strip()]
        for st in stmts:
            im = re.match(r"%s\.insert\(Unit::(\w+), ([^)]*)\)$" % m.group(1), st)
            need(im, "units: cannot read powers statement `%s`" % st)
            expr = im.group(2).strip()
            if expr == pv:
                k = 1
            else:
                mm = re.match(r"%s \* (-?\d+)$" % pv, expr)
                need(mm, "units: cannot read power expression `%s`" % expr)
                k = int(mm.group(1))
            out.append((im.group(1), k))
        return out
    mm = re.match(r"(?:crate::units::)?(\w+)\.vtable\.powers$", body)
    if mm:
        return ("ref", mm.group(1))
    if body == "time_powers":
        return ("fn", "time_powers")
    raise Fail("units: cannot read powers closure `%s`" % body[:80])


def parse_format(fmt):
    fmt = fmt.strip()
    m = re.match(r"\|f, _\| (?:write!\(f, \"(.*?)\"\)|f\.write_str\(\"(.*?)\"\))$", fmt)
    if m:
        n = m.group(1) if m.group(1) is not None else m.group(2)
        return n, n
    m = re.match(r"\|f, (\w+)\| \{?\s*if \1 \{\s*(?:write!\(f, \"(.*?)\"\)|f\.write_str\(\"(.*?)\"\))\s*\} else \{\s*(?:write!\(f, \"(.*?)\"\)|f\.write_str\(\"(.*?)\"\))\s*\}\s*\}?$", fmt, re.S)
    if m:
        pl = m.group(2) if m.group(2) is not None else m.group(3)
        sg = m.group(4) if m.group(4) is not None else m.group(5)
        return sg, pl
    raise Fail("units: cannot read format closure `%s`" % fmt[:100])


def parse_conv(c):
    c = c.strip()
    if c == "None":
        return ("None",)
    m = re.match(r"Some\(Conversion::(Factor|Offset)\(ConversionFraction \{(.*)\}\)\)$", c, re.S)
    if m:
        f = fields(m.group(2))
        need(set(f) == {"numer", "denom"} and re.fullmatch(r"[\d_]+", f["numer"]) and re.fullmatch(r"[\d_]+", f["denom"]),
             "units: cannot read conversion fraction `%s`" % c[:100])
        need(num(f["denom"]) > 0 and num(f["numer"]) > 0, "units: non-positive conversion fraction")
        return (m.group(1), num(f["numer"]), num(f["denom"]))
    m = re.match(r"Some\(Conversion::Methods\(ConversionMethods \{(.*)\}\)\)$", c, re.S)
    if m:
        f = fields(m.group(1))
        need(set(f) == {"to", "from"}, "units: cannot read conversion methods `%s`" % c[:100])

        def ops(t):
            mm = re.match(r"\|num\| \{(.*)\}$", t.strip(), re.S)
            need(mm, "units: cannot read conversion closure `%s`" % t[:80])
            out = []
            for st in [x.strip() for x in mm.group(1).split(";") if x.strip()]:
                mm2 = re.match(r"\*num (\S)= Rational::new\(([\d_]+), ([\d_]+)\)$", st)
                need(mm2 and mm2.group(1) in "+-*", "units: cannot read conversion step `%s`" % st)
                out.append((mm2.group(1), num(mm2.group(2)), num(mm2.group(3))))
            return out
        return ("Methods", ops(f["to"]), ops(f["from"]))
    raise Fail("units: cannot read conversion `%s`" % c[:100])


def parse_units():
    units = {}
    files = sorted(f for f in os.listdir(R + "units") if f.endswith(".rs"))
    static_count = 0
    for f in files:
        s = read("units/" + f)
        mod = "" if f == "mod.rs" else f[:-3] + "::"
        static_count += len(re.findall(r"pub static \w+", s))
        for m in re.finditer(r"pub static (\w+): Derived = Derived (\{)", s):
            name = m.group(1)
            end = matching(s, m.start(2))
            top = fields(s[m.start(2) + 1:end - 1])
            need(set(top) == {"id", "vtable"}, "units: cannot read %s" % name)
            mi = re.match(r"crate::generated::ids::(\w+)$", top["id"])
            mv = re.match(r"&DerivedVtable \{(.*)\}$", top["vtable"], re.S)
            need(mi and mv, "units: cannot read id / vtable of %s" % name)
            vt = fields(mv.group(1))
            need(set(vt) == {"powers", "format", "conversion"}, "units: cannot read vtable of %s" % name)
            sg, pl = parse_format(vt["format"])
            units[mod + name] = {"idname": mi.group(1), "powers": parse_closure(vt["powers"]), "conv": parse_conv(vt["conversion"]), "singular": sg, "plural": pl}
        if f == "time.rs":
            need(re.search(r"fn time_powers\(powers: &mut Powers, power: i32\) \{\s*powers\.insert\(Unit::Second, power\);\s*\}", s),
                 "units/time.rs: time_powers changed")
            mm = re.search(r"macro_rules! time \{.*?pub static \$name: Derived = Derived (\{)", s, re.S)
            need(mm, "units/time.rs: the time! macro changed")
            top = fields(s[mm.start(1) + 1:matching(s, mm.start(1)) - 1])
            mv = re.match(r"&DerivedVtable \{(.*)\}$", top.get("vtable", ""), re.S)
            need(set(top) == {"id", "vtable"} and top["id"] == "$id" and mv, "units/time.rs: the time! macro changed")
            vt = fields(mv.group(1))
            mc = re.match(r"Some\(Conversion::Factor\(ConversionFraction \{(.*)\}\)\)$", vt.get("conversion", ""), re.S)
            need(set(vt) == {"powers", "format", "conversion"} and vt["powers"] == "time_powers" and vt["format"] == "$f" and mc
                 and fields(mc.group(1)) == {"numer": "$num", "denom": "$den"}, "units/time.rs: the time! macro changed")
            for m in re.finditer(r"pub static (\w+) = \(crate::generated::ids::(\w+), ([\d_]+) / ([\d_]+)\), (.*?)\n\}", s, re.S):
                sg, pl = parse_format(m.group(5))
                units[mod + m.group(1)] = {"idname": m.group(2), "powers": [("Second", 1)], "conv": ("Factor", num(m.group(3)), num(m.group(4))),
                                           "singular": sg, "plural": pl}
    need(static_count == len(units), "units: %d `pub static` items but %d could be read" % (static_count, len(units)))
    short = {k.split("::")[-1]: k for k in units}
    for k, u in units.items():
        p = u["powers"]
        if isinstance(p, tuple):
            if p[0] == "ref":
                need(p[1] in short, "units: closure reference %s not found" % p[1])
                q = units[short[p[1]]]["powers"]
                need(isinstance(q, list), "units: nested closure reference in %s" % k)
                u["powers"] = list(q)
            else:
                u["powers"] = [("Second", 1)]
    return units


def parse_ids():
    s = read("generated/ids.rs")
    consts = {m.group(1): int(m.group(2)) for m in re.finditer(r"pub const (\w+): u32 = (\d+);", s)}
    arms = {int(m.group(1)): m.group(2) for m in re.finditer(r"(\d+) => Some\(units::([\w:]+)\)", s)}
    need(consts and arms, "ids.rs: nothing read")
    return consts, arms


def parse_prefix():
    s = read("prefix.rs")
    consts = {m.group(1): int(m.group(2)) for m in re.finditer(r"pub const (\w+): i32 = (-?\d+);", s)}
    tab = re.search(r"const PREFIXES: \[\(i32, Prefix\); (\d+)\] = \[(.*?)\];", s, re.S)
    need(tab, "prefix.rs: PREFIXES not found")
    rows = re.findall(r"\(Prefix::(\w+), Prefix::(\w+)\)", tab.group(2))
    need(len(rows) == int(tab.group(1)), "prefix.rs: PREFIXES length mismatch")
    letters = {}
    disp = re.search(r"impl fmt::Display for Prefix \{.*?match self \{(.*?)\n        \}", s, re.S)
    need(disp, "prefix.rs: Display not found")
    for m in re.finditer(r"Prefix::(\w+) => (?:'(.*?)'|\"(.*?)\")\.fmt\(f\),", disp.group(1)):
        letters[m.group(1)] = m.group(2) if m.group(2) is not None else m.group(3)
    need(re.search(r"Prefix::None => Ok\(\(\)\),", disp.group(1)), "prefix.rs: Prefix::None display changed")
    letters["None"] = ""
    # Prefix::find: binary search for the power, the entry below when there is no exact one, and the difference as the extra
    # (identifiers are free; how it behaves is tied by the display correspondence)
    need(re.search(r"let \((\w+), (\w+)\) = match PREFIXES\.binary_search_by\(\|(\w+)\| \3\.0\.cmp\(&pow\)\) \{\s*"
                   r"Ok\((\w+)\) => PREFIXES\[\4\],\s*Err\((\w+)\) => PREFIXES\[\5\.saturating_sub\(1\)\],\s*\};\s*\(\2, \1 - pow\)", s),
         "prefix.rs: Prefix::find changed")
    table = []
    for c, v in rows:
        need(c in consts and v in letters, "prefix.rs: unknown prefix %s/%s" % (c, v))
        table.append((consts[c], letters[v], v))
    return consts, table


# --------------------------------------------------------------------------------------------------- generated/unit.rs
def parse_wordlexers(units_by_path, bases):
    s = read("generated/unit.rs")

    def enum(name):
        m = re.search(r"enum %s \{(.*?)\n\}" % name, s, re.S)
        need(m, "generated/unit.rs: enum %s not found" % name)
        toks = []
        cur = []
        for line in m.group(1).split("\n"):
            line = line.strip()
            mm = re.match(r'#\[token\("(.*)"\)\]$', line)
            if mm:
                cur.append(mm.group(1))
            elif re.match(r"^\w+,$", line):
                for t in cur:
                    toks.append((t, line[:-1]))
                cur = []
            elif line and not line.startswith("///"):
                raise Fail("generated/unit.rs: unexpected line in enum %s: %s" % (name, line))
        return toks
    comb, un = enum("Combined"), enum("Units")
    need("#[derive(Logos" in s, "generated/unit.rs: lexers are no longer logos lexers")

    def unit_expr(e):
        e = e.strip()
        m = re.match(r"Unit::Derived\(units::([\w:]+)\)$", e)
        if m:
            need(m.group(1) in units_by_path, "generated/unit.rs: unknown unit %s" % m.group(1))
            return ("D", m.group(1))
        m = re.match(r"Unit::(\w+)$", e)
        need(m and m.group(1) in bases, "generated/unit.rs: cannot read unit expression `%s`" % e)
        return ("B", m.group(1))

    fn = re.search(r"pub fn parse\(s: &str\) -> Option<\(&str, i32, Unit\)> \{(.*?)\n\}\n", s, re.S)
    need(fn, "generated/unit.rs: parse() not found")
    body = fn.group(1)
    need(body.count("Units::lexer(lexer.remainder())") == 1 and "Combined::lexer(s)" in body, "generated/unit.rs: parse() structure changed")
    first, second = body.split("let mut lexer = Units::lexer(lexer.remainder());")
    need("let Ok(token) = lexer.next()? else {\n            return None;" in first and "return Some((lexer.remainder(), prefix, unit));" in first,
         "generated/unit.rs: first loop of parse() changed")
    need("let Ok(token) = lexer.next()? else {\n            return None;" in second and "Some((lexer.remainder(), prefix, unit))" in second,
         "generated/unit.rs: second loop of parse() changed")
    arms1 = {}
    i = first.index("let unit = match token {")
    arm_re = re.compile(r"Combined::(\w+) => (?:(\{.*?\n            \})\n|([^{\n]*?),\n)", re.S)
    pos = i
    for m in arm_re.finditer(first, i):
        v, b = m.group(1), (m.group(2) or m.group(3)).strip()
        if b.startswith("{"):
            inner = b[1:-1].strip()
            if inner == "continue;":
                arms1[v] = ("sep",)
                continue
            mm = re.match(r"prefix \+= (-?\d+);\s*(Unit::.*)$", inner, re.S)
            if mm:
                arms1[v] = ("unit", unit_expr(mm.group(2)), int(mm.group(1)))
                continue
            mm = re.match(r"(?:if lexer\.remainder\(\)\.is_empty\(\) && lexer\.slice\(\) == \"(.*?)\" \{\s*(?:prefix \+= (-?\d+);\s*)?return Some\(\(\"\", prefix, (.*?)\)\);\s*\}\s*)?prefix \+= Prefix::(\w+);\s*break;$", inner, re.S)
            need(mm, "generated/unit.rs: cannot read arm of Combined::%s: %s" % (v, inner[:120]))
            alone = None
            if mm.group(1) is not None:
                alone = (mm.group(1), unit_expr(mm.group(3)), int(mm.group(2) or 0))
            arms1[v] = ("prefix", mm.group(4), alone)
        else:
            arms1[v] = ("unit", unit_expr(b), 0)
    arms2 = {}
    for m in re.finditer(r"Units::(\w+) => \{(.*?)\n            \}", second, re.S):
        v, inner = m.group(1), m.group(2).strip()
        if inner == "continue;":
            arms2[v] = ("sep",)
            continue
        mm = re.match(r"(?:prefix \+= (-?\d+);\s*)?break (Unit::.*?);$", inner, re.S)
        need(mm, "generated/unit.rs: cannot read arm of Units::%s: %s" % (v, inner[:120]))
        arms2[v] = ("unit", unit_expr(mm.group(2)), int(mm.group(1) or 0))
    for t, v in comb:
        need(v in arms1, "generated/unit.rs: no parse() arm for Combined::%s" % v)
    for t, v in un:
        need(v in arms2, "generated/unit.rs: no parse() arm for Units::%s" % v)
    return comb, un, arms1, arms2


def build_trie(tokens):
    nodes = {b"": {}}
    order = [b""]
    for t, _ in tokens:
        b = t.encode()
        for i in range(len(b)):
            if b[:i + 1] not in nodes:
                nodes[b[:i + 1]] = {}
                order.append(b[:i + 1])
            nodes[b[:i]][b[i]] = b[:i + 1]
    return nodes, order


def valid_utf8(b):
    try:
        b.decode()
        return True
    except UnicodeDecodeError:
        return False


def learn_lexer(which, tokens):
    """Ask the real generated lexer for its answer at every trie node followed by end of input and by a byte on no edge."""
    import vlib
    nodes, order = build_trie(tokens)
    reqs = []
    keys = []
    for n in order:
        ch = nodes[n]
        if valid_utf8(n):
            reqs.append("L %s %s" % (which, n.hex() or "-"))
            keys.append((n, "end"))
        for cand in (b"#", b"\xa1", b"\xb1", b"\x81"):
            if cand[0] not in ch and valid_utf8(n + cand):
                reqs.append("L %s %s" % (which, (n + cand).hex()))
                keys.append((n, "other"))
                break
    res = vlib.run_impl(reqs, shards=4)
    table = {}
    for (n, kind), r in zip(keys, res):
        if "end" in r:
            table[(n, kind)] = ("end",)
        elif r.get("tok") is None:
            need("len" in r, "lexer hook: unexpected reply %s" % r)
            table[(n, kind)] = ("err",)
        else:
            table[(n, kind)] = ("tok", r["tok"], r["len"])
    return nodes, order, table


# --------------------------------------------------------------------------------------------------- grammar / eval / cli
def parse_ops():
    s = read("syntax/grammar.rs")
    f = re.search(r"fn op\(", s)
    need(f, "grammar.rs: op() not found")
    m = re.compile(r"let \(\w+, \w+, \w+\) = match p\.nth\(\w+, 0\) \{(.*?)_ => return None,", re.S).search(s, f.end())
    need(m, "grammar.rs: op() table not found")
    rows = []
    for mm in re.finditer(r"([\w |]+) => \((\d+), (\w+), (true|false)\),", m.group(1)):
        for tok in mm.group(1).split("|"):
            rows.append((tok.strip(), int(mm.group(2)), mm.group(3), mm.group(4) == "true"))
    need(rows, "grammar.rs: op() table empty")
    need(len({r[0] for r in rows}) == len(rows), "grammar.rs: an operator token has two arms")
    return sorted(rows, key=lambda r: (r[1], r[0]))            # the arms are disjoint: their order in the source does not matter


def parse_builtins():
    s = read("eval.rs")
    f = re.search(r"fn builtin\(", s)
    need(f, "eval.rs: builtin() not found")
    m = re.compile(r"let \w+: BuiltIn = match \w+ \{(.*?)_ => return None,", re.S).search(s, f.end())
    need(m, "eval.rs: builtin() table not found")
    rows = re.findall(r'"(\w+)" => builtin::(\w+),', m.group(1))
    need(rows, "eval.rs: builtin() empty")
    need(len({r[0] for r in rows}) == len(rows), "eval.rs: a builtin name has two arms")
    order = {"sin": 0, "cos": 1, "round": 2, "floor": 3, "ceil": 4}
    return sorted(rows, key=lambda r: (order.get(r[0], 9), r[0]))            # disjoint string arms: source order does not matter


def parse_cli():
    s = read("bin/any.rs")
    lim = re.search(r"spec\.limit = (\d+);", s)
    el = re.search(r"spec\.exponent_limit = (\d+);", s)
    cont = re.search(r"spec\.show_continuation = (true|false);", s)
    need(lim and el and cont, "bin/any.rs: display spec literals not found")
    return int(lim.group(1)), int(el.group(1)), cont.group(1) == "true"


# --------------------------------------------------------------------------------------------------- db.rs protocol
def parse_db_protocol():
    """The order of the persistent effects (and of the guarded crash points between them) in open_index and in the rebuild block of
    open_inner, as they stand in src/db.rs."""
    s = read("db.rs")
    m = re.search(r"fn open_index\(config: &crate::config::Config\) -> Result<\(bool, Index\)> \{(.*?)\n\}\n", s, re.S)
    need(m, "db.rs: open_index not found")
    body = m.group(1)
    fv = re.search(r"let (\w+) = match config\.meta\.version\.as_deref\(\) \{\s*Some\((\w+)\) => \2 != config\.this_version,\s*_ => true,", body)
    need(fv, "db.rs: the version gate of open_index changed")
    ro = re.search(r"if !%s \{\s*if let Ok\((\w+)\) = Index::open_in_dir\(&config\.index_path\) \{.{0,200}?return Ok\(\(false, \1\)\);" % fv.group(1), body, re.S)
    need(ro, "db.rs: the reopen path of open_index changed")
    after = body[ro.end():]
    wv = re.search(r"let mut (\w+) = [^;]*?\.writer(?:_with_num_threads)?\(", s, re.S)
    need(wv, "db.rs: no index writer is created")
    W = wv.group(1)
    pats = [(r"crate::verif::crash_point\((\d+)\)", "CP"), (r"config\.remove_meta\(\)", "RemoveMeta"), (r"fs::remove_dir_all\(", "RemoveDir"),
            (r"fs::create_dir_all\(", "CreateDir"), (r"Index::create_in_dir\(", "CreateIndex"), (W + r"\.delete_all_documents\(\)", "DeleteAll"),
            (r"\(\s*(?:[^;()]*,\s*)?&mut " + W + r"\b", "AddDocs"), (W + r"\.commit\(\)", "Commit"), (r"config\.write_meta\(\)", "WriteMeta")]

    def scan(text):
        found = []
        for pat, name in pats:
            for mm in re.finditer(pat, text):
                found.append((mm.start(), name, mm.group(1) if name == "CP" else None))
        found.sort()
        out = []
        for _, n, a in found:
            if n == "AddDocs" and out and out[-1][0] == "AddDocs":
                continue                    # several calls that hand the writer on are one effect
            out.append((n, a))
        return out
    idx = scan(after)
    need(re.search(r"if config\.index_path\.is_dir\(\) \{\s*log::info!\([^;]*;\s*fs::remove_dir_all", after, re.S), "db.rs: remove_dir_all is no longer guarded by is_dir()")
    m2 = re.search(r"fn open_inner\(in_memory: bool\) -> Result<Self> \{(.*?)\n    \}\n", s, re.S)
    need(m2, "db.rs: open_inner not found")
    inner = m2.group(1)
    mo = re.search(r"let \((\w+), (\w+)\) = open_index\(&config\)\?;", inner)
    need(mo and re.search(r"rebuild = rebuild \|\| %s;|rebuild \|= %s;" % (mo.group(1), mo.group(1)), inner), "db.rs: open_inner no longer combines the rebuild flags")
    mh = re.search(r"let (\w+) = config\.hash_assets\(\);", inner)
    need(mh and re.search(r"Some\((\w+)\) if !in_memory => \1 != %s,\s*_ => true," % mh.group(1), inner), "db.rs: the stored-hash test changed")
    pre = scan(inner[inner.index("open_index(&config)?;"):inner.index("if rebuild {")])
    blk = inner[inner.index("if rebuild {"):]
    reb = scan(blk)
    # the guard around the write of the metadata: which starts record the index as current
    need(blk.count("config.write_meta()?;") == 1, "db.rs: write_meta is not called exactly once after a rebuild")
    at = blk.index("config.write_meta()?;")
    if re.search(r"if !in_memory \{\s*$", blk[:at]):
        guard = "OnDiskOnly"
    elif re.search(r"if config\.index_path\.is_dir\(\) \{\s*$", blk[:at]):
        guard = "IfIndexDir"
    elif blk[:at].count("{") - blk[:at].count("}") == 1 and re.search(r";\s*$", blk[:at]):
        guard = "Always"                     # a plain statement of the rebuild block
    else:
        raise Fail("db.rs: the condition under which write_meta runs is not one the model knows")
    s2 = read("config.rs")
    need(re.search(r"pub fn write_meta\(&self\) -> Result<\(\)> \{\s*let (\w+) = fs::File::create\(&self\.meta_path\)\?;\s*serde_json::to_writer\(\1, &self\.meta\)\?;", s2), "config.rs: write_meta changed")
    need("config.meta.version = Some(config.this_version.to_owned());" in blk and ("config.meta.database_hash = Some(%s);" % mh.group(1)) in blk, "db.rs: the metadata written after a rebuild changed")
    return idx, pre, reb, guard


# --------------------------------------------------------------------------------------------------- db
def cbor_dec(b, i=0):
    ib = b[i]
    mt = ib >> 5
    ai = ib & 31
    i += 1

    def arg(ai, i):
        if ai < 24:
            return ai, i
        if ai == 24:
            return b[i], i + 1
        if ai == 25:
            return struct.unpack(">H", b[i:i + 2])[0], i + 2
        if ai == 26:
            return struct.unpack(">I", b[i:i + 4])[0], i + 4
        if ai == 27:
            return struct.unpack(">Q", b[i:i + 8])[0], i + 8
        if ai == 31:
            return None, i
        raise Fail("cbor: additional info %d" % ai)
    if mt == 7:
        if ai == 20:
            return False, i
        if ai == 21:
            return True, i
        if ai == 22:
            return None, i
        raise Fail("cbor: simple value %d" % ai)
    n, i = arg(ai, i)
    if mt == 0:
        return n, i
    if mt == 1:
        return -1 - n, i
    if mt == 2:
        return ("bytes", b[i:i + n].hex()), i + n
    if mt == 3:
        return b[i:i + n].decode(), i + n
    if mt == 4:
        out = []
        if n is None:
            while b[i] != 0xFF:
                v, i = cbor_dec(b, i)
                out.append(v)
            return out, i + 1
        for _ in range(n):
            v, i = cbor_dec(b, i)
            out.append(v)
        return out, i
    if mt == 5:
        out = []
        if n is None:
            while b[i] != 0xFF:
                k, i = cbor_dec(b, i)
                v, i = cbor_dec(b, i)
                out.append((k, v))
            return ("map", out), i + 1
        for _ in range(n):
            k, i = cbor_dec(b, i)
            v, i = cbor_dec(b, i)
            out.append((k, v))
        return ("map", out), i
    raise Fail("cbor: major type %d" % mt)


def mget(m, k, default=None):
    need(isinstance(m, tuple) and m[0] == "map", "cbor: map expected")
    for kk, v in m[1]:
        if kk == k:
            return v
    return default


def bigint_of(v):
    sign, digits = v
    n = 0
    for i, d in enumerate(digits):
        n += d << (32 * i)
    if sign == -1:
        n = -n
    need(sign in (-1, 0, 1), "db: bad sign")
    return n


def parse_db(bases, ids):
    dbdir = os.path.join(REPO, "db")
    files = sorted(f for f in os.listdir(dbdir))
    consts = []
    sources = []
    for f in files:
        raw = gzip.open(os.path.join(dbdir, f)).read()
        doc, end = cbor_dec(raw)
        need(end == len(raw), "db/%s: trailing bytes" % f)
        if f == "sources.bin.gz":
            for sc in mget(doc, "sources", []):
                sources.append({"id": mget(sc, "id"), "description": mget(sc, "description"), "url": mget(sc, "url")})
            continue
        for c in mget(doc, "constants", []) or []:
            val = mget(c, "value")
            num, den = bigint_of(val[0]), bigint_of(val[1])
            need(den > 0, "db/%s: non-positive denominator" % f)
            unit = []
            names = mget(mget(c, "unit"), "names")
            for k, st in names[1]:
                if isinstance(k, str):
                    need(k in bases, "db/%s: unknown base unit %s" % (f, k))
                    key = ("B", k)
                else:
                    did = mget(k, "Derived")
                    need(did in ids, "db/%s: unknown derived id %s" % (f, did))
                    key = ("D", did)
                unit.append((key, mget(st, "power"), mget(st, "prefix")))
            consts.append({"file": f, "tokens": mget(c, "tokens"), "description": mget(c, "description"), "source": mget(c, "source"),
                           "num": num, "den": den, "unit": unit})
    return files, consts, sources


# --------------------------------------------------------------------------------------------------- output
def write_if_changed(path, text):
    if os.path.exists(path) and open(path, encoding="utf-8").read() == text:
        return False
    with open(path, "w", encoding="utf-8") as f:
        f.write(text)
    return True


def main():
    os.makedirs(GEN, exist_ok=True)
    bases, bias, suffix, supers = parse_unit_rs()
    units = parse_units()
    consts, arms = parse_ids()
    pconsts, ptable = parse_prefix()
    for k, u in units.items():
        need(u["idname"] in consts, "ids.rs: no constant %s" % u["idname"])
        u["id"] = consts[u["idname"]]
    by_id = {}
    for k, u in units.items():
        by_id.setdefault(u["id"], []).append(k)
    comb, un, arms1, arms2 = parse_wordlexers(units, bases)
    ops = parse_ops()
    builtins = parse_builtins()
    limit, el, cont = parse_cli()
    dbfiles, shipped, sources = parse_db(bases, {u["id"] for u in units.values()})

    BASE_CODE = 4294967296
    doc_names_early = []
    dt0 = os.path.join(REPO, "tools", "gen", "data.toml")
    if os.path.exists(dt0):
        txt0 = open(dt0, encoding="utf-8").read()
        for blk in re.split(r"\n(?=\[\[)", txt0):
            m0 = re.match(r"\[\[(\w+)\]\]", blk.strip())
            nm0 = re.search(r"names = \[(.*?)\]", blk, re.S)
            var0 = re.search(r'variant = "(\w+)"', blk)
            if m0 and nm0 and var0:
                doc_names_early.append({"section": m0.group(1), "variant": var0.group(1), "names": re.findall(r'"(.*?)"', nm0.group(1))})

    def ukey(x):
        return units[x[1]]["id"] if x[0] == "D" else BASE_CODE + bases.index(x[1])

    def dkey(x):
        return x[1] if x[0] == "D" else BASE_CODE + bases.index(x[1])

    header = "(* GENERATED by tools/translate.py from /repo -- do not edit. *)\nFrom Coq Require Import ZArith NArith List.\nImport ListNotations.\nFrom AV Require Import model.UnitTypes.\nOpen Scope Z_scope.\n\n"

    # ---- UnitDefs.v
    o = [header]
    o.append("(* base units in the variant order of `enum Unit` (after Derived): index, prefix_bias, suffix *)\n")
    o.append("Definition base_table : list (N * Z * list N) := [\n  " +
             ";\n  ".join("(%d%%N, %d, %s) (* %s *)" % (i, bias.get(b, 0), zs(suffix[b]), b) for i, b in enumerate(bases)) + "].\n\n")
    o.append("(* serde names of the base variants of `enum Unit` (the variant identifiers), by index *)\n")
    o.append("Definition base_names : list (N * list N) := [" + ";".join("(%d%%N, %s)" % (i, zs(b)) for i, b in enumerate(bases)) + "].\n\n")
    o.append("(* derived units: id, base-power closure (base index, multiplier), conversion, singular and plural display names *)\n")
    rows = []
    for k in sorted(units, key=lambda k: units[k]["id"]):
        u = units[k]
        cl = "[" + ";".join("(%d%%N, %d)" % (bases.index(b), m) for b, m in u["powers"]) + "]"
        c = u["conv"]
        if c[0] == "None":
            cv = "CNone"
        elif c[0] in ("Factor", "Offset"):
            cv = "C%s %d %d" % (c[0], c[1], c[2])
        else:
            def opsl(l):
                return "[" + ";".join("M%s %d %d" % ({"+": "Add", "-": "Sub", "*": "Mul"}[a], b, d) for a, b, d in l) + "]"
            cv = "CMethods %s %s" % (opsl(c[1]), opsl(c[2]))
        rows.append("(%d%%N, %s, %s, %s, %s) (* %s *)" % (u["id"], cl, cv, zs(u["singular"]), zs(u["plural"]), k))
    o.append("Definition derived_table : list (N * list (N * Z) * conv * list N * list N) := [\n  " + ";\n  ".join(rows) + "].\n\n")
    o.append("(* generated/ids.rs: the constants (in file order) and the id_to_derived table as (id, id of the unit it returns) *)\n")
    o.append("Definition id_consts : list N := [" + ";".join("%d%%N" % v for v in consts.values()) + "].\n")
    idrows = []
    for i, path in arms.items():
        need(path in units, "ids.rs: id_to_derived names unknown unit %s" % path)
        idrows.append("(%d%%N, %d%%N)" % (i, units[path]["id"]))
    o.append("Definition id_to_derived_table : list (N * N) := [" + ";".join(idrows) + "].\n\n")
    o.append("(* superscript characters of pow_into_char, 0..9 *)\nDefinition superscripts : list N := " + zs("".join(supers)) + ".\n")
    ch = write_if_changed(os.path.join(GEN, "UnitDefs.v"), "".join(o))

    # ---- Prefixes.v
    o = [header]
    o.append("(* src/prefix.rs: the PREFIXES search table in array order: exponent, display letters *)\n")
    o.append("Definition prefix_table : list (Z * list N) := [\n  " + ";\n  ".join("(%d, %s) (* %s *)" % (e, zs(l), v) for e, l, v in ptable) + "].\n")
    write_if_changed(os.path.join(GEN, "Prefixes.v"), "".join(o))

    # ---- UnitWords.v : learned lexer tables (cached on the content of generated/unit.rs and the logos crate version)
    src_hash = hashlib.sha256((read("generated/unit.rs") + open(os.path.join(REPO, "Cargo.lock")).read()).encode()).hexdigest()
    uw_path = os.path.join(GEN, "UnitWords.v")
    side_path = os.path.join(GEN, "unitwords.json")
    cached = os.path.exists(uw_path) and ("source-hash: " + src_hash) in open(uw_path, encoding="utf-8").read() and os.path.exists(side_path)
    if not cached:
        def action_c(v):
            a = arms1[v]
            if a[0] == "sep":
                return "WSep"
            if a[0] == "unit":
                return "WUnit %d%%N (%d)" % (ukey(a[1]), a[2])
            alone = "None"
            if a[2] is not None:
                alone = "Some (%s, %d%%N, (%d))" % (bs(a[2][0].encode()), ukey(a[2][1]), a[2][2])
            need(a[1] in pconsts, "generated/unit.rs: unknown prefix constant %s" % a[1])
            return "WPrefix (%d) (%s)" % (pconsts[a[1]], alone)

        def action_u(v):
            a = arms2[v]
            if a[0] == "sep":
                return "WSep"
            return "WUnit %d%%N (%d)" % (ukey(a[1]), a[2])
        o = [header, "(* source-hash: %s *)\n" % src_hash]
        side = {}
        for which, name, toks, act in (("c", "combined", comb, action_c), ("u", "units", un, action_u)):
            nodes, order, table = learn_lexer(which, toks)
            index = {n: i for i, n in enumerate(order)}

            def outc(x):
                if x is None or x[0] == "end":
                    return "OEnd"
                if x[0] == "err":
                    return "OErr"
                return "OTok (%s) %d" % (act(x[1]), x[2])
            rows = []
            for n in order:
                edges = "[" + ";".join("(%d%%N, %d%%nat)" % (b, index[c]) for b, c in sorted(nodes[n].items())) + "]"
                rows.append("{| npath := %s; edges := %s; at_end := %s; at_other := %s |}" % (bs(n), edges, outc(table.get((n, "end"))), outc(table.get((n, "other")))))
            o.append("(* byte trie of the `%s` lexer: %d tokens, %d nodes; node 0 is the root. The outcome of one lexer step that stops at a\n   node is recorded as observed on the real generated lexer (followed by end of input / by a byte on no edge). *)\n" % (name, len(toks), len(order)))
            o.append("Definition %s_trie : list node := [\n  " % name + ";\n  ".join(rows) + "].\n\n")
            o.append("(* the token table of the `%s` lexer: spelling (bytes) and what parse() does with the token *)\n" % name)
            o.append("Definition %s_tokens : list (list N * wtok) := [\n  " % name + ";\n  ".join("(%s, %s) (* %s *)" % (bs(t.encode()), act(v), t) for t, v in toks) + "].\n\n")
            side[name] = {"tokens": [[t, v] for t, v in toks],
                          "table": [[n.hex(), k, list(v)] for (n, k), v in table.items()]}
        write_if_changed(uw_path, "".join(o))
        json.dump(side, open(side_path, "w"))

    # ---- Tables.v : operator table, builtins, CLI spec
    o = [header]
    o.append("(* src/syntax/grammar.rs op(): token kind, priority, operator node kind, operand is a unit *)\n")
    import vlib
    o.append("Definition op_table : list (N * nat * N * bool) := [" + ";".join("(%d%%N, %d%%nat, %d%%N, %s)" % (vlib.KIND_CODE[t], p, vlib.KIND_CODE[k], "true" if u else "false") for t, p, k, u in ops) + "].\n\n")
    o.append("(* src/eval.rs builtin(): function names *)\nDefinition builtin_table : list (list N * list N) := [" + ";".join("(%s, %s)" % (zs(a), zs(b)) for a, b in builtins) + "].\n\n")
    o.append("(* tools/gen/data.toml: the documented names of every unit, with the unit they are documented to denote and its prefix bias *)\n")
    docrows = []
    for dn in doc_names_early:
        if dn["section"] != "units":
            continue
        arm = arms2.get(dn["variant"])
        if not arm or arm[0] != "unit":
            raise Fail("data.toml: unit variant %s has no arm in parse()" % dn["variant"])
        for nm in dn["names"]:
            docrows.append("(%s, %d%%N, (%d)) (* %s *)" % (bs(nm.encode()), ukey(arm[1]), arm[2], nm))
    o.append("Definition documented_names : list (list N * N * Z) := [\n  " + ";\n  ".join(docrows) + "].\n\n")
    o.append("(* src/bin/any.rs: display spec of the command line *)\nDefinition cli_limit : nat := %d%%nat.\nDefinition cli_exponent_limit : nat := %d%%nat.\nDefinition cli_show_continuation : bool := %s.\n" % (limit, el, "true" if cont else "false"))
    write_if_changed(os.path.join(GEN, "Tables.v"), "".join(o))

    # ---- DbSteps.v
    idx_steps, pre_steps, reb_steps, meta_guard = parse_db_protocol()

    def steps(l):
        return "[" + "; ".join("CP %s" % a if n == "CP" else "Eff %s" % n for n, a in l) + "]"
    o = ["(* GENERATED by tools/translate.py from /repo -- do not edit. *)\nFrom Coq Require Import List.\nImport ListNotations.\nFrom AV Require Import model.DbTypes.\n\n"]
    o.append("(* src/db.rs: persistent effects and crash points, in source order: the recreate path of open_index, what follows the call of\n   open_index in open_inner, and the rebuild block of open_inner *)\n")
    o.append("Definition open_index_steps : list step := %s.\n" % steps(idx_steps))
    o.append("Definition after_open_steps : list step := %s.\n" % steps(pre_steps))
    o.append("Definition rebuild_steps : list step := %s.\n" % steps(reb_steps))
    o.append("(* the writer constructor: number of indexing threads (0 = tantivy's default, one per core up to 8) *)\n")
    dbs = read("db.rs")
    wm = re.search(r"\.writer_with_num_threads\(\s*(\w+),", dbs)
    threads = 0
    if wm:
        arg = wm.group(1)
        if arg.isdigit():
            threads = int(arg)
        else:
            cm = re.search(r"const %s: \w+ = ([\d_]+);" % arg, dbs)
            need(cm, "db.rs: cannot resolve the thread count `%s`" % arg)
            threads = num(cm.group(1))
    else:
        need(re.search(r"\.writer\(", dbs), "db.rs: no index writer constructor found")
    o.append("Definition writer_threads : nat := %d.\n" % threads)
    o.append("(* the guard around config.write_meta() in the rebuild block *)\nDefinition meta_written_when : meta_guard := %s.\n" % meta_guard)
    write_if_changed(os.path.join(GEN, "DbSteps.v"), "".join(o))

    # ---- Shipped.v
    o = [header]
    o.append("(* db/*.bin.gz: every shipped constant: search words, value (numerator, denominator), unit (key, power, prefix), source id (or -1) *)\n")
    rows = []
    for c in shipped:
        unit = "[" + ";".join("(%d%%N, (%d, %d))" % (dkey(k), p, e) for k, p, e in sorted(c["unit"], key=lambda x: dkey(x[0]))) + "]"
        toks = "[" + ";".join(zs(t) for t in c["tokens"]) + "]"
        rows.append("(%s, (%d, %d), %s, %d)" % (toks, c["num"], c["den"], unit, -1 if c["source"] is None else c["source"]))
    o.append("Definition shipped : list (list (list N) * (Z * Z) * list (N * (Z * Z)) * Z) := [\n  " + ";\n  ".join(rows) + "].\n\n")
    o.append("Definition source_ids : list Z := [" + ";".join(str(s["id"]) for s in sources) + "].\n")
    write_if_changed(os.path.join(GEN, "Shipped.v"), "".join(o))

    # ---- side file for generators
    doc_names = []
    dt = os.path.join(REPO, "tools", "gen", "data.toml")
    if os.path.exists(dt):
        txt = open(dt, encoding="utf-8").read()
        cur = None
        for blk in re.split(r"\n(?=\[\[)", txt):
            m = re.match(r"\[\[(\w+)\]\]", blk.strip())
            if not m:
                continue
            nm = re.search(r"names = \[(.*?)\]", blk, re.S)
            var = re.search(r'variant = "(\w+)"', blk)
            if nm and var:
                doc_names.append({"section": m.group(1), "variant": var.group(1), "names": re.findall(r'"(.*?)"', nm.group(1)),
                                  "prefix_bias": int(re.search(r"prefix_bias = (-?\d+)", blk).group(1)) if re.search(r"prefix_bias = (-?\d+)", blk) else 0})
    side = {
        "bases": bases, "bias": bias, "suffix": suffix,
        "units": {k: {"id": u["id"], "powers": u["powers"], "conv": u["conv"], "singular": u["singular"], "plural": u["plural"]} for k, u in units.items()},
        "prefixes": [[e, l, v] for e, l, v in ptable],
        "combined": [[t, v, list(arms1[v][:1]) + [str(arms1[v][1:])]] for t, v in comb],
        "units_tokens": [[t, v] for t, v in un],
        "arms1": {v: a for v, a in arms1.items()}, "arms2": {v: a for v, a in arms2.items()},
        "ops": ops, "builtins": builtins, "cli": [limit, el, cont],
        "shipped": shipped, "sources": sources, "dbfiles": dbfiles, "documented": doc_names,
    }
    write_if_changed(os.path.join(GEN, "tables.json"), json.dumps(side, ensure_ascii=False, indent=0, default=list))
    return 0


if __name__ == "__main__":
    try:
        sys.exit(main())
    except Fail as e:
        print("translate: " + str(e), file=sys.stderr)
        sys.exit(1)
