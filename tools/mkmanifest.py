#!/usr/bin/env python3
"""Regenerates /verif/MANIFEST.json from the table below (kept here so that claims stay in one place)."""
import json, os
V = os.path.dirname(os.path.dirname(os.path.abspath(__file__)))
props = [json.loads(l) for l in open(os.path.join(V, "properties.jsonl"))]

TECH = "Rocq proof over an executable Gallina model + model/implementation correspondence"
CLAIMS = {
 "C05": ("proof", "Rocq theorems decided by kernel computation over tables translated from /repo on every run: the learned lexer tables are tries; on the whole vocabulary (every unit name and alias alone and crossed with every prefix spelling, 9.7k words) every accepted word whose lexer path is clean is read as one of its valid prefix+name splits; every documented name parses alone to its documented unit; every unit word of a hand-written reference table (SI Brochure, 1959 yard-pound agreement, NIST HB 44) denotes a unit with the reference dimensions and an accepted exact value, except three recorded findings which provably match none; the reference covers all derived units.",
         "Trusted: Coq kernel + vm_compute; translator incl. the lexer tables LEARNED from the real logos lexers through a hook; the reference table; correspondence on the vocabulary, random concatenations and random bytes. Unit-expression structure (juxtaposition, *, /, ^n) is decided by correspondence and an independent Python reading. Known findings: logos not maximal munch; Dalton, pint, fathom values (KNOWN_FINDINGS.txt)."),
 "C11": ("proof", "PARTIAL. Rocq theorems for every tree / every string: the lexer is total and lossless; the evaluator stays within its fuel and can only panic through Compound::new's debug assertion (never in a release build of the model); eval::unit and round never panic; every error a query reports has a span inside [0, byte length] running between node boundaries. Everything the model cannot express (tantivy query parser, codespan, num, allocator, stack) is exercised by running debug and release builds under catch_unwind and the real binary on generated token soups, mutated queries and quantity expressions.",
         "Trusted: Coq kernel + vm_compute; hand-written model; correspondence in both build modes. Not proved: parse totality and the non-zero-power invariant of products (observed on every input). Inputs are kept inside the property's bounds (exponents <= 3 digits, powers <= 2 digits, no power towers)."),
 "C19": ("proof", "Rocq model of what bin/any.rs prints per result on top of the pipeline model, with theorems on its logic (one item per result in order, errors do not abort; the exact form is the fraction in lowest terms with the slash iff the denominator is not one; space iff the unit has a numerator part); the decisive tie is the line-by-line comparison of the real binary's stdout with the model's rendering and with an independent rendering from the library's results.",
         "Trusted: Coq kernel + vm_compute; hand-written model; the real `any` binary built from /repo with a private on-disk database; codespan's diagnostic block is opaque apart from message, position and width."),

 "C15": ("proof", "PARTIAL. Rocq theorems over a state-machine model of Db::open whose effect order and crash points are translated from src/db.rs on every run: from EVERY starting directory state that does not already pair current metadata with a foreign index (all combinations of meta.json absent / garbage / JSON with or without version and hash keys, current or other, and index directory missing / unopenable / empty / shipped / other) and after EVERY history of starts killed at any crash point, of any length, the next completed start answers from the shipped data and leaves current metadata; metadata never declares the index current unless the index is completely committed or unusable; commit precedes write_meta and remove_meta precedes deleting or recreating the index. Tied to the code by driving the real Db::open through every state x crash point x further starts and comparing with the model and with an in-memory database.",
         "Trusted: Coq kernel + vm_compute; translator (effect order, crash-point positions); the hand-written rebuild decision; atomicity of each persistent effect (tantivy commit, remove_file, a torn meta.json = garbage); the correspondence with the crash hooks. Filesystem reordering and concurrent starts are outside the model."),
 "C17": ("proof", "Rocq theorems: the CBOR subset serde_cbor uses decodes back to the encoded value for every value (fuel = bytes + 1 always suffices); u32-digit vectors, big integers, rationals, i32 states, units, unit expressions and constants round-trip through the serde encodings of the model; derived-unit identifiers (translated from generated/ids.rs) are pairwise distinct and decode to the same unit; every shipped constant's value and unit round-trip through the bytes (by kernel computation over the translated data).",
         "Trusted: Coq kernel + vm_compute; translator (its CBOR reading of db/*.bin.gz is cross-checked against serde's); hand-written codec model validated byte for byte against serde_cbor::to_vec / from_slice and serde_json on all shipped values, random 1000-bit rationals and random compounds. JSON decoding is checked on the implementation only."),
 "C18": ("proof", "Rocq theorems over the evaluator model with an arbitrary fact database: same value with and without descriptions from any starting list; nothing recorded when off; with the switch evaluation only appends, in evaluation order, phrases for which the database returned a constant; the roots of a query list evaluated against one database have the values they have in isolation. By simulation between the two runs through every node kind and both loops.",
         "Trusted: Coq kernel + vm_compute; hand-written evaluator model; correspondence including description order; re-ordered and fresh-process runs for the assumption that Db::lookup has no hidden state."),

 "C02": ("proof", "Rocq theorems over the model of Powers / Compound::base_units / factor and the unit tables translated from /repo: base_units computes the dimension vector (no zero entries); for ALL compounds of proportional units, + - and `to` succeed iff both sides have the same base dimensions and are the IllegalOperation / false answer otherwise; a plain number adopts the quantity's unit on either side.",
         "Trusted: Coq kernel + vm_compute; translator; hand-written model; correspondence on generated pairs of unit spellings; SI normalisation in Python as oracle (unit-word reading is C05)."),
 "C03": ("proof", "Rocq theorem factor_si: a successful conversion preserves value * SI scale, for all compounds over the translated tables (all conversion factors positive, by computation); corollaries: exact round trip, via = direct, linearity, prefix = its power of ten (translated prefix table equals the SI one), scale of powers and products.",
         "Trusted: as C02."),
 "C04": ("proof", "Rocq theorem mul_si: Compound::mul with reconstruct / bases_match / inner_match preserves the SI value and adds the dimensions whatever derived units the heuristic re-introduces (invariants through every step of the loop); op_mul / op_div / op_pow of the evaluator give product / quotient / power of SI values and sum / difference / multiple of dimensions; products never fail.",
         "Trusted: as C02. The debug assertion of Compound::new (non-zero powers of the result) is observed by the correspondence in debug mode, not proved."),
 "C09": ("proof", "Rocq theorems: a conversion between kelvin, Celsius, Fahrenheit (each alone, power one) is exactly the composition of the defining formulas, with the Celsius offset and the Fahrenheit closures translated from src/units/temperature.rs; six pair formulas, invertibility, any chain = direct; an offset scale anywhere but alone with power one is refused (never yields a value).",
         "Trusted: as C02."),
 "C13": ("proof", "Rocq theorems: a+b=b+a (incl. success on both sides), (a+b)+c=a+(b+c), a-a=0, a*b=b*a, (a*b)*c=a*(b*c), a*(b+c)=a*b+a*c, a/a=1 dimensionless, as equalities of base-SI value and base dimensions, for all quantities (value, compound) -- literals and looked-up facts alike; corollaries of si(a+b)=si a+si b and si(a*b)=si a*si b.",
         "Trusted: as C02; facts enter the model as the constants the real database returned."),

 "C01": ("proof", "Rocq theorem eval_exact: on every syntax tree of numeric shape (number leaves, percentages, OPERATION nodes folded left) the evaluator model returns a plain number equal to what exact rational arithmetic (spec/Arith.v) assigns, an error exactly where arithmetic is undefined (division by zero, zero to a negative power), and leaves the description list unchanged; by induction over the tree, the pow loop shown equal to Qpower. Tied to the code by exact numerator/denominator comparison of model and implementation on generated expressions with literals of up to 300 digits.",
         "Trusted: Coq kernel + vm_compute; the hand-written evaluator model over Coq's Q (num::BigRational assumed exact, exercised by the correspondence); the correspondence; an independent Python-fractions evaluator as oracle. That the parser yields the intended tree is C06."),
 "C06": ("proof", "Rocq theorems: the precedence-stack discipline of operation(), abstracted into frames, yields for ANY number of operators a parse valid for the documented grammar with the input as yield; that grammar is unambiguous; hence climb = canon (level splitting: ^ over * / over + - over to, left to right). The concrete lexer+parser model is tied to it inside the kernel by computation for all operator sequences of length <= 5 and all one-gap layout variants (bound in the statement). Parentheses, calls, casts and deeper trees are decided by correspondence plus an independent tree evaluator.",
         "Trusted: Coq kernel + vm_compute; the hand-written parser model; correspondence; Python oracle. The general refinement forest-model -> frames (beyond 5 operators, with parentheses) is not proved: partial."),

 "C07": ("proof", "Rocq theorem: the byte state machine of `Rational::from_str` reads every well-formed literal of any length as exactly the number it spells; a text lexed as one NUMBER token (optionally followed by %) evaluates as a query to what the number parser reads. Tied to the code by running model and implementation on all well-formed literals up to a length bound, random literals up to 300 digits and a malformed sweep.",
         "Trusted: Coq kernel + vm_compute; the hand-written model; the correspondence; an independent Python reading of literals as oracle. The lexer-takes-the-whole-literal step is discharged per input (correspondence), not yet by a general lemma."),
 "C08": ("proof", "Rocq theorem display_faithful: for every value, digit limit and exponent threshold what the formatter prints is the value cut off toward zero at the last printed digit, with the mark set exactly when non-zero digits were cut; proved on all three formatter paths from the long-division invariant. Tied to the code by comparing the printed characters of model and implementation.",
         "Trusted: Coq kernel + vm_compute; the hand-written model (fmt + rendering); correspondence on sampled (value, limit, threshold); Python read-back of the real text as oracle. Character placement of the point is validated by correspondence/read-back, not proved."),
 "C10": ("proof", "Rocq theorems on the model's builtins: floor/ceil bracket the argument by an integer, round is the nearest integer with halves away from zero, round(x, n) is the nearest multiple of 10^-n for every integer n, the unit is carried through, wrong arities are errors, and the debug assertion of round cannot fire. num-rational's floor/ceil/round are transcribed with truncating division.",
         "Trusted: Coq kernel + vm_compute; the hand-written model; correspondence on generated calls; Python fractions as oracle."),
 "C12": ("proof", "Rocq theorems over a Gallina model of the lexer and of the parser/grammar (tokens non-empty and concatenating to the input for every string; the leaves of every finished parse are exactly the tokens), tied to the Rust code by running model (vm_compute inside Coq) and implementation on the same strings and comparing tokens and trees.",
         "Trusted: Coq kernel + vm_compute; the hand-written model; the differential correspondence (exhaustive short strings + random). Parse totality is observed on every generated input, not yet proved."),
}
checks = []
for p in props:
    i = p["id"]
    if i not in CLAIMS:
        continue
    cat, text, note = CLAIMS[i]
    checks.append({
        "property_id": i, "quick_cmd": "./check %s --tier quick" % i, "thorough_cmd": "./check %s --tier thorough" % i,
        "evidence_file": "/verif/evidence/%s.json" % i, "replay_cmd_template": "./check %s --replay {path}" % i, "engine": "coq-model",
        "level_claimed": {"category": cat, "text": text, "design_ref": "DESIGN.md section 4, %s" % i},
        "level_note": note, "technique": TECH})
man = {
    "version": 1, "setup_cmd": "./setup.sh",
    "hooks": {"guard": "cargo feature `verif` of the anything crate",
              "enable": "the harness crate depends on anything = { path = \"/repo\", features = [\"verif\"] }",
              "baseline_off_cmd": "cd /repo && cargo nextest run --workspace --no-fail-fast --offline --test-threads 8",
              "source_commits": ["6986680", "c1e94fc"], "add_only": True},
    "engines": [{"name": "coq-model", "path": "/verif/coq", "serves_properties": sorted(CLAIMS),
                 "kind_free_text": "Rocq (Coq 8.16.1) development: tables translated from /repo on every run (tools/translate.py), executable Gallina model, proofs, property statements; correspondence harness in /verif/harness (Rust) driven by /verif/check"}],
    "checks": checks,
    "not_applicable": [{"property_id": p["id"], "reason": "check under construction in this phase; not yet claimed"} for p in props if p["id"] not in CLAIMS],
    "notes": "See DESIGN.md. Known findings and repaired defects: KNOWN_FINDINGS.txt.",
}
json.dump(man, open(os.path.join(V, "MANIFEST.json"), "w"), indent=1)
print("claimed:", sorted(CLAIMS))
