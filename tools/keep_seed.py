#!/usr/bin/env python3
"""keep_seed.py <seed dir> <name> <property> <what it needs to manifest> <check result summary>
Copies a confirmed seeded change into /verif/seeded/<name>/ with a meta.json."""
import json, os, shutil, sys
src, name, prop, needs, result = sys.argv[1:6]
dst = os.path.join("/verif/seeded", name)
os.makedirs(os.path.join(dst, "demo"), exist_ok=True)
shutil.copy(os.path.join(src, "patch.diff"), dst)
for f in os.listdir(os.path.join(src, "demo")):
    if os.path.isfile(os.path.join(src, "demo", f)):
        shutil.copy(os.path.join(src, "demo", f), os.path.join(dst, "demo"))
if os.path.exists(os.path.join(src, "notes.md")):
    shutil.copy(os.path.join(src, "notes.md"), dst)
confirm = {}
for k in ("confirm_without.log", "confirm_with.log", "confirm_suite.log"):
    p = os.path.join(src, k)
    if os.path.exists(p):
        lines = [l for l in open(p, errors="replace").read().splitlines() if "test result" in l or "Summary" in l or "passed" in l]
        confirm[k] = lines[-2:]
meta = {
    "breaks_property": prop,
    "needs_to_manifest": needs,
    "origin": "written by an independent sub-agent given only the property text and a scratch worktree of /repo",
    "confirmed": {
        "how": "tools/confirm_seed.sh in a scratch worktree: the demonstration (demo/demo_test.rs or demo/demo.sh) passes on /repo HEAD, fails with patch.diff applied; "
               "cargo nextest run --workspace --offline passes (58 tests) with patch.diff applied",
        "logs": confirm,
    },
    "checks_run": result,
}
json.dump(meta, open(os.path.join(dst, "meta.json"), "w"), indent=1)
print("kept", dst)
