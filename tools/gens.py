"""Generators of well-formed queries (expression trees printed with a random legal layout) and the independent exact
evaluator used as the specification oracle for numeric expressions. Every random choice comes from the rng passed in."""
from fractions import Fraction

BLANKS = [" ", "  ", "\t", " \t ", "   ", " ", "\u00a0", "\u2003"]
UNIT_WORDS = ["m", "km", "cm", "mm", "s", "ms", "kg", "g", "N", "kN", "J", "kJ", "hr", "min", "ft", "in", "mi", "W", "kW",
              "Pa", "l", "dl", "K", "A", "V", "C", "Hz", "mol", "B", "kB", "yd", "lb", "oz", "gal", "acre", "btu", "eV", "au"]
FACTS = ["pi", "c", "speed of light", "population finland", "population world", "mass of earth", "e"]


# ----------------------------------------------------------------------------------------------- literals
def gen_digits(rng, n, leading_zero_ok=True):
    s = "".join(rng.choice("0123456789") for _ in range(n))
    if not leading_zero_ok and s and s[0] == "0":
        s = rng.choice("123456789") + s[1:]
    return s


def gen_literal(rng, maxdigits=6, exp=True, sign=False, weird=True):
    """A decimal literal the language accepts, as text: [sign] digits [. digits] [e [sign] digits] (at least one mantissa digit)."""
    form = rng.random()
    nint = rng.randint(1, maxdigits)
    if form < 0.45:
        m = gen_digits(rng, nint, leading_zero_ok=rng.random() < 0.15)
    elif form < 0.85:
        m = gen_digits(rng, nint, leading_zero_ok=rng.random() < 0.15) + "." + gen_digits(rng, rng.randint(1, maxdigits))
    elif form < 0.92 and weird:
        m = "." + gen_digits(rng, rng.randint(1, maxdigits))
    elif weird:
        m = gen_digits(rng, nint) + "."
    else:
        m = gen_digits(rng, nint)
    if exp and rng.random() < 0.25:
        m += rng.choice("eE") + rng.choice(["", "", "+", "-"]) + gen_digits(rng, rng.randint(1, 2))
    if sign and rng.random() < 0.3:
        m = rng.choice("+-") + m
    return m


def literal_value(text):
    """Exact value of a literal, independently of the implementation (Python integers/fractions)."""
    t = text
    neg = False
    if t[:1] in "+-":
        neg = t[0] == "-"
        t = t[1:]
    e = 0
    for mark in "eE":
        if mark in t:
            t, ex = t.split(mark, 1)
            e = int(ex)
            break
    if "." in t:
        a, b = t.split(".", 1)
    else:
        a, b = t, ""
    v = Fraction(int((a + b) or "0"), 1) * Fraction(10) ** (e - len(b))
    return -v if neg else v


# ----------------------------------------------------------------------------------------------- expression trees
# ('num', text) ('pct', text) ('qty', text, unit) ('bin', op, l, r) ('cast', e, unit) ('par', e) ('call', name, [args]) ('fact', phrase)
PRIO = {"to": 1, "+": 2, "-": 2, "*": 3, "/": 3, "^": 10}


def gen_numeric(rng, depth, maxdigits=5, ops="+-*/^", pct=True, neg_pow=True):
    """A purely numeric expression tree (C01/C06): literals, percentages, parentheses, + - * / ^."""
    if depth <= 0 or rng.random() < 0.25:
        if pct and rng.random() < 0.1:
            return ("pct", gen_literal(rng, maxdigits, sign=False))
        return ("num", gen_literal(rng, maxdigits, sign=rng.random() < 0.2))
    op = rng.choice(ops)
    l = gen_numeric(rng, depth - 1, maxdigits, ops, pct, neg_pow)
    if op == "^":
        k = rng.choice([0, 1, 2, 3, 4, 5, 7, 2, 3] + ([-1, -2, -3] if neg_pow else []))
        r = ("num", str(k))
    else:
        r = gen_numeric(rng, depth - 1, maxdigits, ops, pct, neg_pow)
    return ("bin", op, l, r)


def needs_par(child, parent_op, side):
    """Does `child` need parentheses as the `side` operand of `parent_op` so that the documented grammar reads it back as is?"""
    if child[0] == "cast":
        cp = 1
    elif child[0] == "bin":
        cp = PRIO[child[1]]
    else:
        return False
    pp = PRIO[parent_op]
    if cp < pp:
        return True
    if cp == pp and side == "r":
        return True          # left-associative: a right operand of equal priority must be grouped explicitly
    return False


def tokens_of(e, rng, extra_par=0.15):
    """Flatten to a token list; each token is (text, class). Classes drive the layout rules."""
    k = e[0]
    if k == "num":
        return [(e[1], "num")]
    if k == "pct":
        return [(e[1], "num"), ("%", "pct")]
    if k == "qty":
        return [(e[1], "num"), (e[2], "unit")]
    if k == "fact":
        return [(w, "word") for w in e[1].split(" ")]
    if k == "par":
        return [("(", "open")] + tokens_of(e[1], rng, extra_par) + [(")", "close")]
    if k == "call":
        out = [(e[1], "fn"), ("(", "callopen")]
        for i, a in enumerate(e[2]):
            if i:
                out.append((",", "comma"))
            out += tokens_of(a, rng, extra_par)
        return out + [(")", "close")]
    if k == "cast":
        inner = tokens_of(e[1], rng, extra_par)
        return inner + [("to", "to"), (e[2], "unit")]
    if k == "bin":
        op, l, r = e[1], e[2], e[3]
        lt = tokens_of(l, rng, extra_par)
        rt = tokens_of(r, rng, extra_par)
        if needs_par(l, op, "l") or (rng.random() < extra_par and l[0] not in ("num",)):
            lt = [("(", "open")] + lt + [(")", "close")]
        if needs_par(r, op, "r") or (rng.random() < extra_par and r[0] not in ("num",)):
            rt = [("(", "open")] + rt + [(")", "close")]
        return lt + [(op, "op")] + rt
    raise ValueError(k)


def gap(a, b, rng, tight):
    """Blank between tokens a and b: '' only where the language allows juxtaposition."""
    (ta, ca), (tb, cb) = a, b
    must = False
    if ca == "op" and ta in "+-" or cb == "op" and tb in "+-":
        must = True                      # binary + and - need blanks on both sides in this language
    if ca == "to" or cb == "to":
        must = True
    if ca == "word" or cb == "word":
        must = True                      # words of a phrase; a word next to anything else
    if ca == "unit" and cb in ("op", "open", "num", "fn", "word"):
        must = True                      # a unit swallows a directly following * / ^ or number
    if ca == "num" and cb == "unit":
        return rng.choice(["", "", " "])
    if ca == "fn" and cb == "callopen":
        return ""                        # a call needs the parenthesis directly after the name
    if ca == "num" and cb == "pct":
        return rng.choice(["", "", " "])
    if ca == "num" and cb in ("num", "fn", "open"):
        must = True
    if ca in ("close", "pct") and cb in ("num", "open", "fn", "word"):
        must = True
    if must:
        return rng.choice(BLANKS)
    if tight:
        return ""
    return rng.choice(["", "", " ", " ", "  ", "\t"])


def render(e, rng, tight=None, ends=True):
    toks = tokens_of(e, rng)
    if tight is None:
        tight = rng.random() < 0.3
    out = []
    for i, t in enumerate(toks):
        if i:
            out.append(gap(toks[i - 1], t, rng, tight))
        out.append(t[0])
    s = "".join(out)
    if ends:
        s = rng.choice(["", "", " ", "  ", "\t"]) + s + rng.choice(["", "", " ", "  ", "\t"])
    return s


class DivZero(Exception):
    pass


def ipow(b, n):
    if n == 0:
        return Fraction(1)
    if b == 0:
        if n < 0:
            raise DivZero()
        return Fraction(0)
    return Fraction(b) ** n


def evaluate(e):
    """Independent exact evaluator for numeric trees (no units). Raises DivZero where arithmetic is undefined."""
    k = e[0]
    if k == "num":
        return literal_value(e[1])
    if k == "pct":
        return literal_value(e[1]) / 100
    if k == "par":
        return evaluate(e[1])
    if k == "bin":
        a = evaluate(e[2])
        b = evaluate(e[3])
        op = e[1]
        if op == "+":
            return a + b
        if op == "-":
            return a - b
        if op == "*":
            return a * b
        if op == "/":
            if b == 0:
                raise DivZero()
            return a / b
        if op == "^":
            if b.denominator != 1:
                raise ValueError("non-integer power")
            return ipow(a, b.numerator)
    raise ValueError(k)


# ----------------------------------------------------------------------------------------------- mixed queries
def gen_unit_text(rng, words=None):
    words = words or UNIT_WORDS
    n = rng.choice([1, 1, 1, 2, 2, 3])
    out = ""
    used = set()
    for i in range(n):
        w = rng.choice(words)
        if w in used:
            continue
        used.add(w)
        if i:
            out += rng.choice(["*", "/", "/", "*"])
        out += w
        if rng.random() < 0.3:
            out += "^" + rng.choice(["2", "3", "-1", "-2", "2"])
    return out


def gen_mixed(rng, depth):
    """Any well-formed query shape: numbers, quantities, facts, calls, casts."""
    r = rng.random()
    if depth <= 0 or r < 0.2:
        c = rng.random()
        if c < 0.45:
            return ("num", gen_literal(rng, 4, sign=rng.random() < 0.15))
        if c < 0.8:
            return ("qty", gen_literal(rng, 3, exp=False, weird=False), gen_unit_text(rng))
        if c < 0.9:
            return ("pct", gen_literal(rng, 3))
        return ("fact", rng.choice(FACTS))
    if r < 0.3:
        return ("call", rng.choice(["round", "floor", "ceil", "round"]), [gen_mixed(rng, depth - 1)] + ([("num", str(rng.randint(-3, 3)))] if rng.random() < 0.4 else []))
    if r < 0.4:
        return ("cast", gen_mixed(rng, depth - 1), gen_unit_text(rng))
    if r < 0.5:
        return ("par", gen_mixed(rng, depth - 1))
    op = rng.choice("+-*/^*/")
    l = gen_mixed(rng, depth - 1)
    rr = ("num", str(rng.choice([0, 1, 2, 3, -1, -2]))) if op == "^" else gen_mixed(rng, depth - 1)
    return ("bin", op, l, rr)


def random_query(rng):
    return render(gen_mixed(rng, rng.randint(0, 4)), rng)
