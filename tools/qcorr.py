"""Correspondence of the whole pipeline (lex -> parse -> eval): the same query strings through the real library
(`anything::parse` + `anything::query`) and through Run.obs_query of the Coq model, compared result by result."""
import json
import os
import re
import vlib

_tables = None


def tables():
    global _tables
    if _tables is None:
        _tables = json.load(open(os.path.join(vlib.COQ, "gen", "tables.json"), encoding="utf-8"))
    return _tables


BASE_CODE = 4294967296


def unit_key(name):
    if name.startswith("D"):
        return int(name[1:])
    return BASE_CODE + tables()["bases"].index(name)


ERR_PATTERNS = [
    (r"^syntax error$", lambda m: [0]),
    (r"^divide by zero$", lambda m: [1]),
    (r"^failed to look up constant", lambda m: [2]),
    (r"^illegal operation: ", lambda m: [3]),
    (r"^conversion from .* is not possible$", lambda m: [4]),
    (r"^cannot cast ", lambda m: [5]),
    (r"^bad decimal number", lambda m: [6]),
    (r"^bad number: ", lambda m: [7]),
    (r"^unexpected syntax `(\w+)` \(internal error\)$", lambda m: [8, vlib.KIND_CODE[m.group(1)]]),
    (r"^unexpected syntax `(\w+)`, expected (\w+) \(internal error\)$", lambda m: [9, vlib.KIND_CODE[m.group(1)], vlib.KIND_CODE[m.group(2)]]),
    (r"^nothing matching `", lambda m: [10]),
    (r"^unit `.*` is not a valid unit$", lambda m: [11]),
    (r"^missing function `", lambda m: [12]),
    (r"^bad number of arguments, got (\d+) but expected (\d+)$", lambda m: [13, int(m.group(2)), int(m.group(1))]),
    (r"^bad argument ", lambda m: [14]),
    (r"^non-finite number", lambda m: [15]),
    (r"^missing expected node$", lambda m: [16]),
    (r"^mismatching prefix for unit", lambda m: [17]),
    (r"^unit numbers must be `1`$", lambda m: [18]),
    (r"^the power must not have a unit$", lambda m: [19]),
    (r"^the power of a number must be an integer$", lambda m: [20]),
    (r"^the power is too large", lambda m: [21]),
]
ERR_NAMES = ["SyntaxError", "DivideByZero", "LookupError", "IllegalOperation", "ConversionNotPossible", "IllegalCast",
             "ParseRationalError", "BadNumber", "Unexpected", "Expected", "Missing", "IllegalUnit", "MissingFunction",
             "ArgumentMismatch", "BadArgument", "NonFinite", "MissingNode", "PrefixMismatch", "IllegalUnitNumber",
             "IllegalPowerUnit", "IllegalPowerNonInteger", "IllegalPowerTooLarge"]


def err_code(msg):
    for pat, fn in ERR_PATTERNS:
        m = re.match(pat, msg, re.S)
        if m:
            return fn(m)
    return [99]


def phrases_of(tree, src_bytes):
    """Every WORD / SENTENCE node that eval may look up (parent not UNIT, SENTENCE or FN_NAME), as text."""
    out = []

    def walk(t, pos, parent):
        kind, x = t
        if isinstance(x, list):
            start = pos
            for c in x:
                pos = walk(c, pos, kind)
            if kind in ("WORD", "SENTENCE") and parent not in ("UNIT", "SENTENCE", "FN_NAME"):
                out.append(src_bytes[start:pos].decode("utf-8", "replace"))
            return pos
        return pos + x
    pos = 0
    for t in tree:
        pos = walk(t, pos, None)
    return out


def encode_units(names):
    out = [len(names)]
    for u, p, e in names:
        out += [unit_key(u), p, e]
    return out


def lookup_oracle(phrases):
    """Ask the real database what it answers for each phrase (hook `lookup_top`, k = 1)."""
    phrases = sorted(set(phrases))
    replies = vlib.run_impl(["K %s 1" % vlib.hx(p) for p in phrases])
    table = {}
    for p, r in zip(phrases, replies):
        if isinstance(r, dict) and "lookup_error" in r:
            table[p] = [1]
        elif isinstance(r, dict):
            table[p] = [1]
        elif not r or "undecodable" in r[0]:
            table[p] = [0]
        else:
            c = r[0]
            table[p] = [2, int(c["value"][0]), int(c["value"][1])] + encode_units(c["unit"])
    return table


def expected_results(reply, phrase_list, opaque):
    if "panic" in reply or "crash" in reply or "timeout" in reply or "results" not in reply and "parse_error" not in reply:
        return [1, 2, 0, 0]          # shaped like a panic observation; the model never predicts one on well-formed runs
    if "parse_error" in reply:
        return [-2]
    out = [len(reply["results"])]
    for r in reply["results"]:
        if "ok" in r:
            if opaque:
                out += [3]
            else:
                n, d, names = r["ok"]
                out += [0, int(n), int(d)] + encode_units(names)
        else:
            s, e, msg, _ = r["err"]
            out += [1, s, e] + err_code(msg)
    out.append(len(reply["desc"]))
    for d in reply["desc"]:
        out.append(phrase_list.index(d["phrase"]) if d["phrase"] in phrase_list else -1)
    return out


def build_cases(queries, describe=False, debug=True, release=False):
    """Runs the implementation on every query; returns (replies, trees, cases) where cases are ready for coq_eval_cases."""
    flag = " d" if describe else ""
    replies = vlib.run_impl(["Q %s%s" % (vlib.hx(q), flag) for q in queries], release=release)
    trees = vlib.run_impl(["T " + vlib.hx(q) for q in queries], release=release)
    per_query = []
    allp = []
    for q, t in zip(queries, trees):
        ps = []
        if isinstance(t, dict) and isinstance(t.get("tree"), list):
            ps = phrases_of(t["tree"], q.encode("utf-8"))
        seen = []
        for p in ps:
            if p not in seen:
                seen.append(p)
        per_query.append(seen)
        allp += seen
    oracle = lookup_oracle(allp) if allp else {}
    cases = []
    for q, r, ps in zip(queries, replies, per_query):
        inp = [1 if debug else 0, 1 if describe else 0, len(ps)]
        for p in ps:
            inp += [len(p)] + vlib.chars(p) + oracle[p]
        inp += vlib.chars(q)
        opaque = bool(re.search(r"\b(sin|cos)\(", q))
        cases.append((4, inp, expected_results(r, ps, opaque)))
    return replies, trees, cases


def describe_result(r):
    if "ok" in r:
        return "%s/%s %s" % (r["ok"][0], r["ok"][1], r.get("unit_text", ""))
    return "error[%d..%d] %s" % (r["err"][0], r["err"][1], r["err"][2])
