"""C16 — every shipped fact can be found by its own words."""
import itertools
import re
import json
import vlib
import qcorr

PROP_FILE = "props/C16.v"
LEVEL = "other"
TRUSTED_BASE = [
    "Rocq theorems (coq/props/C16.v): a text the query language reads as one phrase is handed to the database as typed and the "
    "database's answer is the result and the only description (every text, every database); every shipped constant of plain "
    "lower-case words is such a phrase in every order tried; every stored payload decodes and names a listed source (by kernel "
    "computation over the data translated from db/*.bin.gz on every run)",
    "NOT a theorem: that tantivy's n-gram ranking returns a constant carrying the words. Decided by an exhaustive run of the real "
    "index over the finite domain (every typeable shipped constant x every order of its words up to four words, rotations and the "
    "reverse beyond); each observation is evaluated inside Coq (Find.observe_find over the translated data: is the order a phrase, "
    "does the answering constant carry all words, does it decode, is its source listed) and the set of covered constants is "
    "compared with Find.typeable_positions computed by the model",
    "correspondence of the whole pipeline on the same queries (Run.query vs anything::query with descriptions)",
]
ASSUMPTIONS = [
    "PARTIAL: the ranking itself (BM25 over prefix n-grams in f32) is outside the model; the retrieval half of the property is "
    "an exhaustive observation of the current index, certified for completeness by computation in Coq, not a proof",
    "typeable = the words joined by blanks are read by the lexer and parser as a single WORD or SENTENCE covering the whole text "
    "(101 constants are not: their words contain `/`, digits first, or blanks inside a word)",
]


def orders(ws):
    n = len(ws)
    idx = list(range(n))
    if n <= 4:
        return [list(p) for p in itertools.permutations(idx)]
    out = []
    cur = idx
    for _ in range(n):
        out.append(cur)
        cur = cur[1:] + cur[:1]
    out.append(idx[::-1])
    return out


def root_phrase(tree, text):
    """True iff the implementation's tree has exactly one root with children, a WORD or SENTENCE, spanning the whole text."""
    if not isinstance(tree, dict) or not isinstance(tree.get("tree"), list):
        return False
    nodes = []
    pos = 0

    def size(t):
        k, x = t
        if isinstance(x, list):
            return sum(size(c) for c in x)
        return x
    for t in tree["tree"]:
        n = size(t)
        if isinstance(t[1], list) and t[1]:
            nodes.append((t[0], pos, pos + n))
        pos += n
    total = len(text.encode("utf-8"))
    return len(nodes) == 1 and nodes[0][0] in ("WORD", "SENTENCE") and nodes[0][1] == 0 and nodes[0][2] == total


def ident(c):
    return (tuple(c["tokens"]), int(c["value"][0]), int(c["value"][1]), c["description"])


def run(rng, tier, model_ok):
    t = qcorr.tables()
    shipped = t["shipped"]
    source_ids = {s["id"] for s in t["sources"]}
    pos = {}
    for i, c in enumerate(shipped):
        pos.setdefault((tuple(c["tokens"]), int(c["num"]), int(c["den"]), c["description"]), []).append(i)
    items = []          # (position, order of word indices, query text)
    for p, c in enumerate(shipped):
        for o in orders(c["tokens"]):
            items.append((p, o, " ".join(c["tokens"][i] for i in o)))
    texts = sorted({q for _, _, q in items})
    trees = dict(zip(texts, vlib.run_impl(["T " + vlib.hx(q) for q in texts])))
    typeable = {q: root_phrase(trees[q], q) for q in texts}
    asked = [q for q in texts if typeable[q]]
    krep = dict(zip(asked, vlib.run_impl(["K %s 1" % vlib.hx(q) for q in asked])))
    qrep = dict(zip(asked, vlib.run_impl(["Q %s d" % vlib.hx(q) for q in asked])))
    failures, samples, cases = [], [], []
    covered = []
    not_typeable = []
    for p, o, q in items:
        words = [shipped[p]["tokens"][i] for i in o]
        if not typeable[q]:
            if all(re.fullmatch(r"[a-z][a-z0-9°']*", w) and w != "to" for w in words):
                failures.append({"input": q, "constant": shipped[p]["description"],
                                 "why": "the words are plain query-language words (letters, digits, ° and ') but the text is not read as a phrase: the fact cannot be asked for"})
            cases.append((13, [p, -1] + o, [0, 1]))
            if o == sorted(o):
                not_typeable.append(p)
            continue
        if o == sorted(o):
            covered.append(p)
        k = krep[q]
        r = qrep[q]
        why = None
        w = -1
        if not isinstance(k, list) or not k:
            why = "asking for the words returns nothing (%s)" % json.dumps(k)[:100]
        elif "undecodable" in k[0]:
            why = "the best match does not decode"
        else:
            c = k[0]
            if ident(c) not in pos:
                why = "the best match is not a shipped constant as the translator reads the data"
            else:
                w = min(pos[ident(c)])
                missing = [x for x in words if x not in c["tokens"]]
                if missing:
                    why = "the best match %r does not carry the words %r" % (c["tokens"], missing)
                elif not c["description"]:
                    why = "the best match has an empty description"
                elif c.get("source") is not None and c["source"] not in source_ids:
                    why = "the source %r of the best match is not listed" % c["source"]
                else:
                    # through anything::query: the value and description are those of that constant
                    res = r.get("results") if isinstance(r, dict) else None
                    desc = r.get("desc") if isinstance(r, dict) else None
                    if not res or len(res) != 1 or "ok" not in res[0]:
                        why = "anything::query does not answer with a value: %s" % json.dumps(r)[:160]
                    elif [str(x) for x in res[0]["ok"][:2]] != [str(x) for x in c["value"]] or res[0]["ok"][2] != c["unit"]:
                        why = "anything::query answers with another value than the best match of the index"
                    elif not desc or len(desc) != 1 or desc[0]["phrase"] != q or desc[0]["description"] != c["description"]:
                        why = "the description reported by anything::query is not the constant found for the words"
        if why:
            failures.append({"input": q, "constant": shipped[p]["description"], "why": why})
        if w >= 0:
            cases.append((13, [p, w] + o, [1, 1, 1, 1, 1]))
        else:
            cases.append((13, [p, -1] + o, [1, 1]))
        if len(samples) < 8 and len(o) >= 3 and o != sorted(o):
            samples.append({"asked": q, "answer": k[0].get("description") if isinstance(k, list) and k else None})
    cases.append((14, sorted(set(covered)), [1]))
    # the pipeline model on the same texts (a sample in the quick tier)
    sample = asked if tier == "thorough" else rng.sample(asked, min(500, len(asked)))
    _, _, qcases = qcorr.build_cases(sample, describe=True)
    mismatches = []
    if model_ok:
        bad = vlib.coq_eval_cases(cases, "C16find", shard_size=250)
        for j, got in sorted(bad.items()):
            mismatches.append({"case_(tag,position,answer,order)": [cases[j][0]] + cases[j][1][:8], "model": got[:8], "observed": cases[j][2]})
        bad = vlib.coq_eval_cases(qcases, "C16query", shard_size=60)
        for j, got in sorted(bad.items()):
            mismatches.append({"query": sample[j], "model": got[:12], "implementation": qcases[j][2][:12]})
    return {
        "evaluations": len(items) + len(qcases), "distinct_nontrivial": len(asked),
        "rule": "exhaustive: every shipped constant x every order of its words (all permutations up to four words, rotations and the reverse "
                "beyond); non-trivial = distinct typeable texts asked of the real index",
        "samples": samples, "mismatches": mismatches, "failures": failures,
        "extra": {"constants": len(shipped), "typeable_constants": len(set(covered)), "not_typeable_constants": len(set(not_typeable)),
                  "orders_asked": len(asked), "exhaustive": True, "exhaustive_domain": "shipped constants x orders of their words",
                  "pipeline_model_cases": len(qcases)},
    }


def replay(obj):
    q = obj.get("input")
    if not isinstance(q, str):
        print("recorded:", json.dumps(obj)[:400])
        return False
    k = vlib.run_impl(["K %s 3" % vlib.hx(q)])[0]
    print(json.dumps(k, ensure_ascii=False)[:600])
    words = q.split(" ")
    return isinstance(k, list) and bool(k) and "tokens" in k[0] and all(w in k[0]["tokens"] for w in words)
