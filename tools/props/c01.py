"""C01 — numeric expressions evaluate to the exact rational value."""
from fractions import Fraction
import vlib
import pipeline
import gens

PROP_FILE = "props/C01.v"
LEVEL = "proof"
TRUSTED_BASE = [
    "hand-written Gallina model of eval.rs (add/sub/mul/div/pow, the OPERATION loop, PERCENTAGE) over Coq's Q, on the trees of the "
    "lexer/parser model (C12, C06)",
    "correspondence: anything::query vs Run.query on every generated expression (exact numerator/denominator)",
    "independent exact evaluator over Python fractions as the specification oracle",
]
ASSUMPTIONS = [
    "the theorems are about the lexer, parser and evaluator models (composed in C01_query_expression for every numeric expression "
    "text); that num::BigRational computes exactly is exercised by the correspondence on literals of up to 300 digits",
]


def check_value(reply, want):
    if want is None:
        if pipeline.is_error(reply):
            return None
        return {"why": "arithmetic is undefined (division by zero) but the tool returned %s" % reply.get("results"), "expected": "error"}
    v = pipeline.single_value(reply)
    if v is None:
        return {"why": "expected the single value %s" % want, "expected": str(want)}
    if Fraction(v[0], v[1]) != want or v[2] != []:
        return {"why": "value %d/%d differs from the exact value %s" % (v[0], v[1], want), "expected": str(want)}
    return None


def run(rng, tier, model_ok):
    n = 900 if tier == "quick" else 12000
    items = []
    trees = []
    stats = {"div_zero": 0, "ops": {}, "max_depth": 0, "big_literals": 0}

    def depth(e):
        return 1 + max([depth(x) for x in e[2:] if isinstance(x, tuple)], default=0) if e[0] == "bin" else 1

    def count_ops(e):
        if e[0] == "bin":
            stats["ops"][e[1]] = stats["ops"].get(e[1], 0) + 1
            count_ops(e[2])
            count_ops(e[3])
    for i in range(n):
        c = rng.random()
        if c < 0.15:
            md = rng.choice([40, 120, 300])
            stats["big_literals"] += 1
        elif c < 0.4:
            md = 12
        else:
            md = 4
        e = gens.gen_numeric(rng, rng.randint(1, 2) if md >= 40 else rng.randint(1, 5 if tier == "quick" else 8), maxdigits=md)
        if rng.random() < 0.08:
            # force a division by zero or zero to a negative power somewhere
            z = rng.choice([("bin", "/", e, ("num", rng.choice(["0", "0.0", "0e5", "-0"]))),
                            ("bin", "^", ("bin", "-", e, e), ("num", rng.choice(["-1", "-2"]))),
                            ("bin", "/", ("num", "1"), ("bin", "*", ("num", "0"), e))])
            e = z
        try:
            want = gens.evaluate(e)
        except gens.DivZero:
            want = None
            stats["div_zero"] += 1
        q = gens.render(e, rng)
        trees.append(e)
        stats["max_depth"] = max(stats["max_depth"], depth(e))
        count_ops(e)

        def oracle(reply, want=want, q=q):
            if want is None:
                if pipeline.is_error(reply):
                    return None
                return {"why": "arithmetic is undefined (division by zero) but the tool returned %s" % reply.get("results"), "expected": "error"}
            v = pipeline.single_value(reply)
            if v is None:
                return {"why": "expected the single value %s" % want, "expected": str(want)}
            if Fraction(v[0], v[1]) != want or v[2] != []:
                return {"why": "value %d/%d differs from the exact value %s" % (v[0], v[1], want), "expected": str(want)}
            return None
        items.append((q, oracle))
    # boundary operands in every position of every operator: zero in several spellings and as a computed value, one, minus one,
    # fractions, percentages, exponent notation; every integer exponent -4..4 (also computed); and the same one level down
    N = lambda t: ("num", t)
    B = lambda op, l, r: ("bin", op, l, r)
    pool = [N("0"), N("0.0"), N("0e3"), B("-", N("1"), N("1")), B("*", N("0"), N("9")), ("pct", "0"), N("1"), B("-", N("0"), N("1")), N("2"),
            N("3"), N("10"), N("0.5"), B("/", N("1"), N("3")), ("pct", "100"), ("pct", "50"), N("1e3"), N("1e-3"), N("7.25"),
            B("-", N("2"), N("5")), N("-2"), N("+3"),
            N("2147483647"), N("2147483648"), N("4294967296"), N("9223372036854775807"), N("9223372036854775808"), N("18446744073709551616"),
            N("0.000000000000000000001"),
            # undefined arithmetic as an operand: the error must come out whatever is done with it (times zero, to the power zero ...)
            B("/", N("1"), N("0")), B("^", N("0"), N("-1")), B("/", N("5"), B("-", N("3"), N("3")))]
    exps = [N(str(k)) for k in range(-4, 5)] + [B("-", N("1"), N("3")), B("-", N("2"), N("2")), B("+", N("1"), N("1"))]
    fam = []
    for a in pool:
        for b in pool:
            for op in "+-*/":
                fam.append(B(op, a, b))
        for k in exps:
            fam.append(B("^", a, k))
    for e in list(fam[:: (7 if tier == "quick" else 1)]):
        fam.append(B("+", N("1"), e))
        fam.append(B("*", e, N("2")))
    for e in fam:
        try:
            want = gens.evaluate(e)
        except gens.DivZero:
            want = None
            stats["div_zero"] += 1
        items.append((gens.render(e, rng), (lambda want: (lambda reply: check_value(reply, want)))(want)))
    stats["boundary_family"] = len(fam)
    # every integer exponent of either sign up to 70 in magnitude (literal and computed) under a handful of bases: an exponentiation
    # by squaring, by bits or by chunks can be right for all the small and all the "round" exponents and wrong for the others
    sweep = []
    bases = [N("2"), N("3"), N("10"), N("1.5"), ("pct", "50"), B("-", N("0"), N("2")), B("/", N("1"), N("3"))]
    for bi, a in enumerate(bases):
        for k in range(-70, 71):
            if tier == "quick" and (k + bi) % 2 and abs(k) > 24:
                continue
            sweep.append(B("^", a, N(str(k))))
            if k % 5 == 0:
                sweep.append(B("^", a, B("-", N(str(k + 9)), N("9"))))
    for e in sweep:
        want = gens.evaluate(e)
        items.append((gens.render(e, rng), (lambda want: (lambda reply: check_value(reply, want)))(want)))
    stats["exponent_sweep"] = len(sweep)
    # the same arithmetic with every kind of blank between the tokens (all of Unicode White_Space that can stand in a query)
    SP = ["\u00a0", "\u2009", "\u202f", "\u3000", "\u2003", "\u1680", "\u205f", "\u0085", "\t", "\n", "\r", "\x0b", "\x0c", "\u2028", "\u2029", "  "]
    base = [(B("+", N("1"), N("23")), None), (B("/", N("10"), N("4")), None), (B("^", N("2"), N("-3")), None), (B("-", B("*", N("2"), N("3")), N("4")), None),
            (B("*", N("1.5"), ("pct", "50")), None), (B("/", N("1"), N("0")), None)]
    for e, _ in base:
        try:
            want = gens.evaluate(e)
        except gens.DivZero:
            want = None
        plain = gens.render(e, rng, tight=False, ends=False)
        plain = " ".join(plain.split())
        for sp in SP:
            items.append((plain.replace(" ", sp), (lambda want: (lambda reply: check_value(reply, want)))(want)))
            items.append((sp + plain.replace(" ", sp + sp) + sp, (lambda want: (lambda reply: check_value(reply, want)))(want)))
    stats["exotic_blank_queries"] = 2 * len(SP) * len(base)
    corpus = vlib.load_corpus("C01")
    items = [(q, None) for q in corpus] + items
    small = [(q, o) for q, o in items if len(q) <= 160]
    big = [(q, o) for q, o in items if len(q) > 160]
    replies, failures, mismatches, ncoq = pipeline.run_queries(small, "C01", rng, tier, model_ok, budget_quick=2000)
    if big:
        r2, f2, _, _ = pipeline.run_queries(big, "C01big", rng, tier, False)
        failures += f2
    distinct = {q for q, _ in items if sum(q.count(o) for o in "+-*/^") >= 2}
    return {
        "evaluations": len(items), "distinct_nontrivial": len(distinct),
        "rule": "random expression trees over decimal literals (1..300 digits, fractions, exponent notation, signs, percentages) with "
                "+ - * / ^ (integer exponents incl. zero and negative), depth up to %d, printed with a random legal layout; about 8%% force a "
                "division by zero or a negative power of zero; boundary operands x operators; every exponent -70..70 under seven bases; non-trivial = distinct queries with at least two operator characters" % stats["max_depth"],
        "samples": [q for q, _ in items[len(corpus):len(corpus) + 6]],
        "mismatches": mismatches, "failures": failures,
        "extra": dict(stats, model_cases_evaluated_in_coq=ncoq, queries_checked_against_oracle_only=len(big), exhaustive=False),
    }


def replay(obj):
    q = obj["input"]
    r = vlib.run_impl(["Q " + vlib.hx(q)])[0]
    print("query %r -> %s (expected %s)" % (q, r.get("results"), obj.get("expected")))
    if obj.get("expected") == "error":
        return pipeline.is_error(r)
    v = pipeline.single_value(r)
    return v is not None and "expected" in obj and Fraction(v[0], v[1]) == Fraction(obj["expected"])
