"""C05 — every unit word denotes the standard definition of a unit and prefix."""
from fractions import Fraction
import json
import os
import re
import vlib
import qcorr
import pipeline
import unitlib

PROP_FILE = "props/C05.v"
LEVEL = "proof"
TRUSTED_BASE = [
    "the two logos lexers are modelled by byte tries whose per-node outcomes are LEARNED from the real generated lexer through the harness "
    "hook on every translation (logos 0.13 is not maximal munch); assumption: the automaton is deterministic over the trie and treats all "
    "bytes without an outgoing edge alike -- exercised by random concatenations and random bytes",
    "hand-written reference table of unit definitions (coq/spec/RefUnits.v) with its sources; parse() arms, token tables, unit definitions "
    "and documented names are translated from /repo on every run",
    "correspondence: generated::unit::parse (hook) vs UnitWord.parse_word on the whole cross product, documented names, random concatenations "
    "and random byte strings; unit expressions through str::parse::<Compound> and queries",
]
ASSUMPTIONS = [
    "soundness is decided by kernel computation over the finite vocabulary (9.7k words), not by an unbounded theorem over all strings",
    "unit expression structure (juxtaposition, *, /, ^n) is decided by correspondence plus an independent Python reading, not by a theorem",
]
BASE_WORD = {"KiloGram": "kg", "Candela": "cd", "Meter": "m", "Second": "s", "Ampere": "A", "Kelvin": "K", "Mole": "mol", "Byte": "B"}


def load_reference():
    txt = open(os.path.join(vlib.COQ, "spec", "RefUnits.v"), encoding="utf-8").read()
    body = txt[txt.index("Definition ref_units"):txt.index("(* the two temperature scales")]
    body = re.sub(r"\(\*.*?\*\)", "", body, flags=re.S)
    out = []
    for m in re.finditer(r"\(\[([\d;\s]+)\]%N\s*,\s*\[([-\d;\s]+)\]\s*,\s*\[((?:\s*\(\s*\d+\s*,\s*\d+\s*\)\s*;?)+)\]\)", body):
        word = bytes(int(x) for x in m.group(1).split(";")).decode("utf-8")
        dims = [int(x) for x in m.group(2).split(";")]
        vals = [Fraction(int(a), int(b)) for a, b in re.findall(r"\(\s*(\d+)\s*,\s*(\d+)\s*\)", m.group(3))]
        out.append((word, dims, vals))
    bad = re.search(r"Definition known_bad_words.*?:=\s*\[(.*?)\]\.", re.sub(r"\(\*.*?\*\)", "", txt, flags=re.S), re.S).group(1)
    known = [bytes(int(x) for x in g.split(";")).decode("utf-8") for g in re.findall(r"\[([\d;\s]+)\]%N", bad)]
    return out, known


class Lex:
    """Python mirror of the learned tables: cleanliness of nodes and the ideal (maximal munch) reading."""

    def __init__(self):
        side = json.load(open(os.path.join(vlib.COQ, "gen", "unitwords.json")))
        t = qcorr.tables()
        self.arms1, self.arms2 = t["arms1"], t["arms2"]
        self.tables = {}
        for name in ("combined", "units"):
            toks = [(tok.encode("utf-8"), var) for tok, var in side[name]["tokens"]]
            table = {(bytes.fromhex(h), k): tuple(v) for h, k, v in side[name]["table"]}
            nodes = {b""}
            for tb, _ in toks:
                for i in range(len(tb) + 1):
                    nodes.add(tb[:i])
            self.tables[name] = (toks, table, nodes)

    def ideal(self, name, path):
        toks = self.tables[name][0]
        best = None
        for tb, var in toks:
            if path.startswith(tb) and (best is None or len(tb) > best[1]):
                best = (var, len(tb))
        return best

    def step(self, name, s):
        """(outcome, node path, clean?) of one lexer step on bytes s"""
        toks, table, nodes = self.tables[name]
        i = 0
        while i < len(s) and s[:i + 1] in nodes:
            i += 1
        node = s[:i]
        kind = "end" if i == len(s) else "other"
        got = table.get((node, kind))
        idl = self.ideal(name, node)
        clean = True
        for k in ("end", "other"):
            g = table.get((node, k))
            if g is None:
                continue
            if idl is None:
                want_err = not (k == "end" and node == b"")
                clean &= (g[0] == "err") if want_err else (g[0] == "end")
            else:
                clean &= g[0] == "tok" and g[1] == idl[0] and g[2] == idl[1]
        return got, node, clean

    def word_clean(self, s):
        name = "combined"
        while True:
            got, node, clean = self.step(name, s)
            if not clean:
                return False
            if got is None or got[0] != "tok":
                return True
            arm = (self.arms1 if name == "combined" else self.arms2)[got[1]]
            if arm[0] == "sep":
                s = s[got[2]:]
                continue
            if arm[0] == "prefix":
                s = s[got[2]:]
                name = "units"
                continue
            return True


def run(rng, tier, model_ok):
    V = unitlib.vocab()
    t = qcorr.tables()
    lex = Lex()
    ref, known_bad = load_reference()
    failures, cases = [], []
    stats = {"cross_words": 0, "accepted": 0, "unclean_misread": 0, "documented": 0, "reference_units": 0, "random_words": 0, "unit_expressions": 0}
    pconsts = {}
    for tok, var in t["combined"] if False else []:
        pass
    prefix_sp = [(tok, a[1]) for tok, var, _ in t["combined"] for a in [t["arms1"][var]] if a[0] == "prefix"]
    pexp = {l: e for e, l, _ in t["prefixes"]}
    # exponent of each prefix spelling: through the variant's constant name
    exps = {"YOCTO": -24, "ZEPTO": -21, "ATTO": -18, "FEMTO": -15, "PICO": -12, "NANO": -9, "MICRO": -6, "MILLI": -3, "CENTI": -2, "DECI": -1,
            "DECA": 1, "HECTO": 2, "KILO": 3, "MEGA": 6, "GIGA": 9, "TERA": 12, "PETA": 15, "EXA": 18, "ZETTA": 21, "YOTTA": 24}
    prefixes = [(tok, exps[c]) for tok, c in prefix_sp]
    names = []      # (name, unit key string, bias)
    for tok, var in t["units_tokens"]:
        a = t["arms2"][var]
        if a[0] == "unit":
            kind, refp = a[1]
            key = ("D%d" % t["units"][refp]["id"]) if kind == "D" else refp
            names.append((tok, key, a[2]))

    def valid(word):
        out = set()
        for p, e in [("", 0)] + prefixes:
            if word.startswith(p):
                rest = word[len(p):]
                for n, key, bias in names:
                    if n == rest:
                        out.add((e + bias, key))
        return out
    # ---- cross product
    words = [n for n, _, _ in names] + [p + n for p, _ in prefixes for n, _, _ in names]
    if tier == "quick":
        words = [n for n, _, _ in names] + rng.sample(words[len(names):], 2500)
    rep = vlib.run_impl(["W " + vlib.hx(w) for w in words])
    for w, r in zip(words, rep):
        stats["cross_words"] += 1
        wb = w.encode("utf-8")
        if "ok" in r:
            consumed, e, u = r["ok"]
            cases.append((10, list(wb), [1, consumed, e, qcorr.unit_key(u)]))
            if consumed == len(wb):
                stats["accepted"] += 1
                if (e, u) not in valid(w):
                    if not lex.word_clean(wb):
                        stats["unclean_misread"] += 1
                        failures.append({"input": w, "key": "logos-not-maximal-munch", "why": "read as (10^%d, %s), not a valid prefix+name split" % (e, u)})
                    else:
                        failures.append({"input": w, "why": "read as (10^%d, %s), which is none of its valid readings %s" % (e, u, sorted(valid(w)))})
        else:
            cases.append((10, list(wb), [0]))
    # ---- documented names alone
    for dn in t["documented"]:
        if dn["section"] != "units":
            continue
        a = t["arms2"].get(dn["variant"])
        key = ("D%d" % t["units"][a[1][1]]["id"]) if a[1][0] == "D" else a[1][1]
        for nm in dn["names"]:
            if not unitlib.WORDCHARS.match(nm):
                continue
            stats["documented"] += 1
            r = vlib.run_impl(["W " + vlib.hx(nm)])[0] if False else None
    docnames = [(nm, dn["variant"]) for dn in t["documented"] if dn["section"] == "units" for nm in dn["names"] if unitlib.WORDCHARS.match(nm)]
    drep = vlib.run_impl(["W " + vlib.hx(nm) for nm, _ in docnames])
    for (nm, var), r in zip(docnames, drep):
        a = t["arms2"][var]
        key = ("D%d" % t["units"][a[1][1]]["id"]) if a[1][0] == "D" else a[1][1]
        if r.get("ok") != [len(nm.encode("utf-8")), a[2], key]:
            failures.append({"input": nm, "why": "documented name is not accepted on its own as %s" % key, "got": r})
    # ---- definitions: 1 <word> to <base units> must be one of the reference values
    items = []
    for word, dims, vals in ref:
        if not unitlib.WORDCHARS.match(word):
            continue
        stats["reference_units"] += 1
        base = "*".join("%s^%d" % (BASE_WORD[b], p) for b, p in zip(t["bases"], dims) if p)
        q = "1 %s to %s" % (word, base)

        def o(reply, word=word, vals=vals):
            v = pipeline.single_value(reply)
            if v is None:
                return {"why": "unit %s is not convertible to its reference dimensions" % word, "key": None}
            if Fraction(v[0], v[1]) not in vals:
                return {"why": "1 %s = %s in base SI units; the reference accepts %s" % (word, Fraction(v[0], v[1]), [str(x) for x in vals]),
                        "key": "unit-value:%s" % word if word in known_bad else None}
            return None
        items.append((q, o))
    # ---- the same definitions under a power: below the bar, squared, cubed, and as the power of a quantity -- the dimensions of a unit
    # raised to p are p times its reference dimensions and its scale is the p-th power (a table entry written for power one only shows here)
    for word, dims, vals in ref:
        if not unitlib.WORDCHARS.match(word) or not any(dims) or word in known_bad or len(vals) != 1:
            continue
        val1 = list(vals)[0]
        if "Kelvin" in t["bases"] and sum(abs(k) for k in dims) == 1 and dims[t["bases"].index("Kelvin")] == 1 and val1 != 1:
            continue                                  # an offset scale: powers of it are C09's subject (refused)
        for p_ in (-1, 2, -2, 3):
            basep = "*".join("%s^%d" % (BASE_WORD[b], k * p_) for b, k in zip(t["bases"], dims) if k)
            below = ("1 cd/%s to cd*%s" % (word, basep),) if p_ == -1 and "Candela" in t["bases"] and not dims[t["bases"].index("Candela")] else ()
            for q in ("1 %s^%d to %s" % (word, p_, basep), "(1 %s)^%d to %s" % (word, p_, basep)) + below:
                def op(reply, word=word, p_=p_, want=val1 ** p_):
                    v = pipeline.single_value(reply)
                    if v is None:
                        return {"why": "%s to the power %d is not convertible to %d times its reference dimensions" % (word, p_, p_), "key": None}
                    if Fraction(v[0], v[1]) != want:
                        return {"why": "1 %s^%d = %s in base SI units; the reference gives %s" % (word, p_, Fraction(v[0], v[1]), want), "key": None}
                    return None
                items.append((q, op))
                stats["reference_units_under_powers"] = stats.get("reference_units_under_powers", 0) + 1
    # ---- a word that concatenates two units, followed by ^n: the power applies to the last unit of the word, under its own prefix
    cat = []
    firsts = ["N", "kW", "W", "kg", "J", "mN", "V", "A", "kJ", "Wb"]
    lasts = ["m", "mm", "h", "s", "ms", "K", "mK", "km", "g", "kg", "V", "mA"]
    fr = dict(zip(firsts + lasts, unitlib.impl_units(firsts + lasts)))
    words2 = [(a, b, a + b) for a in firsts for b in lasts if a != b]
    wr = dict(zip([w for _, _, w in words2], unitlib.impl_units([w for _, _, w in words2])))
    for a, b, w in words2:
        ra, rb, rw = fr.get(a), fr.get(b), wr.get(w)
        if not ra or not rb or not rw or len(ra) != 1 or len(rb) != 1 or ra[0][0] == rb[0][0]:
            continue
        if sorted(map(list, rw)) != sorted(map(list, ra + rb)):
            continue                                  # the concatenation spells something else: not this family
        for n_ in (2, 3, -1, -2):
            cat.append(("%s^%d" % (w, n_), [list(ra[0]), [rb[0][0], rb[0][1] * n_, rb[0][2]]]))
            cat.append(("s/%s^%d" % (w, n_), None))
    crep2 = unitlib.impl_units([tx for tx, _ in cat])
    for (tx, want), got in zip(cat, crep2):
        if want is not None and got is not None and sorted(map(list, got)) != sorted(want):
            failures.append({"input": tx, "why": "the power follows the last unit of the word: expected %s, read as %s" % (sorted(want), sorted(map(list, got)))})
    stats["concatenated_words_with_power"] = len(cat)
    # ---- a word that runs a unit symbol, a prefix and another unit symbol together (mkg, hkW, Nmkg): if it is accepted at all, it is
    # read as some way of cutting it into words of the cross product (prefix + name, or a name), each with the reading it has alone
    vocab = set(n for n, _, _ in names) | set(p + n for p, _ in prefixes for n, _, _ in names)
    shortn = sorted({n for n, _, _ in names if len(n) <= 2 and n.isascii() and n.isalpha()})
    shortp = sorted({p for p, _ in prefixes if len(p) == 1 and p.isascii()})
    run3 = [a + p_ + b for a in shortn for p_ in shortp for b in shortn]
    run3 += [a + b + p_ + c for a in shortn[:12] for b in shortn[:12] for p_ in shortp[:8] for c in shortn[:12]]
    if tier == "quick":
        run3 = rng.sample(run3, min(len(run3), 3000))
    r3 = unitlib.impl_units(run3)

    def cuts(w):
        if not w:
            yield []
            return
        for i in range(1, len(w) + 1):
            if w[:i] in vocab:
                for rest in cuts(w[i:]):
                    yield [w[:i]] + rest
    need = sorted({part for w, got in zip(run3, r3) if got for c in cuts(w) for part in c})
    alone = dict(zip(need, unitlib.impl_units(need)))
    nrun = 0
    for w, got in zip(run3, r3):
        if not got:
            continue
        nrun += 1
        ok = False
        for c in cuts(w):
            parts = [alone.get(x) for x in c]
            if any(not x for x in parts):
                continue
            comb = {}
            for x in parts:
                for u_, pw, pf in x:
                    comb.setdefault((u_, pf), 0)
                    comb[(u_, pf)] += pw
            if sorted([u_, pw, pf] for (u_, pf), pw in comb.items() if pw) == sorted(map(list, got)):
                ok = True
                break
        if not ok:
            f = {"input": w, "why": "accepted and read as %s, which is no way of cutting the word into prefix+name words %s" % (got, list(cuts(w))[:6])}
            if not lex.word_clean(w.encode("utf-8")):
                f["key"] = "logos-not-maximal-munch"
            failures.append(f)
    stats["run_together_words_accepted"] = nrun
    stats["run_together_words"] = len(run3)
    # ---- a word means the same whatever it is cast to: every unit against a representative of every dimension
    for q, na, nt in unitlib.cast_matrix(V, rng, tier):
        def co(reply, na=na, nt=nt, q=q):
            comm = V.dims(na) == V.dims(nt)
            v = pipeline.single_value(reply)
            if not comm:
                return None if v is None else {"why": "inside this cast the word is read as something of another dimension: its own dimensions are %s, "
                                                      "the target's %s" % (V.dims(na), V.dims(nt))}
            x = int(q.split(" ")[0])
            if v is None or V.si(v[0], v[1], v[2]) != x * V.scale(na):
                return {"why": "inside this cast the word does not have the scale it has alone (%s)" % V.scale(na)}
            return None
        items.append((q, co))
    stats["cast_matrix"] = stats.get("cast_matrix", 0) + 1
    # ---- unit expressions: juxtaposition, *, blanks multiply; / inverts everything after it; ^n applies to the unit it follows
    nexpr = 300 if tier == "quick" else 5000
    exprs = []
    for _ in range(nexpr):
        k = rng.randint(1, 4)
        parts = []
        sign = 1
        expect = {}
        ok = True
        text = ""
        used = set()
        for i in range(k):
            v = rng.choice(sorted(V.names))
            if used and rng.random() < 0.25:
                v = rng.choice(sorted(used))           # the same unit again, most likely under another prefix
            if V.variant_unit.get(v) in V.offset_units:
                continue
            used.add(v)
            w = V.word(rng, v, prefix_prob=0.25)
            p = rng.choice([1, 1, 1, 2, 3, -1, -2])
            if text:
                sep = rng.choice(["*", "/", " ", "*", "/"])
                if sep == "/":
                    sign = -sign
                text += sep
            text += w + ("^%d" % p if p != 1 else "")
            parts.append((w, p * sign))
        if parts:
            exprs.append((text, parts))
    singles = sorted({w for _, parts in exprs for w, _ in parts})
    sp = dict(zip(singles, unitlib.impl_units(singles)))
    erep = unitlib.impl_units([text for text, _ in exprs])
    for (text, parts), got in zip(exprs, erep):
        if any(not sp.get(w) or len(sp[w]) != 1 for w, _ in parts):
            continue
        stats["unit_expressions"] += 1
        want = {}
        clash = False
        for w, p in parts:
            u, _, e = sp[w][0]
            if u in want and want[u][1] != e:
                clash = True
            want[u] = (want.get(u, (0, e))[0] + p, e)
        # whatever the spelling, an accepted expression has the dimensions and the scale its words have
        dims, scale = {}, Fraction(1)
        for w, p in parts:
            for b, k in V.dims(sp[w]).items():
                dims[b] = dims.get(b, 0) + k * p
            scale *= V.scale(sp[w]) ** p
        dims = {b: k for b, k in dims.items() if k != 0}
        if got is not None and (V.dims(got) != dims or V.scale(got) != scale):
            failures.append({"input": text, "why": "unit expression accepted as %s: dimensions %s and scale %s, its words give %s and %s"
                             % (got, V.dims(got), V.scale(got), dims, scale)})
            continue
        if clash:
            stats["same_unit_two_prefixes"] = stats.get("same_unit_two_prefixes", 0) + 1
            continue
        want_names = sorted([[u, p, e] for u, (p, e) in want.items() if p != 0])
        if got is None or sorted(got) != want_names:
            failures.append({"input": text, "why": "unit expression read as %s, its structure prescribes %s" % (got, want_names)})
    # ---- random concatenations and random bytes for the correspondence of the learned tables
    alltoks = [tok for tok, _ in t["units_tokens"]] + [p for p, _ in prefixes]
    rnd = []
    for _ in range(1500 if tier == "quick" else 30000):
        a = rng.choice(alltoks)
        s = a[:rng.randint(0, len(a))] + rng.choice(alltoks)[:rng.randint(0, 6)]
        if rng.random() < 0.3:
            s += rng.choice("abcxyz-#1 °µ") + rng.choice(alltoks)[:2]
        if s:
            rnd.append(s)
    rrep = vlib.run_impl(["W " + vlib.hx(w) for w in rnd])
    for w, r in zip(rnd, rrep):
        stats["random_words"] += 1
        wb = w.encode("utf-8")
        if "ok" in r:
            cases.append((10, list(wb), [1, r["ok"][0], r["ok"][1], qcorr.unit_key(r["ok"][2])]))
        else:
            cases.append((10, list(wb), [0]))
    replies, f2, mism2, ncoq = pipeline.run_queries(items, "C05q", rng, tier, model_ok)
    failures += f2
    mismatches = list(mism2)
    if model_ok:
        budget = 6000 if tier == "quick" else 60000
        if len(cases) > budget:
            cases = rng.sample(cases, budget)
        bad = vlib.coq_eval_cases(cases, "C05", shard_size=500)
        for j, got in sorted(bad.items()):
            mismatches.append({"input": bytes(cases[j][1]).decode("utf-8", "replace"), "model": got, "impl": cases[j][2]})
    return {
        "evaluations": len(cases) + len(items) + len(exprs) + len(docnames), "distinct_nontrivial": stats["accepted"] + stats["unit_expressions"],
        "rule": "every unit name and alias alone and crossed with every prefix spelling (thorough: all %d words; quick: all bare names and a "
                "sample), every documented name, every reference unit converted to base SI units, random unit expressions with juxtaposition "
                "* / ^n, words that run a unit, a prefix and a unit together, random concatenations of token fragments and stray bytes; non-trivial = accepted words + checked expressions" % (len(names) * (len(prefixes) + 1)),
        "samples": words[100:104] + [q for q, _ in items[:3]] + [text for text, _ in exprs[:3]],
        "mismatches": mismatches, "failures": failures,
        "extra": dict(stats, model_cases_evaluated_in_coq=len(cases), exhaustive=(tier == "thorough"),
                      exhaustive_domain="prefix spelling x unit name cross product"),
    }


def replay(obj):
    w = obj["input"]
    r = vlib.run_impl(["W " + vlib.hx(w)])[0]
    print("word %r -> %s; recorded: %s" % (w, r, obj.get("why")))
    return False
