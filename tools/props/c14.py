"""C14 — fact lookups do not depend on how the index was built."""
import concurrent.futures
import json
import os
import shutil
import subprocess
import qcorr
import vlib

PROP_FILE = "props/C14.v"
LEVEL = "proof"
TRUSTED_BASE = [
    "model of the lookup (coq/model/Index.v): TopDocs::with_limit(1) = first best-scored document in stored order; a writer with one "
    "indexing thread stores documents in insertion order, one with several threads in any order; the number of threads is translated "
    "from the writer constructor in src/db.rs on every run; tantivy's scoring is a parameter of every theorem (not modelled)",
    "correspondence: the real Db built repeatedly in memory (separate processes), built on disk, reopened, rebuilt over an existing "
    "directory and reopened again, all asked the same queries through the lookup hook (top documents with score bits) and through "
    "anything::query with descriptions; every session must give the same constant, and the winner must be the one the model picks "
    "from the scored candidates and the translated shipped data (position, value and words compared)",
]
ASSUMPTIONS = [
    "PARTIAL: the interleavings of tantivy's indexing threads are not modelled beyond 'any permutation of the documents'; that one "
    "thread keeps insertion order (single segment, documents in arrival order) is an assumption about tantivy validated by the "
    "correspondence on tied queries, not proved",
    "scores are taken from the real index (bit patterns of the f32 scores); equal words giving equal scores is observed, not proved",
]


def session(exe, lines, env, order=None):
    """One process answering `lines`; with `order` (a permutation) the lines are asked in that order and the answers put back in
    the original one, so that sessions differ in the history each query is asked after."""
    asked = lines if order is None else [lines[i] for i in order]
    r = subprocess.run([exe], input="\n".join(asked) + "\n", env=env, capture_output=True, text=True, timeout=900)
    out = [json.loads(l) for l in r.stdout.split("\n") if l.startswith("{") or l.startswith("[")]
    if order is not None and len(out) == len(lines):
        back = [None] * len(lines)
        for pos, i in enumerate(order):
            back[i] = out[pos]
        out = back
    return r.returncode, out


def make_env(root, memory=False):
    e = dict(vlib.ENV, XDG_DATA_HOME=root, HOME=root)
    e.pop("ANYTHING_VERIF_CRASH_AT", None)
    if memory:
        e["DB_RUN_MODE"] = "memory"
    return e


def ident(c):
    if not isinstance(c, dict) or "tokens" not in c:
        return None
    return (tuple(c["tokens"]), int(c["num"]), int(c["den"]), c["description"])


def queries_for(rng, tier):
    t = qcorr.tables()
    own, words, firsts, pairs = [], [], [], []
    for c in t["shipped"]:
        own.append(" ".join(c["tokens"]))
        firsts.append(c["tokens"][0])
        pairs.append(" ".join(c["tokens"][:2]))
        words += c["tokens"]
    dedup = lambda l: sorted(set(l))
    own, words, firsts, pairs = dedup(own), dedup(words), dedup(firsts), dedup(pairs)
    prefixes = dedup([w[:k] for w in words for k in (1, 2, 3, 4) if len(w) >= k])
    n = 400 if tier == "quick" else len(prefixes)
    amb = rng.sample(prefixes, min(n, len(prefixes)))
    mixed = []
    for _ in range(200 if tier == "quick" else 1500):
        a, b = rng.choice(words), rng.choice(words)
        mixed.append("%s %s" % (a[:rng.randint(1, len(a))], b[:rng.randint(1, len(b))]))
    # the same words as a user may type them: capitalised, upper case (the analyzer lower-cases at index and at query time)
    cased = []
    for q in rng.sample(own, min(len(own), 150 if tier == "quick" else len(own))):
        cased += [q.title(), q.upper(), q[0].upper() + q[1:]]
    # words the index's query syntax treats as operators when capitalised, next to their lower-case spelling
    opw = []
    for q in rng.sample([x for x in own if " " in x], min(40 if tier == "quick" else 400, len(own))):
        w = q.split(" ")
        j = rng.choice([" not ", " or ", " and "])
        opw += [w[0] + j + " ".join(w[1:]), w[0] + j.upper() + " ".join(w[1:])]
    qs = own + [w for w in words if w not in own] + pairs + amb + mixed + cased + opw
    seen, out = set(), []
    for q in qs:
        if q not in seen:
            seen.add(q)
            out.append(q)
    return out, {"own_words": len(own), "single_words": len(words), "two_word_heads": len(pairs), "prefixes": len(amb), "mixed_prefix_pairs": len(mixed), "capitalised": len(cased), "operator_words": len(opw)}


K_MODEL = 24


def run(rng, tier, model_ok):
    root = os.path.join(vlib.BUILD, "c14")
    shutil.rmtree(root, ignore_errors=True)
    os.makedirs(root)
    exe = os.path.join(os.path.dirname(vlib.build_harness()), "db_run")
    qs, dist = queries_for(rng, tier)
    lines_k1 = ["K %s 1" % vlib.hx(q) for q in qs] + ["Q %s" % vlib.hx(q) for q in qs]
    lines_model = ["K %s %d" % (vlib.hx(q), K_MODEL) for q in qs] + ["Q %s" % vlib.hx(q) for q in qs]
    nmem = 4 if tier == "quick" else 16
    sessions = []          # (label, rc, answers)
    with concurrent.futures.ThreadPoolExecutor(max_workers=8) as ex:
        def perm(k):
            o = list(range(len(lines_k1)))
            rng.shuffle(o)
            return o
        futs = [("memory#%d" % i, ex.submit(session, exe, lines_model if i == 0 else lines_k1, make_env(os.path.join(root, "m%d" % i), memory=True),
                                            None if i == 0 else perm(i)))
                for i in range(nmem)]
        disk = os.path.join(root, "disk")
        os.makedirs(disk)
        dsess = []
        dsess.append(("disk first build",) + session(exe, lines_k1, make_env(disk)))
        dsess.append(("disk reopen#1",) + session(exe, lines_k1, make_env(disk), perm(0)))
        dsess.append(("disk reopen#2",) + session(exe, lines_k1, make_env(disk)))
        # force a rebuild over the existing directory (stale hash), then reopen that
        mp = os.path.join(disk, "facts", "meta.json")
        try:
            m = json.load(open(mp))
            json.dump(dict(m, database_hash="stale"), open(mp, "w"))
        except Exception:
            pass
        dsess.append(("disk rebuild over existing",) + session(exe, lines_k1, make_env(disk)))
        dsess.append(("disk reopen after rebuild",) + session(exe, lines_k1, make_env(disk), perm(0)))
        if tier == "thorough":
            for i in range(3):
                d2 = os.path.join(root, "disk%d" % i)
                os.makedirs(d2)
                dsess.append(("second directory#%d first build" % i,) + session(exe, lines_k1, make_env(d2)))
                dsess.append(("second directory#%d reopen" % i,) + session(exe, lines_k1, make_env(d2)))
        # in-memory and on-disk sessions taking turns on ONE data directory (an in-memory session is given the same directory and must
        # neither depend on it nor disturb it), also after a first on-disk build that was killed half-way
        def stale(d):
            mp2 = os.path.join(d, "facts", "meta.json")
            try:
                m2 = json.load(open(mp2))
                json.dump(dict(m2, database_hash="stale"), open(mp2, "w"))
            except Exception:
                pass

        def mixed_chain(name):
            d = os.path.join(root, name)
            os.makedirs(d)
            out = []
            out.append(("%s: memory on an absent directory" % name,) + session(exe, lines_k1, make_env(d, memory=True)))
            out.append(("%s: disk first build after it" % name,) + session(exe, lines_k1, make_env(d)))
            out.append(("%s: memory next to a current index" % name,) + session(exe, lines_k1, make_env(d, memory=True), perm(0)))
            out.append(("%s: disk reopen after it" % name,) + session(exe, lines_k1, make_env(d)))
            stale(d)
            out.append(("%s: memory next to a stale index" % name,) + session(exe, lines_k1, make_env(d, memory=True)))
            out.append(("%s: disk after memory next to a stale index" % name,) + session(exe, lines_k1, make_env(d)))
            out.append(("%s: disk reopen after that" % name,) + session(exe, lines_k1, make_env(d), perm(0)))
            return out

        def killed_chain(k):
            name = "killed%d" % k
            d = os.path.join(root, name)
            os.makedirs(d)
            env = make_env(d)
            env["ANYTHING_VERIF_CRASH_AT"] = str(k)
            subprocess.run([exe], input=lines_k1[0] + "\n", env=env, capture_output=True, text=True, timeout=900)
            out = []
            out.append(("%s: memory after a first build killed at step %d" % (name, k),) + session(exe, lines_k1, make_env(d, memory=True)))
            out.append(("%s: disk after that" % name,) + session(exe, lines_k1, make_env(d)))
            out.append(("%s: disk reopen after that" % name,) + session(exe, lines_k1, make_env(d), perm(0)))
            return out
        chains = [ex.submit(mixed_chain, "mixed")] + [ex.submit(killed_chain, k) for k in ((3, 6, 8, 10) if tier == "quick" else range(1, 11))]
        for label, f in futs:
            rc, out = f.result()
            sessions.append((label, rc, out))
        for f in chains:
            dsess += f.result()
    sessions += dsess
    failures, mismatches, samples = [], [], []
    nq = len(qs)
    ref_label, ref_rc, ref = sessions[0]
    for label, rc, out in sessions:
        if rc != 0 or len(out) != 2 * nq:
            failures.append({"input": label, "why": "session did not answer every query (exit code %s, %d of %d lines)" % (rc, len(out), 2 * nq)})
    usable = [(l, o) for l, rc, o in sessions if rc == 0 and len(o) == 2 * nq]
    disagreeing = 0
    tied_queries = 0
    if usable and usable[0][0] == ref_label:
        for j, q in enumerate(qs):
            top_ref = ref[j][0] if isinstance(ref[j], list) and ref[j] else ref[j]
            id_ref = ident(top_ref) if isinstance(top_ref, dict) else json.dumps(top_ref, sort_keys=True)
            q_ref = ref[nq + j]
            for label, out in usable[1:]:
                top = out[j][0] if isinstance(out[j], list) and out[j] else out[j]
                idn = ident(top) if isinstance(top, dict) else json.dumps(top, sort_keys=True)
                if idn != id_ref or out[nq + j] != q_ref:
                    disagreeing += 1
                    if len(failures) < 40:
                        failures.append({"input": q, "why": "sessions `%s` and `%s` return different constants for the same query" % (ref_label, label),
                                         "first": top_ref if idn != id_ref else q_ref, "second": top if idn != id_ref else out[nq + j]})
                    break
    # model: winner among the scored candidates, against the translated shipped data
    t = qcorr.tables()
    pos = {}
    for i, c in enumerate(t["shipped"]):
        pos.setdefault((tuple(c["tokens"]), int(c["num"]), int(c["den"]), c["description"]), []).append(i)
    cases, skipped = [], 0
    if usable and usable[0][0] == ref_label:
        for j, q in enumerate(qs):
            cands = ref[j]
            if not isinstance(cands, list) or not cands:
                continue
            if any(ident(c) not in pos for c in cands):
                failures.append({"input": q, "why": "the index returned a constant that is not in the shipped data as the translator reads it", "got": cands[0]})
                continue
            if len(cands) == K_MODEL and cands[-1]["bits"] == cands[0]["bits"]:
                skipped += 1          # more tied documents than candidates asked for
                continue
            if len([c for c in cands if c["bits"] == cands[0]["bits"]]) > 1:
                tied_queries += 1
            inp = []
            used = {}
            for c in reversed(cands):
                k = ident(c)
                n = used.get(k, 0)
                used[k] = n + 1
                p = pos[k][min(n, len(pos[k]) - 1)]
                inp += [p, c["bits"]]
            w = cands[0]
            exp = [min(pos[ident(w)]), int(w["num"]), int(w["den"]), len(w["tokens"])]
            for tok in w["tokens"]:
                exp += [len(tok)] + vlib.chars(tok)
            cases.append((12, inp, exp))
            if len(samples) < 8 and len([c for c in cands if c["bits"] == cands[0]["bits"]]) > 1:
                samples.append({"query": q, "tied_best": [c["description"] for c in cands if c["bits"] == cands[0]["bits"]][:4], "answer": w["description"]})
    if model_ok and cases:
        bad = vlib.coq_eval_cases(cases, "C14", shard_size=200)
        for j, got in sorted(bad.items()):
            mismatches.append({"candidates_(position,score_bits)": cases[j][1][:16], "model": got[:8], "implementation": cases[j][2][:8]})
    shutil.rmtree(root, ignore_errors=True)
    return {
        "evaluations": len(sessions) * nq * 2, "distinct_nontrivial": nq,
        "rule": "query set: every shipped fact's own words, every single word, two-word heads, ambiguous 1-4 letter prefixes, pairs of word "
                "prefixes; sessions: repeated in-memory builds in separate processes, first on-disk build, reopen twice, rebuild over the "
                "existing directory, reopen, and in-memory / on-disk sessions taking turns on one directory (also after a killed first build); per query the top document (identity = words, value, description) and the anything::query result "
                "with descriptions must agree across all sessions; non-trivial = distinct queries",
        "samples": samples, "mismatches": mismatches, "failures": failures,
        "extra": {"sessions": [l for l, _, _ in sessions], "queries": dist, "queries_with_tied_best_documents": tied_queries,
                  "queries_skipped_for_the_model_(tie_group_larger_than_%d)" % K_MODEL: skipped, "model_cases": len(cases),
                  "disagreeing_queries": disagreeing},
    }


def replay(obj):
    q = obj.get("input")
    if not isinstance(q, str):
        print("recorded:", json.dumps(obj)[:400])
        return False
    root = os.path.join(vlib.BUILD, "c14replay")
    shutil.rmtree(root, ignore_errors=True)
    os.makedirs(root)
    exe = os.path.join(os.path.dirname(vlib.build_harness()), "db_run")
    lines = ["K %s 1" % vlib.hx(q), "Q %s" % vlib.hx(q)]
    outs = []
    for i in range(6):
        outs.append(session(exe, lines, make_env(os.path.join(root, "m%d" % i), memory=True))[1])
    disk = os.path.join(root, "disk")
    os.makedirs(disk)
    for i in range(3):
        outs.append(session(exe, lines, make_env(disk))[1])
    shutil.rmtree(root, ignore_errors=True)
    for o in outs:
        print(json.dumps(o, ensure_ascii=False)[:300])
    return all(o == outs[0] for o in outs)
