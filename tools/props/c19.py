"""C19 — the command line prints exactly what the library computed."""
import re
import vlib
import qcorr
from props import c08
import gens
import unitlib
from props.c13 import fact_phrases

PROP_FILE = "props/C19.v"
LEVEL = "proof"
TRUSTED_BASE = [
    "hand-written Gallina model of what bin/any.rs prints per result (coq/model/Cli.v) on top of the pipeline model; the display spec "
    "literals (12 digits, threshold 12) are translated from src/bin/any.rs",
    "correspondence: stdout of the real `any` binary (built from /repo, on-disk database in a private XDG_DATA_HOME) vs Cli.render of the "
    "model, line by line; diagnostics are compared by message, position and underlined width",
    "independent rendering in Python from the library's results (reduced n/d, slash iff d != 1, space iff a positive power, plural form) as oracle",
]
ASSUMPTIONS = [
    "codespan-reporting's diagnostic block is treated as opaque apart from its message line, position line and caret count",
    "the theorems about Cli.render are definitional apart from the reduced-fraction lemma: this property is mostly about glue, which is "
    "why the decisive part is the comparison with the real binary",
]


def split_stdout(out):
    """-> list of ('line', text) / ('diag', message, column, carets)"""
    items = []
    lines = out.split("\n")
    i = 0
    while i < len(lines):
        l = lines[i]
        if l.startswith("# Description of constants used"):
            break
        if l.startswith("error: "):
            msg = l[len("error: "):]
            col, carets = None, None
            i += 1
            while i < len(lines) and lines[i] != "":
                m = re.search(r"<in>:(\d+):(\d+)", lines[i])
                if m:
                    col = int(m.group(2))
                m = re.match(r"^\s*│ (\^+)", lines[i])
                if m:
                    carets = len(m.group(1))
                i += 1
            items.append(("diag", msg, col, carets))
        elif l != "" or i < len(lines) - 1:
            items.append(("line", l))
        i += 1
    return items


SUPER = list("⁰¹²³⁴⁵⁶⁷⁸⁹")


def expected_from_library(q, reply, exact, disp):
    items = []
    src = q
    for r in reply.get("results", []):
        if "ok" in r:
            n, d, names = r["ok"]
            n, d = int(n), int(d)
            if exact:
                text = str(n) if d == 1 else "%d/%d" % (n, d)
            else:
                text = disp[(n, d)]
            if any(p > 0 for _, p, _ in names):
                text += " "
            text += r["unit_plural"] if (n, d) != (1, 1) else r["unit_text"]
            items.append(("line", text))
        else:
            s, e, msg, _ = r["err"]
            b = src.encode("utf-8")
            col = len(b[:s].decode("utf-8", "replace")) + 1
            width = max(1, len(b[s:e].decode("utf-8", "replace")))
            items.append(("diag", msg, col, width))
    return items


def run(rng, tier, model_ok):
    V = unitlib.vocab()
    phrases = fact_phrases(rng, 30)
    n = 220 if tier == "quick" else 3000
    queries = []
    for _ in range(n):
        c = rng.random()
        if c < 0.35:
            q = gens.render(gens.gen_numeric(rng, rng.randint(1, 3), maxdigits=rng.choice([2, 4, 14])), rng, ends=False)
        elif c < 0.7:
            q = gens.random_query(rng).strip()
        elif c < 0.8:
            q = "%d %s" % (rng.choice([1, 1, 2, 5]), V.unit_expr(rng, nfactors=rng.choice([1, 1, 2])))
        elif c < 0.9:
            q = rng.choice(phrases) + rng.choice(["", " * 2", " / 3"])
        else:
            q = rng.choice(["1 +", "1 m + 1 s", "(1", "2 * nosuchthing", "1 / 0", "round(1, 2, 3)", "1 m to s", "3 °C^2 to K^2", "1 )", "foo bar baz"])
        if q and not q.startswith("-") and "\n" not in q:
            queries.append((q, rng.random() < 0.4))
    # values around one and minus one with units that have a plural form, alone and next to other units, in both modes
    plural_units = ["decade", "century", "millenium", "gallon", "pint", "quart", "cup", "gill", "ton", "acre", "rood", "perch", "hectare", "btu", "cable", "link", "m", "kg"]
    for u in plural_units:
        for v in ["1", "0 - 1", "2", "0", "0.5", "0 - 2", "1.0", "3 - 2", "1 - 2", "100 %"]:
            for ex in (False, True):
                queries.append(("%s %s" % (v, u) if " " not in v else "%s %s" % (v, u), ex))
        queries.append(("1 %s/s" % u, False))
        queries.append(("0 - 1 %s/s" % u, True))
        queries.append(("1 / 1 %s" % u, False))
        queries.append(("2 m*%s" % u, False))
        # nothing above the bar: whatever the value, a unit below the bar is never pluralised
        for q in ("3 / 2 %s", "2 / 1 %s", "7 / (1 %s * 1 s)", "0 / 1 %s", "(0 - 2) / 4 %s", "5 / 1 %s^2", "(6 / 1 s) to 1/%s" if u in ("decade", "century", "millenium") else "9 / 3 %s"):
            queries.append((q % u, False))
            queries.append((q % u, True))
    # diagnostics are placed on the text as typed: blanks before and after the query, several expressions of which some fail
    for e in ["1/0", "(1 m + 1 s) (2 m)", "(2 m) (1 m to s) (7)", "nosuchfact * 2", "1 m + 1 s", "round(1, 2, 3)", "(1/0) (2/0)", "2 ^ 0.5",
              # phrases the search index's own query syntax refuses (a bare operator word): an evaluation error like any other
              "(1) OR (2 decades)", "(3 km) NOT x (4/8)", "(7) mass of earth OR (15 years to decades)", "AND (2)", "(1) OR", "(2 m) AND NOT (3 s) (4)",
              "(1) a OR (2) b AND (3)"]:
        for lead in ["", " ", "   ", "     "]:
            for trail in ["", "  "]:
                queries.append((lead + e + trail, False))
        queries.append(("  " + e, True))
    # unit powers around the places where the superscript digits change length, above and below the bar
    for pw in [2, 3, 9, 10, 11, 12, 19, 20, 21, 99, 100, 101, 109, 110, 111, 999, 1000, 1001, 1010]:
        queries.append(("1 m^%d" % pw, False))
        queries.append(("3 s^-%d" % pw, True))
        queries.append(("2 km^%d/s^%d" % (pw, pw + 1), False))
    # magnitudes on both sides of every threshold at which the decimal rendering changes form, with both signs, bare and with a unit
    for k in list(range(-16, 17)) + [20, 30, -20, -30]:
        for mant in ("1", "2.5", "9.99999999999999"):
            mag = "%se%d" % (mant, k)
            for txt in (mag, "0 - " + mag, "(1 - 2) * " + mag, mag + " m", "(0 - " + mag + ") s", "1 / (0 - %s)" % mag):
                queries.append((txt, False))
            queries.append(("0 - " + mag, True))
    queries.append(("2 m^5 * 3 m^5", False))
    queries.append(("(1 m^7)^3", True))
    qs = [q for q, _ in queries]
    lib = vlib.run_impl(["Q " + vlib.hx(q) for q in qs])
    # decimal renderings through the library's own Display with the program's spec
    vals = sorted({(int(r["ok"][0]), int(r["ok"][1])) for rep in lib for r in rep.get("results", []) if "ok" in r})
    spec = qcorr.tables()["cli"]
    drep = vlib.run_impl(["D %d %d %d %d" % (a, b, spec[0], spec[1]) for a, b in vals])
    disp = {v: r.get("text") for v, r in zip(vals, drep)}
    outs = vlib.run_any([(["--exact"] if ex else []) + [q] for q, ex in queries])
    failures, cases = [], []
    stats = {"value_lines": 0, "diagnostics": 0, "exact_mode": 0, "with_unit": 0, "plural": 0}
    # oracle table for the model run
    _, trees, qcases = qcorr.build_cases(qs)
    for (q, ex), rep, (out, err, rc), qc in zip(queries, lib, outs, qcases):
        if "results" not in rep:
            continue
        got = split_stdout(out)
        want = expected_from_library(q, rep, ex, disp)
        stats["exact_mode"] += ex
        for it in got:
            stats["value_lines" if it[0] == "line" else "diagnostics"] += 1
        if rc != 0:
            failures.append({"input": q, "exact": ex, "why": "the program exited with status %d: %s" % (rc, err[-200:])})
            continue
        if "\t" in q or any(it[0] == "diag" and it[3] is None for it in got):
            # codespan expands tabs and may draw multi-line labels: compare message and position only
            got_c = [it[:3] if it[0] == "diag" else it for it in got]
            want_c = [it[:3] if it[0] == "diag" else it for it in want]
        else:
            got_c, want_c = got, want
        if got_c != want_c:
            failures.append({"input": q, "exact": ex, "why": "printed %s, the library results render as %s" % (got[:4], want[:4])})
        # the number printed in the default mode reads back, independently of the library's Display, as the value cut off toward zero
        # at the last printed digit, with its sign
        if not ex:
            for it, r in zip(got, rep["results"]):
                if it[0] == "line" and "ok" in r:
                    why = c08.check(int(r["ok"][0]), int(r["ok"][1]), spec[0], spec[1], re.match(r"-?[\d.]*…?(?:e-?\d+)?", it[1]).group(0))
                    if why:
                        failures.append({"input": q, "exact": ex, "why": "the printed line %r is not the value %s/%s: %s" % (it[1], r["ok"][0], r["ok"][1], why)})
        # the unit powers printed (superscript digits) are the powers of the unit, read independently of the library's Display
        for it, r in zip(got, rep["results"]):
            if it[0] == "line" and "ok" in r:
                names = r["ok"][2]
                wantp = [p for _, p, _ in names if p > 1] + [-p for _, p, _ in names if p < -1]
                gotp = [int("".join(str(SUPER.index(c)) for c in run)) for run in re.findall("[%s]+" % "".join(SUPER), it[1])]
                if sorted(gotp) != sorted(wantp):
                    failures.append({"input": q, "exact": ex, "why": "printed unit powers %s, the unit has powers %s (line %r)" % (gotp, wantp, it[1])})
        # the plural form is the property's, not the library's: it may differ from the singular only in the part above the bar, only
        # when exactly one unit stands there, and only when the value is not one
        for it, r in zip(got, rep["results"]):
            if it[0] == "line" and "ok" in r:
                names = r["ok"][2]
                above = sum(1 for _, p, _ in names if p >= 0)
                m = re.match(r"-?[\d./]*?…?(?:e-?\d+)?(?: (.*)|(/.*))?$", it[1]) if not ex else None
                sing, plur = r["unit_text"], r["unit_plural"]
                printed_unit = it[1][len(it[1]) - len(plur):] if it[1].endswith(plur) else (it[1][len(it[1]) - len(sing):] if it[1].endswith(sing) else None)
                one = (int(r["ok"][0]), int(r["ok"][1])) == (1, 1)
                if printed_unit is not None and printed_unit != sing and (above != 1 or one or printed_unit.split("/")[1:] != sing.split("/")[1:]):
                    failures.append({"input": q, "exact": ex, "why": "the unit is printed as %r, its name is %r: a plural form is due only to a single unit above the bar "
                                                                     "with a value other than one (units above the bar: %d, value one: %s)" % (printed_unit, sing, above, one)})
        # model case
        exp = [len(got)]
        for it, r in zip(got, rep["results"]):
            if it[0] == "line":
                exp += [0, len(it[1])] + [ord(c) for c in it[1]]
                stats["with_unit"] += " " in it[1]
                stats["plural"] += it[1].endswith("s") and "ok" in r and r["unit_plural"] != r["unit_text"]
            else:
                s, e, msg, _ = r["err"] if "err" in r else (0, 0, "", True)
                exp += [1, s, e] + qcorr.err_code(it[1])
        opaque = bool(re.search(r"\b(sin|cos)\(", q))
        if not opaque and all(abs(x) < 10 ** 100 for x in qc[2]):
            cases.append((9, [1 if ex else 0] + qc[1], exp))
    mismatches = []
    if model_ok:
        budget = 1200 if tier == "quick" else 20000
        if len(cases) > budget:
            cases = rng.sample(cases, budget)
        bad = vlib.coq_eval_cases(cases, "C19", shard_size=200)
        for j, got in sorted(bad.items()):
            mismatches.append({"input": vlib.safe_text(cases[j][1][-30:]), "model": got[:50], "binary": cases[j][2][:50]})
    return {
        "evaluations": len(queries), "distinct_nontrivial": len({(q, ex) for q, ex in queries}),
        "rule": "random queries (numeric expressions, mixed expressions with units, calls and casts, quantities over the whole vocabulary, facts, "
                "malformed and failing queries), plural boundary values (also with nothing above the bar), signed magnitudes 1e-30..1e30, unit powers of several digits, blanks around failing queries; 40% of the random ones with --exact, through the real binary; every printed number also read back independently; non-trivial = distinct (query, mode) pairs",
        "samples": [{"query": q, "exact": ex, "stdout": o[0][:120]} for (q, ex), o in list(zip(queries, outs))[:6]],
        "mismatches": mismatches, "failures": failures,
        "extra": dict(stats, model_cases_evaluated_in_coq=len(cases), exhaustive=False),
    }


def replay(obj):
    q, ex = obj["input"], obj.get("exact", False)
    out = vlib.run_any([(["--exact"] if ex else []) + [q]])[0]
    lib = vlib.run_impl(["Q " + vlib.hx(q)])[0]
    print("any %s%r prints %r; library results %s" % ("--exact " if ex else "", q, out[0], lib.get("results")))
    return False
