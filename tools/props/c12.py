"""C12 — lexing and parsing are lossless over the input text."""
import itertools
import vlib
from gens import random_query

PROP_FILE = "props/C12.v"
LEVEL = "proof"
TRUSTED_BASE = [
    "hand-written Gallina model of src/syntax/{lexer,parser,grammar}.rs (coq/model/Lexer.v, Grammar.v); syntree's builder is "
    "modelled as a forest with index checkpoints",
    "correspondence check: tokens and syntax tree of the real Lexer/Parser vs the model on every generated string (differential testing)",
    "Rust char::is_whitespace is transcribed as the Unicode White_Space set",
]
ASSUMPTIONS = [
    "the proof is about the model; the tie to the Rust code is the correspondence on the strings generated in this run",
    "parse totality (the model's fuel never runs out) is checked on every generated string, not yet proved in general",
]

ALPHABET = ["0", "1", "9", ".", "e", "E", "+", "-", "*", "/", "^", "%", "(", ")", "{", "}", ",", " ", "\t", "a", "t", "o",
            "m", "s", "k", "°", "'", "μ", "é", " ", " ", "　", "\n", "\U0001F600", '"', "_", "=", "N", "7", "\u0085"]


def encode_tree(t):
    kind, x = t
    if isinstance(x, list):
        out = [1, vlib.KIND_CODE[kind], len(x)]
        for c in x:
            out += encode_tree(c)
        return out
    return [0, vlib.KIND_CODE[kind], x]


def expected_of(reply):
    toks = reply["toks"]
    out = [len(toks)]
    for k, n in toks:
        out += [vlib.KIND_CODE[k], n]
    tree = reply["tree"]
    if isinstance(tree, dict):
        return out + [-2]          # the real builder failed: never equal to a model output
    out += [1, len(tree)]
    for t in tree:
        out += encode_tree(t)
    return out


def leaves(t, acc):
    kind, x = t
    if isinstance(x, list):
        for c in x:
            leaves(c, acc)
    elif x > 0:
        acc.append([kind, x])


def oracle(s, reply):
    """The property itself, checked on the implementation's answer. Returns None or a description of the failure."""
    if "panic" in reply or "crash" in reply:
        return "lexer/parser panicked: %s" % str(reply)[:200]
    if "timeout" in reply or "toks" not in reply:
        return "lexer/parser does not answer: %s" % str(reply)[:200]
    toks = reply["toks"]
    b = s.encode("utf-8")
    if any(n <= 0 for _, n in toks):
        return "empty token"
    if sum(n for _, n in toks) != len(b):
        return "tokens cover %d of %d bytes" % (sum(n for _, n in toks), len(b))
    pos = 0
    for _, n in toks:
        pos += n
        if pos < len(b) and (b[pos] & 0xC0) == 0x80:
            return "token ends inside a character at byte %d" % pos
    tree = reply["tree"]
    if isinstance(tree, dict):
        return "parser produced no tree: %s" % tree
    lv = []
    for t in tree:
        leaves(t, lv)
    if lv != [list(t) for t in toks]:
        return "tree leaves differ from the token sequence"
    return None


def gen_strings(rng, tier):
    out = []
    maxlen = 2 if tier == "quick" else 3
    for n in range(0, maxlen + 1):
        for tup in itertools.product(ALPHABET, repeat=n):
            out.append("".join(tup))
    exhaustive = len(out)
    nrand = 1500 if tier == "quick" else 12000
    for _ in range(nrand):
        n = rng.choice([3, 4, 4, 5, 6, 6, 8, 10, 14, 20, 30])
        out.append("".join(rng.choice(ALPHABET) for _ in range(n)))
    # every character the lexer treats specially or might: all Unicode White_Space characters, the ASCII control characters, the
    # characters next to the classes it tests for -- alone, doubled, between digits, between words, at either end
    special = [chr(c) for c in list(range(0, 33)) + [0x7F, 0x85, 0xA0, 0x1680] + list(range(0x2000, 0x200C)) + [0x2028, 0x2029, 0x202F, 0x205F, 0x3000, 0xFEFF,
               0x2F, 0x3A, 0x40, 0x5B, 0x60, 0x7B, 0xAF, 0xB0, 0xB1, 0x27, 0x2019]]
    for ch in special:
        if ch == "\x00":
            continue
        out += [ch, ch + ch, "1" + ch + "2", "a" + ch + "b", ch + "1", "1" + ch, "(1" + ch + ")", "{a" + ch + "b}", "1 m" + ch + "s", "1" + ch + "+" + ch + "2"]
    # nesting depth: calls, parentheses, braces and mixtures, far deeper than any random string gets
    for n in list(range(1, 12)) + [16, 31, 32, 33, 63, 64, 65, 66, 100, 127, 128, 129, 200, 300]:
        out += ["f(" * n + "1" + ")" * n, "(" * n + "1" + ")" * n, "max(2, " * n + "1" + ")" * n, "f((" * n + "1" + "))" * n,
                "(" * n, ")" * n, "f(" * n, "round(" * n + "1.5" + ", 1)" * n, "1" + " + (2" * n + ")" * n, "{" * n + "a" + "}" * n]
    # operator chains at one nesting level: every sequence of a sum, a product, a power and a cast (the operand after a cast is a unit),
    # where the parser's priority stack is popped and re-filled in every order
    chain_ops = ["+", "*", "^", "to"]
    for n in range(1, 6 if tier == "quick" else 7):
        for ops in itertools.product(chain_ops, repeat=n):
            txt = "1"
            for j, o in enumerate(ops):
                txt += " " + o + " " + (("m", "s", "km", "hr")[j % 4] if o == "to" else str(j + 2))
            out.append(txt)
    for _ in range(300 if tier == "quick" else 3000):
        n = rng.choice([6, 7, 8, 10, 12])
        txt = rng.choice(["1", "2 m", "x", "(1)"])
        for j in range(n):
            o = rng.choice(["+", "-", "*", "/", "^", "**", "to", "to"])
            txt += rng.choice([" ", " ", "  "]) + o + " " + (rng.choice(["m", "s", "km/hr", "m^2", "N"]) if o == "to" else rng.choice(["2", "3 s", "y", "(4)", "f(5)"]))
        out.append(txt)
    nq = 800 if tier == "quick" else 6000
    for _ in range(nq):
        out.append(random_query(rng))
    # corpus first
    return out, exhaustive, maxlen


def run(rng, tier, model_ok):
    strings, exhaustive, maxlen = gen_strings(rng, tier)
    strings = vlib.load_corpus("C12") + strings
    replies = vlib.run_impl(["T " + vlib.hx(s) for s in strings])
    failures = []
    cases = []
    for s, r in zip(strings, replies):
        why = oracle(s, r)
        if why:
            failures.append({"input": s, "input_hex": vlib.hx(s), "why": why, "got": r, "kind": "oracle"})
            cases.append((1, vlib.chars(s), [-3]))
        else:
            cases.append((1, vlib.chars(s), expected_of(r)))
    # histories on one thread: other entry points of the library that lex and parse (a unit text through str::parse::<Compound>, a
    # number through str::parse::<Rational>, a failing and a succeeding query) run right before a text is lexed and parsed; a unit
    # text may stop before its end (trailing blanks, operators, closing parentheses): nothing of it may reach the next parse
    hist = []
    utexts = ["km ", "m /s", "kg )", "m s^-2 +", "km/hr to", " m", "N m,", "m (", "s 2", "°C }", "m^2 m^", "", "q", "m/", "ft\u00a0", "kg\t\t"]
    qtexts = ["1 + 2", "3 m to cm", "(1)", "2 * (3 + 4)", " 7 ", "a b", "round(1.5, 1)", "1 )", "{x}"] + strings[-12:]
    for u in utexts:
        for q in qtexts:
            hist += [("U", u), ("T", q), ("R", u), ("T", q), ("Q", u), ("T", q)]
    hrep = vlib.run_impl(["%s %s" % (c, vlib.hx(x)) for c, x in hist], shards=1)
    nh = 0
    for i, ((c, x), r) in enumerate(zip(hist, hrep)):
        if c == "T":
            nh += 1
            why = oracle(x, r)
            if why:
                failures.append({"input": x, "input_hex": vlib.hx(x), "why": "after another text went through the library on the same thread: " + why,
                                 "got": r, "kind": "history", "before": list(hist[i - 1]) if i else None})
    mismatches = []
    if model_ok:
        bad = vlib.coq_eval_cases(cases, "C12", shard_size=400)
        for i, got in sorted(bad.items()):
            mismatches.append({"input": strings[i], "model": got[:60], "impl": cases[i][2][:60]})
    distinct = {s for s, r in zip(strings, replies) if "toks" in r and len(r["toks"]) >= 2}
    kinds = {}
    for r in replies:
        for k, _ in r.get("toks", []):
            kinds[k] = kinds.get(k, 0) + 1
    return {
        "evaluations": len(strings), "distinct_nontrivial": len(distinct),
        "rule": "all strings of length <= %d over a %d-symbol alphabet (digits, operators, letters, braces, multi-byte characters, "
                "Unicode blanks) exhaustively, random longer strings over it, every special character in ten positions, nesting to depth 300, every operator chain over + * ^ to up to five (thorough: six) operators, and random well-formed queries with random "
                "layouts, and parses right after other texts went through the library on the same thread; non-trivial = distinct strings lexing to at least two tokens" % (maxlen, len(ALPHABET)),
        "samples": [strings[i] for i in (exhaustive // 2, exhaustive + 5, len(strings) - 3)],
        "mismatches": mismatches, "failures": failures,
        "extra": {"history_parses": nh, "exhaustive_strings": exhaustive, "exhaustive": False, "token_kind_histogram": kinds,
                  "parse_fuel_exhausted_in_model": sum(1 for m in mismatches if m["model"][-1:] == [0])},
    }


def replay(obj):
    s = obj["input"]
    r = vlib.run_impl(["T " + vlib.hx(s)])[0]
    why = oracle(s, r)
    print("input %r -> %s" % (s, why or "lossless"))
    return why is None
