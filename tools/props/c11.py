"""C11 — any input yields values or located errors, never a crash."""
import vlib
import qcorr
import gens
import unitlib

PROP_FILE = "props/C11.v"
LEVEL = "proof"
TRUSTED_BASE = [
    "hand-written Gallina model of the whole pipeline in which every panic site of the Rust code that the model can express is an explicit "
    "Panic outcome (Compound::new's debug assertion, round's debug assertion, builder misuse / running out of fuel)",
    "correspondence in BOTH build modes: debug-assertion harness vs Run.query with debug = true, release harness vs debug = false",
    "the implementation itself under catch_unwind on every generated input (debug and release), and the real `any` binary (exit status, "
    "stderr) on a sample; spans are checked against the input inside the harness (start <= end <= len, character boundaries)",
]
ASSUMPTIONS = [
    "PARTIAL: panics inside tantivy's query parser, codespan-reporting, num and the allocator, i32 overflow outside the property's bounds and "
    "stack exhaustion are outside the model; they are only exercised by the runs, not excluded by a theorem",
    "the model theorems cover: the parser and the evaluator never run out of fuel, round's assertion cannot fire, error spans are node spans; "
    "parse totality is proved (C11_parse_total); the non-zero-power invariant of products is proved (C11_mul_no_zero_powers, C11_query_never_panics)",
]

WEIRD = ["°", "µ", "é", " ", " ", "　", "\U0001F600", "\u0085", "'", "\"", "_", "=", "#", "\\", "|", "​", "﻿", "́"]


def soup(rng, V):
    n = rng.randint(1, 40)
    out = []
    for _ in range(n):
        c = rng.random()
        if c < 0.2:
            m = gens.gen_digits(rng, rng.randint(1, 6))
            if rng.random() < 0.4:
                m += "." + gens.gen_digits(rng, rng.randint(0, 4))
            if rng.random() < 0.3:
                m += rng.choice("eE") + rng.choice(["", "+", "-"]) + gens.gen_digits(rng, rng.randint(1, 3))
            out.append(m)
        elif c < 0.4:
            out.append(V.word(rng))
        elif c < 0.5:
            out.append(rng.choice(["pi", "c", "population", "finland", "mass", "of", "earth", "round", "floor", "ceil", "sin", "cos", "to", "AND", "OR", "NOT", "x"]))
        elif c < 0.8:
            tok = rng.choice(["+", "-", "*", "/", "^", "**", "(", ")", ",", "%", "{", "}", "^N", "^-"])
            if tok == "^N":
                tok = "^" + str(rng.randint(-99, 99))
            out.append(tok)
        elif c < 0.9:
            out.append(rng.choice([" ", "  ", "\t", "\n"]))
        else:
            out.append(rng.choice(WEIRD))
    s = ""
    for t in out:
        s += t + rng.choice(["", "", " "])
    return s


def power_budget_ok(s):
    """Powers up to two digits (the property's bound), and the product of all exponents of one input stays small: a tower of `^99`
    or an exponent like `42E4` is a finite but astronomically long loop, which is not what this property is about."""
    import re
    from gens import literal_value
    if any(len(x) > 3 for x in re.findall(r"[\d.][eE][+-]?(\d+)", s)):
        return False                           # exponent notation with more than three digits: outside the property's bound
    prod = 1
    bare = 0
    for m in re.finditer(r"(?:\^|\*\*)\s*(\(?)\s*([+-]?(?:\d+\.?\d*|\.\d+)(?:[eE][+-]?\d+)?)?", s):
        if m.group(1):
            return False                       # a computed exponent: may be arbitrarily large
        if m.group(2) is None:
            bare += 1
            continue
        try:
            v = abs(literal_value(m.group(2)))
        except Exception:
            return False
        if v > 99:
            return False
        prod *= max(int(v), 1)
    return prod <= 2000 and bare <= 1


def mutate(rng, q):
    if not q:
        return q
    k = rng.random()
    i = rng.randrange(len(q))
    if k < 0.3:
        return q[:i] + q[i + 1:]
    if k < 0.6:
        return q[:i] + rng.choice("+-*/^(),%{} .e") + q[i:]
    if k < 0.8:
        j = rng.randrange(len(q))
        a, b = min(i, j), max(i, j)
        return q[:a] + q[b:]
    return q[:i] + rng.choice(WEIRD) + q[i:]


def quantity_expr(rng, V, depth):
    """well-formed products / quotients / powers / sums of quantities with derived units: the shapes that reach reconstruct"""
    if depth <= 0 or rng.random() < 0.3:
        return "%d %s" % (rng.randint(0, 99), V.unit_expr(rng, nfactors=rng.choice([1, 2, 3]), offset_ok=True))
    op = rng.choice(["*", "/", "*", "/", "+", "-", "^"])
    if op == "^":
        return "(%s)^%d" % (quantity_expr(rng, V, depth - 1), rng.randint(-9, 9))
    return "(%s) %s (%s)" % (quantity_expr(rng, V, depth - 1), op, quantity_expr(rng, V, depth - 1))


def gen_inputs(rng, tier):
    V = unitlib.vocab()
    n = 500 if tier == "quick" else 12000
    inputs = list(vlib.load_corpus("C11"))
    for _ in range(n):
        inputs.append(soup(rng, V))
    for _ in range(n):
        q = gens.random_query(rng)
        inputs.append(q)
        inputs.append(mutate(rng, q))
    for _ in range(n):
        inputs.append(quantity_expr(rng, V, rng.randint(1, 3)))
    for _ in range(n // 4):
        inputs.append("".join(rng.choice(WEIRD + list("01 +-*/^()m.e%{}")) for _ in range(rng.randint(1, 30))))
    # boundary operands in every position of every operator: zeros, absolute zero on each scale, percentages, casts of them
    pool = ["0", "0 m", "0 K", "-273.15 °C", "-459.67 °F", "0 °C", "0 °F", "1 m", "2", "1 s", "273.15 K", "(0 K to °C)", "(0 K to °F)",
            "100 %", "0 %", "1 m/s", "0 m/s", "1 °C", "(1 - 1)", "0.0 kg", "-0", "1 km", "(-273.15 °C to K)", "pi", "(2 - 2) m",
            # unit spellings in which a unit cancels itself, with explicit powers one and zero
            # magnitudes on both sides of the thresholds at which the display changes form
            "1e-8", "1e-9", "1e-10", "3e-11", "1e-12", "1e-13", "1 / 3e10", "10 pm", "1e8", "1e11", "1e12", "1e13", "123456789012.5", "0.000000000123 m",
            "3 m/m^1", "3 km/km^1", "2 N s/s^1 N^1", "4 J/J^1", "3 m^1/m", "3 m*m^-1", "5 s^2/s^2", "2 m^0", "7 m/m", "1 s^1", "6 kg^0 m"]
    for a in pool:
        for b in pool:
            for op in ("+", "-", "*", "/"):
                inputs.append("%s %s %s" % (a, op, b))
        for k in ("0", "-1", "2", "-2"):
            inputs.append("(%s) ^ %s" % (a, k))
        for u in ("K", "°C", "°F", "m", "s", "m/s"):
            inputs.append("%s to %s" % (a, u))
        for f in ("round", "floor", "ceil"):
            inputs.append("%s(%s)" % (f, a))
    # every function x arguments at the edges of what its implementation computes with: magnitudes on both sides of the range of a
    # machine float and of machine integers, both signs, reciprocals of them, with and without a unit, and every argument count
    import qcorr
    funcs = sorted({f[0] for f in qcorr.tables()["builtins"]}) + ["max", "f"]
    mags = ["0", "1", "0.5", "1e15", "1e16", "9007199254740993", "2147483647", "2147483648", "4294967296", "9223372036854775807", "9223372036854775808",
            "18446744073709551616", "1e38", "1e39", "1e307", "1e308", "1.7976931348623157e308", "1.7976931348623158e308", "1.8e308", "2e308",
            "1e309", "1e400", "1e999", "1e-307", "1e-308", "1e-323", "1e-324", "1e-400", "1e-999", "1 / 3", "1 / 1e400"]
    for f in funcs:
        for m in mags:
            for arg in (m, "-" + m, "0 - " + m, m + " m", "-" + m + " K", "1 / " + m):
                inputs.append("%s(%s)" % (f, arg))
                inputs.append("1 + %s(%s) * 2" % (f, arg))
            if m not in ("2147483647", "2147483648"):
                # (a digits argument that fits a machine integer but has more than two digits is a power beyond the property's bound:
                # 10^2147483647 is a finite but astronomically long computation)
                inputs.append("%s(1.5, %s)" % (f, m))
                inputs.append("%s(1.5, -%s)" % (f, m))
            inputs.append("%s(%s, 2)" % (f, m))
        inputs += ["%s()" % f, "%s(1, 2, 3)" % f, "%s(,)" % f, "%s(1 m, 1 s)" % f, "%s(%s(1e400))" % (f, f), "%s(1) ^ 0" % f, "%s(1 / 0)" % f]
    # a call that fails, inside every argument position of every other call, two and three levels deep: the error of the inner call
    # travels through the outer ones (its span, its argument index) and must arrive as a located error
    bad_calls = ["round(2.5, 1e10)", "round(1 m, -1e10)", "round(1, 99999999999)", "round(0.5, 3000000000)", "round(1, 2, 3)", "nosuch(1)", "round(1 m, 1 s)",
                 "floor(1 / 0)", "floor()", "ceil(1, 2)", "sin(1e400)", "round(2, 0.5)", "round(1, 1e-400)"]
    for f in funcs:
        for b in bad_calls:
            inputs += ["%s(%s)" % (f, b), "%s(1, %s)" % (f, b), "%s(%s, 2)" % (f, b), "%s(%s, %s)" % (f, b, b), "%s(1, 2, %s)" % (f, b),
                       "%s(%s(%s))" % (f, f, b), "1 + %s(ceil(%s)) to m" % (f, b), "%s(floor(1.5), %s)" % (f, b), "(%s(%s)) (2)" % (f, b)]
    # the tool's own output alphabet typed back in: superscript digits and minus, the product dot, the cut-off mark, micro signs,
    # degree and prime signs -- every one of them at the end of, inside and in front of a unit word, in every position a unit can
    # stand (after a number, after `to`, in a function argument, below a bar); characters of one, two and three bytes
    OUT = list("⁰¹²³⁴⁵⁶⁷⁸⁹⁻") + ["⋅", "…", "µ", "μ", "°", "′", "″", "Ω", "Å", "‰", "½", "²³", "⁻¹", "¹⁰", "⁴⁵"]
    for c in OUT:
        for w in ("m", "km", "s", "J", "°C", "kg"):
            for word in (w + c, c + w, w + c + w, w + c + c):
                inputs += ["2 %s" % word, "1 m^2 to %s" % word, "3 km/%s" % word, "round(2 %s)" % word, "12 %s * 2 s" % word,
                           "1 %s to %s" % (word, w), "2%s" % word]
        inputs += ["2 %s" % c, "1 %s 2" % c, "pi%s" % c, "(1 m)%s" % c, "2 m %s s" % c]
    return [s for s in inputs if "\x00" not in s and power_budget_ok(s)]


def run(rng, tier, model_ok):
    inputs = gen_inputs(rng, tier)
    failures = []
    stats = {"inputs": len(inputs), "error_results": 0, "value_results": 0, "panics_debug": 0, "panics_release": 0}
    cases_all = []
    for release in (False, True):
        replies, trees, cases = qcorr.build_cases(inputs, debug=not release, release=release)
        for s, r in zip(inputs, replies):
            mode = "release" if release else "debug"
            if "panic" in r or "crash" in r:
                stats["panics_" + mode] += 1
                failures.append({"input": s, "input_hex": vlib.hx(s), "mode": mode, "why": "the library panicked (%s build): %s" % (mode, str(r)[:160])})
                continue
            for x in r.get("results", []):
                if "err" in x:
                    stats["error_results"] += 1
                    if not x["err"][3] or not x["err"][2]:
                        failures.append({"input": s, "mode": mode, "why": "error with span %s outside the input or off a character boundary, or without message" % x["err"][:2]})
                else:
                    stats["value_results"] += 1
        cases_all.append(cases)
        # every value is displayed the way the program displays it (its digit limit and exponent threshold, translated from bin/any.rs)
        lim, el, _ = qcorr.tables()["cli"]
        vals = sorted({(x["ok"][0], x["ok"][1]) for r in replies for x in r.get("results", []) if "ok" in x and len(x["ok"][0]) < 400 and len(x["ok"][1]) < 400})
        drep = vlib.run_impl(["D %s %s %d %d" % (n, d, lim, el) for n, d in vals], release=release)
        for (n, d), r in zip(vals, drep):
            if "text" not in r:
                failures.append({"input": "%s/%s displayed with limit %d, threshold %d" % (n, d, lim, el), "mode": "release" if release else "debug",
                                 "why": "a value cannot be displayed: %s" % str(r)[:200]})
        stats["values_displayed"] = stats.get("values_displayed", 0) + len(vals)
    # the real binary on a sample: exit status 0 and no panic message
    sample = [s for s in rng.sample(inputs, min(len(inputs), 120 if tier == "quick" else 1500)) if s.strip() and not s.lstrip().startswith("-")]
    outs = vlib.run_any([["--", s] for s in sample])
    for s, (out, err, rc) in zip(sample, outs):
        if rc != 0 or "panicked" in err:
            failures.append({"input": s, "mode": "any binary", "why": "exit status %d, stderr %s" % (rc, err[-200:])})
    mismatches = []
    ncoq = 0
    if model_ok:
        budget = 1500 if tier == "quick" else 30000
        for mode, cases in zip(("debug", "release"), cases_all):
            idx = [i for i in range(len(cases)) if all(abs(x) < 10 ** 100 for x in cases[i][2]) and len(inputs[i]) < 200 and "sin(" not in inputs[i] and "cos(" not in inputs[i]]
            if len(idx) > budget:
                idx = rng.sample(idx, budget)
            sub = [cases[i] for i in idx]
            ncoq += len(sub)
            bad = vlib.coq_eval_cases(sub, "C11" + mode, shard_size=150)
            for j, got in sorted(bad.items()):
                mismatches.append({"mode": mode, "input": inputs[idx[j]], "model": got[:40], "impl": sub[j][2][:40]})
    return {
        "evaluations": 2 * len(inputs) + len(sample), "distinct_nontrivial": len(set(inputs)),
        "rule": "token soups of up to 40 tokens (numbers with exponents up to 3 digits, powers up to 2 digits, unit words, keywords, operators, "
                "braces, Unicode blanks and stray characters), well-formed random queries and single-edit mutations of them, products / quotients / "
                "powers / sums of quantities with derived units, boundary operands under every operator, every function x arguments at the edges of the float and machine-integer ranges, failing calls nested in every argument position of every call, the characters of the tool's own output (superscripts, product dot, cut-off mark) in and around unit words, arbitrary Unicode strings; each in the debug-assertion and in the release build, "
                "a sample through the `any` binary; non-trivial = distinct inputs",
        "samples": [inputs[i] for i in (3, len(inputs) // 3, len(inputs) // 2, len(inputs) - 2)],
        "mismatches": mismatches, "failures": failures,
        "extra": dict(stats, binary_runs=len(sample), model_cases_evaluated_in_coq=ncoq, exhaustive=False),
    }


def replay(obj):
    s = obj["input"]
    rel = obj.get("mode") == "release"
    r = vlib.run_impl(["Q " + vlib.hx(s)], release=rel)[0]
    print("input %r (%s) -> %s" % (s, obj.get("mode"), str(r)[:300]))
    return "panic" not in r and "crash" not in r and all(x["err"][3] for x in r.get("results", []) if "err" in x)
